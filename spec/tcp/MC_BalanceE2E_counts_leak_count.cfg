SPECIFICATION ESpec
CONSTANTS
  NAddr = 2
  MaxObj = 3
  MaxOps = 2
  MaxInflight = 1
  WithReplace = TRUE
  FixRemove = TRUE
  FixAdd = TRUE
  FixFlag = TRUE
  FixMark = TRUE
  Policy = "lc"
  Rise = 1
  Fall = 1
  MaxRounds = 0
  MaxConns = 3
  NoMonitor = TRUE
  MaxRefuse = 2
  MaxClose = 1
  FailedDialLeaks = TRUE
  MaxHalf = 0
  WatcherLeaves = {}
  MaxToggles = 0
INVARIANTS CountsAreRealConnections
CHECK_DEADLOCK FALSE
