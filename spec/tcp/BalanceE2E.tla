----------------------------- MODULE BalanceE2E ------------------------------
(***************************************************************************)
(* The TCP processor as a black box (C06 end to end): the host set         *)
(* (HostSet) driven the way the controller drives it - fresh Host objects  *)
(* per call, controller.go:166-214, 273-284 -, the health monitor          *)
(* (monitor.go) checking the backends in rounds, and client connections    *)
(* arriving one at a time.                                                 *)
(*                                                                         *)
(* Monitor.  A round takes the objects of All() when it starts (`snap`),   *)
(* probes every one of them and applies the hysteresis step of Health.tla  *)
(* per object, which may call MarkHostHealthy / MarkHostUnhealthy with the *)
(* object of the snapshot.  The harness holds the probes of a round at the *)
(* scripted backends until the behaviour says Round, so that host          *)
(* operations happen while the monitor holds its snapshot: the marks of    *)
(* the round then arrive with objects that may have been replaced or       *)
(* removed (the stale marks of HostSet), black box.  Nothing else runs     *)
(* while the round completes, so both halves of each mark are one step     *)
(* here; marks of one round concern different addresses and commute.       *)
(* When no round is held (the set was empty when the last round started),  *)
(* the next round starts with the members present after the next host      *)
(* operation.                                                              *)
(*                                                                         *)
(* Connections.  Conn = accept, Healthy(), PickHost, dial, relay           *)
(* (proc.go:96-145) with the client waiting for the outcome before the     *)
(* next step.  An established relay is closed by its watcher as soon as    *)
(* the removal latch of the chosen OBJECT is closed.                        *)
(*                                                                         *)
(* Half-close.  An established relay is in one of three states when its    *)
(* host is removed: "open"; "chc" - the client has shut down its write     *)
(* side (the client->backend copy of HandleConn has ended, the backend is  *)
(* still sending); "bhc" - the backend has shut down its write side (the   *)
(* backend->client copy has ended, the client is still open).  The watcher *)
(* goroutine of the real code lives until HandleConn returns, i.e. until   *)
(* BOTH directions have ended, so it closes the relay in all three states. *)
(* The constant WatcherLeaves is the set of half-close states in which the *)
(* watcher has already exited: {} for the real code; {"chc"} is the        *)
(* regression "the watcher exits when the client->backend copy ends"       *)
(* (`case <-done:`), which must violate EstablishedClosed (anti-vacuity).  *)
(***************************************************************************)
EXTENDS HostSet

CONSTANTS Policy,      \* "rr" | "random" | "lc"
          Rise, Fall,  \* thresholds of the health check
          MaxRounds, MaxConns, MaxToggles,
          MaxHalf,        \* half-closes per behaviour
          WatcherLeaves   \* subset of {"chc", "bhc"}: states in which the watcher is gone

VARIABLES up,       \* address -> the backend answers probes
          snap,     \* objects of the round whose probes are held ({}: monitor idle)
          succ, fail, \* counters per object (host.go:250-260)
          idx,      \* round-robin index
          econns,   \* established relays: [id, o, st] with st in {"open", "chc", "bhc"}
          nconn, nround, ntog, nhalf,
          elast     \* ghost: what the latest step did, for the invariants and the emitter

evars == <<up, snap, succ, fail, idx, econns, nconn, nround, ntog, nhalf, elast>>
eall == <<vars, evars>>

NoE == [kind |-> "none"]

EInit ==
  /\ Init
  /\ up = [a \in Addrs |-> TRUE] /\ snap = {}
  /\ succ = [o \in Objs |-> 0] /\ fail = [o \in Objs |-> 0]
  /\ idx = 0 /\ econns = {} /\ nconn = 0 /\ nround = 0 /\ ntog = 0 /\ nhalf = 0
  /\ elast = NoE

\* relays whose object's latch is closed are closed by their watcher (proc.go:126-137)
Watch(conns) == {c \in conns : ~removed'[c.o] \/ c.st \in WatcherLeaves}

\* property level (a host is its address): the relays that must be closed after this step
\* because the address they are connected to left the set in this step
Leaving == {a \in Addrs : all[a] # NoObj /\ all'[a] = NoObj}
MustClose == {c \in econns : oaddr[c.o] \in Leaving}

HostOpTail ==
  /\ snap' = IF snap = {} THEN {all'[a] : a \in {x \in Addrs : all'[x] # NoObj}} ELSE snap
  /\ econns' = Watch(econns)
  /\ elast' = [kind |-> "op", must |-> MustClose, closed |-> econns \ econns']
  /\ UNCHANGED <<up, succ, fail, idx, nconn, nround, ntog, nhalf>>

EAdd(a, t) == AddFresh(a, t) /\ HostOpTail         \* p.OnSvcHostAdd([fresh host])
ERemove(a, t) == RemoveFresh(a, t) /\ HostOpTail   \* p.OnSvcHostRemove([fresh host])
EReplace(f) == ReplaceAll(f) /\ HostOpTail         \* p.OnSvcAllHostReplace(fresh hosts)

HostOp ==
  \/ \E a \in Addrs, t \in Types : EAdd(a, t) \/ ERemove(a, t)
  \/ \E f \in ReplaceArgs : EReplace(f)

Toggle(a) ==
  /\ ntog < MaxToggles
  /\ up' = [up EXCEPT ![a] = ~@]
  /\ ntog' = ntog + 1
  /\ elast' = NoE
  /\ UNCHANGED <<vars, snap, succ, fail, idx, econns, nconn, nround, nhalf>>

\* one object of a round: checkHostAndUpdateStatus (monitor.go:141-155) with both halves of
\* a resulting MarkHost* call.  R = [S (maps), fl, su, fa]
CheckP(R, o) ==
  LET ok == up[oaddr[o]] IN
  IF ok
  THEN IF R.su[o] + 1 > Rise
       THEN LET fl1 == [R.fl EXCEPT ![o] = TRUE] IN
            [S  |-> IF ~R.fl[o] THEN MarkEndP(R.S, fl1, o, "healthy") ELSE R.S,
             fl |-> fl1, su |-> [R.su EXCEPT ![o] = 0], fa |-> [R.fa EXCEPT ![o] = 0]]
       ELSE [R EXCEPT !.su = [@ EXCEPT ![o] = @ + 1], !.fa = [@ EXCEPT ![o] = 0]]
  ELSE IF R.fa[o] + 1 > Fall
       THEN LET fl1 == [R.fl EXCEPT ![o] = FALSE] IN
            [S  |-> IF R.fl[o] THEN MarkEndP(R.S, fl1, o, "unhealthy") ELSE R.S,
             fl |-> fl1, su |-> [R.su EXCEPT ![o] = 0], fa |-> [R.fa EXCEPT ![o] = 0]]
       ELSE [R EXCEPT !.fa = [@ EXCEPT ![o] = @ + 1], !.su = [@ EXCEPT ![o] = 0]]

RECURSIVE CheckAll(_, _)
CheckAll(R, os) ==
  IF os = {} THEN R
  ELSE LET o == CHOOSE x \in os : TRUE IN CheckAll(CheckP(R, o), os \ {o})

\* objects of the round whose mark (if any) arrives stale: they are not the stored object of
\* their address any more
StaleInRound == {o \in snap : all[oaddr[o]] # o}

Round ==
  /\ snap # {} /\ nround < MaxRounds
  /\ LET R == CheckAll([S |-> Cur, fl |-> flag, su |-> succ, fa |-> fail], snap) IN
       /\ Install(R.S)
       /\ flag' = R.fl /\ succ' = R.su /\ fail' = R.fa
  /\ snap' = {all[a] : a \in {x \in Addrs : all[x] # NoObj}}
  /\ nround' = nround + 1
  /\ econns' = Watch(econns)
  /\ elast' = [kind |-> "round", must |-> {}, closed |-> econns \ econns']
  /\ UNCHANGED <<nobj, oaddr, otype, inflight, nops, carried, owed, up, idx, nconn, ntog, nhalf>>

\* one client connection.  `allowed` is the property's answer in the state of the load
Conn ==
  /\ nconn < MaxConns
  /\ nconn' = nconn + 1
  /\ IF cache = <<>>
     THEN /\ elast' = [kind |-> "conn", id |-> nconn + 1, chosen |-> NoObj, allowed |-> Usable, est |-> FALSE]
          /\ UNCHANGED <<idx, econns>>
     ELSE \E r \in 0..(Len(cache) - 1) :
            /\ Policy = "rr" => r = (idx + 1) % Len(cache)
            /\ idx' = IF Policy = "rr" THEN idx + 1 ELSE idx
            /\ LET o == cache[r + 1] IN
                 /\ econns' = IF removed[o] THEN econns ELSE econns \cup {[id |-> nconn + 1, o |-> o, st |-> "open"]}
                 /\ elast' = [kind |-> "conn", id |-> nconn + 1, chosen |-> o, allowed |-> Usable, est |-> ~removed[o]]
  /\ UNCHANGED <<vars, up, snap, succ, fail, nround, ntog, nhalf>>

\* one side of an established relay shuts down its write side: side = "chc" the client
\* (CloseWrite on the client socket; the processor's client->backend copy sees EOF, half-closes
\* the backend socket and ends), side = "bhc" the backend
HalfClose(c, side) ==
  /\ c \in econns /\ c.st = "open" /\ nhalf < MaxHalf
  /\ econns' = (econns \ {c}) \cup {[c EXCEPT !.st = side]}
  /\ nhalf' = nhalf + 1
  /\ elast' = NoE
  /\ UNCHANGED <<vars, up, snap, succ, fail, idx, nconn, nround, ntog>>

ENext ==
  \/ HostOp \/ (\E a \in Addrs : Toggle(a)) \/ Round \/ Conn
  \/ \E c \in econns, side \in {"chc", "bhc"} : HalfClose(c, side)

ESpec == EInit /\ [][ENext]_eall

-----------------------------------------------------------------------------
(* C06, end to end *)

\* every connection goes to a current member that is considered healthy, backup only when no
\* main host is healthy; with no usable host it is closed (and only then)
ConnToUsable ==
  elast.kind = "conn" =>
    /\ elast.chosen # NoObj => elast.chosen \in elast.allowed /\ elast.est
    /\ elast.chosen = NoObj => elast.allowed = {}

\* established connections to a host are closed when that host is removed - whatever the
\* half-close state of the connection
EstablishedClosed ==
  elast.kind = "op" => elast.must \subseteq elast.closed

\* the monitor keeps the usable view exact (HostSet invariants under monitor-driven marks)
EView == UsableIsPreferredTier /\ SortedNoDup /\ RemovedNeverReported /\ RemovedClosesEstablished
=============================================================================
