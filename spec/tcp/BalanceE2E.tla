----------------------------- MODULE BalanceE2E ------------------------------
(***************************************************************************)
(* The TCP processor as a black box (C06 end to end): the host set         *)
(* (HostSet) driven the way the controller drives it - fresh Host objects  *)
(* per call, controller.go:166-214, 273-284 -, the health monitor          *)
(* (monitor.go) checking the backends in rounds, and client connections    *)
(* arriving one at a time.                                                 *)
(*                                                                         *)
(* Monitor.  A round takes the objects of All() when it starts (`snap`),   *)
(* probes every one of them and applies the hysteresis step of Health.tla  *)
(* per object, which may call MarkHostHealthy / MarkHostUnhealthy with the *)
(* object of the snapshot.  The harness holds the probes of a round at the *)
(* scripted backends until the behaviour says Round, so that host          *)
(* operations happen while the monitor holds its snapshot: the marks of    *)
(* the round then arrive with objects that may have been replaced or       *)
(* removed (the stale marks of HostSet), black box.  Nothing else runs     *)
(* while the round completes, so both halves of each mark are one step     *)
(* here; marks of one round concern different addresses and commute.       *)
(* When no round is held (the set was empty when the last round started),  *)
(* the next round starts with the members present after the next host      *)
(* operation.                                                              *)
(*                                                                         *)
(* Connections.  Conn = accept, Healthy(), PickHost, dial, relay           *)
(* (proc.go:96-145) with the client waiting for the outcome before the     *)
(* next step.  An established relay is closed by its watcher as soon as    *)
(* the removal latch of the chosen OBJECT is closed.                        *)
(*                                                                         *)
(* Connection counts and dial failures.  cnt[o] is Stats.connActive of the *)
(* host object as the processor maintains it (IncConnCount after a         *)
(* successful dial, proc.go:116; DecConnCount when HandleConn returns,     *)
(* proc.go:120); it is the input of least-connection.  A backend may       *)
(* REFUSE connections (ref[a]) while its host is still in the usable list  *)
(* - the window between a backend going down and the monitor noticing; to  *)
(* keep this independent of the monitor's view the refusing state is only  *)
(* used in configurations without health check (NoMonitor) -: the dial of  *)
(* a Conn step to such a host fails, the client sees its connection closed *)
(* and the count of the host is unchanged.  FailedDialLeaks = TRUE is the  *)
(* regression "count taken before the dial and not given back when the    *)
(* dial fails", which must violate CountsAreRealConnections and            *)
(* LCNotBusierReal (anti-vacuity).  With the random source scripted        *)
(* (r1, r2) every policy is deterministic.                                 *)
(*                                                                         *)
(* Half-close.  An established relay is in one of three states when its    *)
(* host is removed: "open"; "chc" - the client has shut down its write     *)
(* side (the client->backend copy of HandleConn has ended, the backend is  *)
(* still sending); "bhc" - the backend has shut down its write side (the   *)
(* backend->client copy has ended, the client is still open).  The watcher *)
(* goroutine of the real code lives until HandleConn returns, i.e. until   *)
(* BOTH directions have ended, so it closes the relay in all three states. *)
(* The constant WatcherLeaves is the set of half-close states in which the *)
(* watcher has already exited: {} for the real code; {"chc"} is the        *)
(* regression "the watcher exits when the client->backend copy ends"       *)
(* (`case <-done:`), which must violate EstablishedClosed (anti-vacuity).  *)
(***************************************************************************)
EXTENDS HostSet

CONSTANTS Policy,      \* "rr" | "random" | "lc"
          Rise, Fall,  \* thresholds of the health check
          MaxRounds, MaxConns, MaxToggles,
          NoMonitor,      \* TRUE: the service has no health check (no rounds, no probes)
          MaxRefuse,      \* backend refuse / accept-again switches per behaviour (NoMonitor only)
          MaxClose,       \* client closes per behaviour
          FailedDialLeaks, \* TRUE: a failed dial leaves +1 on the host's connection count
          MaxHalf,        \* half-closes per behaviour
          WatcherLeaves   \* subset of {"chc", "bhc"}: states in which the watcher is gone

VARIABLES up,       \* address -> the backend answers probes
          snap,     \* objects of the round whose probes are held ({}: monitor idle)
          succ, fail, \* counters per object (host.go:250-260)
          idx,      \* round-robin index
          econns,   \* established relays: [id, o, st] with st in {"open", "chc", "bhc"}
          nconn, nround, ntog, nhalf,
          ref,      \* address -> the backend refuses connections
          cnt,      \* object -> Stats.connActive as the processor sees it
          nref, nclose,
          elast     \* ghost: what the latest step did, for the invariants and the emitter

evars == <<up, snap, succ, fail, idx, econns, nconn, nround, ntog, nhalf, ref, cnt, nref, nclose, elast>>
eall == <<vars, evars>>

NoE == [kind |-> "none"]

EInit ==
  /\ Init
  /\ up = [a \in Addrs |-> TRUE] /\ snap = {}
  /\ succ = [o \in Objs |-> 0] /\ fail = [o \in Objs |-> 0]
  /\ idx = 0 /\ econns = {} /\ nconn = 0 /\ nround = 0 /\ ntog = 0 /\ nhalf = 0
  /\ ref = [a \in Addrs |-> FALSE] /\ cnt = [o \in Objs |-> 0] /\ nref = 0 /\ nclose = 0
  /\ elast = NoE

\* relays whose object's latch is closed are closed by their watcher (proc.go:126-137)
Watch(conns) == {c \in conns : ~removed'[c.o] \/ c.st \in WatcherLeaves}

\* property level (a host is its address): the relays that must be closed after this step
\* because the address they are connected to left the set in this step
Leaving == {a \in Addrs : all[a] # NoObj /\ all'[a] = NoObj}
MustClose == {c \in econns : oaddr[c.o] \in Leaving}

\* the relays through object o that really exist
Real(o) == Cardinality({c \in econns : c.o = o})
\* DecConnCount of the relays that ended in this step
Released == cnt' = [o \in Objs |-> cnt[o] - Cardinality({c \in econns \ econns' : c.o = o})]

HostOpTail ==
  /\ snap' = IF NoMonitor THEN {}
             ELSE IF snap = {} THEN {all'[a] : a \in {x \in Addrs : all'[x] # NoObj}} ELSE snap
  /\ econns' = Watch(econns)
  /\ Released
  /\ elast' = [kind |-> "op", must |-> MustClose, closed |-> econns \ econns']
  /\ UNCHANGED <<up, succ, fail, idx, nconn, nround, ntog, nhalf, ref, nref, nclose>>

EAdd(a, t) == AddFresh(a, t) /\ HostOpTail         \* p.OnSvcHostAdd([fresh host])
ERemove(a, t) == RemoveFresh(a, t) /\ HostOpTail   \* p.OnSvcHostRemove([fresh host])
EReplace(f) == ReplaceAll(f) /\ HostOpTail         \* p.OnSvcAllHostReplace(fresh hosts)

HostOp ==
  \/ \E a \in Addrs, t \in Types : EAdd(a, t) \/ ERemove(a, t)
  \/ \E f \in ReplaceArgs : EReplace(f)

Toggle(a) ==
  /\ ntog < MaxToggles
  /\ up' = [up EXCEPT ![a] = ~@]
  /\ ntog' = ntog + 1
  /\ elast' = NoE
  /\ UNCHANGED <<vars, snap, succ, fail, idx, econns, nconn, nround, nhalf, ref, cnt, nref, nclose>>

\* one object of a round: checkHostAndUpdateStatus (monitor.go:141-155) with both halves of
\* a resulting MarkHost* call.  R = [S (maps), fl, su, fa]
CheckP(R, o) ==
  LET ok == up[oaddr[o]] IN
  IF ok
  THEN IF R.su[o] + 1 > Rise
       THEN LET fl1 == [R.fl EXCEPT ![o] = TRUE] IN
            [S  |-> IF ~R.fl[o] THEN MarkEndP(R.S, fl1, o, "healthy") ELSE R.S,
             fl |-> fl1, su |-> [R.su EXCEPT ![o] = 0], fa |-> [R.fa EXCEPT ![o] = 0]]
       ELSE [R EXCEPT !.su = [@ EXCEPT ![o] = @ + 1], !.fa = [@ EXCEPT ![o] = 0]]
  ELSE IF R.fa[o] + 1 > Fall
       THEN LET fl1 == [R.fl EXCEPT ![o] = FALSE] IN
            [S  |-> IF R.fl[o] THEN MarkEndP(R.S, fl1, o, "unhealthy") ELSE R.S,
             fl |-> fl1, su |-> [R.su EXCEPT ![o] = 0], fa |-> [R.fa EXCEPT ![o] = 0]]
       ELSE [R EXCEPT !.fa = [@ EXCEPT ![o] = @ + 1], !.su = [@ EXCEPT ![o] = 0]]

RECURSIVE CheckAll(_, _)
CheckAll(R, os) ==
  IF os = {} THEN R
  ELSE LET o == CHOOSE x \in os : TRUE IN CheckAll(CheckP(R, o), os \ {o})

\* objects of the round whose mark (if any) arrives stale: they are not the stored object of
\* their address any more
StaleInRound == {o \in snap : all[oaddr[o]] # o}

Round ==
  /\ snap # {} /\ nround < MaxRounds
  /\ LET R == CheckAll([S |-> Cur, fl |-> flag, su |-> succ, fa |-> fail], snap) IN
       /\ Install(R.S)
       /\ flag' = R.fl /\ succ' = R.su /\ fail' = R.fa
  /\ snap' = {all[a] : a \in {x \in Addrs : all[x] # NoObj}}
  /\ nround' = nround + 1
  /\ econns' = Watch(econns)
  /\ Released
  /\ elast' = [kind |-> "round", must |-> {}, closed |-> econns \ econns']
  /\ UNCHANGED <<nobj, oaddr, otype, inflight, nops, carried, owed, up, idx, nconn, ntog, nhalf, ref, nref, nclose>>

\* one client connection.  `allowed` is the property's answer in the state of the load; r1, r2
\* are the values of the (scripted) random source: random uses r1, least-connection r1 and r2
NoConn == [kind |-> "conn", chosen |-> NoObj, est |-> FALSE, refused |-> FALSE, r1 |-> 0, r2 |-> 0,
           h1 |-> NoObj, h2 |-> NoObj, rc1 |-> 0, rc2 |-> 0]

Conn ==
  /\ nconn < MaxConns
  /\ nconn' = nconn + 1
  /\ IF cache = <<>>
     THEN /\ elast' = [NoConn EXCEPT !.kind = "conn"] @@ [id |-> nconn + 1, allowed |-> Usable]
          /\ UNCHANGED <<idx, econns, cnt>>
     ELSE \E r1 \in 0..(Len(cache) - 1), r2 \in 0..(Len(cache) - 1) :
            /\ Policy = "rr" => r1 = (idx + 1) % Len(cache) /\ r2 = 0
            /\ Policy = "random" => r2 = 0
            /\ idx' = IF Policy = "rr" THEN idx + 1 ELSE idx
            /\ LET h1 == cache[r1 + 1]
                   h2 == cache[r2 + 1]
                   o  == IF Policy = "lc" THEN (IF cnt[h1] < cnt[h2] THEN h1 ELSE h2) ELSE h1   \* lb.go:103-113
                   refused == ref[oaddr[o]]                  \* the dial fails (proc.go:107-112)
                   est == ~refused /\ ~removed[o]            \* a closed latch ends the relay at once
               IN /\ econns' = IF est THEN econns \cup {[id |-> nconn + 1, o |-> o, st |-> "open"]} ELSE econns
                  /\ cnt' = IF est \/ (refused /\ FailedDialLeaks) THEN [cnt EXCEPT ![o] = @ + 1] ELSE cnt
                  /\ elast' = [kind |-> "conn", id |-> nconn + 1, chosen |-> o, allowed |-> Usable, est |-> est,
                               refused |-> refused, r1 |-> r1, r2 |-> r2, h1 |-> h1, h2 |-> h2,
                               rc1 |-> Real(h1), rc2 |-> Real(h2)]
  /\ UNCHANGED <<vars, up, snap, succ, fail, nround, ntog, nhalf, ref, nref, nclose>>

\* the backend of address a starts / stops refusing connections (its listener is closed /
\* reopened); established relays stay
SwitchRefuse(a) ==
  /\ nref < MaxRefuse          \* configurations with a monitor have MaxRefuse = 0
  /\ ref' = [ref EXCEPT ![a] = ~@]
  /\ nref' = nref + 1
  /\ elast' = NoE
  /\ UNCHANGED <<vars, up, snap, succ, fail, idx, econns, nconn, nround, ntog, nhalf, cnt, nclose>>

\* the client closes its connection: the relay ends, HandleConn returns, DecConnCount
CloseConn(c) ==
  /\ c \in econns /\ nclose < MaxClose
  /\ econns' = econns \ {c}
  /\ Released
  /\ nclose' = nclose + 1
  /\ elast' = NoE
  /\ UNCHANGED <<vars, up, snap, succ, fail, idx, nconn, nround, ntog, nhalf, ref, nref>>

\* one side of an established relay shuts down its write side: side = "chc" the client
\* (CloseWrite on the client socket; the processor's client->backend copy sees EOF, half-closes
\* the backend socket and ends), side = "bhc" the backend
HalfClose(c, side) ==
  /\ c \in econns /\ c.st = "open" /\ nhalf < MaxHalf
  /\ econns' = (econns \ {c}) \cup {[c EXCEPT !.st = side]}
  /\ nhalf' = nhalf + 1
  /\ elast' = NoE
  /\ UNCHANGED <<vars, up, snap, succ, fail, idx, nconn, nround, ntog, ref, cnt, nref, nclose>>

ENext ==
  \/ HostOp \/ (\E a \in Addrs : Toggle(a)) \/ Round \/ Conn
  \/ \E c \in econns, side \in {"chc", "bhc"} : HalfClose(c, side)
  \/ \E a \in Addrs : SwitchRefuse(a)
  \/ \E c \in econns : CloseConn(c)

ESpec == EInit /\ [][ENext]_eall

-----------------------------------------------------------------------------
(* C06, end to end *)

\* every connection goes to a current member that is considered healthy, backup only when no
\* main host is healthy; with no usable host it is closed (and only then)
ConnToUsable ==
  elast.kind = "conn" =>
    /\ elast.chosen # NoObj => elast.chosen \in elast.allowed /\ (elast.est \/ elast.refused)
    /\ elast.chosen = NoObj => elast.allowed = {}

\* the connection count the policies see is the number of relays that really exist
CountsAreRealConnections == \A o \in Objs : cnt[o] = Real(o)

\* least-connection never prefers the strictly busier of its two samples - busier in REAL relays
LCNotBusierReal ==
  elast.kind = "conn" /\ Policy = "lc" /\ elast.chosen # NoObj /\ elast.h1 # elast.h2 =>
    /\ elast.chosen = elast.h1 => elast.rc1 <= elast.rc2
    /\ elast.chosen = elast.h2 => elast.rc2 <= elast.rc1

\* established connections to a host are closed when that host is removed - whatever the
\* half-close state of the connection
EstablishedClosed ==
  elast.kind = "op" => elast.must \subseteq elast.closed

\* the monitor keeps the usable view exact (HostSet invariants under monitor-driven marks)
EView == UsableIsPreferredTier /\ SortedNoDup /\ RemovedNeverReported /\ RemovedClosesEstablished
=============================================================================
