SPECIFICATION BGenSpec
CONSTANTS
  NAddr = 2
  MaxObj = 2
  MaxOps = 2
  MaxInflight = 1
  WithReplace = FALSE
  FixRemove = FALSE
  FixAdd = FALSE
  FixFlag = FALSE
  FixMark = FALSE
  Policy = "lc"
  Selectors = {"s1", "s2"}
  MaxSel = 2
  TornDraw = FALSE
  Kinds = {"add", "remove", "existing", "replace", "mark"}
VIEW BGenView
ACTION_CONSTRAINT BEmit
CHECK_DEADLOCK FALSE
