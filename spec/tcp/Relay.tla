-------------------------------- MODULE Relay --------------------------------
(***************************************************************************)
(* TCP relay of one proxied connection (property C05).                     *)
(*                                                                         *)
(* Code: proc/tcp/proc.go HandleConn / pipeConn / copyBuffer,              *)
(*       proc/internal/net/conn.go (CloseRead, CloseWrite, idle timeout).  *)
(*                                                                         *)
(* Two sides ("client", "backend") talk through the proxy.  Direction      *)
(* "c2s" carries the client's bytes to the backend, "s2c" the backend's    *)
(* bytes to the client.  Bytes are stream positions 1..N, tagged with the  *)
(* direction (c2s byte i = i, s2c byte i = 1000+i) so that a cross-        *)
(* direction leak is visible.  Per direction d:                            *)
(*    sender --wire[d]--> proxy copy loop (pbuf[d], <= Buf bytes per read, *)
(*    write all) --> rcvd[receiver].                                       *)
(* When the copy loop of d ends (EOF, error, idle timeout) the proxy does  *)
(* closeWrite(dst) and closeRead(src); when both loops are done it closes  *)
(* both connections.  A watcher closes both connections when the host is   *)
(* removed.                                                                *)
(*                                                                         *)
(* Mut selects a deliberately broken variant (anti-vacuity):               *)
(*   "closeBoth" - end of the first direction closes both connections      *)
(*   "sharedBuf" - the two directions copy through the same buffer         *)
(*   "dropTail"  - the last read before EOF is discarded                   *)
(***************************************************************************)
EXTENDS Integers, Sequences, FiniteSets

CONSTANTS Buf,          \* copy buffer size (16384 in the code, scaled)
          ClassesC,     \* chunk sizes the client may send
          ClassesS,     \* chunk sizes the backend may send
          MaxChunksC,   \* max number of chunks of the client
          MaxChunksS,   \* max number of chunks of the backend
          ShortReads,   \* TRUE: a read may also return a single byte
          WithAbrupt,   \* TRUE: a side may close before it has seen EOF
          WithIdle,     \* TRUE: the idle timeout of a read may fire
          WithRemove,   \* TRUE: the host may be removed (watcher closes both)
          Mut           \* "none" or a broken variant

VARIABLES side,      \* side[x] : "open" | "fin" (shutdown write) | "closed"
          abrupt,    \* abrupt[x] : x closed before it had seen EOF
          nsent,     \* nsent[x] : chunks sent by x
          sent,      \* sent[x]  : bytes sent by x
          wire,      \* wire[d]  : bytes sent by the sender of d, not yet read by the proxy
          pbuf,      \* pbuf[d]  : bytes in the copy buffer of d
          rcvd,      \* rcvd[x]  : bytes delivered to x (written by the proxy towards x)
          pstate,    \* pstate[d]: "read" | "write" | "ended" | "done"
          wfin,      \* wfin[d]  : proxy has shut down writing towards the receiver of d
          eof,       \* eof[x]   : x has seen end of stream
          rst,       \* rst[x]   : x has seen a connection reset
          timedOut,  \* timedOut[d] : the idle timeout ended direction d
          removed,   \* host removed: watcher closed both connections
          pclosed    \* proxy closed both connections (HandleConn returned)

vars == <<side, abrupt, nsent, sent, wire, pbuf, rcvd, pstate, wfin, eof, rst, timedOut, removed, pclosed>>

Sides == {"client", "backend"}
Dirs  == {"c2s", "s2c"}

Peer(x) == IF x = "client" THEN "backend" ELSE "client"
Opp(d)  == IF d = "c2s" THEN "s2c" ELSE "c2s"
OutDir(x) == IF x = "client" THEN "c2s" ELSE "s2c"     \* direction x sends in
InDir(x)  == IF x = "client" THEN "s2c" ELSE "c2s"     \* direction x receives from
Sender(d)   == IF d = "c2s" THEN "client" ELSE "backend"
Receiver(d) == IF d = "c2s" THEN "backend" ELSE "client"

ClassesOf(x)   == IF x = "client" THEN ClassesC ELSE ClassesS
MaxChunksOf(x) == IF x = "client" THEN MaxChunksC ELSE MaxChunksS

Tag(d, i) == IF d = "c2s" THEN i ELSE 1000 + i
Bytes(d, from, n) == [k \in 1..n |-> Tag(d, from + k)]     \* positions from+1 .. from+n
Min(a, b) == IF a < b THEN a ELSE b

ConnDead == removed \/ pclosed

Init ==
  /\ side = [x \in Sides |-> "open"]
  /\ abrupt = [x \in Sides |-> FALSE]
  /\ nsent = [x \in Sides |-> 0]
  /\ sent = [x \in Sides |-> 0]
  /\ wire = [d \in Dirs |-> <<>>]
  /\ pbuf = [d \in Dirs |-> <<>>]
  /\ rcvd = [x \in Sides |-> <<>>]
  /\ pstate = [d \in Dirs |-> "read"]
  /\ wfin = [d \in Dirs |-> FALSE]
  /\ eof = [x \in Sides |-> FALSE]
  /\ rst = [x \in Sides |-> FALSE]
  /\ timedOut = [d \in Dirs |-> FALSE]
  /\ removed = FALSE
  /\ pclosed = FALSE

(* ------------------------------ the two sides ------------------------------ *)

\* one write of n bytes (n = 0: an empty write)
SideSend(x, n) ==
  /\ side[x] = "open" /\ ~rst[x]
  /\ nsent[x] < MaxChunksOf(x)
  /\ n \in ClassesOf(x)
  /\ nsent' = [nsent EXCEPT ![x] = @ + 1]
  /\ sent' = [sent EXCEPT ![x] = @ + n]
  /\ wire' = [wire EXCEPT ![OutDir(x)] = @ \o Bytes(OutDir(x), sent[x], n)]
  /\ UNCHANGED <<side, abrupt, pbuf, rcvd, pstate, wfin, eof, rst, timedOut, removed, pclosed>>

\* half-close: shutdown(SHUT_WR)
SideFin(x) ==
  /\ side[x] = "open" /\ ~rst[x]
  /\ side' = [side EXCEPT ![x] = "fin"]
  /\ UNCHANGED <<abrupt, nsent, sent, wire, pbuf, rcvd, pstate, wfin, eof, rst, timedOut, removed, pclosed>>

\* full close; graceful when x has already seen EOF (or a reset), abrupt otherwise
SideClose(x) ==
  /\ side[x] \in {"open", "fin"}
  /\ (eof[x] \/ rst[x] \/ WithAbrupt)
  /\ side' = [side EXCEPT ![x] = "closed"]
  /\ abrupt' = [abrupt EXCEPT ![x] = ~eof[x] /\ ~rst[x]]
  /\ UNCHANGED <<nsent, sent, wire, pbuf, rcvd, pstate, wfin, eof, rst, timedOut, removed, pclosed>>

\* an abrupt close may answer with RST: bytes not yet read by the proxy can be lost
RstPurge(x) ==
  /\ abrupt[x] /\ wire[OutDir(x)] # <<>>
  /\ wire' = [wire EXCEPT ![OutDir(x)] = <<>>]
  /\ UNCHANGED <<side, abrupt, nsent, sent, pbuf, rcvd, pstate, wfin, eof, rst, timedOut, removed, pclosed>>

\* FIN follows the data the proxy wrote towards x
SeeEOF(x) ==
  /\ side[x] # "closed" /\ ~rst[x] /\ ~eof[x]
  /\ (wfin[InDir(x)] \/ ConnDead)
  /\ eof' = [eof EXCEPT ![x] = TRUE]
  /\ UNCHANGED <<side, abrupt, nsent, sent, wire, pbuf, rcvd, pstate, wfin, rst, timedOut, removed, pclosed>>

\* x has bytes the proxy never read on a connection the proxy has closed (or the
\* watcher killed the connection): x sees a reset
SeeReset(x) ==
  /\ side[x] # "closed" /\ ~rst[x]
  /\ ConnDead
  /\ (wire[OutDir(x)] # <<>> \/ removed)
  /\ rst' = [rst EXCEPT ![x] = TRUE]
  /\ UNCHANGED <<side, abrupt, nsent, sent, wire, pbuf, rcvd, pstate, wfin, eof, timedOut, removed, pclosed>>

(* ------------------------------ the proxy ---------------------------------- *)

ReadSizes(d) ==
  LET full == Min(Buf, Len(wire[d])) IN
  IF ShortReads THEN {1, full} ELSE {full}

\* in the sharedBuf variant a read of d lands in the buffer the other loop is about to write
Clobber(other, data) ==
  [k \in 1..Len(other) |-> IF k <= Len(data) THEN data[k] ELSE other[k]]

\* io.CopyBuffer: nr, er := src.Read(buf), nr > 0
ProxyRead(d) ==
  /\ pstate[d] = "read" /\ ~ConnDead
  /\ wire[d] # <<>>
  /\ \E n \in ReadSizes(d) :
       LET data == SubSeq(wire[d], 1, n)
           last == n = Len(wire[d]) /\ side[Sender(d)] \in {"fin", "closed"} IN
       /\ wire' = [wire EXCEPT ![d] = SubSeq(@, n + 1, Len(@))]
       /\ IF Mut = "dropTail" /\ last
            THEN pstate' = [pstate EXCEPT ![d] = "ended"] /\ pbuf' = pbuf
            ELSE /\ pstate' = [pstate EXCEPT ![d] = "write"]
                 /\ pbuf' = IF Mut = "sharedBuf" /\ pstate[Opp(d)] = "write"
                              THEN [pbuf EXCEPT ![d] = data, ![Opp(d)] = Clobber(@, data)]
                              ELSE [pbuf EXCEPT ![d] = data]
  /\ UNCHANGED <<side, abrupt, nsent, sent, rcvd, wfin, eof, rst, timedOut, removed, pclosed>>

\* read returns EOF (sender finished, everything read) or an error (connection dead)
ProxyReadEnd(d) ==
  /\ pstate[d] = "read"
  /\ \/ ConnDead
     \/ wire[d] = <<>> /\ side[Sender(d)] \in {"fin", "closed"}
  /\ pstate' = [pstate EXCEPT ![d] = "ended"]
  /\ UNCHANGED <<side, abrupt, nsent, sent, wire, pbuf, rcvd, wfin, eof, rst, timedOut, removed, pclosed>>

\* conn.go Read: deadline = now + idle timeout; nothing arrived in time
IdleTimeout(d) ==
  /\ WithIdle
  /\ pstate[d] = "read" /\ ~ConnDead
  /\ wire[d] = <<>> /\ side[Sender(d)] = "open"
  /\ pstate' = [pstate EXCEPT ![d] = "ended"]
  /\ timedOut' = [timedOut EXCEPT ![d] = TRUE]
  /\ UNCHANGED <<side, abrupt, nsent, sent, wire, pbuf, rcvd, wfin, eof, rst, removed, pclosed>>

\* write all (delivered to the receiver); fails when the connection is dead or the receiver is gone
ProxyWrite(d) ==
  /\ pstate[d] = "write"
  /\ IF ConnDead \/ side[Receiver(d)] = "closed" \/ rst[Receiver(d)]
       THEN /\ pstate' = [pstate EXCEPT ![d] = "ended"]
            /\ rcvd' = rcvd
       ELSE /\ pstate' = [pstate EXCEPT ![d] = "read"]
            /\ rcvd' = [rcvd EXCEPT ![Receiver(d)] = @ \o pbuf[d]]
  /\ pbuf' = [pbuf EXCEPT ![d] = <<>>]
  /\ UNCHANGED <<side, abrupt, nsent, sent, wire, wfin, eof, rst, timedOut, removed, pclosed>>

\* pipeConn after the copy: closeWrite(dst); closeRead(src)
ProxyShutdown(d) ==
  /\ pstate[d] = "ended"
  /\ pstate' = [pstate EXCEPT ![d] = "done"]
  /\ IF Mut = "closeBoth"
       THEN /\ pclosed' = TRUE
            /\ wfin' = [e \in Dirs |-> TRUE]
       ELSE /\ pclosed' = pclosed
            /\ wfin' = [wfin EXCEPT ![d] = TRUE]
  /\ UNCHANGED <<side, abrupt, nsent, sent, wire, pbuf, rcvd, eof, rst, timedOut, removed>>

\* HandleConn returns: both connections are closed
ProxyCloseAll ==
  /\ \A d \in Dirs : pstate[d] = "done"
  /\ ~pclosed
  /\ pclosed' = TRUE
  /\ UNCHANGED <<side, abrupt, nsent, sent, wire, pbuf, rcvd, pstate, wfin, eof, rst, timedOut, removed>>

\* host removed from the host set: the watcher closes both connections
HostRemoved ==
  /\ WithRemove /\ ~removed /\ ~pclosed
  /\ removed' = TRUE
  /\ UNCHANGED <<side, abrupt, nsent, sent, wire, pbuf, rcvd, pstate, wfin, eof, rst, timedOut, pclosed>>

SideNext ==
  \E x \in Sides :
     \/ \E n \in ClassesOf(x) : SideSend(x, n)
     \/ SideFin(x)
     \/ SideClose(x)
     \/ RstPurge(x)
     \/ SeeEOF(x)
     \/ SeeReset(x)

ProxyNext ==
  \/ \E d \in Dirs :
        \/ ProxyRead(d)
        \/ ProxyReadEnd(d)
        \/ IdleTimeout(d)
        \/ ProxyWrite(d)
        \/ ProxyShutdown(d)
  \/ ProxyCloseAll
  \/ HostRemoved

Next == SideNext \/ ProxyNext

\* the proxy makes progress and open sides keep reading; the sides' own actions are free
Fairness ==
  /\ \A d \in Dirs :
        /\ WF_vars(ProxyRead(d))
        /\ WF_vars(ProxyReadEnd(d))
        /\ WF_vars(ProxyWrite(d))
        /\ WF_vars(ProxyShutdown(d))
  /\ WF_vars(ProxyCloseAll)
  /\ \A x \in Sides : WF_vars(SeeEOF(x))

Spec == Init /\ [][Next]_vars /\ Fairness

(* ------------------------------ properties --------------------------------- *)

States == {"open", "fin", "closed"}
PStates == {"read", "write", "ended", "done"}

TypeOK ==
  /\ side \in [Sides -> States]
  /\ pstate \in [Dirs -> PStates]
  /\ \A d \in Dirs : Len(pbuf[d]) <= Buf
  /\ \A x \in Sides : nsent[x] <= MaxChunksOf(x)

\* what each side has received is a prefix of what the other side sent: in order,
\* nothing added, dropped in the middle, duplicated or taken from the other direction
PrefixBothWays ==
  \A x \in Sides :
     /\ Len(rcvd[x]) <= sent[Peer(x)]
     /\ rcvd[x] = Bytes(InDir(x), 0, Len(rcvd[x]))

Quiet(d) ==
  /\ ~timedOut[d] /\ ~removed
  /\ ~abrupt[Sender(d)] /\ ~abrupt[Receiver(d)]
  /\ ~rst[Receiver(d)] /\ ~rst[Sender(d)]

\* the same for everything that is still on the way (no reordering inside the proxy)
InFlightOrdered ==
  \A d \in Dirs :
     LET all == rcvd[Receiver(d)] \o pbuf[d] \o wire[d] IN
     (Mut # "sharedBuf") =>
        /\ \A k \in 1..Len(all) : all[k] > Tag(d, 0) /\ all[k] <= Tag(d, sent[Sender(d)])
        /\ \A k \in 1..(Len(all) - 1) : all[k] < all[k + 1]
        /\ (Quiet(d) /\ pstate[d] \in {"read", "write"}) => all = Bytes(d, 0, sent[Sender(d)])

\* environment events after which a direction may legitimately be cut short
EarlyEndAllowed(x) == timedOut[InDir(x)] \/ removed \/ abrupt[Peer(x)]

\* a side sees EOF only after all bytes the peer sent before finishing
EOFAfterAllBytes ==
  \A x \in Sides :
     (eof[x] /\ ~EarlyEndAllowed(x)) =>
        /\ side[Peer(x)] \in {"fin", "closed"}
        /\ Len(rcvd[x]) = sent[Peer(x)]

\* a reset is only ever seen after an abrupt close, an idle timeout or a host removal
ResetOnlyIfDisturbed ==
  \A x \in Sides :
     rst[x] => (removed \/ abrupt[Peer(x)] \/ \E d \in Dirs : timedOut[d])

\* nothing is delivered after EOF (action property)
NoBytesAfterEOF ==
  [][\A x \in Sides : eof[x] => rcvd'[x] = rcvd[x]]_vars

\* the proxy shuts a connection only when the direction feeding it has ended
ShutdownOnlyAtEnd ==
  \A d \in Dirs : wfin[d] => (pstate[d] = "done" \/ Mut = "closeBoth")

AllDelivered(d) == Len(rcvd[Receiver(d)]) = sent[Sender(d)]

\* after one direction has finished, data of the opposite direction is still delivered
OtherDirectionKeepsFlowing ==
  \A d \in Dirs :
     [](pstate[Opp(d)] = "done" => <>[](AllDelivered(d) \/ ~Quiet(d)))

\* every direction delivers everything (also before the other one finished)
EverythingDelivered ==
  \A d \in Dirs : <>[](AllDelivered(d) \/ ~Quiet(d))

\* a finished sender is eventually seen as EOF by the receiver
EOFPropagates ==
  \A d \in Dirs :
     [](side[Sender(d)] = "fin" => <>(eof[Receiver(d)] \/ side[Receiver(d)] = "closed" \/ ~Quiet(d)))

\* when both senders are finished the proxy eventually releases the connection
EventuallyReleased ==
  []((\A x \in Sides : side[x] \in {"fin", "closed"}) => <>(pclosed \/ removed))
=============================================================================
