SPECIFICATION EGenSpec
CONSTANTS
  NAddr = 2
  MaxObj = 8
  MaxOps = 4
  MaxInflight = 1
  WithReplace = TRUE
  FixRemove = TRUE
  FixAdd = TRUE
  FixFlag = TRUE
  FixMark = TRUE
  Policy = "random"
  Rise = 1
  Fall = 1
  MaxRounds = 0
  MaxConns = 8
  NoMonitor = TRUE
  MaxRefuse = 3
  MaxClose = 2
  FailedDialLeaks = FALSE
  MaxHalf = 1
  WatcherLeaves = {}
  MaxToggles = 0
  TargetLen = 14
CHECK_DEADLOCK FALSE
