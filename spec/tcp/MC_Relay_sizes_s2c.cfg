SPECIFICATION Spec
CONSTANTS
  Buf = 3
  ClassesC = {4}
  ClassesS = {0, 1, 2, 3, 4, 16}
  MaxChunksC = 1
  MaxChunksS = 3
  ShortReads = FALSE
  WithAbrupt = FALSE
  WithIdle = FALSE
  WithRemove = FALSE
  Mut = "none"
INVARIANTS TypeOK PrefixBothWays InFlightOrdered EOFAfterAllBytes ResetOnlyIfDisturbed ShutdownOnlyAtEnd
PROPERTIES NoBytesAfterEOF
CHECK_DEADLOCK FALSE
