SPECIFICATION EGenSpec
CONSTANTS
  NAddr = 2
  MaxObj = 3
  MaxOps = 2
  MaxInflight = 1
  WithReplace = TRUE
  FixRemove = FALSE
  FixAdd = FALSE
  FixFlag = FALSE
  FixMark = FALSE
  Policy = "lc"
  Rise = 1
  Fall = 1
  MaxRounds = 0
  MaxConns = 1
  NoMonitor = FALSE
  MaxRefuse = 0
  MaxClose = 0
  FailedDialLeaks = FALSE
  MaxHalf = 0
  WatcherLeaves = {}
  MaxToggles = 0
  TargetLen = 9
VIEW EGenView
INVARIANT TrapLatch
CHECK_DEADLOCK FALSE
