SPECIFICATION Spec
CONSTANTS
  Buf = 3
  ClassesC = {0, 1, 2, 3, 4, 16}
  ClassesS = {4}
  MaxChunksC = 3
  MaxChunksS = 1
  ShortReads = FALSE
  WithAbrupt = FALSE
  WithIdle = FALSE
  WithRemove = FALSE
  Mut = "none"
INVARIANTS TypeOK PrefixBothWays InFlightOrdered EOFAfterAllBytes ResetOnlyIfDisturbed ShutdownOnlyAtEnd
PROPERTIES NoBytesAfterEOF OtherDirectionKeepsFlowing EverythingDelivered EOFPropagates EventuallyReleased
CHECK_DEADLOCK FALSE
