SPECIFICATION ESpec
CONSTANTS
  NAddr = 2
  MaxObj = 3
  MaxOps = 3
  MaxInflight = 1
  WithReplace = TRUE
  FixRemove = TRUE
  FixAdd = TRUE
  FixFlag = TRUE
  FixMark = TRUE
  Policy = "rr"
  Rise = 1
  Fall = 1
  MaxRounds = 2
  MaxConns = 2
  MaxHalf = 1
  WatcherLeaves = {}
  MaxToggles = 1
INVARIANTS TypeOK ConnToUsable EstablishedClosed EView
CHECK_DEADLOCK FALSE
