SPECIFICATION EGenSpec
CONSTANTS
  NAddr = 2
  MaxObj = 2
  MaxOps = 1
  MaxInflight = 1
  WithReplace = TRUE
  FixRemove = TRUE
  FixAdd = TRUE
  FixFlag = TRUE
  FixMark = TRUE
  Policy = "lc"
  Rise = 1
  Fall = 1
  MaxRounds = 0
  MaxConns = 4
  NoMonitor = TRUE
  MaxRefuse = 2
  MaxClose = 0
  FailedDialLeaks = FALSE
  MaxHalf = 0
  WatcherLeaves = {}
  MaxToggles = 0
  TargetLen = 12
VIEW EGenView
INVARIANT TrapLeak
CHECK_DEADLOCK FALSE
