----------------------------- MODULE BalanceGen ------------------------------
(***************************************************************************)
(* Behaviour emitter for Balance: the host set steps are logged as in      *)
(* HostSetGen, the selector steps with the loaded list, the scripted       *)
(* random values and the chosen object.  Used as transition cover (VIEW    *)
(* BGenView, ACTION_CONSTRAINT BEmit): every transition of the reduced     *)
(* state graph as one path from the initial state.                         *)
(***************************************************************************)
EXTENDS Balance, HostSetGen

bgvars == <<vars, bvars, hist, finished>>
BGenView == <<vars, bvars, finished>>

BGenInit == BInit /\ hist = <<>> /\ finished = FALSE

SelStep(op, s, r1, r2) ==
  hist' = Append(hist, [op |-> op, s |-> s, r1 |-> r1, r2 |-> r2,
                        snap |-> IF op = "Load" THEN cache ELSE sel[s].snap,
                        chosen |-> IF last'.done THEN last'.chosen ELSE NoObj,
                        done |-> last'.done,
                        allowed |-> IF op = "Load" THEN Allowed ELSE sel[s].allowed,
                        noMain |-> IF op = "Load" THEN NoMainPossible ELSE sel[s].noMain,
                        emptyOK |-> IF op = "Load" THEN EmptyPossible ELSE sel[s].emptyOK,
                        idx |-> idx', cc |-> cc', win |-> {}, obs |-> Obs'])

BGenNext ==
  \/ GenNext /\ last' = NoPick /\ UNCHANGED <<idx, sel, cc, conns, rrhist, nsel, rng, crashed>>
  \/ /\ ~finished /\ UNCHANGED finished
     /\ \/ \E s \in Selectors : Load(s) /\ SelStep("Load", s, 0, 0)
        \/ \E s \in Selectors : PickRR(s) /\ SelStep("Pick", s, 0, 0)
        \/ \E s \in Selectors :
             /\ Policy = "random" /\ sel[s].pc = "loaded"
             /\ UNCHANGED <<vars, idx, rrhist, nsel, rng, crashed>>
             /\ \E r \in 0..(Len(sel[s].snap) - 1) :
                  /\ Established(s, sel[s].snap[r + 1], Rec(s, sel[s].snap[r + 1], r, NoObj, NoObj, 0, 0))
                  /\ SelStep("Pick", s, r, 0)
        \/ \E s \in Selectors :
             /\ Policy = "lc" /\ sel[s].pc = "loaded"
             /\ UNCHANGED <<vars, idx, rrhist, nsel, rng, crashed>>
             /\ \E r1 \in 0..(Len(sel[s].snap) - 1), r2 \in 0..(Len(sel[s].snap) - 1) :
                  LET h1 == sel[s].snap[r1 + 1]
                      h2 == sel[s].snap[r2 + 1]
                      o  == IF cc[h1] < cc[h2] THEN h1 ELSE h2
                  IN /\ Established(s, o, Rec(s, o, r1 * 10 + r2, h1, h2, cc[h1], cc[h2]))
                     /\ SelStep("Pick", s, r1, r2)
        \/ \E c \in conns : Finish(c) /\ SelStep("Finish", c.s, 0, 0)

BGenSpec == BGenInit /\ [][BGenNext]_bgvars

BEmit == PrintT("@@EDGE " \o ToJson(hist'))
=============================================================================
