SPECIFICATION BFairSpec
CONSTANTS
  NAddr = 2
  MaxObj = 3
  MaxOps = 3
  MaxInflight = 1
  WithReplace = FALSE
  FixRemove = TRUE
  FixAdd = TRUE
  FixFlag = TRUE
  FixMark = TRUE
  Policy = "rr"
  Selectors = {"s1", "s2"}
  MaxSel = 2
  TornDraw = FALSE
  Kinds = {"add", "remove", "existing", "replace", "mark"}
INVARIANTS BTypeOK
CHECK_DEADLOCK FALSE
PROPERTIES RemovedClosesEstablishedLive
