SPECIFICATION BGenSpec
CONSTANTS
  NAddr = 2
  MaxObj = 3
  MaxOps = 2
  MaxInflight = 1
  WithReplace = TRUE
  FixRemove = FALSE
  FixAdd = FALSE
  FixFlag = FALSE
  FixMark = FALSE
  Policy = "random"
  Selectors = {"s1", "s2"}
  MaxSel = 3
  TornDraw = FALSE
  Kinds = {"add", "remove", "existing", "replace", "mark"}
VIEW BGenView
ACTION_CONSTRAINT BEmit
CHECK_DEADLOCK FALSE
