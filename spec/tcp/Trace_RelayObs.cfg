SPECIFICATION TraceSpec
INVARIANTS NeverAhead CleanEOF RstHasCause
POSTCONDITION TraceAccepted
CHECK_DEADLOCK FALSE
