SPECIFICATION BSpec
CONSTANTS
  NAddr = 3
  MaxObj = 3
  MaxOps = 3
  MaxInflight = 1
  WithReplace = FALSE
  FixRemove = TRUE
  FixAdd = TRUE
  FixFlag = TRUE
  FixMark = TRUE
  Policy = "rr"
  Selectors = {"s1", "s2"}
  MaxSel = 6
  TornDraw = FALSE
  Kinds = {"add"}
INVARIANTS BTypeOK NoCrash SelectedWasUsable BackupOnlyIfNoMain RandomInCandidates LCNotBusier RRFair EstablishedClosable
CHECK_DEADLOCK FALSE
