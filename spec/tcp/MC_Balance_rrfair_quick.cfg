SPECIFICATION BSpec
CONSTANTS
  NAddr = 2
  MaxObj = 2
  MaxOps = 2
  MaxInflight = 1
  WithReplace = FALSE
  FixRemove = TRUE
  FixAdd = TRUE
  FixFlag = TRUE
  FixMark = TRUE
  Policy = "rr"
  Selectors = {"s1", "s2", "s3"}
  MaxSel = 4
  TornDraw = FALSE
  Kinds = {"add"}
INVARIANTS BTypeOK NoCrash SelectedWasUsable BackupOnlyIfNoMain RandomInCandidates LCNotBusier RRFair EstablishedClosable
CHECK_DEADLOCK FALSE
