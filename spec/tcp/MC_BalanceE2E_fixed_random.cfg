SPECIFICATION ESpec
CONSTANTS
  NAddr = 2
  MaxObj = 3
  MaxOps = 3
  MaxInflight = 1
  WithReplace = TRUE
  FixRemove = TRUE
  FixAdd = TRUE
  FixFlag = TRUE
  FixMark = TRUE
  Policy = "random"
  Rise = 1
  Fall = 1
  MaxRounds = 2
  MaxConns = 2
  NoMonitor = FALSE
  MaxRefuse = 0
  MaxClose = 0
  FailedDialLeaks = FALSE
  MaxHalf = 1
  WatcherLeaves = {}
  MaxToggles = 1
INVARIANTS TypeOK ConnToUsable EstablishedClosed EView CountsAreRealConnections LCNotBusierReal
CHECK_DEADLOCK FALSE
