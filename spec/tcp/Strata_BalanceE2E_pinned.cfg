SPECIFICATION EGenSpec
CONSTANTS
  NAddr = 2
  MaxObj = 3
  MaxOps = 3
  MaxInflight = 1
  WithReplace = TRUE
  FixRemove = FALSE
  FixAdd = FALSE
  FixFlag = FALSE
  FixMark = FALSE
  Policy = "rr"
  Rise = 1
  Fall = 1
  MaxRounds = 0
  MaxConns = 1
  NoMonitor = FALSE
  MaxRefuse = 0
  MaxClose = 0
  FailedDialLeaks = FALSE
  MaxHalf = 1
  WatcherLeaves = {}
  MaxToggles = 0
  TargetLen = 9
VIEW EGenView
ACTION_CONSTRAINT StrataEmit
CHECK_DEADLOCK FALSE
