SPECIFICATION Spec
CONSTANTS
  Buf = 2
  ClassesC = {1, 3}
  ClassesS = {1, 3}
  MaxChunksC = 1
  MaxChunksS = 1
  ShortReads = TRUE
  WithAbrupt = TRUE
  WithIdle = TRUE
  WithRemove = TRUE
  Mut = "none"
INVARIANTS TypeOK PrefixBothWays InFlightOrdered EOFAfterAllBytes ResetOnlyIfDisturbed ShutdownOnlyAtEnd
PROPERTIES NoBytesAfterEOF
CHECK_DEADLOCK FALSE
