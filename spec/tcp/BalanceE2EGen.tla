---------------------------- MODULE BalanceE2EGen ----------------------------
(***************************************************************************)
(* Behaviour emitter for BalanceE2E (simulation): a behaviour is printed   *)
(* once it has TargetLen steps.  Every step carries what the harness needs *)
(* to drive the real TCP processor (operation, arguments) and the oracle:  *)
(*   Conn:  allowed = addresses the property allows for this connection    *)
(*          (variant independent), chosen = address the model's variant    *)
(*          picks (exact for round-robin), est = the relay stays up        *)
(*   ops:   must = relays that must be closed after the step (property),   *)
(*          closed = relays the model's variant closes                     *)
(***************************************************************************)
EXTENDS BalanceE2E, HostSetGen

CONSTANT TargetLen

VARIABLE kind   \* simulation only: the kind of the next step, chosen first so that every kind is equally likely
egvars == <<vars, evars, hist, finished, kind>>

EGenInit == EInit /\ hist = <<>> /\ finished = FALSE /\ kind = ""

ConnInfo(cs) == {[id |-> c.id, a |-> oaddr[c.o], st |-> c.st, how |-> IF all[oaddr[c.o]] = c.o THEN "stored" ELSE "displaced"] : c \in cs}
Ids(cs) == {c.id : c \in cs}
AddrsOf(os) == {oaddr'[o] : o \in os}
OpenAfter == {[id |-> c.id, a |-> oaddr'[c.o], st |-> c.st] : c \in econns'}
Members2 == [a \in Addrs |-> IF all'[a] = NoObj THEN "none" ELSE otype'[all'[a]]]

\* counts the processor should hold per object (model) and real relays per address after the step
RealPerAddr == [a \in Addrs |-> Cardinality({c \in econns' : oaddr'[c.o] = a})]
EStep(rec) == hist' = Append(hist, rec @@ [obs |-> Obs', open |-> OpenAfter, members |-> Members2,
                                            up |-> up', snapAddrs |-> AddrsOf(snap'), idx |-> idx',
                                            cnt |-> cnt', realPerAddr |-> RealPerAddr, refusingAll |-> ref'])

\* objects of the round for which a MarkHost* call went through its CAS although they are no
\* longer the stored object of their address
StaleMarked == {o \in StaleInRound : flag'[o] # flag[o]}

KindEnabled(k) ==
  CASE k = "op"     -> nops < MaxOps /\ nobj < MaxObj
    [] k = "conn"   -> nconn < MaxConns
    [] k = "round"  -> snap # {} /\ nround < MaxRounds
    [] k = "toggle" -> ntog < MaxToggles
    [] k = "half"   -> nhalf < MaxHalf /\ \E c \in econns : c.st = "open"
    [] k = "refuse" -> nref < MaxRefuse
    [] k = "close"  -> nclose < MaxClose /\ econns # {}

ChooseKind ==
  /\ ~finished /\ kind = "" /\ Len(hist) < TargetLen
  /\ \E k \in {"op", "conn", "round", "toggle", "half", "refuse", "close"} : KindEnabled(k) /\ kind' = k
  /\ UNCHANGED <<vars, evars, hist, finished>>

EGenNext ==
  /\ ~finished /\ Len(hist) < TargetLen /\ UNCHANGED finished
  /\ kind # "" /\ kind' = ""
  /\ \/ \E a \in Addrs, t \in Types :
          /\ kind = "op"
          /\ EAdd(a, t)
          /\ EStep([op |-> "Add", a |-> a, t |-> t, f |-> NoF, win |-> AddWin(NoObj, a, t, TRUE),
                    must |-> ConnInfo(elast'.must), closed |-> Ids(elast'.closed), closedInfo |-> ConnInfo(elast'.closed)])
     \/ \E a \in Addrs, t \in Types :
          /\ kind = "op"
          /\ ERemove(a, t)
          /\ EStep([op |-> "Remove", a |-> a, t |-> t, f |-> NoF, win |-> RemoveWin(a, t, NoObj),
                    must |-> ConnInfo(elast'.must), closed |-> Ids(elast'.closed), closedInfo |-> ConnInfo(elast'.closed)])
     \/ \E f \in ReplaceArgs :
          /\ kind = "op" /\ (\E a \in Addrs : f[a] # "none")
          /\ EReplace(f)
          /\ EStep([op |-> "ReplaceAll", a |-> 0, t |-> "", f |-> f, win |-> {"replace-all"},
                    must |-> ConnInfo(elast'.must), closed |-> Ids(elast'.closed), closedInfo |-> ConnInfo(elast'.closed)])
     \/ \E a \in Addrs : kind = "toggle" /\ Toggle(a) /\ EStep([op |-> "Toggle", a |-> a, win |-> {}])
     \/ kind = "round" /\ Round /\ EStep([op |-> "Round", win |-> IF StaleMarked = {} THEN {} ELSE {"stale-object-mark"},
                        stale |-> {oaddr[o] : o \in StaleMarked}, probed |-> {oaddr[o] : o \in snap},
                        closed |-> Ids(elast'.closed)])
     \/ \E c \in econns, side \in {"chc", "bhc"} :
          kind = "half" /\ HalfClose(c, side) /\ EStep([op |-> "HalfClose", id |-> c.id, side |-> side, a |-> oaddr[c.o], win |-> {}])
     \/ \E a \in Addrs : kind = "refuse" /\ SwitchRefuse(a) /\ EStep([op |-> "Refuse", a |-> a, refusing |-> ref'[a], win |-> {}])
     \/ \E c \in econns : kind = "close" /\ CloseConn(c) /\ EStep([op |-> "CloseConn", id |-> c.id, a |-> oaddr[c.o], win |-> {}])
     \/ kind = "conn" /\ Conn /\ EStep([op |-> "Conn", id |-> elast'.id, win |-> {},
                       chosen |-> IF elast'.chosen = NoObj THEN 0 ELSE oaddr[elast'.chosen],
                       chosenObj |-> elast'.chosen, est |-> elast'.est, refused |-> elast'.refused,
                       r1 |-> elast'.r1, r2 |-> elast'.r2,
                       h1a |-> IF elast'.h1 = NoObj THEN 0 ELSE oaddr[elast'.h1],
                       h2a |-> IF elast'.h2 = NoObj THEN 0 ELSE oaddr[elast'.h2],
                       rc1 |-> elast'.rc1, rc2 |-> elast'.rc2,
                       allowed |-> {oaddr[o] : o \in elast'.allowed}])

EFinish ==
  /\ ~finished /\ Len(hist) >= TargetLen
  /\ PrintT("@@BEH " \o ToJson(hist))
  /\ finished' = TRUE
  /\ UNCHANGED <<vars, evars, hist, kind>>

\* directed behaviours: exhaustive search (VIEW EGenView) with a trap invariant; the shortest
\* behaviour into the window is printed and TLC stops with the (expected) violation
EGenView == <<vars, evars, finished, kind>>
Trapped == PrintT("@@TRAP " \o ToJson(hist)) /\ FALSE
\* a relay has to be closed because its host was removed
TrapLatch == ~(elast.kind = "op" /\ elast.must # {}) \/ Trapped
\* a connection arrives after a round delivered a mark with a replaced / removed object
TrapStaleMark ==
  ~(elast.kind = "conn" /\ \E i \in 1..Len(hist) : hist[i].op = "Round" /\ hist[i].stale # {}) \/ Trapped

\* mandatory strata: every transition that removes the host of an established relay (or removes
\* an address after an Add displaced the object a relay was established through) is printed with
\* its path; the check takes the shortest path per (half-close state, operation, stored/displaced)
StratumHit ==
  /\ elast'.kind = "op"
  /\ \/ elast'.must # {}
     \/ Leaving # {} /\ \E i \in 1..Len(hist) : hist[i].op = "Add" /\ hist[i].closedInfo # {}
StrataEmit == StratumHit => PrintT("@@STRATUM " \o ToJson(hist'))

\* a connection under least-connection whose two samples are a host that refused at least two
\* dials earlier (and accepts again) and another host with strictly more real relays
FailedDials(a) == Cardinality({i \in 1..Len(hist) : hist[i].op = "Conn" /\ hist[i].refused /\ hist[i].chosen = a})
TrapLeak ==
  ~(/\ elast.kind = "conn" /\ elast.est /\ elast.h1 # elast.h2
    /\ \E x \in {elast.h1, elast.h2} :
         /\ FailedDials(oaddr[x]) >= 2 /\ elast.chosen = x
         /\ (IF x = elast.h1 THEN elast.rc1 < elast.rc2 ELSE elast.rc2 < elast.rc1)) \/ Trapped

EGenSpec == EGenInit /\ [][ChooseKind \/ EGenNext \/ EFinish]_egvars
=============================================================================
