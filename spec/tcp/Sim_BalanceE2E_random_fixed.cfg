SPECIFICATION EGenSpec
CONSTANTS
  NAddr = 2
  MaxObj = 8
  MaxOps = 5
  MaxInflight = 1
  WithReplace = TRUE
  FixRemove = TRUE
  FixAdd = TRUE
  FixFlag = TRUE
  FixMark = TRUE
  Policy = "random"
  Rise = 1
  Fall = 1
  MaxRounds = 5
  MaxConns = 6
  NoMonitor = FALSE
  MaxRefuse = 0
  MaxClose = 2
  FailedDialLeaks = FALSE
  MaxHalf = 2
  WatcherLeaves = {}
  MaxToggles = 2
  TargetLen = 14
CHECK_DEADLOCK FALSE
