------------------------------ MODULE RelayGen ------------------------------
(***************************************************************************)
(* Behaviour emitter for Relay: the same actions plus a history variable   *)
(* with the events visible at the two sides, in the order of the model:    *)
(*   send(x, n)  fin(x)  close(x, abrupt)     actions of side x            *)
(*   recv(x, upto)  eof(x)  rst(x)            observations of side x       *)
(*     (recv is logged when x has caught up with everything sent so far)   *)
(*   idle(d)  remove                          environment of the proxy     *)
(* The harness executes the actions in this order on real sockets and      *)
(* waits for the observations where the behaviour has them.  Finish prints *)
(* the behaviour (one JSON line) when nothing can happen any more.         *)
(***************************************************************************)
EXTENDS Relay, Json, TLC

VARIABLES hist, finished

gvars == <<vars, hist, finished>>

Ev(e, x, n) == [e |-> e, x |-> x, n |-> n]

GenInit == Init /\ hist = <<>> /\ finished = FALSE

Log(ev) == hist' = Append(hist, ev)

GenSide(x) ==
  \/ \E n \in ClassesOf(x) : SideSend(x, n) /\ Log(Ev("send", x, n))
  \/ SideFin(x) /\ Log(Ev("fin", x, 0))
  \/ SideClose(x) /\ Log(Ev("close", x, IF abrupt'[x] THEN 1 ELSE 0))
  \/ RstPurge(x) /\ UNCHANGED hist
  \/ SeeEOF(x) /\ Log(Ev("eof", x, Len(rcvd[x])))
  \/ SeeReset(x) /\ Log(Ev("rst", x, Len(rcvd[x])))

GenProxy ==
  \/ \E d \in Dirs :
        \/ ProxyRead(d) /\ UNCHANGED hist
        \/ ProxyReadEnd(d) /\ UNCHANGED hist
        \/ IdleTimeout(d) /\ Log(Ev("idle", Sender(d), 0))
        \/ /\ ProxyWrite(d)
           /\ IF rcvd'[Receiver(d)] # rcvd[Receiver(d)] /\ Len(rcvd'[Receiver(d)]) = sent[Sender(d)]
                THEN Log(Ev("recv", Receiver(d), Len(rcvd'[Receiver(d)])))
                ELSE UNCHANGED hist
        \/ ProxyShutdown(d) /\ UNCHANGED hist
  \/ ProxyCloseAll /\ UNCHANGED hist
  \/ HostRemoved /\ Log(Ev("remove", "", 0))

Finish ==
  /\ ~finished
  /\ ~ENABLED Next
  /\ PrintT("@@BEH " \o ToJson(hist))
  /\ finished' = TRUE
  /\ UNCHANGED <<vars, hist>>

GenNext ==
  /\ ~finished
  /\ (\E x \in Sides : GenSide(x)) \/ GenProxy
  /\ UNCHANGED finished

GenSpec == GenInit /\ [][GenNext \/ Finish]_gvars
=============================================================================
