------------------------------- MODULE RelayObs -------------------------------
(***************************************************************************)
(* Property-level (observational) specification of one relayed TCP         *)
(* connection as seen by the two sides (property C05).  x ranges over the  *)
(* sides "client" and "backend"; the peer of x receives what x sends.      *)
(*                                                                         *)
(* Events                                                                  *)
(*   Send(x, n)        x is about to write n bytes (logged before the write)*)
(*   Fin(x)            x is about to shut down its writing half            *)
(*   Close(x)          x is about to close; abrupt iff x has not seen EOF  *)
(*   Recv(x, from, to) x has read stream offsets [from, to) and every byte *)
(*                     had the value the peer's stream has at that offset  *)
(*   Eof(x) / Rst(x)   x has seen end of stream / a connection reset       *)
(*   Idle(x)           environment: x has written nothing for longer than  *)
(*                     the idle timeout of the proxy                       *)
(*   Remove            environment: the backend host was removed           *)
(*   EndOK             the run is over (generous deadline passed)          *)
(*                                                                         *)
(*   PrefixBothWays    Recv ranges are contiguous from 0 and never pass    *)
(*                     what the peer has sent                              *)
(*   NoBytesAfterEOF   no Recv after Eof/Rst                               *)
(*   EOFAfterAllBytes  Eof(x) only when the peer has finished and x has    *)
(*                     received everything (unless the peer closed         *)
(*                     abruptly, idled out, or the host was removed)       *)
(*   OtherDirectionKeepsFlowing  at the end every undisturbed direction    *)
(*                     has delivered everything, whatever the order of the *)
(*                     half-closes was, and finished senders were seen     *)
(***************************************************************************)
EXTENDS Naturals

VARIABLES sent,     \* sent[x]: bytes x has (started to) send
          got,      \* got[x] : bytes x has received and verified
          st,       \* st[x]  : "open" | "fin" | "closed"
          eof, rst, \* x has seen EOF / reset
          abrupt,   \* x closed before it had seen EOF
          idle,     \* x was silent for longer than the idle timeout
          removed   \* the host was removed

ovars == <<sent, got, st, eof, rst, abrupt, idle, removed>>

Sides == {"client", "backend"}
Peer(x) == IF x = "client" THEN "backend" ELSE "client"

ObsInit ==
  /\ sent = [x \in Sides |-> 0]
  /\ got = [x \in Sides |-> 0]
  /\ st = [x \in Sides |-> "open"]
  /\ eof = [x \in Sides |-> FALSE]
  /\ rst = [x \in Sides |-> FALSE]
  /\ abrupt = [x \in Sides |-> FALSE]
  /\ idle = [x \in Sides |-> FALSE]
  /\ removed = FALSE

Send(x, n) ==
  /\ st[x] = "open"
  /\ sent' = [sent EXCEPT ![x] = @ + n]
  /\ UNCHANGED <<got, st, eof, rst, abrupt, idle, removed>>

Fin(x) ==
  /\ st[x] = "open"
  /\ st' = [st EXCEPT ![x] = "fin"]
  /\ UNCHANGED <<sent, got, eof, rst, abrupt, idle, removed>>

Close(x) ==
  /\ st[x] \in {"open", "fin"}
  /\ st' = [st EXCEPT ![x] = "closed"]
  /\ abrupt' = [abrupt EXCEPT ![x] = ~eof[x] /\ ~rst[x]]
  /\ UNCHANGED <<sent, got, eof, rst, idle, removed>>

\* what cuts the stream towards x short legitimately
EarlyEndAllowed(x) == idle[Peer(x)] \/ removed \/ abrupt[Peer(x)]

Recv(x, from, to) ==
  /\ ~eof[x]                               \* NoBytesAfterEOF (a reset seen by a write does not end the reading)
  /\ from = got[x] /\ to > from            \* in order, no gap, no duplicate
  /\ to <= sent[Peer(x)]                   \* nothing added
  /\ got' = [got EXCEPT ![x] = to]
  /\ UNCHANGED <<sent, st, eof, rst, abrupt, idle, removed>>

Eof(x) ==
  /\ ~eof[x] /\ ~rst[x]
  /\ \/ EarlyEndAllowed(x)
     \/ st[Peer(x)] \in {"fin", "closed"} /\ got[x] = sent[Peer(x)]   \* EOFAfterAllBytes
  /\ eof' = [eof EXCEPT ![x] = TRUE]
  /\ UNCHANGED <<sent, got, st, rst, abrupt, idle, removed>>

Rst(x) ==
  /\ ~rst[x]
  /\ (removed \/ abrupt[Peer(x)] \/ idle[x] \/ idle[Peer(x)])
  /\ rst' = [rst EXCEPT ![x] = TRUE]
  /\ UNCHANGED <<sent, got, st, eof, abrupt, idle, removed>>

Idle(x) ==
  /\ st[x] = "open"
  /\ idle' = [idle EXCEPT ![x] = TRUE]
  /\ UNCHANGED <<sent, got, st, eof, rst, abrupt, removed>>

Remove ==
  /\ removed' = TRUE
  /\ UNCHANGED <<sent, got, st, eof, rst, abrupt, idle>>

\* direction x -> Peer(x) has not been disturbed by the environment
Quiet(x) ==
  /\ ~idle[x] /\ ~removed
  /\ ~abrupt[x] /\ ~abrupt[Peer(x)]
  /\ ~rst[x] /\ ~rst[Peer(x)]

\* at the end of a run (all waiting done)
EndOK ==
  \A x \in Sides :
     LET y == Peer(x) IN
     st[y] # "closed" =>
        IF Quiet(x)
          THEN /\ got[y] = sent[x]                      \* everything was delivered
               /\ st[x] # "open" => eof[y]              \* and the end of stream too
          ELSE (abrupt[x] \/ removed \/ idle[x]) => (eof[y] \/ rst[y])

ObsNext ==
  \/ \E x \in Sides :
        \/ \E n \in 0..2 : Send(x, n)
        \/ Fin(x) \/ Close(x) \/ Eof(x) \/ Rst(x) \/ Idle(x)
        \/ \E t \in (got[x] + 1)..sent[Peer(x)] : Recv(x, got[x], t)
  \/ Remove

ObsSpec == ObsInit /\ [][ObsNext]_ovars

\* invariants (hold by construction; evaluated on every state of a validated trace)
NeverAhead == \A x \in Sides : got[x] <= sent[Peer(x)]
CleanEOF ==
  \A x \in Sides :
     (eof[x] /\ ~EarlyEndAllowed(x)) => (st[Peer(x)] # "open" /\ got[x] = sent[Peer(x)])
RstHasCause ==
  \A x \in Sides : rst[x] => (removed \/ abrupt[Peer(x)] \/ idle[x] \/ idle[Peer(x)])
Bound == \A x \in Sides : sent[x] <= 3
=============================================================================
