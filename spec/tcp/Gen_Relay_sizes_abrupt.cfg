SPECIFICATION GenSpec
CONSTANTS
  Buf = 3
  ClassesC = {0, 1, 2, 3, 4, 16}
  ClassesS = {0, 1, 2, 3, 4, 16}
  MaxChunksC = 3
  MaxChunksS = 3
  ShortReads = FALSE
  WithAbrupt = TRUE
  WithIdle = FALSE
  WithRemove = FALSE
  Mut = "none"
CHECK_DEADLOCK FALSE
