---------------------------- MODULE RelayObsTrace ----------------------------
(* Trace specification: a recorded trace (trace.json, an array) must be a     *)
(* behaviour of RelayObs.  The trace is a concatenation of per-connection     *)
(* traces (connections are independent in RelayObs); every connection ends    *)
(* with an "end" event that checks EndOK and starts the next connection.      *)
EXTENDS RelayObs, Sequences, Json, TLC, TLCExt

TraceLog == TLCEval(JsonDeserialize("trace.json"))   \* TLCEval: evaluated once and cached

VARIABLE l
tvars == <<ovars, l>>

TraceInit == ObsInit /\ l = 1

Reset ==
  /\ sent' = [x \in Sides |-> 0]
  /\ got' = [x \in Sides |-> 0]
  /\ st' = [x \in Sides |-> "open"]
  /\ eof' = [x \in Sides |-> FALSE]
  /\ rst' = [x \in Sides |-> FALSE]
  /\ abrupt' = [x \in Sides |-> FALSE]
  /\ idle' = [x \in Sides |-> FALSE]
  /\ removed' = FALSE

TraceNext ==
  /\ l <= Len(TraceLog)
  /\ LET e == TraceLog[l] IN
       \/ e.ev = "send" /\ Send(e.x, e.n)
       \/ e.ev = "fin" /\ Fin(e.x)
       \/ e.ev = "close" /\ Close(e.x)
       \/ e.ev = "recv" /\ Recv(e.x, e.from, e.to)
       \/ e.ev = "eof" /\ Eof(e.x)
       \/ e.ev = "rst" /\ Rst(e.x)
       \/ e.ev = "idle" /\ Idle(e.x)
       \/ e.ev = "remove" /\ Remove
       \/ e.ev = "end" /\ EndOK /\ Reset
  /\ l' = l + 1

TraceSpec == TraceInit /\ [][TraceNext]_tvars

TraceAccepted ==
  LET d == TLCGet("stats").diameter IN
  IF d - 1 = Len(TraceLog) THEN TRUE
  ELSE Print(<<"@@REJECT", d, IF d <= Len(TraceLog) THEN TraceLog[d] ELSE "end">>, FALSE)
=============================================================================
