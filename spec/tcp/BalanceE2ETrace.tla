--------------------------- MODULE BalanceE2ETrace ---------------------------
(***************************************************************************)
(* Trace specification (code -> spec) for the end-to-end runs of C06: the  *)
(* recorded events (trace.json) - host operations as delivered to the real *)
(* TCP processor, monitor rounds as released by the scripted backends,     *)
(* client connections with the backend that received them and whether the  *)
(* client got its answer, and after every step the client connections      *)
(* observed closed so far - must be a behaviour of BalanceE2E (the chosen  *)
(* backend of every connection must be one the model's usable list holds;  *)
(* Policy = "random" in the configuration leaves the position free, the    *)
(* exact round-robin position is compared by the check itself), and TLC    *)
(* judges every event by the property: ConnToUsable on the observed        *)
(* backend, EstablishedClosed on the observed closures.  Verdicts are      *)
(* collected in `bad` and printed at the end; {"op":"Reset"} separates     *)
(* behaviours.                                                             *)
(***************************************************************************)
EXTENDS BalanceE2E, Json, TLCExt

TraceLog == TLCEval(JsonDeserialize("trace.json"))

VARIABLES l, bad
tvars == <<vars, evars, l, bad>>

TraceInit == EInit /\ l = 1 /\ bad = <<>>

Reset ==
  /\ nobj' = 0
  /\ oaddr' = [o \in Objs |-> 0] /\ otype' = [o \in Objs |-> "none"]
  /\ flag' = [o \in Objs |-> TRUE] /\ removed' = [o \in Objs |-> FALSE]
  /\ all' = [a \in Addrs |-> NoObj] /\ hmain' = [a \in Addrs |-> NoObj] /\ hbackup' = [a \in Addrs |-> NoObj]
  /\ cache' = <<>> /\ inflight' = {} /\ nops' = 0
  /\ carried' = [a \in Addrs |-> {}] /\ owed' = {}
  /\ up' = [a \in Addrs |-> TRUE] /\ snap' = {}
  /\ succ' = [o \in Objs |-> 0] /\ fail' = [o \in Objs |-> 0]
  /\ idx' = 0 /\ econns' = {} /\ nconn' = 0 /\ nround' = 0 /\ ntog' = 0 /\ nhalf' = 0
  /\ ref' = [a \in Addrs |-> FALSE] /\ cnt' = [o \in Objs |-> 0] /\ nref' = 0 /\ nclose' = 0
  /\ elast' = NoE

SeqSet(s) == {s[i] : i \in 1..Len(s)}

ConnVerdict(e) ==
  \* black box: a host is its address
  IF /\ elast'.chosen # NoObj => oaddr[elast'.chosen] \in {oaddr[o] : o \in elast'.allowed} /\ (e.established \/ elast'.refused)
     /\ elast'.chosen = NoObj => elast'.allowed = {}
  THEN {} ELSE {"ConnToUsable"}

\* the relays that must be closed are taken from the harness' own bookkeeping of the real
\* connections (e.open: <<id, backend>> of the client connections open before the step) and the
\* model's membership: a real relay to an address that leaves the set in this step
OpVerdict(e) ==
  IF {q[1] : q \in {x \in SeqSet(e.open) : x[2] \in Leaving}} \subseteq SeqSet(e.closedsofar)
  THEN {} ELSE {"EstablishedClosed"}

\* the connection counts read from the real host objects (e.counts: per address, summed over the
\* objects of that address) equal the relays that exist
CountVerdict(e) ==
  IF \A a \in Addrs : e.counts[a] = Cardinality({c \in econns' : oaddr'[c.o] = a})
  THEN {} ELSE {"CountsAreRealConnections"}

Note(v) == bad' = IF v = {} THEN bad ELSE Append(bad, [i |-> l, inv |-> v])

TraceNext ==
  /\ l <= Len(TraceLog)
  /\ LET e == TraceLog[l] IN
       \/ e.op = "Reset" /\ Reset /\ bad' = bad
       \/ e.op = "Add" /\ EAdd(e.a, e.t) /\ Note(OpVerdict(e) \cup CountVerdict(e))
       \/ e.op = "Remove" /\ ERemove(e.a, e.t) /\ Note(OpVerdict(e) \cup CountVerdict(e))
       \/ e.op = "ReplaceAll" /\ EReplace([a \in Addrs |-> e.f[a]]) /\ Note(OpVerdict(e) \cup CountVerdict(e))
       \/ e.op = "Toggle" /\ Toggle(e.a) /\ bad' = bad
       \/ e.op = "Round" /\ Round /\ bad' = bad
       \/ e.op = "Refuse" /\ SwitchRefuse(e.a) /\ bad' = bad
       \/ e.op = "CloseConn" /\ (\E c \in econns : c.id = e.id /\ CloseConn(c)) /\ Note(CountVerdict(e))
       \/ e.op = "HalfClose" /\ (\E c \in econns : c.id = e.id /\ HalfClose(c, e.side)) /\ bad' = bad
       \/ /\ e.op = "Conn" /\ Conn
          /\ IF elast'.chosen = NoObj \/ elast'.refused THEN e.backend = 0 ELSE oaddr[elast'.chosen] = e.backend
          /\ Note(ConnVerdict(e) \cup CountVerdict(e))
  /\ l' = l + 1

TraceSpec == TraceInit /\ [][TraceNext]_tvars

TraceAccepted ==
  LET d == TLCGet("stats").diameter IN
  IF d - 1 = Len(TraceLog) THEN TRUE
  ELSE Print(<<"@@REJECT", d, IF d <= Len(TraceLog) THEN TraceLog[d] ELSE "end">>, FALSE)

PrintBad == l <= Len(TraceLog) \/ PrintT("@@BAD " \o ToJson(bad))
=============================================================================
