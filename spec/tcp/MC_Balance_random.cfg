SPECIFICATION BSpec
CONSTANTS
  NAddr = 2
  MaxObj = 4
  MaxOps = 3
  MaxInflight = 1
  WithReplace = TRUE
  FixRemove = TRUE
  FixAdd = TRUE
  FixFlag = TRUE
  FixMark = TRUE
  Policy = "random"
  Selectors = {"s1", "s2"}
  MaxSel = 2
  TornDraw = FALSE
  Kinds = {"add", "remove", "existing", "replace", "mark"}
INVARIANTS BTypeOK NoCrash SelectedWasUsable BackupOnlyIfNoMain RandomInCandidates LCNotBusier RRFair EstablishedClosable
CHECK_DEADLOCK FALSE
