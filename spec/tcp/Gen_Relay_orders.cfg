SPECIFICATION GenSpec
CONSTANTS
  Buf = 3
  ClassesC = {4}
  ClassesS = {4}
  MaxChunksC = 1
  MaxChunksS = 1
  ShortReads = FALSE
  WithAbrupt = FALSE
  WithIdle = FALSE
  WithRemove = FALSE
  Mut = "none"
CHECK_DEADLOCK FALSE
