SPECIFICATION ObsSpec
INVARIANTS NeverAhead CleanEOF RstHasCause
CONSTRAINT Bound
CHECK_DEADLOCK FALSE
