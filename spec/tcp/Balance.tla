------------------------------- MODULE Balance -------------------------------
(***************************************************************************)
(* Host selection of the TCP processor (/repo/proc/tcp/proc.go:96-145)     *)
(* over the host set (spec/host/HostSet.tla) with the three balancing      *)
(* policies of /repo/proc/internal/lb/lb.go.                               *)
(*                                                                         *)
(* A selector is one HandleConn goroutine (one accepted connection):       *)
(*   Load      healthyHosts := hostSet.Healthy()       proc.go:100         *)
(*             - one atomic load of the published slice: the linearization *)
(*             point of the selection; an empty slice ends the connection  *)
(*             ("No available host", the client sees its connection closed)*)
(*   Pick      host := lb.PickHost(healthyHosts)       proc.go:106         *)
(*             round-robin: hosts[index.Inc() % n]     lb.go:65-70         *)
(*             random:      hosts[randInt() % n]       lb.go:86-91         *)
(*             least-conn:  two samples, the first one if its connection   *)
(*                          count is strictly smaller, else the second     *)
(*                          lb.go:103-113                                  *)
(*             followed by dial + IncConnCount         proc.go:107-116     *)
(*   Finish    the relay ends (either side closed, or the watcher closed   *)
(*             both sides because the host's removal latch was closed,     *)
(*             proc.go:126-137): DecConnCount                              *)
(* Selectors run concurrently with each other and with every operation on  *)
(* the host set.  Ghosts: `last` is the record of the selection completed  *)
(* by the latest step (the per-selection invariants are checked in every   *)
(* state, hence for every selection); `rrhist` is the history of the       *)
(* round-robin selections (list, chosen host) in index order.             *)
(***************************************************************************)
EXTENDS HostSet

CONSTANTS Policy,      \* "rr" | "random" | "lc"
          Selectors,   \* concurrent HandleConn goroutines
          MaxSel,      \* selections per behaviour
          TornDraw,    \* TRUE: variant "the random source is drawn from in two steps shared by all selectors
                       \* without a lock" (an unsynchronised *rand.Rand); FALSE: a draw is atomic (the locked
                       \* global source of math/rand, lb.go randInt)
          Kinds        \* which host set operations take part: subset of
                       \* {"add", "remove", "existing", "replace", "mark"}

VARIABLES idx,      \* roundRobinBalancer.index
          sel,      \* per selector: pc, the loaded slice, ghosts taken at the load
          cc,       \* per object: active connections (Stats.connActive)
          conns,    \* established relays: records [s, o]
          rng,      \* state of the shared random source: "idle" | "mid" (a draw is half done)
          crashed,  \* a selector drew from the source while another draw was half done: torn state, the
                    \* index runs out of range and PickHost panics (HandleConn has no recover)
          last,     \* ghost: the selection completed by the latest step (or NoPick)
          rrhist,   \* ghost: round-robin selections in index order: [snap, chosen]
          nsel

bvars == <<idx, sel, cc, conns, last, rrhist, nsel, rng, crashed>>
allvars == <<vars, bvars>>

Idle == [pc |-> "idle", snap |-> <<>>, allowed |-> {}, noMain |-> FALSE, emptyOK |-> FALSE]
NoPick == [done |-> FALSE]

\* ghosts evaluated at the load: what the property allows to be selected in this state
Allowed == UNION {UsableWith(S) : S \in SUBSET InflightObjs}
NoMainPossible ==
  \E S \in SUBSET InflightObjs :
    ~ \E a \in Members : otype[all[a]] = "main" /\ (IF all[a] \in S THEN ~flag[all[a]] ELSE flag[all[a]])
EmptyPossible == \E S \in SUBSET InflightObjs : UsableWith(S) = {}

BInit ==
  /\ Init
  /\ idx = 0 /\ sel = [s \in Selectors |-> Idle] /\ cc = [o \in Objs |-> 0]
  /\ conns = {} /\ last = NoPick /\ rrhist = <<>> /\ nsel = 0 /\ rng = "idle" /\ crashed = FALSE

Load(s) ==
  /\ sel[s].pc = "idle" /\ nsel < MaxSel /\ \A c \in conns : c.s # s
  /\ nsel' = nsel + 1
  /\ IF cache = <<>>
     THEN /\ last' = [done |-> TRUE, chosen |-> NoObj, snap |-> <<>>, v |-> 0, h1 |-> NoObj, h2 |-> NoObj,
                       c1 |-> 0, c2 |-> 0, allowed |-> Allowed, noMain |-> NoMainPossible,
                       emptyOK |-> EmptyPossible]
          /\ UNCHANGED sel
     ELSE /\ sel' = [sel EXCEPT ![s] = [pc |-> "loaded", snap |-> cache, allowed |-> Allowed,
                                        noMain |-> NoMainPossible, emptyOK |-> EmptyPossible]]
          /\ last' = NoPick
  /\ UNCHANGED <<vars, idx, cc, conns, rrhist, rng, crashed>>

Established(s, o, rec) ==
  /\ last' = rec
  /\ cc' = [cc EXCEPT ![o] = @ + 1]
  /\ conns' = conns \cup {[s |-> s, o |-> o]}
  /\ sel' = [sel EXCEPT ![s] = Idle]

Rec(s, o, v, h1, h2, c1, c2) ==
  [done |-> TRUE, chosen |-> o, snap |-> sel[s].snap, v |-> v, h1 |-> h1, h2 |-> h2, c1 |-> c1, c2 |-> c2,
   allowed |-> sel[s].allowed, noMain |-> sel[s].noMain, emptyOK |-> sel[s].emptyOK]

PickRR(s) ==
  /\ Policy = "rr" /\ sel[s].pc = "loaded"
  /\ LET snap == sel[s].snap
         v == idx + 1
         o == snap[(v % Len(snap)) + 1]
     IN /\ idx' = v
        /\ rrhist' = Append(rrhist, [snap |-> snap, chosen |-> o, v |-> v])
        /\ Established(s, o, Rec(s, o, v, NoObj, NoObj, 0, 0))
  /\ UNCHANGED <<vars, nsel, rng, crashed>>

\* pcw: the pc at which the pick happens: "loaded" with an atomic draw, "drawing" with the torn variant
PickRandomAt(s, pcw) ==
  /\ Policy = "random" /\ sel[s].pc = pcw
  /\ \E r \in 0..(Len(sel[s].snap) - 1) :
       LET o == sel[s].snap[r + 1] IN Established(s, o, Rec(s, o, r, NoObj, NoObj, 0, 0))
  /\ UNCHANGED <<vars, idx, rrhist, nsel, crashed>>

PickLCAt(s, pcw) ==
  /\ Policy = "lc" /\ sel[s].pc = pcw
  /\ \E r1 \in 0..(Len(sel[s].snap) - 1), r2 \in 0..(Len(sel[s].snap) - 1) :
       LET h1 == sel[s].snap[r1 + 1]
           h2 == sel[s].snap[r2 + 1]
           o  == IF cc[h1] < cc[h2] THEN h1 ELSE h2
       IN Established(s, o, Rec(s, o, r1 * 10 + r2, h1, h2, cc[h1], cc[h2]))
  /\ UNCHANGED <<vars, idx, rrhist, nsel, crashed>>

PickRandom(s) == ~TornDraw /\ PickRandomAt(s, "loaded") /\ UNCHANGED rng
PickLC(s) == ~TornDraw /\ PickLCAt(s, "loaded") /\ UNCHANGED rng

\* torn variant: the draw starts (the generator's indices are being advanced) ...
DrawBegin(s) ==
  /\ TornDraw /\ Policy \in {"random", "lc"} /\ sel[s].pc = "loaded"
  /\ IF rng = "mid"
     THEN crashed' = TRUE /\ UNCHANGED <<sel, rng>>
     ELSE rng' = "mid" /\ sel' = [sel EXCEPT ![s].pc = "drawing"] /\ UNCHANGED crashed
  /\ last' = NoPick
  /\ UNCHANGED <<vars, idx, cc, conns, rrhist, nsel>>
\* ... and ends with the value
DrawEnd(s) ==
  /\ TornDraw /\ rng' = "idle"
  /\ PickRandomAt(s, "drawing") \/ PickLCAt(s, "drawing")

\* the relay ends: the client or the backend closes
Finish(c) ==
  /\ c \in conns
  /\ conns' = conns \ {c}
  /\ cc' = [cc EXCEPT ![c.o] = @ - 1]
  /\ last' = NoPick
  /\ UNCHANGED <<vars, idx, sel, rrhist, nsel, rng, crashed>>

\* the watcher closes both sides because the removal latch of the chosen object is closed
WatcherClose(c) == removed[c.o] /\ Finish(c)

SetOp ==
  /\ \/ "add" \in Kinds /\ \E a \in Addrs, t \in Types : AddFresh(a, t)
     \/ "remove" \in Kinds /\ \E a \in Addrs, t \in Types : RemoveFresh(a, t)
     \/ "existing" \in Kinds /\ \E o \in Objs : AddExisting(o) \/ RemoveExisting(o)
     \/ "replace" \in Kinds /\ \E f \in ReplaceArgs : ReplaceAll(f)
     \/ "mark" \in Kinds /\ \E o \in Objs, k \in {"healthy", "unhealthy"} : MarkBegin(o, k)
     \/ "mark" \in Kinds /\ \E m \in inflight : MarkEnd(m)
  /\ last' = NoPick /\ UNCHANGED <<idx, sel, cc, conns, rrhist, nsel, rng, crashed>>

BNext ==
  \/ SetOp
  \/ \E s \in Selectors : Load(s) \/ PickRR(s) \/ PickRandom(s) \/ PickLC(s) \/ DrawBegin(s) \/ DrawEnd(s)
  \/ \E c \in conns : Finish(c)

BSpec == BInit /\ [][BNext]_allvars

\* liveness: the watcher of every established relay runs
BFairSpec == BSpec /\ \A s \in Selectors, o \in Objs : WF_allvars(WatcherClose([s |-> s, o |-> o]))

-----------------------------------------------------------------------------
BTypeOK ==
  /\ TypeOK
  /\ idx \in Nat /\ nsel \in 0..MaxSel
  /\ \A s \in Selectors : sel[s].pc \in {"idle", "loaded", "drawing"}
  /\ \A o \in Objs : cc[o] \in 0..MaxSel

\* C06: every connection is relayed to a host that at selection time (the load) belongs to the
\* current endpoint set and is considered healthy; with no usable host the connection is closed
SelectedWasUsable ==
  last.done =>
    /\ last.chosen # NoObj => last.chosen \in last.allowed
    /\ last.chosen = NoObj => last.emptyOK

\* backup hosts only when no main host is healthy
BackupOnlyIfNoMain ==
  last.done /\ last.chosen # NoObj /\ otype[last.chosen] = "backup" => last.noMain

\* a pick never crashes the processor
NoCrash == ~crashed

\* random and least-connection (and round-robin) only ever pick members of the candidate list
RandomInCandidates ==
  last.done /\ last.chosen # NoObj => last.chosen \in Range(last.snap)

\* least-connection never prefers the strictly busier of its two samples
LCNotBusier ==
  Policy = "lc" /\ last.done /\ last.chosen # NoObj =>
    /\ last.chosen \in {last.h1, last.h2}
    /\ last.chosen = last.h1 /\ last.h1 # last.h2 => last.c1 <= last.c2
    /\ last.chosen = last.h2 /\ last.h1 # last.h2 => last.c2 <= last.c1

\* round-robin: any n*k consecutive index values over an unchanged list of n hosts hit each host
\* exactly k times (index values are handed out atomically, so the j-th round-robin pick of the
\* history has index value j, whatever the interleaving of the selectors)
RRFair ==
  Policy = "rr" =>
    LET rp == rrhist IN
    /\ \A j \in 1..Len(rp) : rp[j].v = j
    /\ \A i \in 1..Len(rp) : \A k \in 1..Len(rp) :
         LET n == Len(rp[i].snap)
             lst == i + n * k - 1
         IN (lst <= Len(rp) /\ \A j \in i..lst : rp[j].snap = rp[i].snap)
            => \A h \in Range(rp[i].snap) : Cardinality({j \in i..lst : rp[j].chosen = h}) = k

\* established relays to a removed host are closed: the latch of the object they were
\* established through is closed when its address leaves the set ...
EstablishedClosable ==
  \A c \in conns : c.o \in owed => removed[c.o]
\* ... and then the watcher does close them
RemovedClosesEstablishedLive ==
  \A s \in Selectors, o \in Objs :
    ([s |-> s, o |-> o] \in conns /\ o \in owed) ~> ([s |-> s, o |-> o] \notin conns)
=============================================================================
