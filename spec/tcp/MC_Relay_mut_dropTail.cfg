SPECIFICATION Spec
CONSTANTS
  Buf = 2
  ClassesC = {1, 3}
  ClassesS = {1, 3}
  MaxChunksC = 2
  MaxChunksS = 2
  ShortReads = FALSE
  WithAbrupt = FALSE
  WithIdle = FALSE
  WithRemove = FALSE
  Mut = "dropTail"
INVARIANTS TypeOK PrefixBothWays InFlightOrdered EOFAfterAllBytes ResetOnlyIfDisturbed ShutdownOnlyAtEnd
PROPERTIES NoBytesAfterEOF OtherDirectionKeepsFlowing EverythingDelivered EOFPropagates
CHECK_DEADLOCK FALSE
