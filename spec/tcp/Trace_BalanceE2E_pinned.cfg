SPECIFICATION TraceSpec
CONSTANTS
  NAddr = 2
  MaxObj = 16
  MaxOps = 1000000
  MaxInflight = 1
  WithReplace = TRUE
  FixRemove = FALSE
  FixAdd = FALSE
  FixFlag = FALSE
  FixMark = FALSE
  Policy = "random"
  Rise = 1
  Fall = 1
  MaxRounds = 1000000
  MaxConns = 1000000
  NoMonitor = FALSE
  MaxRefuse = 1000000
  MaxClose = 1000000
  FailedDialLeaks = FALSE
  MaxHalf = 1000000
  WatcherLeaves = {}
  MaxToggles = 1000000
INVARIANTS PrintBad
POSTCONDITION TraceAccepted
CHECK_DEADLOCK FALSE
