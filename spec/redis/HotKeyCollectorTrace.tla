----------------------- MODULE HotKeyCollectorTrace -----------------------
(***************************************************************************)
(* C19, code -> spec: a trace recorded from the real hotkey.Collector      *)
(* (trace.json, an array of events) must be a behaviour of the collector   *)
(* at the granularity of its API:                                          *)
(*                                                                         *)
(*   reset   start of a history: capacity, minute                          *)
(*   incr    n accesses of key k on per-backend counter c                  *)
(*   free    counter c freed (its pending visits are lost)                 *)
(*   tick    the scripted minute clock advances                            *)
(*   collect one collect period: the visits latched (non-destructive       *)
(*           snapshot of every counter just before), the clock at start    *)
(*           and end (a scripted tick may fall inside), the report after   *)
(*   evict   one evictStale: clock at start / end, the report after        *)
(*   read    a HOTKEY reader between two jobs: must see the report exactly *)
(*   pread   a HOTKEY reader that ran in parallel with the previous job    *)
(*                                                                         *)
(* The logarithmic counter is nondeterministic in this module: the logged  *)
(* heat of every reported key must lie in LogRange(previous heat, visits). *)
(* What is accepted is deliberately independent of the four report         *)
(* properties of the statement (sorted, unique, capped, only accessed):    *)
(* those are INVARIANTS, evaluated by TLC on every state of the trace, for *)
(* the published report (rep) and for what readers saw (view).             *)
(***************************************************************************)
EXTENDS Integers, Sequences, FiniteSets, Json, TLC, TLCExt

MaxVal == 255

TraceLog == TLCEval(JsonDeserialize("trace.json"))

IncrIdx == TLCEval({i \in 1..Len(TraceLog) : TraceLog[i].ev = "incr"})
TraceKeys == TLCEval({TraceLog[i].k : i \in IncrIdx})
TraceCtrs == TLCEval({TraceLog[i].c : i \in IncrIdx})

VARIABLES l, cap, minute, rep, prevrep, hits, accessed, view,
          hid, seq   \* history in progress and number of its events seen so far (the log is complete)

tvars == <<l, cap, minute, rep, prevrep, hits, accessed, view, hid, seq>>

ZeroHits == [c \in TraceCtrs |-> [k \in TraceKeys |-> 0]]

LogRange(v, n) ==
  IF n = 0 THEN {v}
  ELSE (IF v = 0 THEN 1 ELSE v)..(IF v + n > MaxVal THEN MaxVal ELSE v + n)

Names(s) == {s[i].k : i \in 1..Len(s)}
Entry(s, k) == s[CHOOSE i \in 1..Len(s) : s[i].k = k]
Has(s, k) == \E i \in 1..Len(s) : s[i].k = k
SetMin(S) == CHOOSE x \in S : \A y \in S : x <= y
SetMax(S) == CHOOSE x \in S : \A y \in S : x >= y

RECURSIVE SumHits(_, _)
SumHits(cs, k) == IF cs = {} THEN 0
                 ELSE LET c == CHOOSE x \in cs : TRUE IN hits[c][k] + SumHits(cs \ {c}, k)

TraceInit ==
  /\ l = 1 /\ cap = 0 /\ minute = 0 /\ rep = <<>> /\ prevrep = <<>>
  /\ hits = ZeroHits /\ accessed = {} /\ view = <<>>
  /\ hid = -1 /\ seq = 0

Reset(e) ==
  /\ cap' = e.cap /\ minute' = e.m /\ rep' = <<>> /\ prevrep' = <<>>
  /\ hits' = ZeroHits /\ accessed' = {} /\ view' = <<>>

Incr(e) ==
  /\ hits' = [hits EXCEPT ![e.c][e.k] = @ + e.n]
  /\ accessed' = accessed \cup {e.k}
  /\ view' = <<>>
  /\ UNCHANGED <<cap, minute, rep, prevrep>>

Free(e) ==
  /\ hits' = IF e.c \in TraceCtrs THEN [hits EXCEPT ![e.c] = [k \in TraceKeys |-> 0]] ELSE hits
  /\ view' = <<>>
  /\ UNCHANGED <<cap, minute, rep, prevrep, accessed>>

Tick(e) ==
  /\ minute' = minute + 1 /\ e.m = minute'
  /\ view' = <<>>
  /\ UNCHANGED <<cap, rep, prevrep, hits, accessed>>

\* func (c *Collector) collect()
Collect(e) ==
  LET lat == e.latched
      new == e.rep
      cands == Names(rep) \cup Names(lat)
      oldv(k) == IF Has(rep, k) THEN Entry(rep, k).v ELSE 0
      n(k) == IF Has(lat, k) THEN Entry(lat, k).n ELSE 0
  IN /\ e.m0 = minute /\ e.m1 >= e.m0 /\ minute' = e.m1
     \* the latched visits are visits that really happened since the last latch
     /\ \A i \in 1..Len(lat) : lat[i].n >= 1 /\ lat[i].k \in TraceKeys
                                /\ lat[i].n <= SumHits(TraceCtrs, lat[i].k)
     /\ \A i, j \in 1..Len(lat) : i # j => lat[i].k # lat[j].k
     /\ IF lat = <<>> THEN new = rep
        ELSE /\ \A i \in 1..Len(new) :
                  /\ new[i].k \in cands
                  /\ new[i].v \in LogRange(oldv(new[i].k), n(new[i].k))
                  /\ new[i].lut \in e.m0..e.m1
             \* a candidate is left out only when the report is full and its heat may be the lowest
             /\ \A d \in cands \ Names(new) :
                  /\ Len(new) >= cap
                  /\ new # <<>> =>
                       (IF oldv(d) = 0 THEN 1 ELSE oldv(d)) <= SetMin({new[i].v : i \in 1..Len(new)})
     /\ rep' = new /\ prevrep' = rep
     /\ hits' = ZeroHits
     /\ view' = <<>>
     /\ UNCHANGED <<cap, accessed>>

\* func (c *Collector) evictStale(): any order of the surviving keys is accepted
\* here; whether the order is right is the business of ReportSorted
Evict(e) ==
  LET new == e.rep
      stale(x) == e.m0 > x.lut /\ x.v # 0
      v2(x) == IF stale(x) THEN x.v \div 2 ELSE x.v
      kept == {i \in 1..Len(rep) : v2(rep[i]) # 0}
  IN /\ e.m0 = minute /\ e.m1 >= e.m0 /\ minute' = e.m1
     /\ Len(new) = Cardinality(kept)
     /\ Names(new) = {rep[i].k : i \in kept}
     /\ \A i \in 1..Len(new) :
          \E j \in kept :
            /\ rep[j].k = new[i].k
            /\ new[i].v = v2(rep[j])
            /\ IF stale(rep[j]) THEN new[i].lut \in e.m0..e.m1 ELSE new[i].lut = rep[j].lut
     /\ rep' = new /\ prevrep' = rep
     /\ UNCHANGED <<cap, hits, accessed>>
     /\ view' = <<>>

KV(s) == [i \in 1..Len(s) |-> [k |-> s[i].k, v |-> s[i].v]]

\* a reader between two jobs sees the published report
Read(e) ==
  /\ KV(e.view) = KV(rep)
  /\ view' = KV(e.view)
  /\ UNCHANGED <<cap, minute, rep, prevrep, hits, accessed>>

\* a reader that overlapped the previous job saw, for every key, a heat between
\* the key's heat before and after the job (a key that the job dropped may have
\* been incremented, or halved, before it was dropped)
PRead(e) ==
  /\ \A i \in 1..Len(e.view) :
       LET k == e.view[i].k
           vs == (IF Has(prevrep, k) THEN {Entry(prevrep, k).v} ELSE {})
                  \cup (IF Has(rep, k) THEN {Entry(rep, k).v} ELSE {})
       IN /\ vs # {}
          /\ e.view[i].v >= (IF Has(rep, k) THEN SetMin(vs) ELSE Entry(prevrep, k).v \div 2)
          /\ e.view[i].v <= (IF Has(rep, k) THEN SetMax(vs) ELSE MaxVal)
  /\ view' = KV(e.view)
  /\ UNCHANGED <<cap, minute, rep, prevrep, hits, accessed>>

TraceNext ==
  /\ l <= Len(TraceLog)
  /\ LET e == TraceLog[l] IN
       \/ e.ev = "reset" /\ Reset(e)
       \/ e.ev = "incr" /\ Incr(e)
       \/ e.ev = "free" /\ Free(e)
       \/ e.ev = "tick" /\ Tick(e)
       \/ e.ev = "collect" /\ Collect(e)
       \/ e.ev = "evict" /\ Evict(e)
       \/ e.ev = "read" /\ Read(e)
       \/ e.ev = "pread" /\ PRead(e)
  \* every event carries its history and its position in it: no event of the log is missing or repeated
  /\ LET e == TraceLog[l] IN
       IF e.ev = "reset" THEN e.h > hid /\ e.s = 0 /\ hid' = e.h /\ seq' = 0
       ELSE e.h = hid /\ e.s = seq + 1 /\ seq' = e.s /\ hid' = hid
  /\ l' = l + 1

TraceSpec == TraceInit /\ [][TraceNext]_tvars

TraceAccepted ==
  LET d == TLCGet("stats").diameter IN
  IF d - 1 = Len(TraceLog) THEN TRUE
  ELSE Print(<<"@@REJECT", d, IF d <= Len(TraceLog) THEN TraceLog[d] ELSE "end">>, FALSE)

---------------------------------------------------------------------------
\* the report properties of the statement
SortedVals(s) == \A i \in 1..(Len(s) - 1) : s[i].v >= s[i + 1].v
UniqueNames(s) == \A i, j \in 1..Len(s) : i # j => s[i].k # s[j].k

ReportSorted == SortedVals(rep)
ReportUnique == UniqueNames(rep)
ReportCapped == Len(rep) <= cap
OnlyAccessed == Names(rep) \subseteq accessed

ViewSorted == SortedVals(view)
ViewUnique == UniqueNames(view)
ViewCapped == Len(view) <= cap
ViewOnlyAccessed == Names(view) \subseteq accessed

\* diagnosis run (Trace_HotKeyCollector_diag.cfg): no INVARIANTS, every state that breaks a
\* property is printed and the trace is followed to its end
BadSet ==
  (IF ReportSorted THEN {} ELSE {"ReportSorted"}) \cup
  (IF ReportUnique THEN {} ELSE {"ReportUnique"}) \cup
  (IF ReportCapped THEN {} ELSE {"ReportCapped"}) \cup
  (IF OnlyAccessed THEN {} ELSE {"OnlyAccessed"}) \cup
  (IF ViewSorted THEN {} ELSE {"ViewSorted"}) \cup
  (IF ViewUnique THEN {} ELSE {"ViewUnique"}) \cup
  (IF ViewCapped THEN {} ELSE {"ViewCapped"}) \cup
  (IF ViewOnlyAccessed THEN {} ELSE {"ViewOnlyAccessed"})

DiagEmit == (BadSet' = {}) \/ PrintT("@@BAD " \o ToJson([l |-> l, bad |-> BadSet', ev |-> TraceLog[l].ev]))
=============================================================================
