SPECIFICATION Spec
CONSTANTS
  Residue = FALSE
  Cap = 32
  MaxConn = 2
INVARIANTS OwnMessagesOnly StartsInitial
CHECK_DEADLOCK FALSE
