SPECIFICATION Spec
CONSTANTS
  SharedScratch = FALSE
  SplitWrites = TRUE
INVARIANTS WireIsOwn RoundTripAll
CHECK_DEADLOCK FALSE
