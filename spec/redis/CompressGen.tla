----------------------------- MODULE CompressGen -----------------------------
(* emits histories (config switches, writes with several value positions, redirections and   *)
(* concurrent traffic, reads at every reply nesting depth) for replay on the real processor. *)
(* GenSpec: random histories (simulation).  StrataSpec: the mandatory strata, enumerated      *)
(* completely: compression on, ONE write of every shape (value positions x redirections x     *)
(* traffic), optionally compression switched off again, ONE read of every shape.              *)
EXTENDS Compress, Json
VARIABLES hist, finished,
          kind      \* simulation only: the kind of the next operation is drawn first, then its parameters (TLC draws
                    \* uniformly among successor states; without this nearly every step of a random history is a write)
gvars == <<vars, hist, finished, kind>>

Ev(a, c, k, vals, r, busy, d) == [a |-> a, c |-> c, k |-> k, vals |-> vals, r |-> r, busy |-> busy, d |-> d]
EvConfig(c) == Ev("config", c, "", <<>>, 0, FALSE, 0)
EvWrite(k, vals, r, busy) == Ev("write", "", k, vals, r, busy, 0)
EvRead(k, r, d) == Ev("read", "", k, <<>>, r, FALSE, d)

GenInit == Init /\ hist = <<EvConfig(cfg)>> /\ finished = FALSE /\ kind = ""
Finish == /\ ~finished /\ ops = MaxOps /\ PrintT("@@BEH " \o ToJson(hist)) /\ finished' = TRUE /\ UNCHANGED <<vars, hist, kind>>
Draw ==
  /\ kind = "" /\ ops < MaxOps
  /\ kind' \in {"config", "write"} \cup (IF \E k \in Keys : stored[k] # <<>> THEN {"read"} ELSE {})
  /\ UNCHANGED <<vars, hist>>
Do ==
  /\ \/ kind = "config" /\ \E c \in Configs : SetConfig(c) /\ hist' = Append(hist, EvConfig(c))
     \/ kind = "write" /\ \E k \in Keys, vals \in ValSeqs, r \in 0..MaxRedirects, busy \in BOOLEAN :
          Write(k, vals, r, busy) /\ hist' = Append(hist, EvWrite(k, vals, r, busy))
     \/ kind = "read" /\ \E k \in Keys, r \in 0..MaxRedirects, d \in Depths : Read(k, r, d) /\ hist' = Append(hist, EvRead(k, r, d))
  /\ kind' = ""
GenNext == ~finished /\ (Draw \/ Do) /\ UNCHANGED finished
GenSpec == GenInit /\ [][GenNext \/ Finish]_gvars

-----------------------------------------------------------------------------
SKey == CHOOSE k \in Keys : TRUE
Last == hist[Len(hist)]
StrataInit == GenInit /\ cfg = "enabled"
StrataNext ==
  /\ ~finished
  /\ \/ /\ Len(hist) = 1
        /\ \E vals \in ValSeqs, r \in 0..MaxRedirects, busy \in BOOLEAN :
             Write(SKey, vals, r, busy) /\ hist' = Append(hist, EvWrite(SKey, vals, r, busy))
     \/ /\ Len(hist) = 2
        /\ SetConfig("disabled") /\ hist' = Append(hist, EvConfig("disabled"))
     \/ /\ Len(hist) \in {2, 3} /\ Last.a # "read"
        /\ \E r \in 0..MaxRedirects, d \in Depths : Read(SKey, r, d) /\ hist' = Append(hist, EvRead(SKey, r, d))
  /\ UNCHANGED <<finished, kind>>
StrataFinish == /\ ~finished /\ Last.a = "read" /\ PrintT("@@BEH " \o ToJson(hist)) /\ finished' = TRUE /\ UNCHANGED <<vars, hist, kind>>
StrataSpec == StrataInit /\ [][StrataNext \/ StrataFinish]_gvars
=============================================================================
