----------------------------- MODULE CompressGen -----------------------------
(* emits histories (config switches, writes with redirections, reads) for replay *)
EXTENDS Compress, Json
VARIABLES hist, finished
gvars == <<vars, hist, finished>>
GenInit == Init /\ hist = <<[a |-> "config", c |-> cfg, k |-> "", cls |-> "", r |-> 0]>> /\ finished = FALSE
Finish == /\ ~finished /\ ops = MaxOps /\ PrintT("@@BEH " \o ToJson(hist)) /\ finished' = TRUE /\ UNCHANGED <<vars, hist>>
GenNext ==
  /\ ~finished
  /\ \/ \E c \in Configs : SetConfig(c) /\ hist' = Append(hist, [a |-> "config", c |-> c, k |-> "", cls |-> "", r |-> 0])
     \/ \E k \in Keys, cls \in Classes, r \in 0..MaxRedirects : Write(k, cls, r) /\ hist' = Append(hist, [a |-> "write", c |-> "", k |-> k, cls |-> cls, r |-> r])
     \/ \E k \in Keys, r \in 0..MaxRedirects : Read(k, r) /\ hist' = Append(hist, [a |-> "read", c |-> "", k |-> k, cls |-> "", r |-> r])
  /\ UNCHANGED finished
GenSpec == GenInit /\ [][GenNext \/ Finish]_gvars
=============================================================================
