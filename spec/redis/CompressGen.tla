----------------------------- MODULE CompressGen -----------------------------
(* emits histories (config switches, writes with several value positions, redirections and   *)
(* concurrent traffic, reads at every reply nesting depth) for replay on the real processor. *)
(* GenSpec: random histories (simulation).  AllStrataSpec: the mandatory strata, enumerated   *)
(* completely (see below).                                                                    *)
EXTENDS Compress, Json
VARIABLES hist, finished,
          kind      \* simulation only: the kind of the next operation is drawn first, then its parameters (TLC draws
                    \* uniformly among successor states; without this nearly every step of a random history is a write)
gvars == <<vars, hist, finished, kind>>

Ev(a, c, k, vals, szs, r, busy, d, n) == [a |-> a, c |-> c, k |-> k, vals |-> vals, sz |-> szs, r |-> r, busy |-> busy, d |-> d, n |-> n]
EvConfig(c) == Ev("config", c, "", <<>>, <<>>, 0, FALSE, 0, "")
EvBare(on) == Ev("config", IF on THEN "enabled-bare" ELSE "disabled-bare", "", <<>>, <<>>, 0, FALSE, 0, "")
EvReconnect(n) == Ev("reconnect", "", "", <<>>, <<>>, 0, FALSE, 0, n)
EvWrite(k, vals, szs, r, busy, n) == Ev("write", "", k, vals, szs, r, busy, 0, n)
EvRead(k, r, d, n) == Ev("read", "", k, <<>>, <<>>, r, FALSE, d, n)

GenInit == Init /\ hist = <<EvConfig(cfg)>> /\ finished = FALSE /\ kind = ""
Finish == /\ ~finished /\ ops = MaxOps /\ PrintT("@@BEH " \o ToJson(hist)) /\ finished' = TRUE /\ UNCHANGED <<vars, hist, kind>>
Draw ==
  /\ kind = "" /\ ops < MaxOps
  /\ kind' \in {"config", "bare", "write"} \cup (IF \E k \in Keys : stored[k] # <<>> THEN {"read"} ELSE {})
                                   \cup (IF \E n \in Nodes : conn[n] # cfg THEN {"reconnect"} ELSE {})
  /\ UNCHANGED <<vars, hist>>
Do ==
  /\ \/ kind = "config" /\ \E c \in Configs : SetConfig(c) /\ hist' = Append(hist, EvConfig(c))
     \/ kind = "bare" /\ \E on \in BOOLEAN : BareConfig(on) /\ hist' = Append(hist, EvBare(on))
     \/ kind = "reconnect" /\ \E n \in Nodes : Reconnect(n) /\ hist' = Append(hist, EvReconnect(n))
     \/ kind = "write" /\ \E k \in Keys, vals \in ValSeqs, r \in 0..MaxRedirects, busy \in BOOLEAN, n \in Via :
          \E szs \in SizeSeqs(vals) : Write(k, vals, szs, r, busy, n) /\ hist' = Append(hist, EvWrite(k, vals, szs, r, busy, n))
     \/ kind = "read" /\ \E k \in Keys, r \in 0..MaxRedirects, d \in Depths, n \in Via : Read(k, r, d, n) /\ hist' = Append(hist, EvRead(k, r, d, n))
  /\ kind' = ""
GenNext == ~finished /\ (Draw \/ Do) /\ UNCHANGED finished
GenSpec == GenInit /\ [][GenNext \/ Finish]_gvars

-----------------------------------------------------------------------------
SKey == CHOOSE k \in Keys : TRUE
Last == hist[Len(hist)]

-----------------------------------------------------------------------------
(* All mandatory strata from ONE run (one JVM instead of four): the family is drawn in the initial state and kept in      *)
(* `kind`; every family bounds its own parameters, whatever the constants are, so that the families do not depend on each *)
(* other's bounds: "s-base" (config on, one write of every shape, optionally switched off, one read of every shape),      *)
(* "s-conn" (connection age), "s-bare" (refused updates), "s-size" (absolute sizes).                                      *)
Zero(vals) == [i \in 1..Len(vals) |-> 0]
One == {vals \in ValSeqs : Len(vals) = 1}
AllStrataInit ==
  /\ Init /\ hist = <<EvConfig(cfg)>> /\ finished = FALSE
  /\ \/ kind = "s-base" /\ cfg = "enabled"
     \/ kind = "s-conn"
     \/ kind = "s-bare" /\ cfg # "absent"
     \/ kind = "s-size" /\ cfg = "enabled"
Tagged(h) == [h EXCEPT ![1] = [h[1] EXCEPT !.k = kind]]     \* the family travels in the first event
AllStrataNext ==
  /\ ~finished
  /\ \/ /\ kind = "s-base"
        /\ \/ /\ Len(hist) = 1
              /\ \E vals \in ValSeqs, r \in 0..MaxRedirects, busy \in BOOLEAN :
                   Write(SKey, vals, Zero(vals), r, busy, "any") /\ hist' = Append(hist, EvWrite(SKey, vals, Zero(vals), r, busy, "any"))
           \/ /\ Len(hist) = 2
              /\ SetConfig("disabled") /\ hist' = Append(hist, EvConfig("disabled"))
           \/ /\ Len(hist) \in {2, 3} /\ Last.a # "read"
              /\ \E r \in 0..MaxRedirects, d \in Depths : Read(SKey, r, d, "any") /\ hist' = Append(hist, EvRead(SKey, r, d, "any"))
     \/ /\ kind = "s-conn"
        /\ \/ /\ Len(hist) = 1
              /\ \E c \in Configs : SetConfig(c) /\ hist' = Append(hist, EvConfig(c))
           \/ /\ Len(hist) = 2
              /\ \E n \in Nodes : Reconnect(n) /\ hist' = Append(hist, EvReconnect(n))
           \/ /\ Len(hist) \in {2, 3} /\ Last.a \notin {"write", "read"}
              /\ \E vals \in One, n \in Nodes :
                   Write(SKey, vals, Zero(vals), 0, FALSE, n) /\ hist' = Append(hist, EvWrite(SKey, vals, Zero(vals), 0, FALSE, n))
           \/ /\ Last.a = "write"
              /\ \E d \in Depths, n \in Nodes : Read(SKey, 0, d, n) /\ hist' = Append(hist, EvRead(SKey, 0, d, n))
     \/ /\ kind = "s-bare"
        /\ \/ /\ Len(hist) = 1
              /\ \E vals \in One : Write(SKey, vals, Zero(vals), 0, FALSE, "any") /\ hist' = Append(hist, EvWrite(SKey, vals, Zero(vals), 0, FALSE, "any"))
           \/ /\ Len(hist) = 2
              /\ \E on \in BOOLEAN : BareConfig(on) /\ hist' = Append(hist, EvBare(on))
           \/ /\ Len(hist) = 3
              /\ \E d \in Depths : Read(SKey, 0, d, "any") /\ hist' = Append(hist, EvRead(SKey, 0, d, "any"))
     \/ /\ kind = "s-size"
        /\ \/ /\ Len(hist) = 1
              /\ \E vals \in One, r \in 0..1 : \E szs \in SizeSeqs(vals) :
                   /\ szs[1] > 0
                   /\ Write(SKey, vals, szs, r, FALSE, "any") /\ hist' = Append(hist, EvWrite(SKey, vals, szs, r, FALSE, "any"))
           \/ /\ Len(hist) = 2
              /\ \E r \in 0..1, d \in Depths : Read(SKey, r, d, "any") /\ hist' = Append(hist, EvRead(SKey, r, d, "any"))
  /\ UNCHANGED <<finished, kind>>
AllStrataFinish == /\ ~finished /\ Last.a = "read" /\ PrintT("@@BEH " \o ToJson(Tagged(hist))) /\ finished' = TRUE /\ UNCHANGED <<vars, hist, kind>>
AllStrataSpec == AllStrataInit /\ [][AllStrataNext \/ AllStrataFinish]_gvars
=============================================================================
