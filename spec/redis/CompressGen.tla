----------------------------- MODULE CompressGen -----------------------------
(* emits histories (config switches, writes with several value positions, redirections and   *)
(* concurrent traffic, reads at every reply nesting depth) for replay on the real processor. *)
(* GenSpec: random histories (simulation).  StrataSpec: the mandatory strata, enumerated      *)
(* completely: compression on, ONE write of every shape (value positions x redirections x     *)
(* traffic), optionally compression switched off again, ONE read of every shape.              *)
EXTENDS Compress, Json
VARIABLES hist, finished,
          kind      \* simulation only: the kind of the next operation is drawn first, then its parameters (TLC draws
                    \* uniformly among successor states; without this nearly every step of a random history is a write)
gvars == <<vars, hist, finished, kind>>

Ev(a, c, k, vals, r, busy, d, n) == [a |-> a, c |-> c, k |-> k, vals |-> vals, r |-> r, busy |-> busy, d |-> d, n |-> n]
EvConfig(c) == Ev("config", c, "", <<>>, 0, FALSE, 0, "")
EvReconnect(n) == Ev("reconnect", "", "", <<>>, 0, FALSE, 0, n)
EvWrite(k, vals, r, busy, n) == Ev("write", "", k, vals, r, busy, 0, n)
EvRead(k, r, d, n) == Ev("read", "", k, <<>>, r, FALSE, d, n)

GenInit == Init /\ hist = <<EvConfig(cfg)>> /\ finished = FALSE /\ kind = ""
Finish == /\ ~finished /\ ops = MaxOps /\ PrintT("@@BEH " \o ToJson(hist)) /\ finished' = TRUE /\ UNCHANGED <<vars, hist, kind>>
Draw ==
  /\ kind = "" /\ ops < MaxOps
  /\ kind' \in {"config", "write"} \cup (IF \E k \in Keys : stored[k] # <<>> THEN {"read"} ELSE {})
                                   \cup (IF \E n \in Nodes : conn[n] # cfg THEN {"reconnect"} ELSE {})
  /\ UNCHANGED <<vars, hist>>
Do ==
  /\ \/ kind = "config" /\ \E c \in Configs : SetConfig(c) /\ hist' = Append(hist, EvConfig(c))
     \/ kind = "reconnect" /\ \E n \in Nodes : Reconnect(n) /\ hist' = Append(hist, EvReconnect(n))
     \/ kind = "write" /\ \E k \in Keys, vals \in ValSeqs, r \in 0..MaxRedirects, busy \in BOOLEAN, n \in Via :
          Write(k, vals, r, busy, n) /\ hist' = Append(hist, EvWrite(k, vals, r, busy, n))
     \/ kind = "read" /\ \E k \in Keys, r \in 0..MaxRedirects, d \in Depths, n \in Via : Read(k, r, d, n) /\ hist' = Append(hist, EvRead(k, r, d, n))
  /\ kind' = ""
GenNext == ~finished /\ (Draw \/ Do) /\ UNCHANGED finished
GenSpec == GenInit /\ [][GenNext \/ Finish]_gvars

-----------------------------------------------------------------------------
SKey == CHOOSE k \in Keys : TRUE
Last == hist[Len(hist)]
StrataInit == GenInit /\ cfg = "enabled"
StrataNext ==
  /\ ~finished
  /\ \/ /\ Len(hist) = 1
        /\ \E vals \in ValSeqs, r \in 0..MaxRedirects, busy \in BOOLEAN, n \in Via :
             Write(SKey, vals, r, busy, n) /\ hist' = Append(hist, EvWrite(SKey, vals, r, busy, n))
     \/ /\ Len(hist) = 2
        /\ SetConfig("disabled") /\ hist' = Append(hist, EvConfig("disabled"))
     \/ /\ Len(hist) \in {2, 3} /\ Last.a # "read"
        /\ \E r \in 0..MaxRedirects, d \in Depths, n \in Via : Read(SKey, r, d, n) /\ hist' = Append(hist, EvRead(SKey, r, d, n))
  /\ UNCHANGED <<finished, kind>>
StrataFinish == /\ ~finished /\ Last.a = "read" /\ PrintT("@@BEH " \o ToJson(hist)) /\ finished' = TRUE /\ UNCHANGED <<vars, hist, kind>>
StrataSpec == StrataInit /\ [][StrataNext \/ StrataFinish]_gvars

-----------------------------------------------------------------------------
(* The strata of connection age, enumerated completely: every node is connected under the first config; the config is  *)
(* changed at run time; no connection or one of them is made again; ONE write over each connection; ONE read over each *)
(* connection at every reply depth.                                                                                    *)
ConnStrataInit == GenInit
ConnStrataNext ==
  /\ ~finished
  /\ \/ /\ Len(hist) = 1
        /\ \E c \in Configs : SetConfig(c) /\ hist' = Append(hist, EvConfig(c))
     \/ /\ Len(hist) = 2
        /\ \E n \in Nodes : Reconnect(n) /\ hist' = Append(hist, EvReconnect(n))
     \/ /\ Len(hist) \in {2, 3} /\ Last.a # "write"
        /\ \E vals \in ValSeqs, n \in Via : Write(SKey, vals, 0, FALSE, n) /\ hist' = Append(hist, EvWrite(SKey, vals, 0, FALSE, n))
     \/ /\ Last.a = "write"
        /\ \E d \in Depths, n \in Via : Read(SKey, 0, d, n) /\ hist' = Append(hist, EvRead(SKey, 0, d, n))
  /\ UNCHANGED <<finished, kind>>
ConnStrataSpec == ConnStrataInit /\ [][ConnStrataNext \/ StrataFinish]_gvars
=============================================================================
