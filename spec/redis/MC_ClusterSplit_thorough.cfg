SPECIFICATION Spec
CONSTANTS
  Nodes = {1, 2}
  Keys = {"a1", "a2", "b1"}
  Ops = {"mcount", "mdel", "mread", "mwrite"}
  MaxCmds = 2
  MaxLen = 2
  DedupKeys = FALSE
  AssembleByArrival = FALSE
  FoldUnsynchronised = FALSE
  FailKeys = {"b1"}
  MsetIgnoresChildErrors = FALSE
INVARIANTS EqualsReference StoreIsReference ChildAtOwner
PROPERTIES AllDone
CHECK_DEADLOCK FALSE
