---- MODULE MC_Cluster_TTrace_1790366879 ----
EXTENDS Sequences, MC_Cluster, TLCExt, Toolbox, Naturals, TLC

_expression ==
    LET MC_Cluster_TEExpression == INSTANCE MC_Cluster_TEExpression
    IN MC_Cluster_TEExpression!expression
----

_trace ==
    LET MC_Cluster_TETrace == INSTANCE MC_Cluster_TETrace
    IN MC_Cluster_TETrace!trace
----

_inv ==
    ~(
        TLCGet("level") = Len(_TETrace)
        /\
        reqs = (<<[k |-> "a1", op |-> "write", val |-> 1, st |-> "done", reply |-> 1000, exp |-> 1000, hops |-> 0, applied |-> 1, askTo |-> 0], [k |-> "a2", op |-> "write", val |-> 2, st |-> "askpending", reply |-> 999, exp |-> 999, hops |-> 1, applied |-> 0, askTo |-> 2], [k |-> "a1", op |-> "write", val |-> 3, st |-> "done", reply |-> 1000, exp |-> 1000, hops |-> 0, applied |-> 1, askTo |-> 0]>>)
        /\
        owner = ([A |-> 1, B |-> 1])
        /\
        q = (<<<<>>, <<>>>>)
        /\
        ref = ([a1 |-> 3, a2 |-> 0, b1 |-> 0])
        /\
        asking = (<<FALSE, FALSE>>)
        /\
        mig = ([A |-> <<1, 2>>, B |-> <<>>])
        /\
        store = (<<[a1 |-> 1, a2 |-> 0, b1 |-> 0], [a1 |-> 3, a2 |-> 0, b1 |-> 0]>>)
        /\
        needRefresh = (TRUE)
        /\
        table = ([A |-> 0, B |-> 0])
    )
----

_init ==
    /\ reqs = _TETrace[1].reqs
    /\ mig = _TETrace[1].mig
    /\ q = _TETrace[1].q
    /\ store = _TETrace[1].store
    /\ needRefresh = _TETrace[1].needRefresh
    /\ ref = _TETrace[1].ref
    /\ table = _TETrace[1].table
    /\ asking = _TETrace[1].asking
    /\ owner = _TETrace[1].owner
----

_next ==
    /\ \E i,j \in DOMAIN _TETrace:
        /\ \/ /\ j = i + 1
              /\ i = TLCGet("level")
        /\ reqs  = _TETrace[i].reqs
        /\ reqs' = _TETrace[j].reqs
        /\ mig  = _TETrace[i].mig
        /\ mig' = _TETrace[j].mig
        /\ q  = _TETrace[i].q
        /\ q' = _TETrace[j].q
        /\ store  = _TETrace[i].store
        /\ store' = _TETrace[j].store
        /\ needRefresh  = _TETrace[i].needRefresh
        /\ needRefresh' = _TETrace[j].needRefresh
        /\ ref  = _TETrace[i].ref
        /\ ref' = _TETrace[j].ref
        /\ table  = _TETrace[i].table
        /\ table' = _TETrace[j].table
        /\ asking  = _TETrace[i].asking
        /\ asking' = _TETrace[j].asking
        /\ owner  = _TETrace[i].owner
        /\ owner' = _TETrace[j].owner

\* Uncomment the ASSUME below to write the states of the error trace
\* to the given file in Json format. Note that you can pass any tuple
\* to `JsonSerialize`. For example, a sub-sequence of _TETrace.
    \* ASSUME
    \*     LET J == INSTANCE Json
    \*         IN J!JsonSerialize("MC_Cluster_TTrace_1790366879.json", _TETrace)

=============================================================================

 Note that you can extract this module `MC_Cluster_TEExpression`
  to a dedicated file to reuse `expression` (the module in the 
  dedicated `MC_Cluster_TEExpression.tla` file takes precedence 
  over the module `MC_Cluster_TEExpression` below).

---- MODULE MC_Cluster_TEExpression ----
EXTENDS Sequences, MC_Cluster, TLCExt, Toolbox, Naturals, TLC

expression == 
    [
        \* To hide variables of the `MC_Cluster` spec from the error trace,
        \* remove the variables below.  The trace will be written in the order
        \* of the fields of this record.
        reqs |-> reqs
        ,mig |-> mig
        ,q |-> q
        ,store |-> store
        ,needRefresh |-> needRefresh
        ,ref |-> ref
        ,table |-> table
        ,asking |-> asking
        ,owner |-> owner
        
        \* Put additional constant-, state-, and action-level expressions here:
        \* ,_stateNumber |-> _TEPosition
        \* ,_reqsUnchanged |-> reqs = reqs'
        
        \* Format the `reqs` variable as Json value.
        \* ,_reqsJson |->
        \*     LET J == INSTANCE Json
        \*     IN J!ToJson(reqs)
        
        \* Lastly, you may build expressions over arbitrary sets of states by
        \* leveraging the _TETrace operator.  For example, this is how to
        \* count the number of times a spec variable changed up to the current
        \* state in the trace.
        \* ,_reqsModCount |->
        \*     LET F[s \in DOMAIN _TETrace] ==
        \*         IF s = 1 THEN 0
        \*         ELSE IF _TETrace[s].reqs # _TETrace[s-1].reqs
        \*             THEN 1 + F[s-1] ELSE F[s-1]
        \*     IN F[_TEPosition - 1]
    ]

=============================================================================



Parsing and semantic processing can take forever if the trace below is long.
 In this case, it is advised to uncomment the module below to deserialize the
 trace from a generated binary file.

\*
\*---- MODULE MC_Cluster_TETrace ----
\*EXTENDS IOUtils, MC_Cluster, TLC
\*
\*trace == IODeserialize("MC_Cluster_TTrace_1790366879.bin", TRUE)
\*
\*=============================================================================
\*

---- MODULE MC_Cluster_TETrace ----
EXTENDS MC_Cluster, TLC

trace == 
    <<
    ([reqs |-> <<>>,owner |-> [A |-> 1, B |-> 1],q |-> <<<<>>, <<>>>>,ref |-> [a1 |-> 0, a2 |-> 0, b1 |-> 0],asking |-> <<FALSE, FALSE>>,mig |-> [A |-> <<>>, B |-> <<>>],store |-> <<[a1 |-> 0, a2 |-> 0, b1 |-> 0], [a1 |-> 0, a2 |-> 0, b1 |-> 0]>>,needRefresh |-> TRUE,table |-> [A |-> 0, B |-> 0]]),
    ([reqs |-> <<[k |-> "a1", op |-> "write", val |-> 1, st |-> "inflight", reply |-> 999, exp |-> 999, hops |-> 0, applied |-> 0, askTo |-> 0]>>,owner |-> [A |-> 1, B |-> 1],q |-> <<<<[r |-> 1, t |-> "cmd"]>>, <<>>>>,ref |-> [a1 |-> 0, a2 |-> 0, b1 |-> 0],asking |-> <<FALSE, FALSE>>,mig |-> [A |-> <<>>, B |-> <<>>],store |-> <<[a1 |-> 0, a2 |-> 0, b1 |-> 0], [a1 |-> 0, a2 |-> 0, b1 |-> 0]>>,needRefresh |-> TRUE,table |-> [A |-> 0, B |-> 0]]),
    ([reqs |-> <<[k |-> "a1", op |-> "write", val |-> 1, st |-> "done", reply |-> 1000, exp |-> 1000, hops |-> 0, applied |-> 1, askTo |-> 0]>>,owner |-> [A |-> 1, B |-> 1],q |-> <<<<>>, <<>>>>,ref |-> [a1 |-> 1, a2 |-> 0, b1 |-> 0],asking |-> <<FALSE, FALSE>>,mig |-> [A |-> <<>>, B |-> <<>>],store |-> <<[a1 |-> 1, a2 |-> 0, b1 |-> 0], [a1 |-> 0, a2 |-> 0, b1 |-> 0]>>,needRefresh |-> TRUE,table |-> [A |-> 0, B |-> 0]]),
    ([reqs |-> <<[k |-> "a1", op |-> "write", val |-> 1, st |-> "done", reply |-> 1000, exp |-> 1000, hops |-> 0, applied |-> 1, askTo |-> 0], [k |-> "a2", op |-> "write", val |-> 2, st |-> "inflight", reply |-> 999, exp |-> 999, hops |-> 0, applied |-> 0, askTo |-> 0]>>,owner |-> [A |-> 1, B |-> 1],q |-> <<<<[r |-> 2, t |-> "cmd"]>>, <<>>>>,ref |-> [a1 |-> 1, a2 |-> 0, b1 |-> 0],asking |-> <<FALSE, FALSE>>,mig |-> [A |-> <<>>, B |-> <<>>],store |-> <<[a1 |-> 1, a2 |-> 0, b1 |-> 0], [a1 |-> 0, a2 |-> 0, b1 |-> 0]>>,needRefresh |-> TRUE,table |-> [A |-> 0, B |-> 0]]),
    ([reqs |-> <<[k |-> "a1", op |-> "write", val |-> 1, st |-> "done", reply |-> 1000, exp |-> 1000, hops |-> 0, applied |-> 1, askTo |-> 0], [k |-> "a2", op |-> "write", val |-> 2, st |-> "inflight", reply |-> 999, exp |-> 999, hops |-> 0, applied |-> 0, askTo |-> 0]>>,owner |-> [A |-> 1, B |-> 1],q |-> <<<<[r |-> 2, t |-> "cmd"]>>, <<>>>>,ref |-> [a1 |-> 1, a2 |-> 0, b1 |-> 0],asking |-> <<FALSE, FALSE>>,mig |-> [A |-> <<1, 2>>, B |-> <<>>],store |-> <<[a1 |-> 1, a2 |-> 0, b1 |-> 0], [a1 |-> 0, a2 |-> 0, b1 |-> 0]>>,needRefresh |-> TRUE,table |-> [A |-> 0, B |-> 0]]),
    ([reqs |-> <<[k |-> "a1", op |-> "write", val |-> 1, st |-> "done", reply |-> 1000, exp |-> 1000, hops |-> 0, applied |-> 1, askTo |-> 0], [k |-> "a2", op |-> "write", val |-> 2, st |-> "askpending", reply |-> 999, exp |-> 999, hops |-> 1, applied |-> 0, askTo |-> 2]>>,owner |-> [A |-> 1, B |-> 1],q |-> <<<<>>, <<[r |-> 2, t |-> "asking"]>>>>,ref |-> [a1 |-> 1, a2 |-> 0, b1 |-> 0],asking |-> <<FALSE, FALSE>>,mig |-> [A |-> <<1, 2>>, B |-> <<>>],store |-> <<[a1 |-> 1, a2 |-> 0, b1 |-> 0], [a1 |-> 0, a2 |-> 0, b1 |-> 0]>>,needRefresh |-> TRUE,table |-> [A |-> 0, B |-> 0]]),
    ([reqs |-> <<[k |-> "a1", op |-> "write", val |-> 1, st |-> "done", reply |-> 1000, exp |-> 1000, hops |-> 0, applied |-> 1, askTo |-> 0], [k |-> "a2", op |-> "write", val |-> 2, st |-> "askpending", reply |-> 999, exp |-> 999, hops |-> 1, applied |-> 0, askTo |-> 2]>>,owner |-> [A |-> 1, B |-> 1],q |-> <<<<>>, <<>>>>,ref |-> [a1 |-> 1, a2 |-> 0, b1 |-> 0],asking |-> <<FALSE, TRUE>>,mig |-> [A |-> <<1, 2>>, B |-> <<>>],store |-> <<[a1 |-> 1, a2 |-> 0, b1 |-> 0], [a1 |-> 0, a2 |-> 0, b1 |-> 0]>>,needRefresh |-> TRUE,table |-> [A |-> 0, B |-> 0]]),
    ([reqs |-> <<[k |-> "a1", op |-> "write", val |-> 1, st |-> "done", reply |-> 1000, exp |-> 1000, hops |-> 0, applied |-> 1, askTo |-> 0], [k |-> "a2", op |-> "write", val |-> 2, st |-> "askpending", reply |-> 999, exp |-> 999, hops |-> 1, applied |-> 0, askTo |-> 2], [k |-> "a1", op |-> "write", val |-> 3, st |-> "inflight", reply |-> 999, exp |-> 999, hops |-> 0, applied |-> 0, askTo |-> 0]>>,owner |-> [A |-> 1, B |-> 1],q |-> <<<<>>, <<[r |-> 3, t |-> "cmd"]>>>>,ref |-> [a1 |-> 1, a2 |-> 0, b1 |-> 0],asking |-> <<FALSE, TRUE>>,mig |-> [A |-> <<1, 2>>, B |-> <<>>],store |-> <<[a1 |-> 1, a2 |-> 0, b1 |-> 0], [a1 |-> 0, a2 |-> 0, b1 |-> 0]>>,needRefresh |-> TRUE,table |-> [A |-> 0, B |-> 0]]),
    ([reqs |-> <<[k |-> "a1", op |-> "write", val |-> 1, st |-> "done", reply |-> 1000, exp |-> 1000, hops |-> 0, applied |-> 1, askTo |-> 0], [k |-> "a2", op |-> "write", val |-> 2, st |-> "askpending", reply |-> 999, exp |-> 999, hops |-> 1, applied |-> 0, askTo |-> 2], [k |-> "a1", op |-> "write", val |-> 3, st |-> "done", reply |-> 1000, exp |-> 1000, hops |-> 0, applied |-> 1, askTo |-> 0]>>,owner |-> [A |-> 1, B |-> 1],q |-> <<<<>>, <<>>>>,ref |-> [a1 |-> 3, a2 |-> 0, b1 |-> 0],asking |-> <<FALSE, FALSE>>,mig |-> [A |-> <<1, 2>>, B |-> <<>>],store |-> <<[a1 |-> 1, a2 |-> 0, b1 |-> 0], [a1 |-> 3, a2 |-> 0, b1 |-> 0]>>,needRefresh |-> TRUE,table |-> [A |-> 0, B |-> 0]])
    >>
----


=============================================================================

---- CONFIG MC_Cluster_TTrace_1790366879 ----
CONSTANTS
    Nodes = { 1 , 2 }
    Slots = { "A" , "B" }
    Keys = { "a1" , "a2" , "b1" }
    SlotOf <- MCSlotOf
    MaxCmds = 3
    MaxHops = 3
    WithMigration = TRUE
    EmptyTableAtStart = TRUE
    AtomicAsk = FALSE

INVARIANT
    _inv

CHECK_DEADLOCK
    \* CHECK_DEADLOCK off because of PROPERTY or INVARIANT above.
    FALSE

INIT
    _init

NEXT
    _next

CONSTANT
    _TETrace <- _trace

ALIAS
    _expression
=============================================================================
\* Generated on Fri Sep 25 20:08:12 UTC 2026