SPECIFICATION GenSpec
CONSTANTS
  Strategies = {"BOTH", "REPLICA"}
  MaxRoutes = 4
  MaxRefresh = 2
  MaxReassign = 1
  CandCache = "none"
ACTION_CONSTRAINT ChangeThenRefresh
CHECK_DEADLOCK FALSE
