\* anti-vacuity: short frames put together in storage shared by all compressions must violate StoredForm (two writers at the same instant)
SPECIFICATION Spec
CONSTANTS
  Keys = {"k1", "k2"}
  MaxOps = 4
  MaxRedirects = 2
  FixOnce = TRUE
  MaxVals = 2
  HookDepth = 2
  OwnBytes = TRUE
  Nodes = {}
  ConnConfig = "live"
  BareUpdate = "refused"
  Sizes = {0}
  ReadLimit = 0
  OwnFrame = FALSE
INVARIANTS StoredForm ReadBack OnlyWhenEnabled
CHECK_DEADLOCK FALSE
