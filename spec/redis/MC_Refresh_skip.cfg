SPECIFICATION Spec
CONSTANTS
  MaxLayout = 3
  MaxFailures = 2
  DrainOnSuccess = FALSE
  SkipUnchanged = TRUE
  RearmOnlyAfterTrigger = FALSE
  Strategy = "REPLICA"
INVARIANTS BoundedRounds TriggerKept
CHECK_DEADLOCK FALSE
