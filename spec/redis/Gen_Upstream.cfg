SPECIFICATION GenSpec
CONSTANTS
  Reqs = {"r1", "r2", "r3"}
  QCap = 2
  FixHandoff = TRUE
  FixSend = TRUE
  FixReader = TRUE
  Banned = {}
  FixFlushOnStop = TRUE
  MaxResets = 1
  WithStop = TRUE
  Det = TRUE
CHECK_DEADLOCK FALSE
