SPECIFICATION GenSpec
CONSTANTS
  Reqs = {"r1", "r2", "r3"}
  QCap = 2
  FixHandoff = TRUE
  FixSend = TRUE
  FixReader = TRUE
  Banned = {}
  Asking = {}
  AskAnswersInHand = TRUE
  DrainAfterStopped = TRUE
  FilteredFailAnswers = FALSE
  BufCap = 3
  FixFlushOnStop = TRUE
  MaxResets = 1
  WithStop = TRUE
  Det = TRUE
  EmitViolating = FALSE
  FaultPoints = {"any", "reader-holds-reply", "writer-handoff", "writer-got", "sender-checked", "sender-enqueued", "sender-after-drain", "queues-loaded", "reader-paired"}
CHECK_DEADLOCK FALSE
