--------------------------- MODULE PipelineObsTrace ---------------------------
(* Trace specification: a recorded boundary trace (trace.json, an array)      *)
(* must be a behaviour of PipelineObs.                                       *)
EXTENDS PipelineObs, Json, TLC, TLCExt

TraceLog == TLCEval(JsonDeserialize("trace.json"))   \* TLCEval: evaluated once and cached

VARIABLE l
tvars == <<ovars, l>>

TraceConns == TLCEval({TraceLog[i].c : i \in 1..Len(TraceLog)})

TraceInit == ObsInit /\ l = 1

TraceNext ==
  /\ l <= Len(TraceLog)
  /\ LET e == TraceLog[l] IN
       \/ e.ev = "send" /\ Send(e.c, e.k, e.kind)
       \/ e.ev = "recv" /\ Recv(e.c, e.tc, e.tk, e.cls)
       \/ e.ev = "end" /\ End(e.c)
  /\ l' = l + 1

TraceSpec == TraceInit /\ [][TraceNext]_tvars

TraceAccepted ==
  LET d == TLCGet("stats").diameter IN
  IF d - 1 = Len(TraceLog) THEN TRUE
  ELSE Print(<<"@@REJECT", d, IF d <= Len(TraceLog) THEN TraceLog[d] ELSE "end">>, FALSE)
=============================================================================
