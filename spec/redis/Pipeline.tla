------------------------------- MODULE Pipeline -------------------------------
(***************************************************************************)
(* Request/reply ordering of the Redis proxy (C01): downstream sessions    *)
(* (reader: decode -> dispatch -> enqueue in the session queue; writer:    *)
(* take the head, wait for its completion, encode; session.go:75-128),     *)
(* split requests with a child counter (request.go:148-331) and one FIFO   *)
(* pipeline per backend node (pending -> socket -> processing queue,       *)
(* upstream.go:612-667: the backend reader pairs each reply with the head  *)
(* of the sent queue).  Backend nodes answer in any relative order.        *)
(***************************************************************************)
EXTENDS Naturals, Sequences, FiniteSets, TLC

CONSTANTS Conns, Nodes,
          MaxReq,       \* requests per connection
          SessCap,      \* capacity of the session queue (code: 32)
          ChildrenMayFail,   \* a child of a split request may be answered with an error (backend lost, no host)
          ErrorCompletesParent \* FALSE = the code: every child only decrements the counter, the parent is completed when
                               \* it reaches zero; TRUE = a (wrong) variant in which a failing child completes the parent at once

Kinds == {"local", "simple", "multi"}

VARIABLES
  nsent,      \* nsent[c]: requests read from connection c so far
  plan,       \* plan[c][k]: sequence of nodes the k-th request of c is sent to (<<>> for local)
  sq,         \* sq[c]: session queue, request indexes in read order
  left,       \* left[c][k]: children not yet answered
  bq,         \* bq[n]: FIFO of <<c, k, j>> children written to node n and not yet answered
  out,        \* out[c]: request indexes in the order their replies were written
  pcompl      \* pcompl[c][k]: how many times the k-th request of c has been completed (a second completion closes a
              \* closed channel: the process dies)

vars == <<nsent, plan, sq, left, bq, out, pcompl>>

Targets == {<<>>} \cup {<<n>> : n \in Nodes} \cup {<<n, m>> : n \in Nodes, m \in Nodes}

Init ==
  /\ nsent = [c \in Conns |-> 0]
  /\ plan = [c \in Conns |-> <<>>]
  /\ sq = [c \in Conns |-> <<>>]
  /\ left = [c \in Conns |-> <<>>]
  /\ bq = [n \in Nodes |-> <<>>]
  /\ out = [c \in Conns |-> <<>>]
  /\ pcompl = [c \in Conns |-> <<>>]

RECURSIVE Enq(_, _, _, _, _)
\* enqueue child j.. of request (c,k) with targets tg into the backend queues, in argument order
Enq(q, c, k, tg, j) ==
  IF j > Len(tg) THEN q
  ELSE Enq([q EXCEPT ![tg[j]] = Append(@, <<c, k, j>>)], c, k, tg, j + 1)

(* session reader: decode request k of connection c, dispatch it (children are   *)
(* handed to their backends in argument order), then enqueue it in the session   *)
(* queue; blocks while the session queue is full                                  *)
ClientSend(c, tg) ==
  /\ nsent[c] < MaxReq /\ Len(sq[c]) < SessCap
  /\ LET k == nsent[c] + 1 IN
       /\ nsent' = [nsent EXCEPT ![c] = k]
       /\ plan' = [plan EXCEPT ![c] = Append(@, tg)]
       /\ left' = [left EXCEPT ![c] = Append(@, Len(tg))]
       /\ bq' = Enq(bq, c, k, tg, 1)
       /\ sq' = [sq EXCEPT ![c] = Append(@, k)]
       /\ pcompl' = [pcompl EXCEPT ![c] = Append(@, IF Len(tg) = 0 THEN 1 ELSE 0)]   \* local commands are answered at once
  /\ UNCHANGED out

(* node n answers the oldest command it has received; the backend reader pairs   *)
(* the reply with the head of that connection's sent queue; the child counter of  *)
(* a split request is decremented                                                 *)
BackendReply(n) ==
  /\ bq[n] # <<>>
  /\ LET h == Head(bq[n]) IN
       /\ left' = [left EXCEPT ![h[1]][h[2]] = @ - 1]
       /\ pcompl' = [pcompl EXCEPT ![h[1]][h[2]] = IF left[h[1]][h[2]] = 1 THEN @ + 1 ELSE @]
  /\ bq' = [bq EXCEPT ![n] = Tail(@)]
  /\ UNCHANGED <<nsent, plan, sq, out>>

(* a child is answered with an error (its backend was lost, no host available, ...): onChildDone *)
ChildFails(n) ==
  /\ ChildrenMayFail /\ bq[n] # <<>>
  /\ LET h == Head(bq[n]) IN
       IF ErrorCompletesParent
         THEN /\ pcompl' = [pcompl EXCEPT ![h[1]][h[2]] = @ + 1]
              /\ left' = [left EXCEPT ![h[1]][h[2]] = 0]
         ELSE /\ left' = [left EXCEPT ![h[1]][h[2]] = @ - 1]
              /\ pcompl' = [pcompl EXCEPT ![h[1]][h[2]] = IF left[h[1]][h[2]] = 1 THEN @ + 1 ELSE @]
  /\ bq' = [bq EXCEPT ![n] = Tail(@)]
  /\ UNCHANGED <<nsent, plan, sq, out>>

(* session writer: the head request is complete -> encode its reply              *)
SessionWrite(c) ==
  /\ sq[c] # <<>> /\ left[c][Head(sq[c])] = 0
  /\ out' = [out EXCEPT ![c] = Append(@, Head(sq[c]))]
  /\ sq' = [sq EXCEPT ![c] = Tail(@)]
  /\ UNCHANGED <<nsent, plan, left, bq, pcompl>>

Next ==
  \/ \E c \in Conns, tg \in Targets : ClientSend(c, tg)
  \/ \E n \in Nodes : BackendReply(n) \/ ChildFails(n)
  \/ \E c \in Conns : SessionWrite(c)

Spec == Init /\ [][Next]_vars /\ WF_vars(\E n \in Nodes : BackendReply(n)) /\ WF_vars(\E c \in Conns : SessionWrite(c))

-----------------------------------------------------------------------------
\* the k-th reply on a connection answers the k-th request
ReplyOrder == \A c \in Conns : \A i \in 1..Len(out[c]) : out[c][i] = i
\* a reply is written only when all children of the request have been answered
OnlyComplete == \A c \in Conns : \A i \in 1..Len(out[c]) : left[c][out[c][i]] = 0
\* a request is completed at most once, and exactly once before its reply is written
ParentOnce == \A c \in Conns : \A k \in 1..Len(pcompl[c]) : pcompl[c][k] <= 1
WrittenComplete == \A c \in Conns : \A i \in 1..Len(out[c]) : pcompl[c][out[c][i]] = 1
\* never more replies than requests
NeverAhead == \A c \in Conns : Len(out[c]) + Len(sq[c]) = nsent[c]
\* every request read is eventually answered (backends answer eventually)
AllAnswered == \A c \in Conns : <>[](Len(out[c]) = nsent[c])
=============================================================================
