SPECIFICATION GenSpec
CONSTANTS
  MaxLayout = 1
  MaxFailures = 0
  DrainOnSuccess = FALSE
  SkipUnchanged = FALSE
  RearmOnlyAfterTrigger = FALSE
  Strategy = "MASTER"
  MaxSteps = 10
  Periodic = TRUE
VIEW GenView
ACTION_CONSTRAINT StrataEmit
CHECK_DEADLOCK FALSE
