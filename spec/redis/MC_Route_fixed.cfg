SPECIFICATION Spec
CONSTANTS
  Sessions = {"s1", "s2"}
  Shards = {"A", "B"}
  NRep = 2
  Strategies = {"MASTER", "BOTH", "REPLICA"}
  Kinds = {"read", "write", "unsupported", "local"}
  MaxReq = 2
  MaxUpdates = 0
  StickyStrategy = FALSE
  SharedScratch = FALSE
INVARIANTS TypeOK OnlySupportedReachBackends WritesToOwningMaster RoutedWithinOwnerFamily
CHECK_DEADLOCK FALSE
