SPECIFICATION GenSpec
CONSTANTS
  Reqs = {1,2}
  MaxResends = 2
  MaxRefresh = 3
  HookBeforeQuitCheck = TRUE
  Locals = TRUE
  Triggers = TRUE
  Decodes = TRUE
  QuitWhen = "any"
CHECK_DEADLOCK FALSE
