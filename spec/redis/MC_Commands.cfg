SPECIFICATION Spec
INVARIANTS WritesOnlyToMaster UnsupportedNeverForwarded LocalNeverForwarded
CHECK_DEADLOCK FALSE
