----------------------------- MODULE PipelineGen -----------------------------
(* Behaviour emitter: the order of client sends (with the nodes each request  *)
(* touches) and of backend replies; replayed against the real proxy with      *)
(* gated simulated nodes.                                                      *)
EXTENDS Pipeline, Json
VARIABLES hist, finished
gvars == <<vars, hist, finished>>
GenInit == Init /\ hist = <<>> /\ finished = FALSE
Done == (\A c \in Conns : nsent[c] = MaxReq /\ Len(out[c]) = MaxReq)
Finish ==
  /\ ~finished /\ Done
  /\ PrintT("@@BEH " \o ToJson(hist))
  /\ finished' = TRUE /\ UNCHANGED <<vars, hist>>
GenNext ==
  /\ ~finished
  /\ \/ \E c \in Conns, tg \in Targets : ClientSend(c, tg) /\ hist' = Append(hist, [a |-> "send", c |-> c, k |-> nsent[c] + 1, tg |-> tg, n |-> 0])
     \/ \E n \in Nodes : BackendReply(n) /\ hist' = Append(hist, [a |-> "reply", c |-> 0, k |-> 0, tg |-> <<>>, n |-> n])
     \/ \E c \in Conns : SessionWrite(c) /\ UNCHANGED hist
  /\ UNCHANGED finished
GenSpec == GenInit /\ [][GenNext \/ Finish]_gvars
=============================================================================
