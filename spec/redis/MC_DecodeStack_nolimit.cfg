SPECIFICATION Spec
CONSTANTS
  MaxDepth = 2
  MaxRun = 9
  BlankPolicy = "error"
  EmptyPolicy = "deliver"
  DepthPolicy = "none"
INVARIANTS TypeOK StackBounded
CHECK_DEADLOCK FALSE
