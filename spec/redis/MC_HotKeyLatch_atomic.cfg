SPECIFICATION Spec
CONSTANTS
  Keys = {"a", "b"}
  MaxIncr = 5
  MaxLatch = 3
  AtomicLatch = TRUE
INVARIANTS Conservation
CHECK_DEADLOCK FALSE
