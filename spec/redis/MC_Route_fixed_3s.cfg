SPECIFICATION Spec
CONSTANTS
  Sessions = {"s1", "s2", "s3"}
  Shards = {"A", "B", "C"}
  NRep = 1
  Strategies = {"MASTER", "BOTH", "REPLICA"}
  Kinds = {"read", "write"}
  MaxReq = 1
  MaxUpdates = 0
  StickyStrategy = FALSE
  SharedScratch = FALSE
INVARIANTS TypeOK OnlySupportedReachBackends WritesToOwningMaster RoutedWithinOwnerFamily
CHECK_DEADLOCK FALSE
