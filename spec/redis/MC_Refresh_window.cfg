SPECIFICATION Spec
CONSTANTS
  MaxLayout = 3
  MaxFailures = 2
  DrainOnSuccess = FALSE
INVARIANTS NoWindow
CHECK_DEADLOCK FALSE
