\* the window of the connection strata must be reachable: TLC must violate NoReadOverOlderConnection
SPECIFICATION Spec
CONSTANTS
  Keys = {"k1"}
  MaxOps = 5
  MaxRedirects = 1
  FixOnce = TRUE
  MaxVals = 1
  HookDepth = 2
  OwnBytes = TRUE
  Nodes = {"a", "b"}
  ConnConfig = "live"
INVARIANTS NoReadOverOlderConnection
CHECK_DEADLOCK FALSE
