SPECIFICATION GenSpec
CONSTANTS
  Reqs = {1, 2}
  MaxGens = 2
  MaxClients = 2
  MaxFaults = 1
  MaxStalls = 1
  MaxAsk = 1
  AskSelectsQuit = TRUE
  ResetStopsUnderLock = FALSE
  Counters = FALSE
  MaxCollects = 0
  MaxCfg = 1
  FreeDestroys = FALSE
  FreeHoldsCounterLock = FALSE
  UpdateLosesDefaults = FALSE
  FixCallEntry = TRUE
  FixResetSnapshot = TRUE
  FixRemoveOwn = TRUE
VIEW GenView
ACTION_CONSTRAINT StrataEmit
CHECK_DEADLOCK FALSE
