------------------------------ MODULE PipelineObs ------------------------------
(***************************************************************************)
(* Property-level (observational) specification of the Redis proxy as seen *)
(* from its downstream connections (properties C01, C02):                  *)
(*   - on each connection the k-th reply answers the k-th request;         *)
(*   - exactly one reply per request;                                      *)
(*   - a reply never carries data of another connection;                   *)
(*   - when a connection has stayed open long enough, every request on it  *)
(*     has been answered.                                                  *)
(* Requests are identified by (connection, index).  A reply is observed as *)
(* a record [tc, tk, cls]: tc/tk are the connection and index of the       *)
(* request whose unique payload the reply carries (0 when the reply        *)
(* carries no payload, e.g. OK, PONG or an error), cls its class.          *)
(***************************************************************************)
EXTENDS Naturals, Sequences, FiniteSets

CONSTANTS Conns,       \* set of connection ids (naturals)
          ErrorsOK     \* TRUE when backends may fail (C02): error replies are allowed

VARIABLES ns,          \* ns[c]: number of requests sent so far on c
          out,         \* out[c]: kinds of the requests sent on c and not yet answered (FIFO)
          got,         \* got[c]: number of replies received on c
          ended        \* ended[c]: the client has stopped waiting

ovars == <<ns, out, got, ended>>

Kinds == {"get", "mget", "set", "mset", "exists", "del", "ping", "unsupported", "invalid", "echo"}

\* reply classes a request kind may be answered with
Allowed(kind) ==
  CASE kind = "get"         -> {"val"}
    [] kind = "mget"        -> {"vals"}
    [] kind = "set"         -> {"ok"}
    [] kind = "mset"        -> {"ok"}
    [] kind = "exists"      -> {"int"}
    [] kind = "del"         -> {"int"}
    [] kind = "ping"        -> {"pong"}
    [] kind = "unsupported" -> {"err"}
    [] kind = "invalid"     -> {"err"}
    [] kind = "echo"        -> {"val"}
    [] OTHER                -> {}

ObsInit ==
  /\ ns = [c \in Conns |-> 0]
  /\ out = [c \in Conns |-> <<>>]
  /\ got = [c \in Conns |-> 0]
  /\ ended = [c \in Conns |-> FALSE]

Send(c, k, kind) ==
  /\ ~ended[c]
  /\ k = ns[c] + 1
  /\ ns' = [ns EXCEPT ![c] = k]
  /\ out' = [out EXCEPT ![c] = Append(@, kind)]
  /\ UNCHANGED <<got, ended>>

Recv(c, tc, tk, cls) ==
  /\ out[c] # <<>>                               \* never more replies than requests
  /\ LET i == got[c] + 1 IN
       /\ (tk # 0 => tc = c /\ tk = i)            \* payload of this connection's i-th request
       /\ \/ cls \in Allowed(Head(out[c]))
          \/ ErrorsOK /\ cls \in {"err", "vals_with_err"}
  /\ got' = [got EXCEPT ![c] = @ + 1]
  /\ out' = [out EXCEPT ![c] = Tail(@)]
  /\ UNCHANGED <<ns, ended>>

\* the client gave up waiting (generous deadline) or finished reading
End(c) ==
  /\ ~ended[c]
  /\ out[c] = <<>>                               \* every request has been answered
  /\ ended' = [ended EXCEPT ![c] = TRUE]
  /\ UNCHANGED <<ns, out, got>>

ObsNext == \E c \in Conns :
  \/ \E kind \in Kinds : Send(c, ns[c] + 1, kind)
  \/ \E tc \in Conns \cup {0}, tk \in 0..ns[c], cls \in {"val", "vals", "ok", "int", "pong", "err", "vals_with_err"} :
        Recv(c, tc, tk, cls)
  \/ End(c)

ObsSpec == ObsInit /\ [][ObsNext]_ovars

\* invariants of the observational spec (hold by construction; checked on every trace state)
NeverAhead == \A c \in Conns : got[c] + Len(out[c]) = ns[c]
EndedComplete == \A c \in Conns : ended[c] => got[c] = ns[c]
Bound == \A c \in Conns : ns[c] <= 2
=============================================================================
