------------------------------ MODULE SlotRoute ------------------------------
(***************************************************************************)
(* C12 - the routing decision: "the slot the proxy routes by".             *)
(*                                                                         *)
(* Slot.tla defines Slot(key).  This module models where that number is    *)
(* USED (proc/redis/upstream.go): chooseHost looks the slot up in a table  *)
(* of 16384 entries which doSlotsRefresh fills from CLUSTER NODES, one     *)
(* instance after the other, while session goroutines keep reading it      *)
(* without a lock.  An entry without an owner makes chooseHost fall back   *)
(* to a random seed host ("seed"), i.e. the request is not routed by its   *)
(* slot at all.                                                            *)
(*                                                                         *)
(* The cluster is correctly sharded and does not change (Layout is fixed   *)
(* per behaviour), so after the first successful refresh every routing     *)
(* decision - in every phase of every later refresh, successful or failed  *)
(* - must be the owner of Slot(key), for every key including the empty     *)
(* one (CRC16 of no bytes is 0: slot 0).                                   *)
(*                                                                         *)
(* Constants selecting a broken variant (anti-vacuity, each must violate   *)
(* RoutedByOwner / RoutesNow):                                             *)
(*   WipeFirst    the refresh clears the table before it refills it;       *)
(*   EmptyKeyAny  an empty routing key is sent to any seed host.           *)
(* Both are FALSE for the code as it is.                                   *)
(***************************************************************************)
EXTENDS Integers, Sequences, FiniteSets, TLC, TLCExt

CONSTANTS
  Layouts,       \* set of layout names (see LayoutDef)
  MaxRefresh,    \* number of refreshes per behaviour
  WipeFirst,
  EmptyKeyAny

S == INSTANCE Slot WITH v <- 0

SlotNum == 16384

(***************************************************************************)
(* Layouts: masters (name, address announced in CLUSTER NODES, closed slot *)
(* ranges).  "three" is the textbook split; "frag" has single slots at the *)
(* range borders, interleaved ranges and five masters.                     *)
(***************************************************************************)
LayoutText(l) ==
  CASE l = "three" ->
        << [n |-> "A", a |-> "10.0.0.1:7000", r |-> << <<0, 5460>> >>],
           [n |-> "B", a |-> "10.0.0.2:7000", r |-> << <<5461, 10922>> >>],
           [n |-> "C", a |-> "10.0.0.3:7000", r |-> << <<10923, 16383>> >>] >>
    [] l = "frag" ->
        << [n |-> "A", a |-> "10.0.1.1:7001", r |-> << <<0, 0>>, <<2, 4095>>, <<16383, 16383>> >>],
           [n |-> "B", a |-> "10.0.1.2:7002", r |-> << <<1, 1>>, <<4096, 5460>>, <<5462, 8191>> >>],
           [n |-> "C", a |-> "10.0.1.3:7003", r |-> << <<5461, 5461>>, <<8192, 10922>> >>],
           [n |-> "D", a |-> "10.0.1.4:7004", r |-> << <<10923, 10923>>, <<12000, 16382>> >>],
           [n |-> "E", a |-> "10.0.1.5:7005", r |-> << <<10924, 11999>> >>] >>

AllLayouts == {"three", "frag"}
LayoutTab == TLCEval([l \in AllLayouts |-> LayoutText(l)])     \* evaluated once
LayoutDef(l) == LayoutTab[l]

Owns(l, i, s) == \E j \in 1..Len(LayoutDef(l)[i].r) :
                   s >= LayoutDef(l)[i].r[j][1] /\ s <= LayoutDef(l)[i].r[j][2]

\* correctly sharded: every slot has exactly one owner.  Checked per layout without enumerating the slots:
\* the ranges are well formed, pairwise disjoint, and their lengths add up to 16384.
Ranges(l) == {<<i, j>> : i \in 1..Len(LayoutDef(l)), j \in 1..3} \cap
             {p \in (1..Len(LayoutDef(l))) \X (1..3) : p[2] <= Len(LayoutDef(l)[p[1]].r)}
Lo(l, p) == LayoutDef(l)[p[1]].r[p[2]][1]
Hi(l, p) == LayoutDef(l)[p[1]].r[p[2]][2]
RECURSIVE SumLen(_, _)
SumLen(l, ps) == IF ps = {} THEN 0
                 ELSE LET p == CHOOSE x \in ps : TRUE IN (Hi(l, p) - Lo(l, p) + 1) + SumLen(l, ps \ {p})
Partition(l) ==
  /\ \A i \in 1..Len(LayoutDef(l)) : Len(LayoutDef(l)[i].r) \in 1..3
  /\ \A p \in Ranges(l) : 0 <= Lo(l, p) /\ Lo(l, p) <= Hi(l, p) /\ Hi(l, p) < SlotNum
  /\ \A p, q \in Ranges(l) : p # q => (Hi(l, p) < Lo(l, q) \/ Hi(l, q) < Lo(l, p))
  /\ SumLen(l, Ranges(l)) = SlotNum
ASSUME Layouts \subseteq AllLayouts
ASSUME \A l \in AllLayouts : Partition(l)

OwnerIdx(l, s) == CHOOSE i \in 1..Len(LayoutDef(l)) : Owns(l, i, s)

(***************************************************************************)
(* The keys routed.  Every shape the hash tag rule distinguishes, the      *)
(* empty key, keys sharing a tag, and two byte keys whose slots are the     *)
(* borders of the ranges of the layouts.                                   *)
(***************************************************************************)
BorderSlots == <<0, 1, 2, 4095, 4096, 5460, 5461, 5462, 8191, 8192, 10922, 10923, 10924, 11999, 12000, 16382, 16383>>
\* two byte keys of these slots (found by search outside TLC; TLC checks each of them below: ASSUME)
BorderKeys ==
  << <<0, 0>>, <<81, 105>>, <<42, 195>>, <<63, 217>>, <<17, 2>>, <<45, 44>>, <<56, 77>>, <<7, 239>>, <<46, 219>>,
     <<34, 4>>, <<52, 146>>, <<33, 243>>, <<15, 223>>, <<58, 171>>, <<49, 200>>, <<25, 190>>, <<12, 223>> >>

ShapeKeys ==
  << <<>>,                                                           \* the empty key: slot 0
     <<123, 125>>,                                                   \* {}      : whole key
     <<123>>, <<125>>, <<125, 123>>,                                 \* { } }{  : whole key
     <<123, 125, 120>>,                                              \* {}x     : whole key
     <<97>>, <<102, 111, 111>>, <<98, 97, 114>>,                     \* a foo bar
     <<123, 102, 111, 111, 125>>,                                    \* {foo}   : foo
     <<120, 123, 102, 111, 111, 125, 121>>,                          \* x{foo}y : foo
     <<97, 125, 98, 123, 99, 125>>,                                  \* a}b{c}  : c
     <<123, 123, 98, 125, 125>>,                                     \* {{b}}   : {b
     <<123, 97, 125, 123, 98, 125>>,                                 \* {a}{b}  : a
     <<123, 117, 58, 49, 125, 46, 105, 110>>,                        \* {u:1}.in
     <<123, 117, 58, 49, 125, 46, 111, 117, 116>>,                   \* {u:1}.out
     <<0>>, <<255, 0, 255>>, <<123, 0, 125>> >>                      \* binary

Keys == ShapeKeys \o BorderKeys
NKeys == Len(Keys)

\* evaluated once per key
KeySlot == TLCEval([ki \in 1..NKeys |-> S!Slot(Keys[ki])])
KeyTag  == TLCEval([ki \in 1..NKeys |-> S!HashTag(Keys[ki])])

ASSUME KeySlot[1] = 0                     \* the empty key lives in slot 0
ASSUME \A i \in 1..Len(BorderSlots) : KeySlot[Len(ShapeKeys) + i] = BorderSlots[i]

VARIABLES
  lay,      \* the layout of the cluster (does not change)
  phase,    \* "boot" (never refreshed) | "idle" | "inflight" | "update"
  tbl,      \* master index -> "nil" | "set": do the slots of that master have an owner in the table
  todo,     \* masters whose slots the running refresh has not yet written
  filled,   \* a refresh has completed
  nref,     \* refreshes begun
  last      \* the last routing decision [k, node, judged] or NoRoute

vars == <<lay, phase, tbl, todo, filled, nref, last>>

NoRoute == [k |-> 0, node |-> "", judged |-> FALSE]

N == Len(LayoutDef(lay))
Name(i) == LayoutDef(lay)[i].n

\* index of the master owning the slot of key ki, per layout (evaluated once)
KeyOwner == TLCEval([l \in AllLayouts |-> [ki \in 1..NKeys |-> OwnerIdx(l, KeySlot[ki])]])
\* pairs of distinct keys sharing the hash tag (evaluated once)
TagMates == TLCEval({p \in (1..NKeys) \X (1..NKeys) : p[1] < p[2] /\ KeyTag[p[1]] = KeyTag[p[2]]})
ASSUME TagMates # {}

OwnerOf(ki) == Name(KeyOwner[lay][ki])

\* chooseHost
NodeIn(t, ki) ==
  IF EmptyKeyAny /\ Keys[ki] = <<>> THEN "seed"
  ELSE LET i == KeyOwner[lay][ki] IN
         IF t[i] = "nil" THEN "seed" ELSE Name(i)
Node(ki) == NodeIn(tbl, ki)

Init ==
  /\ lay \in Layouts
  /\ phase = "boot"
  /\ tbl = [i \in 1..Len(LayoutDef(lay)) |-> "nil"]
  /\ todo = {}
  /\ filled = FALSE
  /\ nref = 0
  /\ last = NoRoute

\* CLUSTER NODES goes to a seed host
Send ==
  /\ phase \in {"boot", "idle"}
  /\ nref < MaxRefresh
  /\ phase' = "inflight"
  /\ nref' = nref + 1
  /\ UNCHANGED <<lay, tbl, todo, filled, last>>

\* error reply, malformed reply, seed host gone: the table is left alone
Fail ==
  /\ phase = "inflight"
  /\ phase' = IF filled THEN "idle" ELSE "boot"
  /\ UNCHANGED <<lay, tbl, todo, filled, nref, last>>

ParsedTbl(t) == IF WipeFirst THEN [i \in DOMAIN t |-> "nil"] ELSE t

\* the reply is parsed, the update of the table begins
Parse ==
  /\ phase = "inflight"
  /\ phase' = "update"
  /\ todo' = 1..N
  /\ tbl' = ParsedTbl(tbl)
  /\ UNCHANGED <<lay, filled, nref, last>>

\* the slots of one master are written (in no particular order: map iteration)
Assign(i) ==
  /\ phase = "update"
  /\ i \in todo
  /\ tbl' = [tbl EXCEPT ![i] = "set"]
  /\ todo' = todo \ {i}
  /\ UNCHANGED <<lay, phase, filled, nref, last>>

Done ==
  /\ phase = "update"
  /\ todo = {}
  /\ phase' = "idle"
  /\ filled' = TRUE
  /\ UNCHANGED <<lay, tbl, todo, nref, last>>

\* a session goroutine routes a key: at any time, in any phase
Route(ki) ==
  /\ last' = [k |-> ki, node |-> Node(ki), judged |-> filled]
  /\ UNCHANGED <<lay, phase, tbl, todo, filled, nref>>

Refresh == Send \/ Fail \/ Parse \/ (\E i \in 1..N : Assign(i)) \/ Done
Next == Refresh \/ (\E ki \in 1..NKeys : Route(ki))

Spec == Init /\ [][Next]_vars
RefreshSpec == Init /\ [][Refresh]_vars     \* the refresh alone (emission of the reachable table states)

TypeOK ==
  /\ lay \in Layouts
  /\ phase \in {"boot", "idle", "inflight", "update"}
  /\ tbl \in [1..N -> {"nil", "set"}]
  /\ todo \subseteq 1..N
  /\ filled \in BOOLEAN
  /\ nref \in 0..MaxRefresh
  /\ last.k \in 0..NKeys

(***************************************************************************)
(* The property.                                                           *)
(***************************************************************************)
\* every decision taken after the first fill is the owner of the key's slot
RoutedByOwner == last.judged => last.node = OwnerOf(last.k)

\* the same, as a predicate of the table a concurrent reader may see
RoutesNow == filled => \A ki \in 1..NKeys : Node(ki) = OwnerOf(ki)

\* keys that share a hash tag go to the same node ("seed" is a random host: never "the same")
TagMatesTogether ==
  filled => \A p \in TagMates : Node(p[1]) = Node(p[2]) /\ Node(p[1]) # "seed"

\* the window the refresh regression lives in: a decision while some masters are written and some are not,
\* in a refresh of a table that was complete (MC_SlotRoute_wipe.cfg needs the window for its counterexample;
\* the emission marks the states with InWindow and the check requires that the real refresh is paused in them).
InWindow == phase = "update" /\ todo # {} /\ todo # 1..N /\ filled
=============================================================================
