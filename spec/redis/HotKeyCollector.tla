-------------------------- MODULE HotKeyCollector --------------------------
(***************************************************************************)
(* C19, part 3: the hot-key collector of proc/redis/hotkey/collector.go.   *)
(*                                                                         *)
(* Per-backend counters (abstract: key -> count with capacity, see         *)
(* HotKey.tla for the exact eviction order) are latched by Collect, the    *)
(* visits are merged into the previous heat of every key through the       *)
(* logarithmic counter (bounded nondeterminism, LogRange), and the top Cap *)
(* keys are kept in a slice sorted by non-increasing heat.  EvictStale     *)
(* halves the keys whose last update minute is older than the current      *)
(* minute and drops the keys that reach zero.  HOTKEY readers take the     *)
(* slice under the read lock and then read name and heat of every entry    *)
(* without a lock (handleHotKey).                                          *)
(*                                                                         *)
(* The heat counters are heap objects (logrithmCounter pointers) shared     *)
(* by the published slice, the slice under construction and slices held    *)
(* by readers.  A key keeps its object as long as it stays in the report,  *)
(* so sharing is modelled without a heap: slices hold [k, v, lut] entries, *)
(* an in-place update of key k is applied to every slice that aliases k's  *)
(* object (the published one, the one under construction, and a reader's   *)
(* entry whose flag sh says it still aliases the collector's object).      *)
(*                                                                         *)
(* Collect and EvictStale run on one goroutine (Collector.Run) and are     *)
(* therefore never concurrent with each other; both are split into their   *)
(* per-key steps so that clock ticks, counter increments and reader steps  *)
(* interleave with them.                                                   *)
(*                                                                         *)
(* FixEvict    = FALSE: the pinned evictStale (order kept after halving).  *)
(*             = TRUE : the order is restored after halving.               *)
(* CopyOnMerge = FALSE: the pinned code mutates the shared heat objects in *)
(*                      place (ReaptIncr / Halve on published pointers).   *)
(*             = TRUE : collect / evictStale work on copies; a published   *)
(*                      slice is immutable.                                *)
(***************************************************************************)
EXTENDS Naturals, Sequences, FiniteSets

CONSTANTS Keys, Ctrs, Cap, MaxVal,
          MaxPeriods, MaxHits, MaxTicks, MaxEvicts, MaxReads, MaxFrees,
          FixEvict, CopyOnMerge

VARIABLES
  ctr,       \* per-backend counters: [Ctrs -> [Keys -> Nat]]
  minute,    \* the minute clock
  rep,       \* published slice c.keys: Seq([k, v, lut])
  cph,       \* collect phase: "idle" | "merge" | "new"
  pend,      \* latched visits not yet merged: [Keys -> Nat]
  todo,      \* keys of the previous report not yet merged
  res,       \* slice under construction
  eph,       \* evictStale phase: "idle" | "halve"
  ecur,      \* minute read at the start of evictStale
  epos,      \* next index to halve
  ework,     \* slice evictStale works on (aliases rep's objects unless CopyOnMerge)
  rph,       \* reader phase: "idle" | "reading"
  rslice,    \* the slice the reader got from HotKeys(): Seq([k, v, sh])
  rview,     \* what the reader has read so far: Seq([k, v])
  accessed,  \* ghost: keys ever passed to Incr
  budget     \* remaining budgets

vars == <<ctr, minute, rep, cph, pend, todo, res, eph, ecur, epos, ework,
          rph, rslice, rview, accessed, budget>>

Zero == [k \in Keys |-> 0]

\* func (c *logrithmCounter) ReaptIncr(times): every one of the n trials increments with probability
\* 1/(val*10+1); the first trial on a zero counter has probability 1 (r < 1.0 always holds)
LogRange(v, n) ==
  IF n = 0 THEN {v}
  ELSE (IF v = 0 THEN 1 ELSE v)..(IF v + n > MaxVal THEN MaxVal ELSE v + n)

Names(s) == {s[i].k : i \in 1..Len(s)}
IdxOf(s, k) == CHOOSE i \in 1..Len(s) : s[i].k = k

InsertAt(s, i, e) == SubSeq(s, 1, i - 1) \o <<e>> \o SubSeq(s, i, Len(s))

\* func (s *sortedHotKeys) Insert(key)
Insert(s, e) ==
  LET l == Len(s)
      hit == {j \in 1..l : s[j].v <= e.v}
      i == IF hit = {} THEN l + 1 ELSE CHOOSE j \in hit : \A h \in hit : j <= h
  IN IF l < Cap THEN InsertAt(s, i, e)
     ELSE IF i <= l THEN InsertAt(SubSeq(s, 1, l - 1), i, e)
     ELSE s

\* in-place update of the object of key k seen through a slice of [k, v, lut]
Poke(s, k, v, m) == [i \in 1..Len(s) |-> IF s[i].k = k THEN [k |-> k, v |-> v, lut |-> m] ELSE s[i]]
\* ... and through the reader's slice (only entries that still alias the object)
PokeR(s, k, v) == [i \in 1..Len(s) |-> IF s[i].k = k /\ s[i].sh THEN [s[i] EXCEPT !.v = v] ELSE s[i]]
\* entries of the reader's slice whose key left the report stop aliasing
Unshare(s, keep) == [i \in 1..Len(s) |-> IF s[i].k \in keep THEN s[i] ELSE [s[i] EXCEPT !.sh = FALSE]]

Init ==
  /\ ctr = [c \in Ctrs |-> Zero] /\ minute = 1
  /\ rep = <<>> /\ cph = "idle" /\ pend = Zero /\ todo = {} /\ res = <<>>
  /\ eph = "idle" /\ ecur = 0 /\ epos = 0 /\ ework = <<>>
  /\ rph = "idle" /\ rslice = <<>> /\ rview = <<>>
  /\ accessed = {}
  /\ budget = [periods |-> MaxPeriods, hits |-> MaxHits, ticks |-> MaxTicks,
               evicts |-> MaxEvicts, reads |-> MaxReads, frees |-> MaxFrees]

cvars == <<cph, pend, todo, res>>
evars == <<eph, ecur, epos, ework>>
rvars == <<rph, rslice, rview>>

JobIdle == cph = "idle" /\ eph = "idle"

---------------------------------------------------------------------------
\* request writers: hotKeyFilter.Do -> Counter.Incr on the backend's counter.
\* An Incr commutes with every step except the latch of CollectStart, so it is
\* only scheduled while no job is in progress (partial-order reduction).
CIncr(c, k) ==
  /\ budget.hits > 0 /\ JobIdle
  /\ LET cur == ctr[c]
         tracked == {x \in Keys : cur[x] > 0}
     IN IF cur[k] > 0 \/ Cardinality(tracked) < Cap
        THEN ctr' = [ctr EXCEPT ![c][k] = @ + 1]
        ELSE \E v \in tracked :
               /\ \A x \in tracked : cur[v] <= cur[x]
               /\ ctr' = [ctr EXCEPT ![c][v] = 0, ![c][k] = 1]
  /\ accessed' = accessed \cup {k}
  /\ budget' = [budget EXCEPT !.hits = @ - 1]
  /\ UNCHANGED <<minute, rep, cvars, evars, rvars>>

\* backend connection closed: Counter.Free unregisters and resets the counter;
\* the next connection to the same backend allocates an empty one
CFree(c) ==
  /\ budget.frees > 0 /\ JobIdle /\ ctr[c] # Zero
  /\ ctr' = [ctr EXCEPT ![c] = Zero]
  /\ budget' = [budget EXCEPT !.frees = @ - 1]
  /\ UNCHANGED <<minute, rep, cvars, evars, rvars, accessed>>

Tick ==
  /\ budget.ticks > 0 /\ minute' = minute + 1
  /\ budget' = [budget EXCEPT !.ticks = @ - 1]
  /\ UNCHANGED <<ctr, rep, cvars, evars, rvars, accessed>>

---------------------------------------------------------------------------
RECURSIVE SumOver(_, _)
SumOver(cs, k) == IF cs = {} THEN 0
                 ELSE LET c == CHOOSE x \in cs : TRUE IN ctr[c][k] + SumOver(cs \ {c}, k)

\* func (c *Collector) collect()
CollectStart ==
  /\ JobIdle /\ budget.periods > 0
  /\ budget' = [budget EXCEPT !.periods = @ - 1]
  /\ LET sum == [k \in Keys |-> SumOver(Ctrs, k)]
     IN /\ ctr' = [c \in Ctrs |-> Zero]
        /\ IF sum = Zero
           THEN UNCHANGED cvars
           ELSE /\ cph' = (IF rep = <<>> THEN "new" ELSE "merge")
                /\ pend' = sum /\ todo' = Names(rep) /\ res' = <<>>
  /\ UNCHANGED <<minute, rep, evars, rvars, accessed>>

\* for keyName, counter := range curHotKeys { counter.ReaptIncr(visits); res.Insert(...) }
MergeOne(k) ==
  /\ cph = "merge" /\ k \in todo
  /\ LET old == rep[IdxOf(rep, k)]
     IN \E v \in LogRange(old.v, pend[k]) :
          /\ res' = Insert(res, [k |-> k, v |-> v, lut |-> minute])
          /\ IF CopyOnMerge
             THEN UNCHANGED <<rep, rslice>>
             ELSE rep' = Poke(rep, k, v, minute) /\ rslice' = PokeR(rslice, k, v)
  /\ pend' = [pend EXCEPT ![k] = 0]
  /\ todo' = todo \ {k}
  /\ cph' = IF todo' = {} THEN "new" ELSE "merge"
  /\ UNCHANGED <<ctr, minute, evars, rph, rview, accessed, budget>>

\* for keyName, hitCount := range accessedKeyNames { new(logrithmCounter).ReaptIncr(hitCount); res.Insert(...) }
AddNew(k) ==
  /\ cph = "new" /\ pend[k] > 0
  /\ \E v \in LogRange(0, pend[k]) : res' = Insert(res, [k |-> k, v |-> v, lut |-> minute])
  /\ pend' = [pend EXCEPT ![k] = 0]
  /\ UNCHANGED <<ctr, minute, rep, cph, todo, evars, rvars, accessed, budget>>

\* c.keys = res.Data()
Publish ==
  /\ cph = "new" /\ pend = Zero
  /\ rep' = res /\ cph' = "idle" /\ res' = <<>>
  /\ rslice' = IF CopyOnMerge THEN rslice ELSE Unshare(rslice, Names(res))
  /\ UNCHANGED <<ctr, minute, pend, todo, evars, rph, rview, accessed, budget>>

---------------------------------------------------------------------------
\* func (c *Collector) evictStale(); holds the write lock from start to end
EvictStart ==
  /\ JobIdle /\ budget.evicts > 0
  /\ budget' = [budget EXCEPT !.evicts = @ - 1]
  /\ eph' = "halve" /\ ecur' = minute /\ epos' = 1 /\ ework' = rep
  /\ UNCHANGED <<ctr, minute, rep, cvars, rvars, accessed>>

\* if curTimeInMinute > counter.LastUpdateTimeInMinute() { counter.Halve() }
HalveNext ==
  /\ eph = "halve" /\ epos <= Len(ework)
  /\ LET e == ework[epos]
         stale == ecur > e.lut /\ e.v # 0
         e2 == IF stale THEN [e EXCEPT !.v = e.v \div 2, !.lut = minute] ELSE e
     IN /\ ework' = [ework EXCEPT ![epos] = e2]
        /\ IF CopyOnMerge \/ ~stale
           THEN UNCHANGED <<rep, rslice>>
           ELSE rep' = Poke(rep, e.k, e2.v, e2.lut) /\ rslice' = PokeR(rslice, e.k, e2.v)
  /\ epos' = epos + 1
  /\ UNCHANGED <<ctr, minute, cvars, eph, ecur, rph, rview, accessed, budget>>

\* stable sort by non-increasing heat (insertion sort on a short sequence)
RECURSIVE SortDesc(_)
SortDesc(s) ==
  IF Len(s) <= 1 THEN s
  ELSE LET rest == SortDesc(Tail(s))
           e == Head(s)
           \* e goes before the first element that is not larger (stable)
           hit == {j \in 1..Len(rest) : rest[j].v <= e.v}
           i == IF hit = {} THEN Len(rest) + 1 ELSE CHOOSE j \in hit : \A h \in hit : j <= h
       IN InsertAt(rest, i, e)

EvictFinish ==
  /\ eph = "halve" /\ epos > Len(ework)
  /\ LET kept == SelectSeq(ework, LAMBDA e : e.v # 0)
         final == IF FixEvict THEN SortDesc(kept) ELSE kept
     IN /\ rep' = final
        /\ rslice' = IF CopyOnMerge THEN rslice ELSE Unshare(rslice, Names(final))
  /\ eph' = "idle" /\ ework' = <<>> /\ epos' = 0 /\ ecur' = 0
  /\ UNCHANGED <<ctr, minute, cvars, rph, rview, accessed, budget>>

---------------------------------------------------------------------------
\* handleHotKey: keys := u.HotKeys() (read lock: excluded by evictStale's write lock) ...
ReadStart ==
  /\ rph = "idle" /\ budget.reads > 0 /\ eph = "idle"
  /\ budget' = [budget EXCEPT !.reads = @ - 1]
  /\ rph' = "reading" /\ rview' = <<>>
  /\ rslice' = [i \in 1..Len(rep) |-> [k |-> rep[i].k, v |-> rep[i].v, sh |-> ~CopyOnMerge]]
  /\ UNCHANGED <<ctr, minute, rep, cvars, evars, accessed>>

\* ... for _, key := range keys { key.Counter.Value(), key.Name } (no lock)
ReadNext ==
  /\ rph = "reading" /\ Len(rview) < Len(rslice)
  /\ LET e == rslice[Len(rview) + 1]
     IN rview' = Append(rview, [k |-> e.k, v |-> e.v])
  /\ UNCHANGED <<ctr, minute, rep, cvars, evars, rph, rslice, accessed, budget>>

ReadEnd ==
  /\ rph = "reading" /\ Len(rview) = Len(rslice)
  /\ rph' = "idle" /\ rslice' = <<>>
  /\ UNCHANGED <<ctr, minute, rep, cvars, evars, rview, accessed, budget>>

Next ==
  \/ \E c \in Ctrs, k \in Keys : CIncr(c, k)
  \/ \E c \in Ctrs : CFree(c)
  \/ Tick
  \/ CollectStart \/ (\E k \in Keys : MergeOne(k) \/ AddNew(k)) \/ Publish
  \/ EvictStart \/ HalveNext \/ EvictFinish
  \/ ReadStart \/ ReadNext \/ ReadEnd

Spec == Init /\ [][Next]_vars

---------------------------------------------------------------------------
TypeOK ==
  /\ ctr \in [Ctrs -> [Keys -> 0..MaxHits]]
  /\ \A i \in 1..Len(rep) : rep[i].v \in 0..MaxVal /\ rep[i].k \in Keys
  /\ cph \in {"idle", "merge", "new"} /\ eph \in {"idle", "halve"} /\ rph \in {"idle", "reading"}

SortedVals(vs) == \A i \in 1..(Len(vs) - 1) : vs[i] >= vs[i + 1]
RepVals == [i \in 1..Len(rep) |-> rep[i].v]
ViewVals == [i \in 1..Len(rview) |-> rview[i].v]

\* the report as published (what a HOTKEY reader that is not overtaken sees)
ReportSorted == JobIdle => SortedVals(RepVals)
ReportUnique == \A i, j \in 1..Len(rep) : i # j => rep[i].k # rep[j].k
ReportCapped == Len(rep) <= Cap
OnlyAccessed == Names(rep) \subseteq accessed
NoZeroHeat == JobIdle => \A i \in 1..Len(rep) : rep[i].v > 0

\* the report as read by a concurrent HOTKEY reader
ViewSorted == SortedVals(ViewVals)
ViewUnique == \A i, j \in 1..Len(rview) : i # j => rview[i].k # rview[j].k
ViewCapped == Len(rview) <= Cap
ViewOnlyAccessed == {rview[i].k : i \in 1..Len(rview)} \subseteq accessed

\* window predicate for targeted behaviour emission (not a property): evictStale has halved
\* every entry, at least one key dropped to zero and the survivors are no longer in order,
\* i.e. a stale hotter key fell below a fresh one in the same pass that removes a key
EvictWindow ==
  /\ eph = "halve" /\ epos > Len(ework)
  /\ \E i \in 1..Len(ework) : ework[i].v = 0
  /\ LET kept == SelectSeq(ework, LAMBDA e : e.v # 0)
     IN ~SortedVals([i \in 1..Len(kept) |-> kept[i].v])

\* per-backend counters stay within capacity
CountersBounded == \A c \in Ctrs : Cardinality({k \in Keys : ctr[c][k] > 0}) <= Cap
=============================================================================
