----------------------------- MODULE HotKeyList -----------------------------
(***************************************************************************)
(* C19, part 2: the counter in the shape of the implementation             *)
(* (proc/redis/hotkey/counter.go): a map key -> item node, a doubly linked *)
(* list of frequency nodes (ascending frequency, head = c.freqHead), every *)
(* frequency node with a doubly linked list of item nodes.  Pointers are   *)
(* ids: frequency nodes 1..NId (0 = nil), item nodes are named by their    *)
(* key ("" = nil).  Every operator below transcribes one Go method         *)
(* statement by statement on a heap record S = [fn, it, head, items].      *)
(*                                                                         *)
(* TLC checks the structural invariant of the lists, the three counter     *)
(* properties of the statement directly on the heap, and that this module  *)
(* refines the abstract counter HotKey (PROPERTY AbsSpec).                 *)
(***************************************************************************)
EXTENDS Naturals, Sequences, FiniteSets

CONSTANTS Keys, Caps, MaxIncr, MaxCtl

VARIABLES cap, heap, since, ev, out, nI, nC

lvars == <<cap, heap, since, ev, out, nI, nC>>

MaxCap == CHOOSE c \in Caps : \A d \in Caps : d <= c
NId == MaxCap + 1          \* at most cap live nodes plus the one being inserted
Ids == 1..NId

NilF == [freq |-> 0, prev |-> 0, next |-> 0, ih |-> "", itl |-> ""]
NilI == [fn |-> 0, prev |-> "", next |-> ""]
NoEv == [key |-> "", count |-> 0, min |-> 0]
Zero == [k \in Keys |-> 0]

EmptyHeap == [fn |-> [i \in Ids |-> NilF], it |-> [k \in Keys |-> NilI], head |-> 0, items |-> {}]

Fresh(S) == CHOOSE i \in Ids : S.fn[i].freq = 0 /\ \A j \in Ids : S.fn[j].freq = 0 => i <= j
NewF(S, id, f) == [S EXCEPT !.fn[id] = [NilF EXCEPT !.freq = f]]

\* func (n *freqNode) AppendItem(item)
AppendItem(S, n, k) ==
  IF S.fn[n].ih = ""
  THEN [S EXCEPT !.it[k].fn = n, !.fn[n].ih = k, !.fn[n].itl = k]
  ELSE LET t == S.fn[n].itl IN
       [S EXCEPT !.it[k] = [fn |-> n, prev |-> t, next |-> ""], !.it[t].next = k, !.fn[n].itl = k]

\* func (n *itemNode) Free()
ItemFree(S, k) ==
  LET n == S.it[k].fn
      h == S.fn[n].ih
      t == S.fn[n].itl
      p == S.it[k].prev
      x == S.it[k].next
      S1 == IF h = t THEN [S EXCEPT !.fn[n].ih = "", !.fn[n].itl = ""]
            ELSE IF h = k THEN [S EXCEPT !.it[x].prev = "", !.fn[n].ih = x]
            ELSE IF t = k THEN [S EXCEPT !.it[p].next = "", !.fn[n].itl = p]
            ELSE [S EXCEPT !.it[p].next = x, !.it[x].prev = p]
  IN [S1 EXCEPT !.it[k] = NilI]

\* func (n *freqNode) PopItem(); the popped item is garbage afterwards
PopItem(S, n) ==
  LET h == S.fn[n].ih IN
  IF h = "" THEN S
  ELSE IF h = S.fn[n].itl THEN [S EXCEPT !.fn[n].ih = "", !.fn[n].itl = "", !.it[h] = NilI]
  ELSE LET x == S.it[h].next IN [S EXCEPT !.it[x].prev = "", !.fn[n].ih = x, !.it[h] = NilI]

\* func (n *freqNode) InsertBeforeMe(o)
InsertBeforeMe(S, n, o) ==
  LET p == S.fn[n].prev
      S1 == IF p # 0 THEN [S EXCEPT !.fn[p].next = o] ELSE S
  IN [S1 EXCEPT !.fn[o].prev = p, !.fn[o].next = n, !.fn[n].prev = o]

\* func (n *freqNode) InsertAfterMe(o)
InsertAfterMe(S, n, o) ==
  LET x == S.fn[n].next
      S1 == [S EXCEPT !.fn[o].next = x]
      S2 == IF x # 0 THEN [S1 EXCEPT !.fn[x].prev = o] ELSE S1
  IN [S2 EXCEPT !.fn[n].next = o, !.fn[o].prev = n]

\* func (n *freqNode) Free(); the node is garbage afterwards
FnodeFree(S, n) ==
  LET p == S.fn[n].prev
      x == S.fn[n].next
      S1 == IF p # 0 THEN [S EXCEPT !.fn[p].next = x] ELSE S
      S2 == IF x # 0 THEN [S1 EXCEPT !.fn[x].prev = p] ELSE S1
  IN [S2 EXCEPT !.fn[n] = NilF]

\* func (c *Counter) increment(item)
Increment(S, k) ==
  LET cur == S.it[k].fn
      cf == S.fn[cur].freq
      nx == S.fn[cur].next
      needNew == nx = 0 \/ S.fn[nx].freq # cf + 1
      id == Fresh(S)
      S1 == IF needNew THEN InsertAfterMe(NewF(S, id, cf + 1), cur, id) ELSE S
      tgt == IF needNew THEN id ELSE nx
      S2 == AppendItem(ItemFree(S1, k), tgt, k)
  IN IF S2.fn[cur].ih # "" THEN S2
     ELSE LET S3 == IF S2.head = cur THEN [S2 EXCEPT !.head = tgt] ELSE S2
          IN FnodeFree(S3, cur)

\* func (c *Counter) add(item)
Add(S, k) ==
  LET S0 == [S EXCEPT !.items = @ \cup {k}] IN
  IF S0.head # 0 /\ S0.fn[S0.head].freq = 1 THEN AppendItem(S0, S0.head, k)
  ELSE LET id == Fresh(S0)
           S1 == AppendItem(NewF(S0, id, 1), id, k)
           S2 == IF S1.head # 0 THEN InsertBeforeMe(S1, S1.head, id) ELSE S1
       IN [S2 EXCEPT !.head = id]

\* func (c *Counter) evict(); capacity >= 1 is assumed (with capacity 0 the Go
\* code dereferences a nil freqHead)
Victim(S) == S.fn[S.head].ih
Evict(S) ==
  LET n == S.head
      v == Victim(S)
      S1 == PopItem([S EXCEPT !.items = @ \ {v}], n)
  IN IF S1.fn[n].ih # "" THEN S1
     ELSE FnodeFree([S1 EXCEPT !.head = S1.fn[n].next], n)

FreqOf(S, k) == S.fn[S.it[k].fn].freq
SetMin(X) == CHOOSE x \in X : \A y \in X : x <= y

---------------------------------------------------------------------------
LInit ==
  /\ cap \in Caps
  /\ heap = EmptyHeap /\ since = Zero /\ ev = NoEv /\ out = Zero /\ nI = 0 /\ nC = 0

\* func (c *Counter) Incr(key)
LIncr(k) ==
  /\ nI < MaxIncr
  /\ IF k \in heap.items
     THEN /\ heap' = Increment(heap, k)
          /\ since' = [since EXCEPT ![k] = @ + 1]
          /\ ev' = NoEv
     ELSE IF Cardinality(heap.items) >= cap
     THEN LET v == Victim(heap) IN
          /\ heap' = Add(Evict(heap), k)
          /\ since' = [since EXCEPT ![v] = 0, ![k] = 1]
          /\ ev' = [key |-> v, count |-> FreqOf(heap, v),
                    min |-> SetMin({FreqOf(heap, x) : x \in heap.items})]
     ELSE /\ heap' = Add(heap, k)
          /\ since' = [since EXCEPT ![k] = 1]
          /\ ev' = NoEv
  /\ nI' = nI + 1
  /\ out' = Zero
  /\ UNCHANGED <<cap, nC>>

LatchResult == [k \in Keys |-> IF k \in heap.items THEN FreqOf(heap, k) ELSE 0]

\* func (c *Counter) Latch()
LLatch ==
  /\ nC < MaxCtl
  /\ out' = LatchResult
  /\ heap' = EmptyHeap /\ since' = Zero /\ ev' = NoEv
  /\ nC' = nC + 1
  /\ UNCHANGED <<cap, nI>>

\* func (c *Counter) Free()
LFree ==
  /\ nC < MaxCtl
  /\ out' = Zero
  /\ heap' = EmptyHeap /\ since' = Zero /\ ev' = NoEv
  /\ nC' = nC + 1
  /\ UNCHANGED <<cap, nI>>

LNext == (\E k \in Keys : LIncr(k)) \/ LLatch \/ LFree

LSpec == LInit /\ [][LNext]_lvars

---------------------------------------------------------------------------
\* walking the lists (with fuel, so that a cycle is an invariant violation
\* and not a stack overflow)
RECURSIVE ItemWalk(_, _, _)
ItemWalk(S, k, fuel) ==
  IF k = "" \/ fuel = 0 THEN <<>> ELSE <<k>> \o ItemWalk(S, S.it[k].next, fuel - 1)

RECURSIVE NodeWalk(_, _, _)
NodeWalk(S, n, fuel) ==
  IF n = 0 \/ fuel = 0 THEN <<>> ELSE <<n>> \o NodeWalk(S, S.fn[n].next, fuel - 1)

Fuel == Cardinality(Keys) + 2
Nodes(S) == NodeWalk(S, S.head, Fuel)
ItemsOf(S, n) == ItemWalk(S, S.fn[n].ih, Fuel)
Last(s) == s[Len(s)]

\* what export_verif.go's VerifSnapshot checks on the real structure
StructOK ==
  LET S == heap
      ns == Nodes(S)
  IN /\ Len(ns) <= Cardinality(S.items)
     /\ S.head # 0 => S.fn[S.head].prev = 0
     /\ \A i \in 1..Len(ns) :
          LET n == ns[i]
              its == ItemsOf(S, n)
          IN /\ S.fn[n].freq > 0
             /\ S.fn[n].prev = (IF i = 1 THEN 0 ELSE ns[i - 1])
             /\ i > 1 => S.fn[ns[i - 1]].freq < S.fn[n].freq
             /\ its # <<>>                                   \* no empty node
             /\ Len(its) <= Cardinality(S.items)
             /\ S.fn[n].itl = Last(its)
             /\ \A j \in 1..Len(its) :
                  /\ S.it[its[j]].fn = n
                  /\ S.it[its[j]].prev = (IF j = 1 THEN "" ELSE its[j - 1])
                  /\ its[j] \in S.items
     \* map and list agree: every mapped key is listed exactly once
     /\ \A k \in S.items :
          Cardinality({<<i, j>> \in (1..Len(ns)) \X (1..Cardinality(Keys)) :
                         j <= Len(ItemsOf(S, ns[i])) /\ ItemsOf(S, ns[i])[j] = k}) = 1
     \* garbage is cleared (modelling convention, keeps the state canonical)
     /\ \A k \in Keys \ S.items : S.it[k] = NilI
     /\ \A i \in Ids : S.fn[i].freq = 0 => S.fn[i] = NilF

\* the properties of the statement, read off the heap
LBounded == Cardinality(heap.items) <= cap
LExactSinceAdmission == \A k \in heap.items : FreqOf(heap, k) = since[k]
LEvictsMinimum == ev.key # "" => ev.count = ev.min
LLatchExact == \A k \in Keys : out[k] <= nI

---------------------------------------------------------------------------
\* refinement mapping to the abstract counter
AbsCnt == [k \in Keys |-> IF k \in heap.items THEN FreqOf(heap, k) ELSE 0]
AbsOrd == [f \in 1..MaxIncr |->
             LET ns == Nodes(heap)
                 hit == {i \in 1..Len(ns) : heap.fn[ns[i]].freq = f}
             IN IF hit = {} THEN <<>> ELSE ItemsOf(heap, ns[CHOOSE i \in hit : TRUE])]

Abs == INSTANCE HotKey WITH cnt <- AbsCnt, ord <- AbsOrd

AbsSpec == Abs!Init /\ [][Abs!Next]_(Abs!vars)
AbsInv == Abs!TypeOK /\ Abs!OrdConsistent /\ Abs!Bounded /\ Abs!ExactSinceAdmission
=============================================================================
