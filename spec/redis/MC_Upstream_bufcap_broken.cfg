SPECIFICATION Spec
CONSTANTS
  Reqs = {"r1", "r2", "r3", "r4"}
  QCap = 2
  FixHandoff = TRUE
  FixSend = TRUE
  FixReader = TRUE
  Banned = {}
  Asking = {}
  AskAnswersInHand = TRUE
  DrainAfterStopped = TRUE
  FilteredFailAnswers = FALSE
  BufCap = 3
  FixFlushOnStop = TRUE
  MaxResets = 0
  WithStop = FALSE
  Det = FALSE
INVARIANTS TypeOK AtMostOnce NoLostRequest NoStuckSender PairingFIFO OwnReply NoStuckWriter
PROPERTIES Answered
CHECK_DEADLOCK FALSE
