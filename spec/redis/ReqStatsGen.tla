---------------------------- MODULE ReqStatsGen ----------------------------
(***************************************************************************)
(* Behaviour emitter for ReqStats (C20): the same actions plus a history   *)
(* variable.  Run with -simulate; a behaviour ends when Stop has returned, *)
(* Finish prints it with the ghost counters the module expects.  The       *)
(* replay (harness c20-reqstats) drives a real Redis processor against     *)
(* gated cluster nodes: one node pair per request, one                     *)
(* node for the refresher, so every completion order of the module is      *)
(* feasible on FIFO backend connections.                                   *)
(*                                                                         *)
(* Restrictions of the emitter (not of the module):                        *)
(*  - keyed requests are dispatched to a backend once the slot table is    *)
(*    loaded (an empty table sends them to the refresher's node);          *)
(*  - a refresher at its select takes a pending trigger at once, in        *)
(*    particular before the quit latch is closed (the replay cannot hold   *)
(*    the select back nor make it prefer the quit signal; the other branch *)
(*    sends nothing);                                                      *)
(*  - a trigger is only produced while a refresh round is left for it.     *)
(***************************************************************************)
EXTENDS ReqStats, Sequences, Json

CONSTANTS Locals,      \* emit requests answered by the proxy itself
          Decodes,     \* emit the window of a session reader between decoding a request and dispatching it
          Triggers,    \* emit refresh triggers of the environment (host changes, timer)
          QuitWhen     \* "any" | "dispatched": stop only once every request has been dispatched

VARIABLES hist, loaded, finished

gvars == <<vars, hist, loaded, finished>>

Log(a, r, ok) == hist' = Append(hist, [a |-> a, r |-> r, ok |-> ok])

GenInit ==
  /\ Init /\ hist = <<>> /\ loaded = FALSE /\ finished = FALSE
  /\ ~Locals => \A r \in Reqs : known[r]

Terminal == phase = "stopped"

Finish ==
  /\ ~finished /\ Terminal
  /\ PrintT("@@BEH " \o ToJson([steps |-> hist,
                                 known |-> [r \in Reqs |-> known[r]],
                                 expect |-> [dTotal |-> dTotal, dOK |-> dOK, dFail |-> dFail,
                                             uTotal |-> uTotal, uOK |-> uOK, uFail |-> uFail,
                                             cTotal |-> cTotal, cOK |-> cOK, cErr |-> cErr]]))
  /\ finished' = TRUE
  /\ UNCHANGED <<vars, hist, loaded>>

Step ==
  \/ \E r \in Reqs :
       \/ \E ok \in BOOLEAN :
            \/ Locals /\ DispatchLocal(r, ok) /\ Log("DispatchLocal", r, ok)
            \/ Locals /\ DispatchLocalAfterQuit(r, ok) /\ Log("DispatchLocalAfterQuit", r, ok)
            \/ Complete(r, ok) /\ Log("Complete", r, ok)
            \/ CompleteAfterQuit(r, ok) /\ Log("CompleteAfterQuit", r, ok)
       \/ Decodes /\ SessionDecodes(r) /\ Log("SessionDecodes", r, TRUE)
       \/ loaded /\ DispatchForward(r) /\ Log("DispatchForward", r, TRUE)
       \/ DispatchForwardAfterQuit(r) /\ Log("DispatchForwardAfterQuit", r, FALSE)
       \/ ReaderTakes(r) /\ Log("ReaderTakes", r, TRUE)
       \/ Resend(r) /\ Log("Resend", r, TRUE)
       \/ ResendAfterQuit(r) /\ Log("ResendAfterQuit", r, FALSE)
       \/ Drain(r) /\ Log("Drain", r, FALSE)
  \/ Triggers /\ Trigger /\ Log("Trigger", 0, TRUE)
  \/ RefreshSend /\ Log("RefreshSend", 0, TRUE)
  \/ RefreshSendAfterQuit /\ Log("RefreshSendAfterQuit", 0, FALSE)
  \/ ReaderTakesRefresh /\ Log("ReaderTakesRefresh", 0, TRUE)
  \/ \E ok \in BOOLEAN :
       \/ RefreshDone(ok) /\ Log("RefreshDone", 0, ok)
       \/ RefreshDoneAfterQuit(ok) /\ Log("RefreshDoneAfterQuit", 0, ok)
  \/ RefreshDrain /\ Log("RefreshDrain", 0, FALSE)
  \/ /\ QuitWhen = "dispatched" => \A r \in Reqs : st[r] # "new"
     /\ Quit /\ Log("Quit", 0, TRUE)
  \/ Stopped /\ Log("Stopped", 0, TRUE)

\* a refresher at its select takes a trigger at once (the replay cannot hold it back)
Eager == phase = "serving" /\ rf = "idle" /\ tok

GenNext ==
  /\ ~finished
  /\ IF Eager THEN RefreshPick /\ Log("RefreshPick", 0, TRUE) ELSE Step
  /\ tok' => nref' < MaxRefresh \/ phase' # "serving"
  /\ loaded' = (loaded \/ (rf = "waiting" /\ rf' = "idle" /\ uOK' = uOK + 1))
  /\ UNCHANGED finished

GenSpec == GenInit /\ [][GenNext \/ Finish]_gvars
=============================================================================
