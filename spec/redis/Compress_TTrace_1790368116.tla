---- MODULE Compress_TTrace_1790368116 ----
EXTENDS Compress, Sequences, TLCExt, Toolbox, Naturals, TLC

_expression ==
    LET Compress_TEExpression == INSTANCE Compress_TEExpression
    IN Compress_TEExpression!expression
----

_trace ==
    LET Compress_TETrace == INSTANCE Compress_TETrace
    IN Compress_TETrace!trace
----

_inv ==
    ~(
        TLCGet("level") = Len(_TETrace)
        /\
        everEnabled = (TRUE)
        /\
        ops = (1)
        /\
        cfg = ("enabled")
        /\
        stored = ([k1 |-> [cls |-> "comp2", layers |-> 2], k2 |-> <<>>])
        /\
        lastReadCfg = ("absent")
        /\
        lastRead = (0)
    )
----

_init ==
    /\ lastRead = _TETrace[1].lastRead
    /\ cfg = _TETrace[1].cfg
    /\ ops = _TETrace[1].ops
    /\ everEnabled = _TETrace[1].everEnabled
    /\ stored = _TETrace[1].stored
    /\ lastReadCfg = _TETrace[1].lastReadCfg
----

_next ==
    /\ \E i,j \in DOMAIN _TETrace:
        /\ \/ /\ j = i + 1
              /\ i = TLCGet("level")
        /\ lastRead  = _TETrace[i].lastRead
        /\ lastRead' = _TETrace[j].lastRead
        /\ cfg  = _TETrace[i].cfg
        /\ cfg' = _TETrace[j].cfg
        /\ ops  = _TETrace[i].ops
        /\ ops' = _TETrace[j].ops
        /\ everEnabled  = _TETrace[i].everEnabled
        /\ everEnabled' = _TETrace[j].everEnabled
        /\ stored  = _TETrace[i].stored
        /\ stored' = _TETrace[j].stored
        /\ lastReadCfg  = _TETrace[i].lastReadCfg
        /\ lastReadCfg' = _TETrace[j].lastReadCfg

\* Uncomment the ASSUME below to write the states of the error trace
\* to the given file in Json format. Note that you can pass any tuple
\* to `JsonSerialize`. For example, a sub-sequence of _TETrace.
    \* ASSUME
    \*     LET J == INSTANCE Json
    \*         IN J!JsonSerialize("Compress_TTrace_1790368116.json", _TETrace)

=============================================================================

 Note that you can extract this module `Compress_TEExpression`
  to a dedicated file to reuse `expression` (the module in the 
  dedicated `Compress_TEExpression.tla` file takes precedence 
  over the module `Compress_TEExpression` below).

---- MODULE Compress_TEExpression ----
EXTENDS Compress, Sequences, TLCExt, Toolbox, Naturals, TLC

expression == 
    [
        \* To hide variables of the `Compress` spec from the error trace,
        \* remove the variables below.  The trace will be written in the order
        \* of the fields of this record.
        lastRead |-> lastRead
        ,cfg |-> cfg
        ,ops |-> ops
        ,everEnabled |-> everEnabled
        ,stored |-> stored
        ,lastReadCfg |-> lastReadCfg
        
        \* Put additional constant-, state-, and action-level expressions here:
        \* ,_stateNumber |-> _TEPosition
        \* ,_lastReadUnchanged |-> lastRead = lastRead'
        
        \* Format the `lastRead` variable as Json value.
        \* ,_lastReadJson |->
        \*     LET J == INSTANCE Json
        \*     IN J!ToJson(lastRead)
        
        \* Lastly, you may build expressions over arbitrary sets of states by
        \* leveraging the _TETrace operator.  For example, this is how to
        \* count the number of times a spec variable changed up to the current
        \* state in the trace.
        \* ,_lastReadModCount |->
        \*     LET F[s \in DOMAIN _TETrace] ==
        \*         IF s = 1 THEN 0
        \*         ELSE IF _TETrace[s].lastRead # _TETrace[s-1].lastRead
        \*             THEN 1 + F[s-1] ELSE F[s-1]
        \*     IN F[_TEPosition - 1]
    ]

=============================================================================



Parsing and semantic processing can take forever if the trace below is long.
 In this case, it is advised to uncomment the module below to deserialize the
 trace from a generated binary file.

\*
\*---- MODULE Compress_TETrace ----
\*EXTENDS Compress, IOUtils, TLC
\*
\*trace == IODeserialize("Compress_TTrace_1790368116.bin", TRUE)
\*
\*=============================================================================
\*

---- MODULE Compress_TETrace ----
EXTENDS Compress, TLC

trace == 
    <<
    ([everEnabled |-> TRUE,ops |-> 0,cfg |-> "enabled",stored |-> [k1 |-> <<>>, k2 |-> <<>>],lastReadCfg |-> "absent",lastRead |-> 0]),
    ([everEnabled |-> TRUE,ops |-> 1,cfg |-> "enabled",stored |-> [k1 |-> [cls |-> "comp2", layers |-> 2], k2 |-> <<>>],lastReadCfg |-> "absent",lastRead |-> 0])
    >>
----


=============================================================================

---- CONFIG Compress_TTrace_1790368116 ----
CONSTANTS
    Keys = { "k1" , "k2" }
    MaxOps = 5
    MaxRedirects = 2
    FixOnce = FALSE

INVARIANT
    _inv

CHECK_DEADLOCK
    \* CHECK_DEADLOCK off because of PROPERTY or INVARIANT above.
    FALSE

INIT
    _init

NEXT
    _next

CONSTANT
    _TETrace <- _trace

ALIAS
    _expression
=============================================================================
\* Generated on Fri Sep 25 20:28:38 UTC 2026