SPECIFICATION Spec
CONSTANTS
  ErrText = "neutralise"
  Echo = "const"
  HotAs = "bulk"
  PreSet = {1}
  Forms = {"array"}
  Tier = "quick"
  Classes = {"error"}
  Emit = FALSE
INVARIANTS NotW_QuotedInLine
CHECK_DEADLOCK FALSE
