---------------------------- MODULE SlotRouteTrace ----------------------------
(***************************************************************************)
(* C12, code -> spec: trace.json is the sequence of events the Go harness  *)
(* recorded while it drove a real upstream through refreshes of an         *)
(* unchanged cluster and routed keys in every phase:                       *)
(*   [seq, op: "init", lay]            a fresh upstream over layout lay    *)
(*   [seq, op: "send"]                 CLUSTER NODES arrived at a seed     *)
(*   [seq, op: "fail"]                 the refresh returned an error       *)
(*   [seq, op: "assign", n]            the slots of master n were written  *)
(*                                     (hook upstream.doSlotsRefresh.      *)
(*                                     assigned; the first one of a        *)
(*                                     refresh includes Parse)             *)
(*   [seq, op: "done"]                 the refresh returned nil            *)
(*   [seq, op: "route", k, kb, node]   chooseHost(Keys[k]) returned node   *)
(*                                     (master name, "seed", or other)     *)
(* An event is accepted only if the action of SlotRoute it names is        *)
(* enabled and, for "route", the node is the one the model computes in     *)
(* the current state.                                                      *)
(***************************************************************************)
EXTENDS SlotRoute, Json

VARIABLE pos

TraceLog == TLCEval(JsonDeserialize("trace.json"))

FirstLay == CHOOSE l \in Layouts : TRUE

TraceInit ==
  /\ pos = 1
  /\ lay = FirstLay
  /\ phase = "boot"
  /\ tbl = [i \in 1..Len(LayoutDef(FirstLay)) |-> "nil"]
  /\ todo = {}
  /\ filled = FALSE
  /\ nref = 0
  /\ last = NoRoute

Reset(l) ==
  /\ lay' = l
  /\ phase' = "boot"
  /\ tbl' = [i \in 1..Len(LayoutDef(l)) |-> "nil"]
  /\ todo' = {}
  /\ filled' = FALSE
  /\ nref' = 0
  /\ last' = NoRoute

\* the first write of a refresh is observed together with the parsing of the reply
AssignObserved(i) ==
  IF phase = "inflight"
  THEN /\ phase' = "update"
       /\ todo' = (1..N) \ {i}
       /\ tbl' = [ParsedTbl(tbl) EXCEPT ![i] = "set"]
       /\ UNCHANGED <<lay, filled, nref, last>>
  ELSE Assign(i)

Step(e) ==
  \/ /\ e.op = "init"
     /\ e.lay \in Layouts
     /\ Reset(e.lay)
  \/ /\ e.op = "send"
     /\ Send
  \/ /\ e.op = "fail"
     /\ Fail
  \/ /\ e.op = "assign"
     /\ \E i \in 1..N : Name(i) = e.n /\ AssignObserved(i)
  \/ /\ e.op = "done"
     /\ Done
  \/ /\ e.op = "route"
     /\ e.k \in 1..NKeys
     /\ e.kb = Keys[e.k]
     /\ e.node = Node(e.k)
     /\ Route(e.k)

TraceNext ==
  /\ pos <= Len(TraceLog)
  /\ TraceLog[pos].seq = pos
  /\ Step(TraceLog[pos])
  /\ pos' = pos + 1

TraceSpec == TraceInit /\ [][TraceNext]_<<vars, pos>>

TraceAccepted ==
  LET d == TLCGet("stats").diameter IN
  IF d - 1 = Len(TraceLog) THEN TRUE
  ELSE Print(<<"@@REJECT", d, "event">>, FALSE)
=============================================================================
