\* MC_Compress_baredropped.cfg1
SPECIFICATION Spec
CONSTANTS
  Keys = {"k1"}
  MaxOps = 5
  MaxRedirects = 1
  FixOnce = TRUE
  MaxVals = 1
  HookDepth = 2
  OwnBytes = TRUE
  Nodes = {}
  ConnConfig = "live"
  BareUpdate = "off-dropped"
  Sizes = {0}
  ReadLimit = 0
  OwnFrame = TRUE
INVARIANTS ReadBack
CHECK_DEADLOCK FALSE
