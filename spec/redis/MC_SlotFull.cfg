SPECIFICATION SSpec
INVARIANT FullAgree
CHECK_DEADLOCK FALSE
