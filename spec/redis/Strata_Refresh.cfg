SPECIFICATION GenSpec
CONSTANTS
  MaxLayout = 2
  MaxFailures = 1
  DrainOnSuccess = FALSE
  SkipUnchanged = FALSE
  RearmOnlyAfterTrigger = FALSE
  Strategy = "REPLICA"
  MaxSteps = 16
  Periodic = FALSE
VIEW GenView
ACTION_CONSTRAINT StrataEmit
CHECK_DEADLOCK FALSE
