SPECIFICATION GenSpec
CONSTANTS
  MaxLayout = 2
  MaxFailures = 1
  DrainOnSuccess = FALSE
  MaxSteps = 16
VIEW GenView
ACTION_CONSTRAINT StrataEmit
CHECK_DEADLOCK FALSE
