SPECIFICATION GenSpec
CONSTANTS
  Conns = {1, 2, 3}
  Nodes = {1, 2, 3}
  MaxReq = 4
  ChildrenMayFail = TRUE
  ErrorCompletesParent = FALSE
  SessCap = 32
CHECK_DEADLOCK FALSE
