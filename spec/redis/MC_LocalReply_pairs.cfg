SPECIFICATION Spec
CONSTANTS
  ErrText = "pairs"
  Echo = "const"
  HotAs = "bulk"
  PreSet = {1}
  Forms = {"array"}
  Tier = "quick"
  Classes = {"local", "error", "forward", "stored"}
  Emit = FALSE
INVARIANTS OneReplyEach AllDelivered
CHECK_DEADLOCK FALSE
