SPECIFICATION Spec
CONSTANTS
  ErrText = "neutralise"
  Echo = "const"
  HotAs = "bulk"
  PreSet = {0, 1, 2}
  Forms = {"array", "inline"}
  Tier = "thorough"
  Classes = {"local", "error", "forward", "stored"}
  Emit = TRUE
INVARIANTS OneReplyEach AllDelivered
CHECK_DEADLOCK FALSE
