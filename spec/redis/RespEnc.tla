------------------------------- MODULE RespEnc -------------------------------
(***************************************************************************)
(* C10 - the codec's state that is shared between encoders.                *)
(*                                                                         *)
(* Resp / RespReader treat one encoder as a pure function of its value.    *)
(* In the proxy every session and every backend client has its own encoder *)
(* and they run at the same time, so "encode then decode is the identity"  *)
(* also says: what encoder e puts on its wire depends on e's values only.  *)
(* This module lets several encoders interleave at the granularity at      *)
(* which package level state could be touched:                             *)
(*                                                                         *)
(*   literal bytes / numbers of the itoa table (-128..32768): one write of *)
(*     immutable bytes;                                                    *)
(*   other numbers (integer replies, $len / *len above 32768): FORMAT the  *)
(*     digits into a scratch area, then WRITE them to the bufio.Writer -   *)
(*     possibly in two pieces with a blocking flush in between (the buffer *)
(*     fills in the middle of the number, the connection is slow).         *)
(*                                                                         *)
(* SharedScratch = FALSE is the code as it is: the digits are a fresh      *)
(* string per call (strconv.FormatInt), i.e. a scratch private to the      *)
(* call.  SharedScratch = TRUE is a scratch taken from and returned to a   *)
(* package level pool before the write: the next encoder on the same P     *)
(* formats into the same bytes.  MC_RespEnc_private.cfg must hold,         *)
(* MC_RespEnc_shared.cfg must violate WireIsOwn / RoundTripAll (it shows   *)
(* the window: another encoder's Format between Format and the end of the  *)
(* write).  The concurrent stratum of the harness (c10-concurrent) checks  *)
(* that the real encoders behave like the private model.                   *)
(***************************************************************************)
EXTENDS Resp

CONSTANTS
  SharedScratch,   \* TRUE: one scratch for all encoders; FALSE: private (the code)
  SplitWrites      \* TRUE: a number may be written in two pieces (flush blocks in between)

Encoders == {"a", "b", "c"}

ScratchCap == 24

\* a payload longer than 32768 bytes in run-length form
LongBulk(n) == Bulk(<<Run(97, n - 1), 98>>)

\* what each encoder is asked to encode: integers outside the itoa table, a bulk string whose
\* length is outside the table, an array with such elements; c only uses the table
Work ==
  [e \in Encoders |->
     CASE e = "a" -> << IntV(FALSE, <<1,2,3,4,5,6,7,8,9,0,1,2,3,4,5,6>>), LongBulk(32769) >>
       [] e = "b" -> << Arr(<<IntV(TRUE, <<9,9,9,9,9,9,9,9,9,9,9,9,9,9,9,9>>), IntV(FALSE, <<3,2,7,6,8>>)>>),
                        LongBulk(40007) >>
       [] OTHER   -> << IntV(TRUE, <<1,2,8>>), Bulk(<<97, 98>>) >> ]

\* the integers the encoder renders from its table (codec.go: minItoa, maxItoa)
InTable(neg, d) ==
  /\ Len(d) <= 5
  /\ IF neg THEN NatOf(d) <= 128 ELSE NatOf(d) <= 32768

Lit(b)      == [k |-> "lit", b |-> b, big |-> FALSE]
Num(neg, d) == [k |-> "num", b |-> IntText(neg, d), big |-> ~InTable(neg, d)]

\* the writes of encoder.encode (codec.go:283-363) for value v
RECURSIVE Tokens(_)
Tokens(v) ==
  CASE v.t = "simple" -> <<Lit(<<PLUS>> \o v.s \o CRLF)>>
    [] v.t = "error"  -> <<Lit(<<MINUS>> \o v.s \o CRLF)>>
    [] v.t = "int"    -> <<Lit(<<COLON>>), Num(v.neg, v.d), Lit(CRLF)>>
    [] v.t = "bulk"   -> IF v.null THEN <<Lit(<<DOLLAR>>), Num(TRUE, <<1>>), Lit(CRLF)>>
                         ELSE <<Lit(<<DOLLAR>>), Num(FALSE, NatDigits(RopeLen(v.s))), Lit(CRLF \o v.s \o CRLF)>>
    [] v.t = "array"  -> IF v.null THEN <<Lit(<<STAR>>), Num(TRUE, <<1>>), Lit(CRLF)>>
                         ELSE FoldLeft(LAMBDA acc, e : acc \o Tokens(e),
                                       <<Lit(<<STAR>>), Num(FALSE, NatDigits(Len(v.a))), Lit(CRLF)>>, v.a)

AllTokens(e) == FoldLeft(LAMBDA acc, v : acc \o Tokens(v), <<>>, Work[e])
TokBytes(ts) == FoldLeft(LAMBDA acc, t : acc \o t.b, <<>>, ts)

\* the token decomposition is the encoding
ASSUME \A e \in Encoders : RopeEq(TokBytes(AllTokens(e)), EncodeAll(Work[e]))
ASSUME \A e \in Encoders : \A i \in 1..Len(Work[e]) : IsValue(Work[e][i])

VARIABLES
  pc,       \* pc[e]: index of the next token of e
  ph,       \* ph[e]: "idle" | "formatted" (digits in the scratch, nothing written) | "partial"
  n,        \* n[e]: how many digits e formatted
  k,        \* k[e]: how many of them are written (partial)
  scratch,  \* scratch[slot]: ScratchCap bytes
  out       \* out[e]: rope written to e's connection

vars == <<pc, ph, n, k, scratch, out>>

Slots     == IF SharedScratch THEN {"pool"} ELSE Encoders
SlotOf(e) == IF SharedScratch THEN "pool" ELSE e

Init ==
  /\ pc = [e \in Encoders |-> 1]
  /\ ph = [e \in Encoders |-> "idle"]
  /\ n = [e \in Encoders |-> 0]
  /\ k = [e \in Encoders |-> 0]
  /\ scratch = [s \in Slots |-> [i \in 1..ScratchCap |-> 0]]
  /\ out = [e \in Encoders |-> <<>>]

Tok(e)  == AllTokens(e)[pc[e]]
Busy(e) == pc[e] <= Len(AllTokens(e))

\* literal bytes and table numbers: immutable bytes, one write
WriteConst(e) ==
  /\ Busy(e) /\ ph[e] = "idle"
  /\ ~Tok(e).big
  /\ out' = [out EXCEPT ![e] = @ \o Tok(e).b]
  /\ pc' = [pc EXCEPT ![e] = @ + 1]
  /\ UNCHANGED <<ph, n, k, scratch>>

\* strconv.AppendInt(scratch[:0], i, 10): the digits overwrite the front of the scratch
Format(e) ==
  /\ Busy(e) /\ ph[e] = "idle"
  /\ Tok(e).k = "num" /\ Tok(e).big
  /\ LET t == Tok(e).b IN
       /\ scratch' = [scratch EXCEPT ![SlotOf(e)] = [i \in 1..ScratchCap |-> IF i <= Len(t) THEN t[i] ELSE @[i]]]
       /\ n' = [n EXCEPT ![e] = Len(t)]
  /\ ph' = [ph EXCEPT ![e] = "formatted"]
  /\ UNCHANGED <<pc, k, out>>

\* bw.Write(b): b still is "the first n[e] bytes of the scratch"
WriteNum(e) ==
  /\ ph[e] = "formatted"
  /\ out' = [out EXCEPT ![e] = @ \o SubSeq(scratch[SlotOf(e)], 1, n[e])]
  /\ ph' = [ph EXCEPT ![e] = "idle"]
  /\ pc' = [pc EXCEPT ![e] = @ + 1]
  /\ UNCHANGED <<n, k, scratch>>

\* the bufio buffer is full after h digits: copy them, flush (may block) ...
WriteHead(e) ==
  /\ SplitWrites /\ ph[e] = "formatted" /\ n[e] >= 2
  /\ LET h == n[e] \div 2 IN
       /\ out' = [out EXCEPT ![e] = @ \o SubSeq(scratch[SlotOf(e)], 1, h)]
       /\ k' = [k EXCEPT ![e] = h]
  /\ ph' = [ph EXCEPT ![e] = "partial"]
  /\ UNCHANGED <<pc, n, scratch>>

\* ... and copy the rest
WriteTail(e) ==
  /\ ph[e] = "partial"
  /\ out' = [out EXCEPT ![e] = @ \o SubSeq(scratch[SlotOf(e)], k[e] + 1, n[e])]
  /\ ph' = [ph EXCEPT ![e] = "idle"]
  /\ pc' = [pc EXCEPT ![e] = @ + 1]
  /\ UNCHANGED <<n, k, scratch>>

Next == \E e \in Encoders : WriteConst(e) \/ Format(e) \/ WriteNum(e) \/ WriteHead(e) \/ WriteTail(e)

Spec == Init /\ [][Next]_vars

----------------------------------------------------------------------------
\* between tokens the wire of e holds exactly the bytes of e's own tokens so far
WireIsOwn ==
  \A e \in Encoders :
    ph[e] = "idle" => RopeEq(out[e], TokBytes(SubSeq(AllTokens(e), 1, pc[e] - 1)))

\* the property: the wire of every encoder decodes to exactly the values it was given (checked when
\* all are done: a wire does not change after its encoder finished and every behaviour can finish)
AllDone == \A e \in Encoders : ~Busy(e)

RoundTripAll ==
  AllDone =>
    \A e \in Encoders :
      DecodeAll(Flat(out[e])) =
        [msgs |-> [i \in 1..Len(Work[e]) |-> FlatV(Work[e][i])], ends |-> Ends(Work[e]), tail |-> "eof"]

\* anti-vacuity: every encoder finishes in some behaviour, big numbers are formatted
NeverAllDone == ~AllDone
=============================================================================
