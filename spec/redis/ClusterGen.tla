------------------------------ MODULE ClusterGen ------------------------------
(* Behaviour emitter for Cluster: a client interleaved with migration steps; *)
(* every command carries the reply a single server would give.               *)
(* Pipelined = FALSE: a sequential client (each command is answered before   *)
(* the next is issued).                                                      *)
(* Pipelined = TRUE: ONE client that does not wait for its replies (p = 1    *)
(* marks a command issued while earlier ones are unanswered: the replay      *)
(* writes such a burst in one piece). A single server executes a pipeline in *)
(* the order it was written, so the expected reply is computed at issue time *)
(* (sref). The refresher is held back in these behaviours (the replay does   *)
(* the same with the refresh timers): the routing table stays as loaded,     *)
(* every command of a moved slot takes the way over the old owner.           *)
(* HoldRefresh = TRUE (sequential client): the same for a table that is      *)
(* stale from the start (StaleTableAtStart: the layout event carries the     *)
(* table); with a migration on top one command needs MOVED and then ASK.     *)
EXTENDS MC_Cluster, Json
CONSTANTS Pipelined, MaxBurst,  \* MaxBurst: commands the pipelining client keeps unanswered at most
          HoldRefresh          \* TRUE: the refresher is held back (the table stays as it was at start - stale if StaleTableAtStart)
VARIABLES hist, finished, sref
gvars == <<vars, hist, finished, sref>>
GenInit == /\ Init /\ finished = FALSE /\ sref = [k \in Keys |-> Absent]
           /\ hist = <<[a |-> "layout", owner |-> owner, k |-> "", op |-> "", exp |-> 0, p |-> 0, conn |-> hasConn, table |-> table]>>
AllAnswered == \A r \in R : reqs[r].st = "done"
Finish ==
  /\ ~finished /\ Len(reqs) = MaxCmds /\ AllAnswered
  /\ PrintT("@@BEH " \o ToJson(hist))
  /\ finished' = TRUE /\ UNCHANGED <<vars, hist, sref>>
Ev(a, op, k, exp, p) == hist' = Append(hist, [a |-> a, owner |-> owner', k |-> k, op |-> op, exp |-> exp, p |-> p])
GenNext ==
  /\ ~finished
  /\ \/ \E op \in {"read", "write"}, k \in Keys :
          /\ (AllAnswered \/ (Pipelined /\ Cardinality({r \in R : reqs[r].st # "done"}) < MaxBurst)) /\ Issue(op, k)
          /\ Ev("cmd", op, k, IF op = "write" THEN Len(reqs) + 1 ELSE IF Pipelined THEN sref[k] ELSE ref[k],
                IF AllAnswered THEN 0 ELSE 1)
          /\ sref' = IF op = "write" THEN [sref EXCEPT ![k] = Len(reqs) + 1] ELSE sref
     \/ (\E n \in Nodes : NodeExec(n)) /\ UNCHANGED <<hist, sref>>
     \/ (\E r \in R : AskSecond(r)) /\ UNCHANGED <<hist, sref>>
     \/ ~Pipelined /\ ~HoldRefresh /\ RefreshNext /\ UNCHANGED <<hist, sref>>
     \/ \E s \in Slots, d \in Nodes : AllAnswered /\ SetMigrating(s, d) /\ Ev("setmigrating", s, "", d, 0) /\ UNCHANGED sref
     \/ \E k \in Keys : AllAnswered /\ MigrateKey(k) /\ Ev("migratekey", "", k, 0, 0) /\ UNCHANGED sref
     \/ \E s \in Slots : AllAnswered /\ Finalise(s) /\ Ev("finalise", s, "", 0, 0) /\ UNCHANGED sref
  /\ UNCHANGED finished
GenSpec == GenInit /\ [][GenNext \/ Finish]_gvars
=============================================================================
