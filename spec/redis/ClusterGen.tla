------------------------------ MODULE ClusterGen ------------------------------
(* Behaviour emitter for Cluster: a sequential client (each command is       *)
(* answered before the next is issued) interleaved with migration steps;     *)
(* every command carries the reply a single server would give.               *)
EXTENDS MC_Cluster, Json
VARIABLES hist, finished
gvars == <<vars, hist, finished>>
GenInit == Init /\ hist = <<[a |-> "layout", owner |-> owner, k |-> "", op |-> "", exp |-> 0]>> /\ finished = FALSE
AllAnswered == \A r \in R : reqs[r].st = "done"
Finish ==
  /\ ~finished /\ Len(reqs) = MaxCmds /\ AllAnswered
  /\ PrintT("@@BEH " \o ToJson(hist))
  /\ finished' = TRUE /\ UNCHANGED <<vars, hist>>
Ev(a, op, k, exp) == hist' = Append(hist, [a |-> a, owner |-> owner', k |-> k, op |-> op, exp |-> exp])
GenNext ==
  /\ ~finished
  /\ \/ \E op \in {"read", "write"}, k \in Keys :
          /\ AllAnswered /\ Issue(op, k)
          /\ Ev("cmd", op, k, IF op = "write" THEN Len(reqs) + 1 ELSE ref[k])
     \/ (\E n \in Nodes : NodeExec(n)) /\ UNCHANGED hist
     \/ (\E r \in R : AskSecond(r)) /\ UNCHANGED hist
     \/ Refresh /\ UNCHANGED hist
     \/ \E s \in Slots, d \in Nodes : AllAnswered /\ SetMigrating(s, d) /\ Ev("setmigrating", s, "", d)
     \/ \E k \in Keys : AllAnswered /\ MigrateKey(k) /\ Ev("migratekey", "", k, 0)
     \/ \E s \in Slots : AllAnswered /\ Finalise(s) /\ Ev("finalise", s, "", 0)
  /\ UNCHANGED finished
GenSpec == GenInit /\ [][GenNext \/ Finish]_gvars
=============================================================================
