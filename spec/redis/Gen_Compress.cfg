SPECIFICATION GenSpec
CONSTANTS
  Keys = {"k1", "k2"}
  MaxOps = 7
  MaxRedirects = 2
  FixOnce = TRUE
  MaxVals = 3
  HookDepth = 2
  OwnBytes = TRUE
CHECK_DEADLOCK FALSE
