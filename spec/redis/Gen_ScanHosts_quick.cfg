SPECIFICATION GenSpec
CONSTANTS
  MinNodes = 1
  MaxNodes = 3
  Base = 256
  MaxChain = 1
  IdxSpace = 8
  PastEndRule = "ge"
  CompletionOrder = "rewrite-publish"
  Withdrawals = TRUE
  ConcurrentWithdrawals = FALSE
  HostReads = "snapshot"
  Reannouncements = FALSE
  ReannounceRule = "atomic"
CHECK_DEADLOCK FALSE
CONSTANT CursorVals <- GenCursorValsQuick
