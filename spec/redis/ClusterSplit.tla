---------------------------- MODULE ClusterSplit ----------------------------
(***************************************************************************)
(* Multi-key commands on a stable cluster (C03, second half of the first   *)
(* sentence): MGET, MSET, DEL, EXISTS, TOUCH and UNLINK are DEFINED as     *)
(* their per-key commands combined in ARGUMENT ORDER - array of the GET    *)
(* replies, OK, sum of the counts. An argument list is a sequence: a key   *)
(* may be named more than once, and every occurrence counts (EXISTS a a on *)
(* an existing key is 2, MGET a a has two elements, MSET a 1 a 2 leaves 2).*)
(*                                                                         *)
(* RefMulti is that definition (a fold over the argument list on ONE       *)
(* store). The machine below is what the proxy does (proc/redis/request.go *)
(* Split / onChildDone / setResponse, handler.go handleXxx): one child     *)
(* request per argument position, each routed to the owner of its key,     *)
(* one FIFO per node, the parent is answered when the last child is, the   *)
(* reply is assembled by child position.                                   *)
(* A per-key command may FAIL: the node answers an error for that key      *)
(* (-OOM, -READONLY, -MISCONF ..., or the proxy's own error when it cannot *)
(* reach the node); the key is left as it is. The combination then is: for *)
(* MSET and the count commands an error reply whenever at least one per-   *)
(* key command failed (+OK / the sum only if all succeeded); for MGET the  *)
(* error in the failing element's position, or an error for the whole      *)
(* command (Allowed). The other per-key commands are executed all the same *)
(* (the property defines the commands per key, not as one transaction).    *)
(* Broken variants (must violate EqualsReference / StoreIsReference):      *)
(*   DedupKeys         - Split sends a key it has already seen only once   *)
(*   AssembleByArrival - the reply is assembled in completion order        *)
(*   MsetIgnoresChildErrors - MSET answers OK when its last child is       *)
(*                       answered, whatever the children were answered     *)
(*                       (the code before the repair of onChildDone)       *)
(*   FoldUnsynchronised - the counts are added to a running sum as the     *)
(*                       children complete; children are completed by the  *)
(*                       readers of DIFFERENT backend connections, the     *)
(*                       addition is a read and a write: updates get lost  *)
(***************************************************************************)
EXTENDS Naturals, Sequences, FiniteSets, TLC

CONSTANTS Nodes, Keys,
          Ops,          \* subset of {"mcount", "mdel", "mread", "mwrite"}: EXISTS/TOUCH, DEL/UNLINK, MGET, MSET
          MaxCmds,      \* commands of the (sequential) client
          MaxLen,       \* keys per command
          DedupKeys, AssembleByArrival, FoldUnsynchronised,
          FailKeys,     \* keys whose per-key commands may be answered with an error (environment; any subset fails in a run)
          MsetIgnoresChildErrors

ASSUME FailKeys \subseteq Keys /\ (FoldUnsynchronised => FailKeys = {})

Absent == 0
OKReply == 1000
Preset == 900         \* value of a key that exists at start
ErrV == 2000          \* an error reply

VARIABLES
  owner,    \* owner[k]: node that owns the slot of key k (any layout; it never changes)
  store,    \* store[n][k]
  ref,      \* the single server
  cmds,     \* sequence of [op, ks, vals, kids, exp, st, reply]; kids: sequence of [pos, k, val, st, reply]
  q,        \* q[n]: FIFO of <<command index, kid index>>
  arrival,  \* arrival[c]: kid indexes of command c in completion order
  total,      \* FoldUnsynchronised: total[c] running sum of command c
  failing,  \* keys whose node answers an error (fixed for the run)
  hand      \* FoldUnsynchronised: hand[n] = <<c, i, sum read>> while the reader of node n's connection is between
            \* reading the running sum and writing it back, <<>> otherwise

vars == <<owner, store, ref, cmds, q, arrival, total, hand, failing>>
SumOps == {"mcount", "mdel"}

KeySeqs == UNION {[1..l -> Keys] : l \in 1..MaxLen}

\* ---- the definition: per-key commands, combined in argument order, on one store
\* one per-key command: <<reply, new value of the key>>
PerKey(op, cur, val, fails) ==
  IF fails THEN <<ErrV, cur>> ELSE
  CASE op = "mcount" -> <<IF cur = Absent THEN 0 ELSE 1, cur>>
    [] op = "mdel"   -> <<IF cur = Absent THEN 0 ELSE 1, Absent>>
    [] op = "mread"  -> <<cur, cur>>
    [] op = "mwrite" -> <<OKReply, val>>

RECURSIVE RefFold(_, _, _, _, _, _, _)
\* replies of positions i..Len(ks) and the final store; F: the keys whose per-key command fails
RefFold(op, ks, vals, st, F, i, acc) ==
  IF i > Len(ks) THEN <<acc, st>>
  ELSE LET pk == PerKey(op, st[ks[i]], vals[i], ks[i] \in F)
       IN RefFold(op, ks, vals, [st EXCEPT ![ks[i]] = pk[2]], F, i + 1, Append(acc, pk[1]))

RECURSIVE SumSeq(_)
SumSeq(s) == IF s = <<>> THEN 0 ELSE Head(s) + SumSeq(Tail(s))

HasErr(replies) == \E i \in 1..Len(replies) : replies[i] = ErrV
Combine(op, replies) ==
  CASE op \in {"mcount", "mdel"} -> IF HasErr(replies) THEN <<ErrV>> ELSE <<SumSeq(replies)>>
    [] op = "mread" -> replies             \* an error stands in the position of its key
    [] op = "mwrite" -> IF HasErr(replies) THEN <<ErrV>> ELSE <<OKReply>>

\* <<reply, store afterwards>> of a single server on which the per-key commands of the keys in F fail
RefMulti(op, ks, vals, st, F) == LET f == RefFold(op, ks, vals, st, F, 1, <<>>) IN <<Combine(op, f[1]), f[2]>>
\* what the property allows as the reply, given the canonical combination exp
Allowed(op, exp, reply) == reply = exp \/ (op = "mread" /\ HasErr(exp) /\ reply = <<ErrV>>)

\* ---- the proxy
FirstOcc(ks, i) == \A j \in 1..(i - 1) : ks[j] # ks[i]
Positions(ks) == IF DedupKeys THEN {i \in 1..Len(ks) : FirstOcc(ks, i)} ELSE 1..Len(ks)
RECURSIVE SetToSortedSeq(_)
SetToSortedSeq(S) == IF S = {} THEN <<>> ELSE LET m == CHOOSE x \in S : \A y \in S : x <= y IN <<m>> \o SetToSortedSeq(S \ {m})

Init ==
  /\ owner \in [Keys -> Nodes]
  /\ \E P \in SUBSET Keys : ref = [k \in Keys |-> IF k \in P THEN Preset ELSE Absent]
  /\ store = [n \in Nodes |-> [k \in Keys |-> IF owner[k] = n THEN ref[k] ELSE Absent]]
  /\ cmds = <<>> /\ q = [n \in Nodes |-> <<>>] /\ arrival = <<>>
  /\ total = <<>> /\ hand = [n \in Nodes |-> <<>>]
  /\ failing \in SUBSET FailKeys

AllAnswered == \A c \in 1..Len(cmds) : cmds[c].st = "done"

RECURSIVE EnqAll(_, _, _, _)
EnqAll(qq, c, kids, i) ==
  IF i > Len(kids) THEN qq
  ELSE EnqAll([qq EXCEPT ![owner[kids[i].k]] = Append(@, <<c, i>>)], c, kids, i + 1)

(* the client issues a command (it waits for the reply of the previous one); the proxy splits it *)
Issue(op, ks) ==
  /\ Len(cmds) < MaxCmds /\ AllAnswered
  /\ LET c == Len(cmds) + 1
         vals == [i \in 1..Len(ks) |-> 10 * c + i]
         pos == SetToSortedSeq(Positions(ks))
         kids == [j \in 1..Len(pos) |-> [pos |-> pos[j], k |-> ks[pos[j]], val |-> vals[pos[j]], st |-> "sent", reply |-> 0]]
         rm == RefMulti(op, ks, vals, ref, failing)
     IN /\ cmds' = Append(cmds, [op |-> op, ks |-> ks, vals |-> vals, kids |-> kids, exp |-> rm[1], st |-> "open", reply |-> <<>>])
        /\ ref' = rm[2]
        /\ q' = EnqAll(q, c, kids, 1)
        /\ arrival' = Append(arrival, <<>>)
        /\ total' = Append(total, 0)
  /\ UNCHANGED <<owner, store, hand, failing>>

(* node n executes the per-key command at the head of its connection and answers; the reader of that connection *)
(* completes the child (onChildDone)                                                                            *)
NodeExec(n) ==
  /\ q[n] # <<>> /\ hand[n] = <<>>
  /\ LET c == Head(q[n])[1]
         i == Head(q[n])[2]
         kid == cmds[c].kids[i]
         pk == PerKey(cmds[c].op, store[n][kid.k], kid.val, kid.k \in failing)
         fold == FoldUnsynchronised /\ cmds[c].op \in SumOps
     IN /\ store' = [store EXCEPT ![n][kid.k] = pk[2]]
        /\ cmds' = [cmds EXCEPT ![c].kids[i].st = IF fold THEN "folding" ELSE "done", ![c].kids[i].reply = pk[1]]
        /\ arrival' = [arrival EXCEPT ![c] = Append(@, i)]
        /\ hand' = IF fold THEN [hand EXCEPT ![n] = <<c, i, total[c]>>] ELSE hand
  /\ q' = [q EXCEPT ![n] = Tail(@)]
  /\ UNCHANGED <<owner, ref, total, failing>>

(* broken variant: the second half of "total += count" *)
FoldWrite(n) ==
  /\ hand[n] # <<>>
  /\ LET c == hand[n][1]
         i == hand[n][2]
     IN /\ total' = [total EXCEPT ![c] = hand[n][3] + cmds[c].kids[i].reply]
        /\ cmds' = [cmds EXCEPT ![c].kids[i].st = "done"]
  /\ hand' = [hand EXCEPT ![n] = <<>>]
  /\ UNCHANGED <<owner, store, ref, q, arrival, failing>>

(* the last child has been answered: the parent's reply is assembled *)
Assemble(c) ==
  /\ c \in 1..Len(cmds) /\ cmds[c].st = "open"
  /\ \A i \in 1..Len(cmds[c].kids) : cmds[c].kids[i].st = "done"
  /\ LET order == IF AssembleByArrival THEN arrival[c] ELSE [i \in 1..Len(cmds[c].kids) |-> i]
         replies == [j \in 1..Len(order) |-> cmds[c].kids[order[j]].reply]
     IN cmds' = [cmds EXCEPT ![c].st = "done",
                             ![c].reply = IF FoldUnsynchronised /\ cmds[c].op \in SumOps THEN <<total[c]>>
                                          ELSE IF MsetIgnoresChildErrors /\ cmds[c].op = "mwrite" THEN <<OKReply>>
                                          ELSE Combine(cmds[c].op, replies)]
  /\ UNCHANGED <<owner, store, ref, q, arrival, total, hand, failing>>

Next == (Len(cmds) < MaxCmds /\ AllAnswered /\ \E op \in Ops, ks \in KeySeqs : Issue(op, ks)) \/ (\E n \in Nodes : NodeExec(n) \/ FoldWrite(n)) \/ (\E c \in 1..Len(cmds) : Assemble(c))
Spec == Init /\ [][Next]_vars /\ WF_vars(Next)

-----------------------------------------------------------------------------
\* the reply of every multi-key command is the combination, in argument order, of the per-key replies of a single server
\* (with failing keys: one of the replies the property allows)
EqualsReference == \A c \in 1..Len(cmds) : cmds[c].st = "done" => Allowed(cmds[c].op, cmds[c].exp, cmds[c].reply)
\* once everything is answered the cluster holds exactly what the single server holds, each key at its owner
StoreIsReference == AllAnswered => \A k \in Keys : \A n \in Nodes : store[n][k] = IF owner[k] = n THEN ref[k] ELSE Absent
\* each child is delivered to the owner of its key (no redirection on a stable cluster)
ChildAtOwner == \A n \in Nodes : \A j \in 1..Len(q[n]) : owner[cmds[q[n][j][1]].kids[q[n][j][2]].k] = n
AllDone == <>[](\A c \in 1..Len(cmds) : cmds[c].st = "done")
=============================================================================
