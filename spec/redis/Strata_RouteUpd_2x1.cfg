SPECIFICATION GenSpec
CONSTANTS
  Sessions = {"s1", "s2"}
  Shards = {"A", "B"}
  NRep = 1
  Strategies = {"MASTER", "BOTH", "REPLICA"}
  Kinds = {"read", "write", "unsupported", "local"}
  MaxReq = 2
  MaxUpdates = 1
  StickyStrategy = FALSE
  SharedScratch = FALSE
ACTION_CONSTRAINT ReadsOnly
CHECK_DEADLOCK FALSE
