SPECIFICATION VSpec
INVARIANT StepAgree
CHECK_DEADLOCK FALSE
