SPECIFICATION Spec
CONSTANTS
  MaxNodes = 3
  Base = 256
  MaxChain = 1
INVARIANTS BoundedCalls ExactCalls EachNodeOnceInOrder InOrder CursorRoundTrip PastEndIsTerminal
PROPERTIES Terminates
CHECK_DEADLOCK FALSE
