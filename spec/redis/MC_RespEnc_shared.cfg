SPECIFICATION Spec
CONSTANTS
  SharedScratch = TRUE
  SplitWrites = TRUE
INVARIANTS WireIsOwn RoundTripAll
CHECK_DEADLOCK FALSE
