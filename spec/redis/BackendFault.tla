----------------------------- MODULE BackendFault -----------------------------
(***************************************************************************)
(* C11, "no byte stream sent by a backend where a reply is expected ...    *)
(* including the proxy's own CLUSTER NODES, ASKING, READONLY and SCAN      *)
(* requests" together with what a backend can do to its connection while   *)
(* such a reply is expected: close it, reset it, answer with bytes that are *)
(* not RESP; and what the proxy does to it meanwhile: stop the client       *)
(* (host removed, processor stopped).                                       *)
(*                                                                         *)
(* One backend connection (`client`, proc/redis/upstream.go) with the       *)
(* ASKING hand-over of loopWrite made explicit.  A request that another     *)
(* backend answered with "-ASK <slot> <this node>" is sent here with        *)
(* req.asking set; the writer then                                          *)
(*    encodes ASKING into its write buffer            (w: have -> askHand)  *)
(*    select { quit -> answer req, return | processingReqs <- askingReq }   *)
(*                                                    (w: askHand -> encode)*)
(*    encodes req, flushes if nothing else is queued  (w: encode -> handoff)*)
(*    select { quit -> answer req, return | processingReqs <- req }         *)
(* Every one of the two selects blocks while processingReqs is full, i.e.   *)
(* while the backend owes QCap replies (a slow node); the fault then finds  *)
(* the writer INSIDE the select.  Malformed.tla enumerates what a backend   *)
(* may answer; this module enumerates WHERE the connection's goroutines are *)
(* when the answer (or the loss of the connection) arrives.                 *)
(*                                                                         *)
(* AskQuitExit selects what the quit branch of the ASKING hand-over does:   *)
(*   "answer"     the code: the request in hand is answered, the writer     *)
(*                returns                                                   *)
(*   "fail-label" it leaves through the common FAIL exit, which formats the *)
(*                error of the failed write - there is none on this path:   *)
(*                nil dereference in a goroutine nobody recovers, the       *)
(*                process dies.  MUST violate NoCrash (anti-vacuity).       *)
(*   "drop"       it returns without answering: MUST violate NoLost.        *)
(* The other exits (Encode/Flush failure, hand-off quit) are modelled as    *)
(* the code has them.                                                       *)
(***************************************************************************)
EXTENDS Naturals, Sequences, FiniteSets, TLC, Json

CONSTANTS NPlain,       \* number of ordinary requests, sent in the order p1, p2, ...
          QCap,         \* capacity of processingReqs (code: 1024)
          AskQuitExit,  \* "answer" | "fail-label" | "drop"
          Faults        \* subset of {"eof", "rst", "garbage", "stop", "remove"}

Ask    == "ask"       \* the request redirected with -ASK to this connection
Asking == "ASKING"    \* the proxy's own request in front of it
PlainSeq == [i \in 1..NPlain |-> "p" \o ToString(i)]
Plain  == {PlainSeq[i] : i \in 1..Len(PlainSeq)}
Reqs   == Plain \cup {Ask}
Range(s) == {s[i] : i \in 1..Len(s)}

VARIABLES
  pend, proc,       \* pendingReqs, processingReqs
  wbuf, wire,       \* encoded but not flushed; received by the backend and not answered
  replies,          \* answers on their way to the reader
  w, wreq,          \* writer pc: "select" | "have" | "askHand" | "encode" | "handoff" | "exited"; request in hand
  rd,               \* reader pc: "decode" | "decoded" | "exited"
  quit,             \* latch
  rdBroken, wrBroken, \* reads / writes on the connection fail
  fault,            \* the fault injected so far ("none")
  nsent, askSent,   \* plain requests handed to Send so far; whether the ASK request was
  compl,            \* SetResponse calls per request
  drained,          \* Start has run its final drain
  silent,           \* the backend has not answered anything yet (a slow node)
  crashed           \* the process died

vars == <<pend, proc, wbuf, wire, replies, w, wreq, rd, quit, rdBroken, wrBroken, fault, nsent, askSent, compl, drained, silent, crashed>>

NoReq == "none"

Init ==
  /\ pend = <<>> /\ proc = <<>> /\ wbuf = <<>> /\ wire = <<>> /\ replies = <<>>
  /\ w = "select" /\ wreq = NoReq /\ rd = "decode" /\ quit = FALSE
  /\ rdBroken = FALSE /\ wrBroken = FALSE /\ fault = "none"
  /\ nsent = 0 /\ askSent = FALSE
  /\ compl = [r \in Reqs |-> 0] /\ drained = FALSE /\ silent = TRUE /\ crashed = FALSE

Sent == {PlainSeq[i] : i \in 1..nsent} \cup (IF askSent THEN {Ask} ELSE {})
Answer(S) == compl' = [r \in Reqs |-> IF r \in S THEN compl[r] + 1 ELSE compl[r]]

-----------------------------------------------------------------------------
(* client.Send (the repaired Send of C02: never blocks on a quitting client) *)
SendTo(r) ==
  /\ IF quit
       THEN Answer({r}) /\ UNCHANGED pend
       ELSE Len(pend) < QCap /\ pend' = Append(pend, r) /\ UNCHANGED compl
  /\ UNCHANGED <<proc, wbuf, wire, replies, w, wreq, rd, quit, rdBroken, wrBroken, fault, drained, silent, crashed>>

SendPlain == nsent < Len(PlainSeq) /\ nsent' = nsent + 1 /\ SendTo(PlainSeq[nsent + 1]) /\ UNCHANGED askSent
SendAsk   == ~askSent /\ askSent' = TRUE /\ SendTo(Ask) /\ UNCHANGED nsent

-----------------------------------------------------------------------------
WSelect ==
  /\ w = "select"
  /\ \/ quit /\ w' = "exited" /\ UNCHANGED <<pend, wreq>>
     \/ pend # <<>> /\ wreq' = Head(pend) /\ pend' = Tail(pend) /\ w' = "have"
  /\ UNCHANGED <<proc, wbuf, wire, replies, rd, quit, rdBroken, wrBroken, fault, nsent, askSent, compl, drained, silent, crashed>>

\* req.asking: ASKING goes into the write buffer (Encode only fails when the buffer has to be written out)
WAskEncode ==
  /\ w = "have" /\ wreq = Ask
  /\ wbuf' = Append(wbuf, Asking) /\ w' = "askHand"
  /\ UNCHANGED <<pend, proc, wire, replies, wreq, rd, quit, rdBroken, wrBroken, fault, nsent, askSent, compl, drained, silent, crashed>>

\* select { <-quit | processingReqs <- askingReq }
WAskHand ==
  /\ w = "askHand"
  /\ \/ /\ quit
        /\ CASE AskQuitExit = "answer"     -> Answer({wreq}) /\ UNCHANGED crashed
             [] AskQuitExit = "drop"       -> UNCHANGED <<compl, crashed>>
             [] AskQuitExit = "fail-label" -> crashed' = TRUE /\ UNCHANGED compl
        /\ w' = "exited" /\ wreq' = NoReq /\ UNCHANGED proc
     \/ /\ Len(proc) < QCap /\ proc' = Append(proc, Asking) /\ w' = "encode"
        /\ UNCHANGED <<wreq, compl, crashed>>
  /\ UNCHANGED <<pend, wbuf, wire, replies, rd, quit, rdBroken, wrBroken, fault, nsent, askSent, drained, silent>>

\* Encode(req); Flush when nothing else is queued; a failing write leaves through FAIL with its error
WEncode ==
  /\ \/ w = "have" /\ wreq # Ask
     \/ w = "encode"
  /\ \/ pend # <<>> /\ wbuf' = Append(wbuf, wreq) /\ w' = "handoff" /\ UNCHANGED <<wire, compl, wreq>>
     \/ pend = <<>> /\ ~wrBroken /\ wire' = wire \o Append(wbuf, wreq) /\ wbuf' = <<>> /\ w' = "handoff"
        /\ UNCHANGED <<compl, wreq>>
     \/ pend = <<>> /\ wrBroken /\ Answer({wreq}) /\ wreq' = NoReq /\ wbuf' = <<>> /\ w' = "exited" /\ UNCHANGED wire
  /\ UNCHANGED <<pend, proc, replies, rd, quit, rdBroken, wrBroken, fault, nsent, askSent, drained, silent, crashed>>

\* select { <-quit | processingReqs <- req }
WHandoff ==
  /\ w = "handoff"
  /\ \/ quit /\ Answer({wreq}) /\ w' = "exited" /\ wreq' = NoReq /\ UNCHANGED proc
     \/ Len(proc) < QCap /\ proc' = Append(proc, wreq) /\ w' = "select" /\ wreq' = NoReq /\ UNCHANGED compl
  /\ UNCHANGED <<pend, wbuf, wire, replies, rd, quit, rdBroken, wrBroken, fault, nsent, askSent, drained, silent, crashed>>

-----------------------------------------------------------------------------
\* the reader: Decode; a failed Decode ends loopRead, Start closes the connection and the quit latch
RDecode ==
  /\ rd = "decode"
  /\ \/ rdBroken /\ rd' = "exited" /\ quit' = TRUE /\ wrBroken' = TRUE
     \/ ~rdBroken /\ replies # <<>> /\ rd' = "decoded" /\ UNCHANGED <<quit, wrBroken>>
  /\ UNCHANGED <<pend, proc, wbuf, wire, replies, w, wreq, rdBroken, fault, nsent, askSent, compl, drained, silent, crashed>>

\* select { req <- processingReqs | <-quit }; the answer to ASKING is dropped
RPair ==
  /\ rd = "decoded"
  /\ \/ /\ proc # <<>> /\ proc' = Tail(proc) /\ replies' = Tail(replies) /\ rd' = "decode"
        /\ IF Head(proc) = Asking THEN UNCHANGED compl ELSE Answer({Head(proc)})
        /\ UNCHANGED <<quit, wrBroken>>
     \/ /\ quit /\ rd' = "exited" /\ wrBroken' = TRUE /\ UNCHANGED <<proc, replies, compl, quit>>
  /\ UNCHANGED <<pend, wbuf, wire, w, wreq, rdBroken, fault, nsent, askSent, drained, silent, crashed>>

\* Start after both loops: everything still queued is answered with an error
Drain ==
  /\ w = "exited" /\ rd = "exited" /\ ~drained
  /\ Answer((Range(pend) \cup Range(proc)) \ {Asking})
  /\ pend' = <<>> /\ proc' = <<>> /\ drained' = TRUE
  /\ UNCHANGED <<wbuf, wire, replies, w, wreq, rd, quit, rdBroken, wrBroken, fault, nsent, askSent, silent, crashed>>

-----------------------------------------------------------------------------
(* environment *)
BackendReply ==
  /\ fault = "none" /\ wire # <<>>
  /\ replies' = Append(replies, Head(wire)) /\ wire' = Tail(wire)
  /\ UNCHANGED <<pend, proc, wbuf, w, wreq, rd, quit, rdBroken, wrBroken, nsent, askSent, compl, drained, crashed, fault>>
  /\ silent' = FALSE

\* "eof": the backend closes (reads fail, writes still succeed for a while); "rst": both fail; "garbage": the next
\* reply is not RESP (sticky decoder error); "stop"/"remove": client.Stop closes the latch and the connection
Fault(f) ==
  /\ fault = "none" /\ fault' = f
  /\ rdBroken' = TRUE
  /\ wrBroken' = (f \in {"rst", "stop", "remove"})
  /\ quit' = (quit \/ f \in {"stop", "remove"})
  /\ UNCHANGED <<pend, proc, wbuf, wire, replies, w, wreq, rd, nsent, askSent, compl, drained, silent, crashed>>

ProxyNext == WSelect \/ WAskEncode \/ WAskHand \/ WEncode \/ WHandoff \/ RDecode \/ RPair \/ Drain
EnvNext == SendPlain \/ SendAsk \/ BackendReply \/ (\E f \in Faults : Fault(f))
Next == ~crashed /\ (ProxyNext \/ EnvNext)
Spec == Init /\ [][Next]_vars

-----------------------------------------------------------------------------
TypeOK ==
  /\ Len(pend) <= QCap /\ Len(proc) <= QCap
  /\ w \in {"select", "have", "askHand", "encode", "handoff", "exited"}
  /\ rd \in {"decode", "decoded", "exited"}

(* C11: the process survives every backend byte stream and connection fault *)
NoCrash == ~crashed
(* a second SetResponse closes a closed channel: that is a crash as well *)
AtMostOnce == \A r \in Reqs : compl[r] <= 1
(* the waiting client gets a reply: once the connection has quit and nothing more can happen, *)
(* everything that was handed to Send has been answered                                       *)
Stuck == ~ENABLED ProxyNext
NoLost == (Stuck /\ quit /\ ~crashed) => \A r \in Sent : compl[r] = 1
(* the reply handed to a request is the reply to that request *)
PairingFIFO == (rd = "decoded" /\ proc # <<>>) => Head(proc) = Head(replies)

-----------------------------------------------------------------------------
(* Windows: where the fault finds the connection.  "blocked" = the writer sits in a select whose send case *)
(* cannot proceed because the backend owes QCap replies.                                                   *)
Unanswered == {r \in Sent \cap Plain : compl[r] = 0}
Window ==
  CASE w = "askHand" /\ Len(proc) = QCap                                  -> "ask-handover-blocked"
    [] w = "askHand" /\ Len(proc) < QCap                                  -> "ask-handover-race"
    [] w = "handoff" /\ wreq = Ask /\ Len(proc) = QCap                    -> "ask-handoff-blocked"
    [] w = "handoff" /\ wreq # Ask /\ Len(proc) = QCap /\ Ask \in Range(pend) -> "ask-queued-blocked"
    [] w = "select" /\ pend = <<>> /\ Ask \in Range(proc)                 -> "ask-inflight"
    [] w = "handoff" /\ wreq # Ask /\ Len(proc) = QCap /\ ~askSent        -> "plain-blocked"
    [] w = "select" /\ pend = <<>> /\ proc # <<>> /\ ~askSent             -> "plain-inflight"
    [] OTHER                                                               -> "other"

\* the windows every run must exercise on the real code (all but the narrow race, which cannot be forced from outside)
Mandatory == {"ask-handover-blocked", "ask-handoff-blocked", "ask-queued-blocked", "ask-inflight", "plain-blocked", "plain-inflight"}

\* one line per (state, fault) in which a fault strikes a silent backend: the stratum, how many plain requests the
\* backend owes, and whether ASKING / the redirected request have reached the backend (what the replayer must observe)
EmitStratum ==
  (fault = "none" /\ fault' # "none" /\ silent /\ Window \in Mandatory)
    => PrintT("@@STRATUM " \o ToJson([win |-> Window, fault |-> fault', owed |-> Cardinality(Unanswered), qcap |-> QCap,
                                      askingOnWire |-> (Asking \in Range(wire)), askOnWire |-> (Ask \in Range(wire))]))

\* trap invariants (expected to be violated): every mandatory window is reachable
NotW_AskHandoverBlocked == Window # "ask-handover-blocked"
NotW_AskHandoverQuit    == ~(w = "askHand" /\ quit)
=============================================================================
