SPECIFICATION GenSpec
CONSTANTS
  Keys = {"a", "b", "c", "d"}
  Ctrs = {"n1", "n2"}
  Cap = 2
  MaxVal = 255
  MaxPeriods = 3
  MaxHits = 14
  MaxTicks = 4
  MaxEvicts = 3
  MaxReads = 3
  MaxFrees = 1
  FixEvict = FALSE
  CopyOnMerge = FALSE
CHECK_DEADLOCK FALSE
