---------------------------- MODULE UpstreamSplit ----------------------------
(***************************************************************************)
(* A split request (MSET / MGET / DEL / EXISTS / TOUCH / UNLINK,           *)
(* proc/redis/request.go): one child per key, every child is handed to the *)
(* backend connection that owns its key; the parent is completed by the    *)
(* child that is answered last (onChildDone: decrement the counter of      *)
(* unanswered children, complete the parent when it reaches zero).         *)
(*                                                                         *)
(* Who answers a child: the goroutine of the backend connection that holds *)
(* it - its reader (a reply), the tail of Start or a sender (the drain     *)
(* after the connection was lost or stopped), its writer (a failed write). *)
(* Children on ONE connection are answered one after the other, in order,  *)
(* by such a goroutine; children on DIFFERENT connections are answered by  *)
(* different goroutines, in any interleaving - in particular the last two  *)
(* children of a request can be inside SetResponse at the same instant.    *)
(* C02 demands exactly one completion of the parent for all of them (a     *)
(* second completion closes a closed channel: the process dies; none: the  *)
(* client waits for ever).                                                 *)
(*                                                                         *)
(*   AtomicDecTest - TRUE (the code): the value returned by the decrement  *)
(*                   is tested; FALSE (anti-vacuity): decrement, then a    *)
(*                   separate load of the counter                          *)
(***************************************************************************)
EXTENDS Naturals, Integers, FiniteSets, Sequences, TLC, Json

CONSTANTS MaxChild,       \* children per request: 2..MaxChild
          NConn,          \* backend connections 1..NConn
          Modes,          \* how a connection answers: "reply" (reader), "drain" (connection lost, Start drains)
          AtomicDecTest

VARIABLES n,        \* number of children of this request
          place,    \* child -> connection that holds it
          mode,     \* connection -> how it answers its children
          cpc,      \* child -> "queued" | "set" (inside SetResponse, before the decrement) | "decd" | "done"
          wait,     \* childWait
          seen,     \* child -> the counter value its goroutine tests
          pcompl    \* completions of the parent

vars == <<n, place, mode, cpc, wait, seen, pcompl>>

Children == 1..n
Conns == 1..NConn

\* placements up to renaming of connections: child 1 sits on the first connection, a new connection is the next unused one
Canonical(p, k) ==
  LET used(i) == {p[j] : j \in 1..i} IN
  \A i \in 1..k : \A c \in Conns : p[i] = c => \A d \in Conns : (d < c) => d \in used(i)

Init ==
  /\ n \in 2..MaxChild
  /\ place \in [1..MaxChild -> Conns]
  /\ \A i \in (n + 1)..MaxChild : place[i] = place[1]
  /\ mode \in [Conns -> Modes]
  /\ cpc = [i \in 1..MaxChild |-> "queued"]
  /\ wait = n
  /\ seen = [i \in 1..MaxChild |-> -1]
  /\ pcompl = 0

\* point simpleRequest.SetResponse: the goroutine of the child's connection starts to answer it; the children of one
\* connection are answered in order
Enter(i) ==
  /\ i \in Children /\ cpc[i] = "queued"
  /\ \A j \in Children : (j < i /\ place[j] = place[i]) => cpc[j] = "done"
  /\ cpc' = [cpc EXCEPT ![i] = "set"]
  /\ UNCHANGED <<n, place, mode, wait, seen, pcompl>>

\* onChildDone: childWait.Dec()
Dec(i) ==
  /\ i \in Children /\ cpc[i] = "set"
  /\ wait' = wait - 1
  /\ seen' = [seen EXCEPT ![i] = IF AtomicDecTest THEN wait - 1 ELSE @]
  /\ cpc' = [cpc EXCEPT ![i] = "decd"]
  /\ UNCHANGED <<n, place, mode, pcompl>>

\* onChildDone: the test (of the returned value, or of a fresh load), setResponse when zero
Test(i) ==
  /\ i \in Children /\ cpc[i] = "decd"
  /\ LET v == IF AtomicDecTest THEN seen[i] ELSE wait IN
       pcompl' = IF v = 0 THEN pcompl + 1 ELSE pcompl
  /\ cpc' = [cpc EXCEPT ![i] = "done"]
  /\ UNCHANGED <<n, place, mode, wait, seen>>

Next == \E i \in 1..MaxChild : Enter(i) \/ Dec(i) \/ Test(i)

Spec == Init /\ [][Next]_vars /\ \A i \in 1..MaxChild : WF_vars(Enter(i) \/ Dec(i) \/ Test(i))

-----------------------------------------------------------------------------
TypeOK ==
  /\ n \in 2..MaxChild /\ wait \in 0..MaxChild /\ pcompl \in 0..MaxChild
  /\ \A i \in 1..MaxChild : cpc[i] \in {"queued", "set", "decd", "done"}

\* a second completion closes a closed channel: the process crashes
ParentAtMostOnce == pcompl <= 1
\* every child answered: the parent is answered
ParentAnswered == (\A i \in Children : cpc[i] = "done") => pcompl = 1
ParentEventually == <>(pcompl = 1)

\* the window: the last two (or more) children are between the decrement and the test at the same instant
Inside == {i \in Children : cpc[i] \in {"set", "decd"}}
W_LastChildrenConcurrent == wait = 0 /\ Cardinality({i \in Children : cpc[i] = "decd"}) >= 2
NotW == ~W_LastChildrenConcurrent

-----------------------------------------------------------------------------
(* Vectors for the code: every reachable way in which the last children of a request are answered at the same instant - the    *)
(* number of children, where they sit, how their connections answer, and which children are in flight together.  The driver    *)
(* (c02-concurrent) builds the request, lets the connections answer and lines the SetResponse calls of `group` up at the pause  *)
(* point in front of them; what happens between the decrement and the test cannot be paused, so every vector is run many times. *)
EmitVector ==
  (W_LastChildrenConcurrent /\ Canonical(place, n)) =>
     PrintT("@@SPLIT " \o ToJson([n |-> n, place |-> [i \in 1..n |-> place[i]],
                                  modes |-> [i \in 1..n |-> mode[place[i]]],
                                  group |-> {i \in Children : cpc[i] = "decd"}]))
=============================================================================
