SPECIFICATION Spec
CONSTANTS
  Keys = {"k1", "k2"}
  MaxOps = 4
  MaxRedirects = 1
  FixOnce = TRUE
  MaxVals = 2
  HookDepth = 2
  OwnBytes = TRUE
  Nodes = {}
  ConnConfig = "live"
  BareUpdate = "refused"
  Sizes = {0}
  ReadLimit = 0
  OwnFrame = TRUE
INVARIANTS StoredForm ReadBack OnlyWhenEnabled OffMeansOff
CHECK_DEADLOCK FALSE
