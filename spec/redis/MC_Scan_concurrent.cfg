SPECIFICATION Spec
CONSTANTS
  MinNodes = 0
  MaxNodes = 3
  Base = 256
  MaxChain = 1
  IdxSpace = 8
  PastEndRule = "ge"
  CompletionOrder = "rewrite-publish"
  Withdrawals = TRUE
  ConcurrentWithdrawals = TRUE
  HostReads = "snapshot"
  Reannouncements = TRUE
  ReannounceRule = "atomic"
CHECK_DEADLOCK FALSE
INVARIANTS BoundedCalls ExactCalls EachNodeOnceInOrder InOrder CursorRoundTrip PastEndIsTerminal NoCrash DeliveredComposite ResumeSafe
PROPERTIES Terminates
