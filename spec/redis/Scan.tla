--------------------------------- MODULE Scan ---------------------------------
(***************************************************************************)
(* SCAN through the proxy (C18): the proxy presents the nodes of the       *)
(* cluster as one key space by encoding (node index, node cursor) into     *)
(* the cursor it hands to the client (request.go:359-402, handler.go:      *)
(* 240-260): high 16 bits node index into the sorted host list, low 48     *)
(* bits the node's own cursor; when a node reports cursor 0 the index      *)
(* advances; an index past the last node yields the terminal reply.        *)
(* Node cursors are symbolic: Base stands for 2^48 (the replayer maps      *)
(* Base-1 -> 2^48-1, Base/2 -> 2^47, Base/2-1 -> 2^47-1).                  *)
(***************************************************************************)
EXTENDS Naturals, Sequences, FiniteSets, TLC, TLCExt, Json

CONSTANTS MaxNodes,     \* number of nodes 1..MaxNodes
          Base,         \* stands for 2^48
          MaxChain      \* node cursor chain length (non-zero cursors per node)

CursorVals == {1, 2, (Base \div 2) - 1, Base \div 2, Base - 1}

\* a node = sequence of distinct non-zero cursors c1..cm: SCAN 0 -> c1, SCAN c1 -> c2, ..., SCAN cm -> 0
Chains == UNION {{s \in [1..m -> CursorVals] : \A i, j \in 1..m : i # j => s[i] # s[j]} : m \in 0..MaxChain}

Compose(idx, cur) == idx * Base + cur
ParseIdx(c) == c \div Base
ParseCur(c) == c % Base

\* node cursor following cur in chain ch (0 = start)
NextOf(ch, cur) ==
  IF cur = 0 THEN (IF Len(ch) = 0 THEN 0 ELSE ch[1])
  ELSE LET p == CHOOSE i \in 1..Len(ch) : ch[i] = cur IN IF p = Len(ch) THEN 0 ELSE ch[p + 1]

\* one SCAN call through the proxy with client cursor c over nodes ns (sequence of chains):
\* result [node, sent, next]: node asked (0 = answered by the proxy), cursor sent to it, cursor returned to the client
Call(ns, c) ==
  LET idx == ParseIdx(c)
      cur == ParseCur(c)
  IN IF idx >= Len(ns) THEN [node |-> 0, sent |-> 0, next |-> 0]
     ELSE LET nx == NextOf(ns[idx + 1], cur)
          IN [node |-> idx + 1, sent |-> cur,
              next |-> IF nx = 0 THEN Compose(idx + 1, 0) ELSE Compose(idx, nx)]

VARIABLES ns,        \* the cluster: sequence of chains
          cursor,    \* cursor the client holds
          calls,     \* calls made so far: sequence of Call results
          done

vars == <<ns, cursor, calls, done>>

Init ==
  /\ ns \in UNION {[1..n -> Chains] : n \in 1..MaxNodes}
  /\ cursor = 0 /\ calls = <<>> /\ done = FALSE

Step ==
  /\ ~done
  /\ LET r == Call(ns, cursor) IN
       /\ calls' = Append(calls, r)
       /\ cursor' = r.next
       /\ done' = (r.next = 0)
  /\ UNCHANGED ns

Emit ==
  /\ done /\ PrintT("@@SCAN " \o ToJson([nodes |-> ns, calls |-> calls]))
  /\ UNCHANGED vars

Next == Step
Spec == Init /\ [][Next]_vars /\ WF_vars(Step)

TotalSteps == LET F[i \in 0..Len(ns)] == IF i = 0 THEN 0 ELSE F[i - 1] + Len(ns[i]) + 1 IN F[Len(ns)]

\* the iteration terminates after exactly one call per chain element plus the terminal call
Terminates == <>done
BoundedCalls == Len(calls) <= TotalSteps + 1
ExactCalls == done => Len(calls) = TotalSteps + 1
\* every node is asked its whole chain once, in node order
EachNodeOnceInOrder ==
  done => \A n \in 1..Len(ns) :
    LET mine == SelectSeq(calls, LAMBDA r : r.node = n)
    IN /\ Len(mine) = Len(ns[n]) + 1
       /\ mine[1].sent = 0
       /\ \A i \in 1..Len(ns[n]) : mine[i + 1].sent = ns[n][i]
InOrder == \A i, j \in 1..Len(calls) : (i < j /\ calls[j].node # 0) => calls[i].node <= calls[j].node
\* the composite cursor is lossless below Base
CursorRoundTrip == \A i \in 0..MaxNodes : \A c \in CursorVals \cup {0} : ParseIdx(Compose(i, c)) = i /\ ParseCur(Compose(i, c)) = c
\* a cursor past the last node is answered by the proxy with the terminal reply
PastEndIsTerminal == \A i \in Len(ns)..(Len(ns) + 2) : Call(ns, Compose(i, 1)).next = 0 /\ Call(ns, Compose(i, 1)).node = 0
=============================================================================
