--------------------------------- MODULE Scan ---------------------------------
(***************************************************************************)
(* SCAN through the proxy (C18): the proxy presents the nodes of the       *)
(* cluster as one key space by encoding (node index, node cursor) into     *)
(* the cursor it hands to the client (request.go scanRequest, handler.go   *)
(* handleScan): high 16 bits node index into the sorted healthy host list, *)
(* low 48 bits the node's own cursor; when a node reports cursor 0 the     *)
(* index advances; an index past the last node yields the terminal reply.  *)
(* Node cursors are symbolic: Base stands for 2^48 (the replayer maps      *)
(* Base-1 -> 2^48-1, Base/2 -> 2^47, Base/2-1 -> 2^47-1); IdxSpace stands  *)
(* for 2^16 (node indexes are 16 bit values).                              *)
(*                                                                         *)
(* Three mechanisms besides the codec:                                     *)
(* - the number of healthy hosts may be ZERO (a service without hosts yet, *)
(*   all hosts withdrawn): every cursor is then past the last node.        *)
(*   PastEndRule selects the comparison: "ge" is the code (idx >= number   *)
(*   of hosts); "gt-last" is idx > number of hosts - 1 computed in 16 bits *)
(*   which wraps for zero hosts and indexes an empty list (crash).         *)
(* - Withdraw: service discovery removes hosts while the client holds a    *)
(*   saved cursor; the saved cursor is then a client supplied cursor for   *)
(*   the smaller host list (probe), after it a fresh iteration runs over   *)
(*   the new, from then on unchanging, host list.                          *)
(* - completion of a forwarded SCAN is not atomic: the goroutine that      *)
(*   read the node's reply rewrites the cursor inside the shared response  *)
(*   object (Rewrite) and publishes the response to the session (Publish = *)
(*   closing the done latch of the raw request); the session writer        *)
(*   encodes whatever the object holds once it is published (Encode).      *)
(*   CompletionOrder "rewrite-publish" is the code, "publish-rewrite" lets *)
(*   the writer encode the node's own cursor.                              *)
(* - handleScan looks at the published healthy list (ReadHosts) and then   *)
(*   checks the node index and indexes the list (Dispatch). HostReads      *)
(*   "snapshot" is the code (one read, check and indexing on the same      *)
(*   list); "twice" indexes the list published NOW: a withdrawal between   *)
(*   the two reads (ConcurrentWithdrawals) indexes out of range (crash).   *)
(* - Reannounce: service discovery announces a host that is stored already *)
(*   (OnSvcHostAdd of an existing address). The set of hosts is the same   *)
(*   before and after. ReannounceRule "atomic" is the code (one            *)
(*   publication of the same list); "remove-then-add" publishes a list     *)
(*   without that host first (hidden) and the full list afterwards.        *)
(***************************************************************************)
EXTENDS Integers, Sequences, FiniteSets, TLC, TLCExt, Json

CONSTANTS MinNodes,         \* number of nodes MinNodes..MaxNodes (0 = no healthy host)
          MaxNodes,
          Base,             \* stands for 2^48
          MaxChain,         \* node cursor chain length (non-zero cursors per node)
          IdxSpace,         \* stands for 2^16
          PastEndRule,      \* "ge" (code) | "gt-last" (wraps for zero hosts)
          CompletionOrder,  \* "rewrite-publish" (code) | "publish-rewrite"
          Withdrawals,      \* TRUE: hosts may be withdrawn once while the client holds a cursor
          ConcurrentWithdrawals, \* TRUE: ... also between ReadHosts and Dispatch of a call
          HostReads,        \* "snapshot" (code) | "twice"
          Reannouncements,  \* TRUE: stored hosts may be announced again at any time
          ReannounceRule    \* "atomic" (code) | "remove-then-add"

CursorVals == {1, 2, (Base \div 2) - 1, Base \div 2, Base - 1}

\* a node = sequence of distinct non-zero cursors c1..cm: SCAN 0 -> c1, SCAN c1 -> c2, ..., SCAN cm -> 0
Chains == UNION {{s \in [1..m -> CursorVals] : \A i, j \in 1..m : i # j => s[i] # s[j]} : m \in 0..MaxChain}

Compose(idx, cur) == idx * Base + cur
ParseIdx(c) == (c \div Base) % IdxSpace
ParseCur(c) == c % Base

\* node cursor following cur in chain ch (0 = start; a cursor the node never returned restarts it - any answer is allowed there)
NextOf(ch, cur) ==
  IF cur = 0 THEN (IF Len(ch) = 0 THEN 0 ELSE ch[1])
  ELSE IF \E i \in 1..Len(ch) : ch[i] = cur
       THEN LET p == CHOOSE i \in 1..Len(ch) : ch[i] = cur IN IF p = Len(ch) THEN 0 ELSE ch[p + 1]
       ELSE 0

\* "already scanned all the nodes" for node index idx and n healthy hosts
PastEnd(idx, n) ==
  IF PastEndRule = "ge" THEN idx >= n
  ELSE idx > ((n + IdxSpace - 1) % IdxSpace)

\* one SCAN call through the proxy with client cursor c; chk is the host list the bound check looks at, use the
\* list that is indexed (sequences of chains):
\* node asked (0 = answered by the proxy), cursor sent to it, the node's own next cursor (raw), the cursor the
\* client must be given (next), crash = the host list is indexed out of range
CallOn(chk, use, c) ==
  LET idx == ParseIdx(c)
      cur == ParseCur(c)
  IN IF PastEnd(idx, Len(chk)) THEN [node |-> 0, sent |-> 0, raw |-> 0, next |-> 0, crash |-> FALSE]
     ELSE IF idx >= Len(use) THEN [node |-> idx + 1, sent |-> cur, raw |-> 0, next |-> 0, crash |-> TRUE]
     ELSE LET nx == NextOf(use[idx + 1], cur)
          IN [node |-> idx + 1, sent |-> cur, raw |-> nx,
              next |-> IF nx = 0 THEN Compose(idx + 1, 0) ELSE Compose(idx, nx), crash |-> FALSE]
Call(hs, c) == CallOn(hs, hs, c)

VARIABLES ns,        \* the healthy hosts: sequence of chains
          cursor,    \* cursor the client holds
          calls,     \* calls completed so far: Call results + got (cursor the client received)
          done,
          fly,       \* <<>> or <<the forwarded call being completed>>
          epoch,     \* 0 before, 1 after the withdrawal
          probe,     \* <<>> or <<what the saved cursor met after the withdrawal>>
          snap,      \* <<>> or <<the host list handleScan has read>>
          hidden     \* 0 or the index of the host the published list transiently lacks

vars == <<ns, cursor, calls, done, fly, epoch, probe, snap, hidden>>

Init ==
  /\ ns \in UNION {[1..n -> Chains] : n \in MinNodes..MaxNodes}
  /\ cursor = 0 /\ calls = <<>> /\ done = FALSE /\ fly = <<>> /\ epoch = 0 /\ probe = <<>>
  /\ snap = <<>> /\ hidden = 0

SubSeqBy(s, S) == LET F[i \in 0..Len(s)] == IF i = 0 THEN <<>> ELSE IF i \in S THEN Append(F[i - 1], s[i]) ELSE F[i - 1] IN F[Len(s)]
IdxSeq(n, S) == SubSeqBy([i \in 1..n |-> i], S)

\* the healthy list as published (lock-free read by handleScan)
Published == IF hidden = 0 THEN ns ELSE SubSeqBy(ns, (1..Len(ns)) \ {hidden})

Finished(r, got) == [node |-> r.node, sent |-> r.sent, raw |-> r.raw, next |-> r.next, crash |-> r.crash, got |-> got]

\* the session reader parses the request and reads the published host list
ReadHosts ==
  /\ ~done /\ fly = <<>> /\ snap = <<>>
  /\ snap' = <<Published>>
  /\ UNCHANGED <<ns, cursor, calls, done, fly, epoch, probe, hidden>>

\* ... checks the node index and indexes the list; terminal replies are set by itself before the request is queued
\* for the writer. A call that was overtaken by a withdrawal is the probe of that withdrawal: only its not crashing
\* is judged, a fresh iteration starts after it.
Dispatch ==
  /\ snap # <<>>
  /\ LET r == CallOn(snap[1], IF HostReads = "snapshot" THEN snap[1] ELSE Published, cursor) IN
       IF probe # <<>> /\ probe[1].pending
       THEN /\ probe' = <<[probe[1] EXCEPT !.pending = FALSE, !.crash = r.crash]>>
            /\ cursor' = 0 /\ calls' = <<>> /\ done' = FALSE /\ fly' = <<>>
       ELSE /\ probe' = probe
            /\ IF r.node = 0 \/ r.crash
               THEN /\ calls' = Append(calls, Finished(r, r.next))
                    /\ cursor' = r.next
                    /\ done' = TRUE
                    /\ fly' = fly
               ELSE /\ fly' = <<[call |-> r, text |-> r.raw, rew |-> FALSE, pub |-> FALSE]>>
                    /\ UNCHANGED <<calls, cursor, done>>
  /\ snap' = <<>>
  /\ UNCHANGED <<ns, epoch, hidden>>

\* backend reader goroutine: the node cursor inside the response becomes the composite cursor
Rewrite ==
  /\ fly # <<>> /\ ~fly[1].rew
  /\ CompletionOrder = "rewrite-publish" \/ fly[1].pub
  /\ fly' = <<[fly[1] EXCEPT !.text = fly[1].call.next, !.rew = TRUE]>>
  /\ UNCHANGED <<ns, cursor, calls, done, epoch, probe, snap, hidden>>

\* backend reader goroutine: raw.SetResponse closes the done latch, the session writer may look
Publish ==
  /\ fly # <<>> /\ ~fly[1].pub
  /\ CompletionOrder = "publish-rewrite" \/ fly[1].rew
  /\ fly' = <<[fly[1] EXCEPT !.pub = TRUE]>>
  /\ UNCHANGED <<ns, cursor, calls, done, epoch, probe, snap, hidden>>

\* session writer goroutine: encodes the response object as it is now; the client feeds that cursor back
Encode ==
  /\ fly # <<>> /\ fly[1].pub
  /\ calls' = Append(calls, Finished(fly[1].call, fly[1].text))
  /\ cursor' = fly[1].text
  /\ done' = (fly[1].text = 0)
  /\ fly' = <<>>
  /\ UNCHANGED <<ns, epoch, probe, snap, hidden>>

Step == ReadHosts \/ Dispatch \/ Rewrite \/ Publish \/ Encode

\* service discovery withdraws hosts (any proper subset stays). Between two calls: the client comes back with the
\* cursor it holds. During a call (after ReadHosts): that call is the probe, it is judged when it is dispatched.
Withdraw ==
  /\ Withdrawals /\ epoch = 0 /\ fly = <<>> /\ Len(ns) > 0 /\ hidden = 0
  /\ snap = <<>> \/ ConcurrentWithdrawals
  /\ \E S \in (SUBSET (1..Len(ns))) \ {1..Len(ns)} :
       LET keep == SubSeqBy(ns, S)
           idx == ParseIdx(cursor)
           during == snap # <<>>
       IN /\ ns' = keep
          /\ probe' = <<[before |-> ns, k |-> Len(calls), keep |-> IdxSeq(Len(ns), S), cursor |-> cursor,
                         during |-> during, pending |-> during,
                         terminal |-> ~during /\ PastEnd(idx, Len(keep)),
                         crash |-> ~during /\ ~PastEnd(idx, Len(keep)) /\ idx >= Len(keep)]>>
          /\ cursor' = IF during THEN cursor ELSE 0
  /\ epoch' = 1 /\ calls' = <<>> /\ done' = FALSE /\ fly' = fly /\ snap' = snap /\ hidden' = hidden

\* service discovery announces a stored host again: the same hosts before and after
Reannounce ==
  /\ Reannouncements /\ hidden = 0 /\ Len(ns) > 0
  /\ \E i \in 1..Len(ns) : hidden' = IF ReannounceRule = "atomic" THEN 0 ELSE i
  /\ UNCHANGED <<ns, cursor, calls, done, fly, epoch, probe, snap>>
ReannounceDone ==
  /\ hidden # 0 /\ hidden' = 0
  /\ UNCHANGED <<ns, cursor, calls, done, fly, epoch, probe, snap>>

Next == Step \/ Withdraw \/ Reannounce \/ ReannounceDone
Spec == Init /\ [][Next]_vars /\ WF_vars(Step)

TotalSteps == LET F[i \in 0..Len(ns)] == IF i = 0 THEN 0 ELSE F[i - 1] + Len(ns[i]) + 1 IN F[Len(ns)]

\* the iteration terminates after exactly one call per chain element plus the terminal call
Terminates == <>[]done
BoundedCalls == Len(calls) <= TotalSteps + 1
ExactCalls == done => Len(calls) = TotalSteps + 1
\* every node is asked its whole chain once, in node order
EachNodeOnceInOrder ==
  done => \A n \in 1..Len(ns) :
    LET mine == SelectSeq(calls, LAMBDA r : r.node = n)
    IN /\ Len(mine) = Len(ns[n]) + 1
       /\ mine[1].sent = 0
       /\ \A i \in 1..Len(ns[n]) : mine[i + 1].sent = ns[n][i]
InOrder == \A i, j \in 1..Len(calls) : (i < j /\ calls[j].node # 0) => calls[i].node <= calls[j].node
\* the composite cursor is lossless below Base
CursorRoundTrip == \A i \in 0..MaxNodes : \A c \in CursorVals \cup {0} : ParseIdx(Compose(i, c)) = i /\ ParseCur(Compose(i, c)) = c
\* a cursor past the last node is answered by the proxy with the terminal reply (for every number of hosts, zero included)
PastEndIsTerminal ==
  \A i \in Len(ns)..(IdxSpace - 1) :
    LET r == Call(ns, Compose(i, 1)) IN r.next = 0 /\ r.node = 0 /\ ~r.crash
NoCrash == \A i \in 1..Len(calls) : ~calls[i].crash
\* the client is given the composite cursor, never the node's own
DeliveredComposite == \A i \in 1..Len(calls) : calls[i].got = calls[i].next
\* a cursor saved before hosts were withdrawn: never a crash; past the (new) last node: the terminal reply
ResumeSafe ==
  probe # <<>> => /\ ~probe[1].crash
                  /\ (~probe[1].during /\ ParseIdx(probe[1].cursor) >= Len(ns)) => probe[1].terminal

\* windows that must be reachable (checked as invariants that must be violated)
W_NoHosts == Len(ns) = 0 /\ Len(calls) > 0
W_AllWithdrawnMidIteration == probe # <<>> /\ Len(ns) = 0 /\ probe[1].cursor # 0
W_WriterMayEncodeWhilePublisherRuns == fly # <<>> /\ fly[1].pub
W_WithdrawnBetweenReadAndDispatch == probe # <<>> /\ probe[1].pending /\ ParseIdx(cursor) >= Len(ns) /\ ParseIdx(cursor) < Len(snap[1])
NotW_NoHosts == ~W_NoHosts
NotW_AllWithdrawnMidIteration == ~W_AllWithdrawnMidIteration
NotW_WriterMayEncodeWhilePublisherRuns == ~W_WriterMayEncodeWhilePublisherRuns
NotW_WithdrawnBetweenReadAndDispatch == ~W_WithdrawnBetweenReadAndDispatch
=============================================================================
