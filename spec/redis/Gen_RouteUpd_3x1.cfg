SPECIFICATION GenSpec
CONSTANTS
  Sessions = {"s1", "s2", "s3"}
  Shards = {"A", "B", "C"}
  NRep = 1
  Strategies = {"MASTER", "BOTH", "REPLICA"}
  Kinds = {"read", "write", "unsupported", "local"}
  MaxReq = 2
  MaxUpdates = 1
  StickyStrategy = FALSE
  SharedScratch = FALSE
CHECK_DEADLOCK FALSE
