SPECIFICATION Spec
CONSTANTS
  ErrText = "verbatim"
  Echo = "const"
  HotAs = "bulk"
  PreSet = {1}
  Forms = {"array"}
  Tier = "quick"
  Classes = {"error"}
  Emit = FALSE
INVARIANTS OneReplyEach AllDelivered
CHECK_DEADLOCK FALSE
