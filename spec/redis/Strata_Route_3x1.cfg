SPECIFICATION GenSpec
CONSTANTS
  Sessions = {"s1", "s2", "s3"}
  Shards = {"A", "B", "C"}
  NRep = 1
  Strategies = {"MASTER", "BOTH", "REPLICA"}
  Kinds = {"read", "write", "unsupported", "local"}
  MaxReq = 1
  MaxUpdates = 0
  StickyStrategy = FALSE
  SharedScratch = FALSE
ACTION_CONSTRAINT ForeignReadsOnly
CHECK_DEADLOCK FALSE
