SPECIFICATION LSpec
CONSTANTS
  Keys = {"a", "b", "c"}
  Caps = {1, 2, 3}
  MaxIncr = 7
  MaxCtl = 2
INVARIANTS StructOK LBounded LExactSinceAdmission LEvictsMinimum LLatchExact AbsInv
PROPERTIES AbsSpec
CHECK_DEADLOCK FALSE
