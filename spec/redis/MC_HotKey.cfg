SPECIFICATION Spec
CONSTANTS
  Keys = {"a", "b", "c", "d"}
  Caps = {1, 2, 3}
  MaxIncr = 7
  MaxCtl = 2
INVARIANTS TypeOK Bounded ExactSinceAdmission EvictsMinimum LatchExact OrdConsistent
CHECK_DEADLOCK FALSE
