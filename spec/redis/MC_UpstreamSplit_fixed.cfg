SPECIFICATION Spec
CONSTANTS
  MaxChild = 3
  NConn = 3
  Modes = {"reply", "drain"}
  AtomicDecTest = TRUE
INVARIANTS TypeOK ParentAtMostOnce ParentAnswered
PROPERTIES ParentEventually
CHECK_DEADLOCK FALSE
