SPECIFICATION ValSpec
CONSTANTS
  K = 4
  N = 4
  NN = 3
  MaxCat = 3
  NMsgs = 12
  Caps = {32, 33, 64, 4096, 8192}
  MaxCuts = 1
  KI = 5
INVARIANTS ValHolds EmitVal
CHECK_DEADLOCK FALSE
