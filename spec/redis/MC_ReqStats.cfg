SPECIFICATION Spec
CONSTANTS
  Reqs = {1, 2, 3}
  MaxResends = 2
INVARIANTS Conserved NeverAhead
CHECK_DEADLOCK FALSE
