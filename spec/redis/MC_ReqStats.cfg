SPECIFICATION Spec
CONSTANTS
  Reqs = {1, 2, 3}
  MaxResends = 2
  MaxRefresh = 2
  HookBeforeQuitCheck = TRUE
INVARIANTS Conserved NeverAhead QuitProgress StoppedQuiescent
CHECK_DEADLOCK FALSE
