SPECIFICATION Spec
CONSTANTS
  MaxDepth = 2
  MaxRun = 9
  BlankPolicy = "loop"
  EmptyPolicy = "deliver"
  DepthPolicy = "limit"
INVARIANTS TypeOK StackBounded DepthBounded
CHECK_DEADLOCK FALSE
