\* every mandatory stratum from one run (AllStrataSpec): base / connection age / refused updates / absolute sizes
SPECIFICATION AllStrataSpec
CONSTANTS
  Keys = {"k1"}
  MaxOps = 5
  MaxRedirects = 2
  FixOnce = TRUE
  MaxVals = 3
  HookDepth = 2
  OwnBytes = TRUE
  Nodes = {"a", "b"}
  ConnConfig = "live"
  BareUpdate = "refused"
  Sizes = {0, 65535, 65536, 65537, 524287, 524288, 524289, 1048577, 3145728, 16777216}
  ReadLimit = 0
  OwnFrame = TRUE
INVARIANTS StoredForm ReadBack OnlyWhenEnabled OffMeansOff
CHECK_DEADLOCK FALSE
