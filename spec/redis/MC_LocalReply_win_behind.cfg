SPECIFICATION Spec
CONSTANTS
  ErrText = "neutralise"
  Echo = "const"
  HotAs = "bulk"
  PreSet = {1}
  Forms = {"array"}
  Tier = "quick"
  Classes = {"local"}
  Emit = FALSE
INVARIANTS NotW_BuiltBehindPending
CHECK_DEADLOCK FALSE
