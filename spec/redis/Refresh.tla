------------------------------- MODULE Refresh -------------------------------
(***************************************************************************)
(* The slot refresh loop of the Redis upstream (upstream.go:346-449): a    *)
(* one-slot trigger channel that coalesces refresh requests, the loop      *)
(* (wait for quit / period / trigger; refresh from a random host; on       *)
(* failure trigger again; sleep the minimum interval), layout changes of   *)
(* the cluster and the redirections they cause while the table is stale.   *)
(* C07: after the layout stops changing, routing converges within a        *)
(* bounded number of refresh rounds triggered by the first redirection.    *)
(*                                                                         *)
(* The window this module makes explicit: a refresh is in flight (the node *)
(* has already produced its CLUSTER NODES reply, `seen`), the layout       *)
(* changes, and a request notices the stale table (MOVED / ASK, failed     *)
(* connect to a dead master, CLUSTERDOWN, host add) and asks for a refresh *)
(* BEFORE the stale reply is installed.  That request must survive the     *)
(* installation of the older reply (TriggerKept).                          *)
(*   DrainOnSuccess - a successful refresh empties the trigger channel     *)
(*                    ("the fresh table satisfies whoever asked            *)
(*                    meanwhile"): FALSE in the code; TRUE must violate    *)
(*                    TriggerKept (lost wake-up)                           *)
(***************************************************************************)
EXTENDS Naturals, TLC

CONSTANTS MaxLayout,      \* layouts are numbered 0..MaxLayout; a layout change increments the number
          MaxFailures,    \* refresh attempts that may fail
          DrainOnSuccess

VARIABLES layout,         \* current layout of the cluster
          table,          \* layout the proxy's table reflects
          trig,           \* token in slotsRefreshCh (capacity 1)
          loop,           \* "wait" | "asking" | "sleep" | "exited"
          seen,           \* layout returned by the CLUSTER NODES request in flight
          quit,
          rounds,         \* successful refresh rounds since the layout last changed
          failures,
          noticed         \* a request has met the stale table since the layout last changed (and has asked for a refresh)

vars == <<layout, table, trig, loop, seen, quit, rounds, failures, noticed>>

Init ==
  /\ layout = 0 /\ table = 0 /\ trig = FALSE /\ loop = "wait" /\ seen = 0 /\ quit = FALSE
  /\ rounds = 0 /\ failures = 0 /\ noticed = FALSE

(* environment: slots move (migration finished, failover) *)
LayoutChange ==
  /\ layout < MaxLayout /\ layout' = layout + 1 /\ rounds' = 0 /\ noticed' = FALSE
  /\ UNCHANGED <<table, trig, loop, seen, quit, failures>>

(* a request routed by the stale table is redirected (handleRedirection), cannot connect to a master that *)
(* has left (MakeRequestToHost) or is told CLUSTERDOWN: triggerSlotsRefresh (non-blocking send: a token   *)
(* that is already there is kept)                                                                          *)
Redirect ==
  /\ table # layout /\ ~quit
  /\ trig' = TRUE /\ noticed' = TRUE
  /\ UNCHANGED <<layout, table, loop, seen, quit, rounds, failures>>

(* loopRefreshSlots: select {quit | period | trigger}; the periodic timer is not modelled (it only adds triggers) *)
LoopTake ==
  /\ loop = "wait"
  /\ \/ quit /\ loop' = "exited" /\ UNCHANGED <<trig, seen>>
     \/ ~quit /\ trig /\ trig' = FALSE /\ loop' = "asking" /\ seen' = layout   \* the node answers with the layout it has now
  /\ UNCHANGED <<layout, table, quit, rounds, failures, noticed>>

(* doSlotsRefresh returns: success -> the table becomes what the node reported; failure -> trigger again *)
LoopRefreshed ==
  /\ loop = "asking"
  /\ \/ /\ table' = seen /\ rounds' = rounds + 1 /\ UNCHANGED failures
        /\ trig' = IF DrainOnSuccess THEN FALSE ELSE trig
     \/ /\ failures < MaxFailures /\ failures' = failures + 1 /\ trig' = TRUE /\ UNCHANGED <<table, rounds>>
  /\ loop' = "sleep"
  /\ UNCHANGED <<layout, seen, quit, noticed>>

(* the minimum interval elapses, or quit *)
LoopWake ==
  /\ loop = "sleep"
  /\ loop' = IF quit THEN "exited" ELSE "wait"
  /\ UNCHANGED <<layout, table, trig, seen, quit, rounds, failures, noticed>>

Quit == ~quit /\ quit' = TRUE /\ UNCHANGED <<layout, table, trig, loop, seen, rounds, failures, noticed>>

LoopNext == LoopTake \/ LoopRefreshed \/ LoopWake
Next == LoopNext \/ LayoutChange \/ Redirect \/ Quit
\* traffic keeps coming: while the table is stale some request is redirected
Spec == Init /\ [][Next]_vars /\ WF_vars(LoopNext) /\ WF_vars(Redirect)

-----------------------------------------------------------------------------
\* once the layout has settled, the table converges (unless the proxy is told to quit)
Converges == <>[](table = layout \/ quit)
\* ... within two successful rounds after the last change: one that may have been in flight with the old
\* layout, and one more
BoundedRounds == (table # layout) => rounds <= 1
\* a stale table with traffic never leaves the loop idle for ever without a token (no lost wake-up)
NoLostTrigger == (table # layout /\ loop = "wait" /\ ~trig /\ ~quit) ~> (trig \/ table = layout \/ quit)
\* quit ends the loop
QuitEnds == quit ~> (loop = "exited")
\* the refresh a request has asked for is never forgotten: while the table is stale and some request has noticed it under
\* the current layout, a token is waiting or a refresh that has seen the current layout is in flight - so the rounds
\* triggered by the first redirection end with the current layout, whatever older reply is installed meanwhile
TriggerKept == (noticed /\ table # layout /\ ~quit) => (trig \/ (loop = "asking" /\ seen = layout))
\* the window (must be reachable): a trigger raised while a refresh that has seen an older layout is in flight
W_TriggerDuringStaleRefresh == loop = "asking" /\ seen # layout /\ trig /\ noticed
NoWindow == ~W_TriggerDuringStaleRefresh
=============================================================================
