------------------------------- MODULE Refresh -------------------------------
(***************************************************************************)
(* The slot refresh loop of the Redis upstream (upstream.go:346-449): a    *)
(* one-slot trigger channel that coalesces refresh requests, the loop      *)
(* (wait for quit / period / trigger; refresh from a random host; on       *)
(* failure trigger again; sleep the minimum interval), layout changes of   *)
(* the cluster and the redirections they cause while the table is stale.   *)
(* C07: after the layout stops changing, routing converges within a        *)
(* bounded number of refresh rounds triggered by the first redirection.    *)
(*                                                                         *)
(* The window this module makes explicit: a refresh is in flight (the node *)
(* has already produced its CLUSTER NODES reply, `seen`), the layout       *)
(* changes, and a request notices the stale table (MOVED / ASK, failed     *)
(* connect to a dead master, CLUSTERDOWN, host add) and asks for a refresh *)
(* BEFORE the stale reply is installed.  That request must survive the     *)
(* installation of the older reply (TriggerKept).                          *)
(* The layout has two components: which master owns the slots, and which   *)
(* replicas follow that master.  Reads are routed by the replica list too  *)
(* when the read strategy is REPLICA or BOTH, so a change of the replica   *)
(* assignment alone ("replica moves, master stays") makes the table stale  *)
(* for them, and the refresh has to install it.                            *)
(*   SkipUnchanged  - a refresh leaves the entry of a slot alone when its  *)
(*                    master is unchanged (the old replica list stays):    *)
(*                    FALSE in the code; TRUE must violate BoundedRounds / *)
(*                    TriggerKept / Converges under REPLICA and BOTH       *)
(* The periodic refresh: in every iteration the loop also waits for a timer *)
(* of one refresh period (time.After(slotsRefFreq)).  It is the only thing  *)
(* that heals a SILENT layout change - one after which no request raises a  *)
(* trigger (the old master's address still accepts connections and closes   *)
(* them at once: "backend exited", no dial error, no redirection).           *)
(*   RearmOnlyAfterTrigger - the timer is one object that only a triggered   *)
(*                    refresh re-arms (FALSE in the code: a new timer in      *)
(*                    every iteration); TRUE must violate TimerArmed /        *)
(*                    Converges: after a quiet period the periodic refresh    *)
(*                    is gone                                                 *)
(*   DrainOnSuccess - a successful refresh empties the trigger channel     *)
(*                    ("the fresh table satisfies whoever asked            *)
(*                    meanwhile"): FALSE in the code; TRUE must violate    *)
(*                    TriggerKept (lost wake-up)                           *)
(***************************************************************************)
EXTENDS Naturals, TLC

CONSTANTS MaxLayout,      \* layouts are numbered 0..MaxLayout; a layout change increments the number
          MaxFailures,    \* refresh attempts that may fail
          DrainOnSuccess,
          SkipUnchanged,
          RearmOnlyAfterTrigger,
          Strategy        \* read strategy: "MASTER" | "REPLICA" | "BOTH"

VARIABLES layout,         \* current layout of the cluster: <<master assignment, replica assignment>> (version numbers)
          table,          \* layout the proxy's table reflects
          trig,           \* token in slotsRefreshCh (capacity 1)
          loop,           \* "wait" | "asking" | "sleep" | "exited"
          seen,           \* layout returned by the CLUSTER NODES request in flight
          quit,
          rounds,         \* successful refresh rounds since the layout last changed
          failures,
          noticed,        \* a request has met the stale table since the layout last changed (and has asked for a refresh)
          timer,          \* the periodic timer of the iteration: "armed" | "off"
          silent          \* the last layout change raises no trigger (requests fail with "backend exited" or are still served)

vars == <<layout, table, trig, loop, seen, quit, rounds, failures, noticed, timer, silent>>

\* what routing depends on: the master assignment, and for reads from replicas the replica assignment
Same(a, b) == a[1] = b[1] /\ (Strategy = "MASTER" \/ a[2] = b[2])
Stale == ~Same(table, layout)

Init ==
  /\ layout = <<0, 0>> /\ table = <<0, 0>> /\ trig = FALSE /\ loop = "wait" /\ seen = <<0, 0>> /\ quit = FALSE
  /\ rounds = 0 /\ failures = 0 /\ noticed = FALSE /\ timer = "armed" /\ silent = FALSE

(* environment: slots move to another master (migration finished, failover) / a replica moves to another master *)
(* or is replaced while the master stays                                                                          *)
LayoutChange(k) ==
  /\ layout[1] + layout[2] < MaxLayout /\ rounds' = 0 /\ noticed' = FALSE
  /\ \/ k = "master" /\ layout' = <<layout[1] + 1, layout[2]>> /\ silent' = FALSE
     \/ k = "replica" /\ Strategy # "MASTER" /\ layout' = <<layout[1], layout[2] + 1>> /\ silent' = FALSE
     \/ k = "silent" /\ layout' = <<layout[1] + 1, layout[2]>> /\ silent' = TRUE
  /\ UNCHANGED <<table, trig, loop, seen, quit, failures, timer>>

(* a request routed by the stale table is redirected (handleRedirection), cannot connect to a master that *)
(* has left (MakeRequestToHost) or is told CLUSTERDOWN: triggerSlotsRefresh (non-blocking send: a token   *)
(* that is already there is kept)                                                                          *)
Redirect ==
  /\ Stale /\ ~silent /\ ~quit
  /\ trig' = TRUE /\ noticed' = TRUE
  /\ UNCHANGED <<layout, table, loop, seen, quit, rounds, failures, timer, silent>>

(* loopRefreshSlots: select {quit | period | trigger} *)
LoopTake ==
  /\ loop = "wait"
  /\ \/ quit /\ loop' = "exited" /\ UNCHANGED <<trig, seen, timer>>
     \/ ~quit /\ trig /\ trig' = FALSE /\ loop' = "asking" /\ seen' = layout   \* the node answers with the layout it has now
        /\ timer' = "armed"                                                      \* (the next iteration waits with a timer again)
  /\ UNCHANGED <<layout, table, quit, rounds, failures, noticed, silent>>

(* the period elapses while the loop waits: a refresh nobody asked for.  The next iteration has a timer again - unless *)
(* the timer is an object that only the trigger branch re-arms                                                          *)
LoopTick ==
  /\ loop = "wait" /\ ~quit /\ timer = "armed"
  /\ loop' = "asking" /\ seen' = layout
  /\ timer' = IF RearmOnlyAfterTrigger THEN "off" ELSE "armed"
  /\ UNCHANGED <<layout, table, trig, quit, rounds, failures, noticed, silent>>

(* doSlotsRefresh returns: success -> the table becomes what the node reported (master and replicas of every slot); *)
(* failure -> trigger again                                                                                         *)
LoopRefreshed ==
  /\ loop = "asking"
  /\ \/ /\ table' = IF SkipUnchanged /\ table[1] = seen[1] THEN table ELSE seen
        /\ rounds' = (IF rounds < 3 THEN rounds + 1 ELSE rounds) /\ UNCHANGED failures
        /\ trig' = IF DrainOnSuccess THEN FALSE ELSE trig
     \/ /\ failures < MaxFailures /\ failures' = failures + 1 /\ trig' = TRUE /\ UNCHANGED <<table, rounds>>
  /\ loop' = "sleep"
  /\ UNCHANGED <<layout, seen, quit, noticed, timer, silent>>

(* the minimum interval elapses, or quit *)
LoopWake ==
  /\ loop = "sleep"
  /\ loop' = IF quit THEN "exited" ELSE "wait"
  /\ UNCHANGED <<layout, table, trig, seen, quit, rounds, failures, noticed, timer, silent>>

Quit == ~quit /\ quit' = TRUE /\ UNCHANGED <<layout, table, trig, loop, seen, rounds, failures, noticed, timer, silent>>

LoopNext == LoopTake \/ LoopTick \/ LoopRefreshed \/ LoopWake
Next == LoopNext \/ (\E k \in {"master", "replica", "silent"} : LayoutChange(k)) \/ Redirect \/ Quit
\* traffic keeps coming: while the table is stale some request is redirected
Spec == Init /\ [][Next]_vars /\ WF_vars(LoopNext) /\ WF_vars(Redirect)

-----------------------------------------------------------------------------
\* once the layout has settled, the table converges (unless the proxy is told to quit)
Converges == <>[](~Stale \/ quit)
\* ... within two successful rounds after the last change: one that may have been in flight with the old
\* layout, and one more
BoundedRounds == Stale => rounds <= 1
\* a stale table with traffic never leaves the loop idle for ever without a token (no lost wake-up)
NoLostTrigger == (Stale /\ loop = "wait" /\ ~trig /\ ~quit) ~> (trig \/ ~Stale \/ quit)
\* quit ends the loop
QuitEnds == quit ~> (loop = "exited")
\* the refresh a request has asked for is never forgotten: while the table is stale and some request has noticed it under
\* the current layout, a token is waiting or a refresh that has seen the current layout is in flight - so the rounds
\* triggered by the first redirection end with the current layout, whatever older reply is installed meanwhile
TriggerKept == (noticed /\ Stale /\ ~quit) => (trig \/ (loop = "asking" /\ Same(seen, layout)))
\* the window (must be reachable): a trigger raised while a refresh that has seen an older layout is in flight
W_TriggerDuringStaleRefresh == loop = "asking" /\ ~Same(seen, layout) /\ trig /\ noticed
NoWindow == ~W_TriggerDuringStaleRefresh
\* the idle loop always has its periodic timer: the safety net for layout changes no request notices
TimerArmed == (loop = "wait" /\ ~quit) => timer = "armed"
\* the window (must be reachable): a silent change while the loop idles after a refresh that the timer started
W_SilentChange == silent /\ Stale /\ loop = "wait" /\ ~trig
NoSilentChange == ~W_SilentChange
\* the window (must be reachable under REPLICA / BOTH): only the replica assignment of the table is stale
W_ReplicaStale == table[1] = layout[1] /\ table[2] # layout[2] /\ Stale
NoReplicaStale == ~W_ReplicaStale
=============================================================================
