------------------------------- MODULE Refresh -------------------------------
(***************************************************************************)
(* The slot refresh loop of the Redis upstream (upstream.go:346-449): a    *)
(* one-slot trigger channel that coalesces refresh requests, the loop      *)
(* (wait for quit / period / trigger; refresh from a random host; on       *)
(* failure trigger again; sleep the minimum interval), layout changes of   *)
(* the cluster and the redirections they cause while the table is stale.   *)
(* C07: after the layout stops changing, routing converges within a        *)
(* bounded number of refresh rounds triggered by the first redirection.    *)
(***************************************************************************)
EXTENDS Naturals, TLC

CONSTANTS MaxLayout,      \* layouts are numbered 0..MaxLayout; a layout change increments the number
          MaxFailures     \* refresh attempts that may fail

VARIABLES layout,         \* current layout of the cluster
          table,          \* layout the proxy's table reflects
          trig,           \* token in slotsRefreshCh (capacity 1)
          loop,           \* "wait" | "asking" | "sleep" | "exited"
          seen,           \* layout returned by the CLUSTER NODES request in flight
          quit,
          rounds,         \* successful refresh rounds since the layout last changed
          failures

vars == <<layout, table, trig, loop, seen, quit, rounds, failures>>

Init ==
  /\ layout = 0 /\ table = 0 /\ trig = FALSE /\ loop = "wait" /\ seen = 0 /\ quit = FALSE
  /\ rounds = 0 /\ failures = 0

(* environment: slots move (migration finished, failover) *)
LayoutChange ==
  /\ layout < MaxLayout /\ layout' = layout + 1 /\ rounds' = 0
  /\ UNCHANGED <<table, trig, loop, seen, quit, failures>>

(* a request routed by the stale table is redirected: handleRedirection -> triggerSlotsRefresh *)
(* (non-blocking send: a token that is already there is kept)                                   *)
Redirect ==
  /\ table # layout /\ ~quit
  /\ trig' = TRUE
  /\ UNCHANGED <<layout, table, loop, seen, quit, rounds, failures>>

(* loopRefreshSlots: select {quit | period | trigger}; the periodic timer is not modelled (it only adds triggers) *)
LoopTake ==
  /\ loop = "wait"
  /\ \/ quit /\ loop' = "exited" /\ UNCHANGED <<trig, seen>>
     \/ ~quit /\ trig /\ trig' = FALSE /\ loop' = "asking" /\ seen' = layout   \* the node answers with the layout it has now
  /\ UNCHANGED <<layout, table, quit, rounds, failures>>

(* doSlotsRefresh returns: success -> the table becomes what the node reported; failure -> trigger again *)
LoopRefreshed ==
  /\ loop = "asking"
  /\ \/ /\ table' = seen /\ rounds' = rounds + 1 /\ UNCHANGED <<trig, failures>>
     \/ /\ failures < MaxFailures /\ failures' = failures + 1 /\ trig' = TRUE /\ UNCHANGED <<table, rounds>>
  /\ loop' = "sleep"
  /\ UNCHANGED <<layout, seen, quit>>

(* the minimum interval elapses, or quit *)
LoopWake ==
  /\ loop = "sleep"
  /\ loop' = IF quit THEN "exited" ELSE "wait"
  /\ UNCHANGED <<layout, table, trig, seen, quit, rounds, failures>>

Quit == ~quit /\ quit' = TRUE /\ UNCHANGED <<layout, table, trig, loop, seen, rounds, failures>>

LoopNext == LoopTake \/ LoopRefreshed \/ LoopWake
Next == LoopNext \/ LayoutChange \/ Redirect \/ Quit
\* traffic keeps coming: while the table is stale some request is redirected
Spec == Init /\ [][Next]_vars /\ WF_vars(LoopNext) /\ WF_vars(Redirect)

-----------------------------------------------------------------------------
\* once the layout has settled, the table converges (unless the proxy is told to quit)
Converges == <>[](table = layout \/ quit)
\* ... within two successful rounds after the last change: one that may have been in flight with the old
\* layout, and one more
BoundedRounds == (table # layout) => rounds <= 1
\* a stale table with traffic never leaves the loop idle for ever without a token (no lost wake-up)
NoLostTrigger == (table # layout /\ loop = "wait" /\ ~trig /\ ~quit) ~> (trig \/ table = layout \/ quit)
\* quit ends the loop
QuitEnds == quit ~> (loop = "exited")
=============================================================================
