SPECIFICATION Spec
CONSTANTS
  Nodes = {1, 2, 3}
  Slots = {"A", "B"}
  Keys = {"a1", "b1"}
  SlotOf <- MCSlotOf2
  MaxCmds = 3
  MaxHops = 3
  WithMigration = FALSE
  EmptyTableAtStart = FALSE
  AtomicAsk = TRUE
  WithFailover = TRUE
  FixRefreshOnDialError = TRUE
  StepwiseRefresh = FALSE
  ClearBeforeFill = FALSE
  MaxTicks = 0
  LazyConnect = FALSE
  AsyncRedirectDial = FALSE
  TrackOrder = FALSE
  WithDemotion = FALSE
  ReadonlyEverywhere = TRUE
  MaxMigs = 1
  StaleTableAtStart = FALSE
  MaxFollowed = 0
  DeathKinds = {"refused", "timeout"}
  RefreshOnTimeout = TRUE
  PromotedFlags = {{"master"}, {"master", "nofailover"}, {"myself", "master"}}
  ParserSkips = {}
INVARIANTS EqualsReference EffectOnce SingleCopy CopyIsReference NoLostKey ErrorsOnlyWhileStale
PROPERTIES ConvergesAfterDialError
CHECK_DEADLOCK FALSE
