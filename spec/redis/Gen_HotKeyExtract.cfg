SPECIFICATION Spec
CONSTANTS
  Normalise = "always"
INVARIANTS OnlyAccessedKeysReported
ACTION_CONSTRAINT EmitVec
CHECK_DEADLOCK FALSE
