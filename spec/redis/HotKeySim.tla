----------------------------- MODULE HotKeySim -----------------------------
(***************************************************************************)
(* Deeper counter histories than the exhaustive bound (C19): seeded TLC    *)
(* simulation of HotKeyGen with larger constants; when the access budget   *)
(* is used up, Finish prints the whole behaviour as one JSON line.         *)
(***************************************************************************)
EXTENDS HotKeyGen

VARIABLE finished

svars == <<gvars, finished>>

SimInit == GenInit /\ finished = FALSE

Finish ==
  /\ ~finished /\ nI = MaxIncr
  /\ PrintT("@@BEH " \o ToJson(hist))
  /\ finished' = TRUE
  /\ UNCHANGED gvars

SimNext == (~finished /\ GenNext /\ UNCHANGED finished) \/ Finish

SimSpec == SimInit /\ [][SimNext]_svars
=============================================================================
