SPECIFICATION GenSpec
CONSTANTS
  Keys = {"k1", "k2"}
  MaxOps = 7
  MaxRedirects = 2
  FixOnce = TRUE
  MaxVals = 3
  HookDepth = 2
  OwnBytes = TRUE
  Nodes = {"a", "b"}
  ConnConfig = "live"
  BareUpdate = "refused"
  Sizes = {0}
  ReadLimit = 0
  OwnFrame = TRUE
CHECK_DEADLOCK FALSE
