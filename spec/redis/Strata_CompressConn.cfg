\* the strata of connection age, enumerated completely (every run)
SPECIFICATION ConnStrataSpec
CONSTANTS
  Keys = {"k1"}
  MaxOps = 5
  MaxRedirects = 0
  FixOnce = TRUE
  MaxVals = 1
  HookDepth = 2
  OwnBytes = TRUE
  Nodes = {"a", "b"}
  ConnConfig = "live"
INVARIANTS StoredForm ReadBack OnlyWhenEnabled OffMeansOff
CHECK_DEADLOCK FALSE
