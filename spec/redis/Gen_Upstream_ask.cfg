SPECIFICATION GenSpec
CONSTANTS
  Reqs = {"r1", "r2", "a3"}
  QCap = 2
  FixHandoff = TRUE
  FixSend = TRUE
  FixReader = TRUE
  Banned = {}
  Asking = {"a3"}
  AskAnswersInHand = TRUE
  DrainAfterStopped = TRUE
  FilteredFailAnswers = FALSE
  BufCap = 3
  FixFlushOnStop = TRUE
  MaxResets = 1
  WithStop = TRUE
  Det = TRUE
  EmitViolating = FALSE
  FaultPoints = {"any", "writer-ask", "reader-holds-reply", "writer-handoff"}
CHECK_DEADLOCK FALSE
