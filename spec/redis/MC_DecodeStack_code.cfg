SPECIFICATION Spec
CONSTANTS
  MaxDepth = 2
  MaxRun = 9
  BlankPolicy = "error"
  EmptyPolicy = "deliver"
  DepthPolicy = "limit"
INVARIANTS TypeOK StackBounded DepthBounded
CHECK_DEADLOCK FALSE
