SPECIFICATION Spec
CONSTANTS
  Reqs = {1, 2}
  MaxGens = 2
  MaxClients = 2
  MaxFaults = 1
  MaxStalls = 0
  MaxAsk = 0
  AskSelectsQuit = TRUE
  ResetStopsUnderLock = FALSE
  Counters = TRUE
  MaxCollects = 1
  MaxCfg = 1
  FreeDestroys = TRUE
  FreeHoldsCounterLock = FALSE
  UpdateLosesDefaults = FALSE
  FixCallEntry = TRUE
  FixResetSnapshot = TRUE
  FixRemoveOwn = TRUE
INVARIANTS NoCrash
CHECK_DEADLOCK FALSE
