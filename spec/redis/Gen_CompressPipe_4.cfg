SPECIFICATION GenSpec
CONSTANTS
  MaxLen = 4
  AfterStop = "next"
INVARIANTS BannedRejectedLocally AnsweredOnce OthersPass
CHECK_DEADLOCK FALSE
