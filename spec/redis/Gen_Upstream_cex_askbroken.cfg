SPECIFICATION GenSpec
CONSTANTS
  Reqs = {"r1", "r2", "a3"}
  QCap = 2
  FixHandoff = TRUE
  FixSend = TRUE
  FixReader = TRUE
  Banned = {}
  Asking = {"a3"}
  AskAnswersInHand = FALSE
  DrainAfterStopped = TRUE
  FilteredFailAnswers = FALSE
  BufCap = 3
  FixFlushOnStop = TRUE
  MaxResets = 1
  WithStop = TRUE
  Det = TRUE
  EmitViolating = TRUE
  FaultPoints = {"writer-ask"}
CHECK_DEADLOCK FALSE
