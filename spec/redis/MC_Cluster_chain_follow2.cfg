SPECIFICATION Spec
CONSTANTS
  Nodes = {1, 2, 3}
  Slots = {"A"}
  Keys = {"a1"}
  SlotOf <- MCSlotOf4
  MaxCmds = 2
  MaxHops = 3
  WithMigration = TRUE
  EmptyTableAtStart = FALSE
  AtomicAsk = TRUE
  WithFailover = FALSE
  FixRefreshOnDialError = TRUE
  StepwiseRefresh = FALSE
  ClearBeforeFill = FALSE
  MaxTicks = 0
  LazyConnect = FALSE
  AsyncRedirectDial = FALSE
  TrackOrder = FALSE
  WithDemotion = FALSE
  ReadonlyEverywhere = TRUE
  MaxMigs = 2
  StaleTableAtStart = TRUE
  MaxFollowed = 2
  DeathKinds = {"refused"}
  RefreshOnTimeout = TRUE
  PromotedFlags = {{"master"}}
  ParserSkips = {}
INVARIANTS NoRedirectError EffectOnce EqualsReference
CONSTRAINT HopBound
CHECK_DEADLOCK FALSE
