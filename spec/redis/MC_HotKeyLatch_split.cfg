SPECIFICATION Spec
CONSTANTS
  Keys = {"a", "b"}
  MaxIncr = 5
  MaxLatch = 3
  AtomicLatch = FALSE
INVARIANTS Conservation
CHECK_DEADLOCK FALSE
