SPECIFICATION Spec
CONSTANTS
  Nodes = {1, 2}
  Slots = {"A", "B"}
  Keys = {"a1", "a2", "b1"}
  SlotOf <- MCSlotOf
  MaxCmds = 3
  MaxHops = 3
  WithMigration = FALSE
  EmptyTableAtStart = FALSE
  AtomicAsk = TRUE
  WithFailover = FALSE
  FixRefreshOnDialError = TRUE
  StepwiseRefresh = TRUE
  ClearBeforeFill = FALSE
  MaxTicks = 1
  LazyConnect = FALSE
  AsyncRedirectDial = FALSE
  TrackOrder = FALSE
  WithDemotion = FALSE
  ReadonlyEverywhere = TRUE
  MaxMigs = 1
  StaleTableAtStart = FALSE
  MaxFollowed = 0
  DeathKinds = {"refused"}
  RefreshOnTimeout = TRUE
  PromotedFlags = {{"master"}}
  ParserSkips = {}
INVARIANTS NoRouteDuringRefresh
CONSTRAINT HopBound
CHECK_DEADLOCK FALSE
