SPECIFICATION Spec
CONSTANTS
  Conns = {1, 2}
  Nodes = {1, 2}
  MaxReq = 2
  ChildrenMayFail = TRUE
  ErrorCompletesParent = TRUE
  SessCap = 1
INVARIANTS ReplyOrder OnlyComplete NeverAhead ParentOnce WrittenComplete
PROPERTIES AllAnswered
CHECK_DEADLOCK FALSE
