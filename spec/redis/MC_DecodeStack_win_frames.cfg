SPECIFICATION Spec
CONSTANTS
  MaxDepth = 2
  MaxRun = 9
  BlankPolicy = "error"
  EmptyPolicy = "deliver"
  DepthPolicy = "limit"
INVARIANTS NotW_LongRunOfFrames
CHECK_DEADLOCK FALSE
