----------------------------- MODULE HotKeyLatch -----------------------------
(***************************************************************************)
(* C19, counter under concurrency: request writers call Counter.Incr on    *)
(* the backend's counter while the collector calls Counter.Latch.  Latch   *)
(* is "copy the counts, then reset"; in counter.go both happen inside one  *)
(* critical section (AtomicLatch = TRUE).  With AtomicLatch = FALSE the    *)
(* copy and the reset are two critical sections, and an Incr may fall      *)
(* between them.                                                           *)
(*                                                                         *)
(* The capacity is assumed to be at least the number of keys (no eviction: *)
(* every key stays tracked from its first access to the next latch), so    *)
(* "counts are exact since admission" for all latches together is a        *)
(* conservation law: for every key, the accesses made so far equal the sum *)
(* of what the latches returned plus what the counter still holds.         *)
(***************************************************************************)
EXTENDS Naturals

CONSTANTS Keys, MaxIncr, MaxLatch, AtomicLatch

VARIABLES cnt,   \* the counter: [Keys -> Nat]
          acc,   \* ghost: accesses per key so far
          lat,   \* ghost: sum of the latched counts per key
          pc,    \* latcher: "idle" | "copied"
          nI, nL

vars == <<cnt, acc, lat, pc, nI, nL>>
Zero == [k \in Keys |-> 0]

Init == cnt = Zero /\ acc = Zero /\ lat = Zero /\ pc = "idle" /\ nI = 0 /\ nL = 0

\* Counter.Incr (a writer goroutine)
Incr(k) ==
  /\ nI < MaxIncr
  /\ cnt' = [cnt EXCEPT ![k] = @ + 1]
  /\ acc' = [acc EXCEPT ![k] = @ + 1]
  /\ nI' = nI + 1
  /\ UNCHANGED <<lat, pc, nL>>

\* Counter.Latch: res[key] = freq for every item ...
LatchCopy ==
  /\ pc = "idle" /\ nL < MaxLatch
  /\ lat' = [k \in Keys |-> lat[k] + cnt[k]]
  /\ nL' = nL + 1
  /\ IF AtomicLatch THEN cnt' = Zero /\ pc' = "idle"
                    ELSE cnt' = cnt /\ pc' = "copied"
  /\ UNCHANGED <<acc, nI>>

\* ... c.reset()
LatchReset ==
  /\ pc = "copied"
  /\ cnt' = Zero /\ pc' = "idle"
  /\ UNCHANGED <<acc, lat, nI, nL>>

Next == (\E k \in Keys : Incr(k)) \/ LatchCopy \/ LatchReset

Spec == Init /\ [][Next]_vars

\* no access is lost and none is reported twice
Conservation == pc = "idle" => \A k \in Keys : acc[k] = lat[k] + cnt[k]
=============================================================================
