SPECIFICATION Spec
CONSTANTS
  NPlain = 3
  QCap = 2
  AskQuitExit = "answer"
  Faults = {"eof", "rst", "garbage", "stop", "remove"}
INVARIANTS NotW_AskHandoverQuit

CHECK_DEADLOCK FALSE
