\* the window must be reachable: TLC must violate NoBannedWithQueueBehind
SPECIFICATION Spec
CONSTANTS
  MaxLen = 3
  AfterStop = "next"
INVARIANTS NoBannedWithQueueBehind
CHECK_DEADLOCK FALSE
