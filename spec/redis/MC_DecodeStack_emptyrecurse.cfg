SPECIFICATION Spec
CONSTANTS
  MaxDepth = 2
  MaxRun = 9
  BlankPolicy = "error"
  EmptyPolicy = "recurse"
  DepthPolicy = "limit"
INVARIANTS TypeOK StackBounded
CHECK_DEADLOCK FALSE
