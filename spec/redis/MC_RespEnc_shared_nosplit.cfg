SPECIFICATION Spec
CONSTANTS
  SharedScratch = TRUE
  SplitWrites = FALSE
INVARIANTS RoundTripAll
CHECK_DEADLOCK FALSE
