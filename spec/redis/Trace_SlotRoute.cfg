SPECIFICATION TraceSpec
CONSTANTS
  Layouts = {"three", "frag"}
  MaxRefresh = 1000000
  WipeFirst = FALSE
  EmptyKeyAny = FALSE
INVARIANTS RoutedByOwner
POSTCONDITION TraceAccepted
CHECK_DEADLOCK FALSE
