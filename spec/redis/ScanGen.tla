------------------------------- MODULE ScanGen -------------------------------
(* emits every configuration of Scan with the exact sequence of calls the     *)
(* client makes (node asked, cursor sent to it, cursor returned to the client) *)
EXTENDS Scan
GenStep == Step /\ (done' => PrintT("@@SCAN " \o ToJson([nodes |-> ns, calls |-> calls'])))
GenSpec == Init /\ [][GenStep]_vars
=============================================================================
