------------------------------- MODULE ScanGen -------------------------------
(* emits every configuration of Scan with the exact sequence of calls the     *)
(* client makes (node asked, cursor sent to it, cursor returned to the client) *)
(* as @@SCAN, and - with Withdrawals - every host set history (calls before    *)
(* the withdrawal, hosts kept, what the saved cursor must meet, the calls of   *)
(* the fresh iteration over the hosts kept) as @@HOSTS.                        *)
EXTENDS Scan
\* node cursor values of the host set histories (the codec boundaries are covered by the @@SCAN configurations)
GenCursorValsQuick == {Base - 1}
GenCursorValsFull == {1, Base - 1}
GenStep ==
  /\ Step
  /\ (done' /\ epoch = 0 /\ ~Withdrawals) => PrintT("@@SCAN " \o ToJson([nodes |-> ns, calls |-> calls']))
  /\ (done' /\ epoch = 1) => PrintT("@@HOSTS " \o ToJson([probe |-> probe[1], nodes |-> ns, calls |-> calls']))
GenNext == GenStep \/ Withdraw
GenSpec == Init /\ [][GenNext]_vars
=============================================================================
