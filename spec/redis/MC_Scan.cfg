SPECIFICATION Spec
CONSTANTS
  MaxNodes = 3
  Base = 256
  MaxChain = 2
INVARIANTS BoundedCalls ExactCalls EachNodeOnceInOrder InOrder CursorRoundTrip PastEndIsTerminal
PROPERTIES Terminates
CHECK_DEADLOCK FALSE
