SPECIFICATION Spec
CONSTANTS
  Reqs = {1, 2}
  MaxResends = 1
  MaxRefresh = 0
  HookBeforeQuitCheck = FALSE
INVARIANTS Conserved NeverAhead
CHECK_DEADLOCK FALSE
