SPECIFICATION GenSpec
CONSTANTS
  MaxNodes = 3
  Base = 256
  MaxChain = 1
CHECK_DEADLOCK FALSE
