---- MODULE ConnTable_TTrace_1790365721 ----
EXTENDS Sequences, TLCExt, Toolbox, ConnTable, Naturals, TLC

_expression ==
    LET ConnTable_TEExpression == INSTANCE ConnTable_TEExpression
    IN ConnTable_TEExpression!expression
----

_trace ==
    LET ConnTable_TETrace == INSTANCE ConnTable_TETrace
    IN ConnTable_TETrace!trace
----

_inv ==
    ~(
        TLCGet("level") = Len(_TETrace)
        /\
        next = (2)
        /\
        alive = (<<FALSE, FALSE, FALSE>>)
        /\
        rqc = (<<0, 0, 0, 0>>)
        /\
        created = (0)
        /\
        sawDown = (<<TRUE, FALSE, FALSE, FALSE>>)
        /\
        faults = (0)
        /\
        call = (0)
        /\
        callRes = (<<4, 4, 4, 4>>)
        /\
        rst = ()
        /\
        gens = (0)
        /\
        exited = (<<FALSE, FALSE, FALSE>>)
        /\
        up = (FALSE)
        /\
        outcome = (<<"none", "none", "none", "none">>)
        /\
        table = (0)
        /\
        snap = ()
        /\
        rq = (<<"lookup", "idle", "idle", "idle">>)
    )
----

_init ==
    /\ outcome = _TETrace[1].outcome
    /\ alive = _TETrace[1].alive
    /\ snap = _TETrace[1].snap
    /\ gens = _TETrace[1].gens
    /\ faults = _TETrace[1].faults
    /\ rqc = _TETrace[1].rqc
    /\ rq = _TETrace[1].rq
    /\ callRes = _TETrace[1].callRes
    /\ exited = _TETrace[1].exited
    /\ table = _TETrace[1].table
    /\ next = _TETrace[1].next
    /\ rst = _TETrace[1].rst
    /\ up = _TETrace[1].up
    /\ created = _TETrace[1].created
    /\ sawDown = _TETrace[1].sawDown
    /\ call = _TETrace[1].call
----

_next ==
    /\ \E i,j \in DOMAIN _TETrace:
        /\ \/ /\ j = i + 1
              /\ i = TLCGet("level")
        /\ outcome  = _TETrace[i].outcome
        /\ outcome' = _TETrace[j].outcome
        /\ alive  = _TETrace[i].alive
        /\ alive' = _TETrace[j].alive
        /\ snap  = _TETrace[i].snap
        /\ snap' = _TETrace[j].snap
        /\ gens  = _TETrace[i].gens
        /\ gens' = _TETrace[j].gens
        /\ faults  = _TETrace[i].faults
        /\ faults' = _TETrace[j].faults
        /\ rqc  = _TETrace[i].rqc
        /\ rqc' = _TETrace[j].rqc
        /\ rq  = _TETrace[i].rq
        /\ rq' = _TETrace[j].rq
        /\ callRes  = _TETrace[i].callRes
        /\ callRes' = _TETrace[j].callRes
        /\ exited  = _TETrace[i].exited
        /\ exited' = _TETrace[j].exited
        /\ table  = _TETrace[i].table
        /\ table' = _TETrace[j].table
        /\ next  = _TETrace[i].next
        /\ next' = _TETrace[j].next
        /\ rst  = _TETrace[i].rst
        /\ rst' = _TETrace[j].rst
        /\ up  = _TETrace[i].up
        /\ up' = _TETrace[j].up
        /\ created  = _TETrace[i].created
        /\ created' = _TETrace[j].created
        /\ sawDown  = _TETrace[i].sawDown
        /\ sawDown' = _TETrace[j].sawDown
        /\ call  = _TETrace[i].call
        /\ call' = _TETrace[j].call

\* Uncomment the ASSUME below to write the states of the error trace
\* to the given file in Json format. Note that you can pass any tuple
\* to `JsonSerialize`. For example, a sub-sequence of _TETrace.
    \* ASSUME
    \*     LET J == INSTANCE Json
    \*         IN J!JsonSerialize("ConnTable_TTrace_1790365721.json", _TETrace)

=============================================================================

 Note that you can extract this module `ConnTable_TEExpression`
  to a dedicated file to reuse `expression` (the module in the 
  dedicated `ConnTable_TEExpression.tla` file takes precedence 
  over the module `ConnTable_TEExpression` below).

---- MODULE ConnTable_TEExpression ----
EXTENDS Sequences, TLCExt, Toolbox, ConnTable, Naturals, TLC

expression == 
    [
        \* To hide variables of the `ConnTable` spec from the error trace,
        \* remove the variables below.  The trace will be written in the order
        \* of the fields of this record.
        outcome |-> outcome
        ,alive |-> alive
        ,snap |-> snap
        ,gens |-> gens
        ,faults |-> faults
        ,rqc |-> rqc
        ,rq |-> rq
        ,callRes |-> callRes
        ,exited |-> exited
        ,table |-> table
        ,next |-> next
        ,rst |-> rst
        ,up |-> up
        ,created |-> created
        ,sawDown |-> sawDown
        ,call |-> call
        
        \* Put additional constant-, state-, and action-level expressions here:
        \* ,_stateNumber |-> _TEPosition
        \* ,_outcomeUnchanged |-> outcome = outcome'
        
        \* Format the `outcome` variable as Json value.
        \* ,_outcomeJson |->
        \*     LET J == INSTANCE Json
        \*     IN J!ToJson(outcome)
        
        \* Lastly, you may build expressions over arbitrary sets of states by
        \* leveraging the _TETrace operator.  For example, this is how to
        \* count the number of times a spec variable changed up to the current
        \* state in the trace.
        \* ,_outcomeModCount |->
        \*     LET F[s \in DOMAIN _TETrace] ==
        \*         IF s = 1 THEN 0
        \*         ELSE IF _TETrace[s].outcome # _TETrace[s-1].outcome
        \*             THEN 1 + F[s-1] ELSE F[s-1]
        \*     IN F[_TEPosition - 1]
    ]

=============================================================================



Parsing and semantic processing can take forever if the trace below is long.
 In this case, it is advised to uncomment the module below to deserialize the
 trace from a generated binary file.

\*
\*---- MODULE ConnTable_TETrace ----
\*EXTENDS IOUtils, ConnTable, TLC
\*
\*trace == IODeserialize("ConnTable_TTrace_1790365721.bin", TRUE)
\*
\*=============================================================================
\*

---- MODULE ConnTable_TETrace ----
EXTENDS ConnTable, TLC

trace == 
    <<
    ([next |-> 1,alive |-> <<FALSE, FALSE, FALSE>>,rqc |-> <<0, 0, 0, 0>>,created |-> 0,sawDown |-> <<FALSE, FALSE, FALSE, FALSE>>,faults |-> 0,call |-> 0,callRes |-> <<4, 4, 4, 4>>,rst |-> "idle",gens |-> 0,exited |-> <<FALSE, FALSE, FALSE>>,up |-> FALSE,outcome |-> <<"none", "none", "none", "none">>,table |-> 0,snap |-> 0,rq |-> <<"idle", "idle", "idle", "idle">>]),
    ([next |-> 2,alive |-> <<FALSE, FALSE, FALSE>>,rqc |-> <<0, 0, 0, 0>>,created |-> 0,sawDown |-> <<TRUE, FALSE, FALSE, FALSE>>,faults |-> 0,call |-> 0,callRes |-> <<4, 4, 4, 4>>,rst |-> ,gens |-> 0,exited |-> <<FALSE, FALSE, FALSE>>,up |-> FALSE,outcome |-> <<"none", "none", "none", "none">>,table |-> 0,snap |-> ,rq |-> <<"lookup", "idle", "idle", "idle">>])
    >>
----


=============================================================================

---- CONFIG ConnTable_TTrace_1790365721 ----
CONSTANTS
    Reqs = { 1 , 2 , 3 , 4 }
    MaxGens = 4
    MaxClients = 3
    MaxFaults = 3
    FixCallEntry = TRUE
    FixResetSnapshot = TRUE
    FixRemoveOwn = TRUE

INVARIANT
    _inv

CHECK_DEADLOCK
    \* CHECK_DEADLOCK off because of PROPERTY or INVARIANT above.
    FALSE

INIT
    _init

NEXT
    _next

CONSTANT
    _TETrace <- _trace

ALIAS
    _expression
=============================================================================
\* Generated on Fri Sep 25 19:48:42 UTC 2026