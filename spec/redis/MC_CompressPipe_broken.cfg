SPECIFICATION Spec
CONSTANTS
  MaxLen = 3
  AfterStop = "queued-falls-through"
INVARIANTS BannedRejectedLocally AnsweredOnce OthersPass
CHECK_DEADLOCK FALSE
