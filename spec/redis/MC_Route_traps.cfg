SPECIFICATION Spec
CONSTANTS
  Sessions = {"s1", "s2"}
  Shards = {"A", "B"}
  NRep = 2
  Strategies = {"MASTER", "BOTH", "REPLICA"}
  Kinds = {"read", "write", "unsupported", "local"}
  MaxReq = 1
  MaxUpdates = 1
  StickyStrategy = FALSE
  SharedScratch = FALSE
CONSTRAINT RecordWindows
POSTCONDITION AllWindowsReached
CHECK_DEADLOCK FALSE
