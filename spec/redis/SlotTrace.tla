------------------------------ MODULE SlotTrace ------------------------------
(***************************************************************************)
(* C12, code -> spec: trace.json is an array of records written by the Go  *)
(* harness, one per key: k = key bytes, t = hash tag the code extracted,   *)
(* c = CRC16 the code computed for the tag, s = slot the code routes by.   *)
(* Step l is enabled only if the record agrees with HashTag / CRC / Slot   *)
(* of Slot.tla, so the trace is accepted iff every record agrees.          *)
(***************************************************************************)
EXTENDS Slot, Json, TLCExt

TraceLog == TLCEval(JsonDeserialize("trace.json"))

TraceInit == v = 1

Agrees(e) ==
  /\ e.t = HashTag(e.k)
  /\ e.c = CRC(HashTag(e.k))
  /\ e.s = Slot(e.k)

TraceNext ==
  /\ v <= Len(TraceLog)
  /\ Agrees(TraceLog[v])
  /\ v' = v + 1

TraceSpec == TraceInit /\ [][TraceNext]_v

TraceAccepted ==
  LET d == TLCGet("stats").diameter IN
  IF d - 1 = Len(TraceLog) THEN TRUE
  ELSE Print(<<"@@REJECT", d, "record">>, FALSE)
=============================================================================
