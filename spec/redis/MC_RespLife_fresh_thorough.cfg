SPECIFICATION Spec
CONSTANTS
  Residue = FALSE
  Cap = 32
  MaxConn = 3
INVARIANTS OwnMessagesOnly StartsInitial
CHECK_DEADLOCK FALSE
