SPECIFICATION Spec
CONSTANTS
  Keys = {"a", "b", "c"}
  Ctrs = {"n1", "n2"}
  Cap = 2
  MaxVal = 255
  MaxPeriods = 2
  MaxHits = 3
  MaxTicks = 2
  MaxEvicts = 1
  MaxReads = 1
  MaxFrees = 0
  FixEvict = TRUE
  CopyOnMerge = TRUE
INVARIANTS TypeOK ReportSorted ReportUnique ReportCapped OnlyAccessed NoZeroHeat ViewSorted ViewUnique ViewCapped ViewOnlyAccessed CountersBounded
CHECK_DEADLOCK FALSE
