------------------------------ MODULE RouteWin ------------------------------
(* Anti-vacuity run for Route: every named window must be reachable (see proc/ListenerWin). *)
EXTENDS Route

ASSUME TLCSet(101, FALSE) /\ TLCSet(102, FALSE) /\ TLCSet(103, FALSE) /\ TLCSet(104, FALSE) /\ TLCSet(105, FALSE) /\ TLCSet(106, FALSE)

RecordWindows ==
  /\ W_OverlapForeign => TLCSet(101, TRUE)
  /\ W_OverlapSame => TLCSet(102, TRUE)
  /\ W_WriteDuringRead => TLCSet(103, TRUE)
  /\ W_RejectDuringRouting => TLCSet(104, TRUE)
  /\ W_UpdateDuringRouting => TLCSet(105, TRUE)
  /\ W_RouteAfterUpdate => TLCSet(106, TRUE)

AllWindowsReached ==
  IF TLCGet(101) /\ TLCGet(102) /\ TLCGet(103) /\ TLCGet(104) /\ TLCGet(105) /\ TLCGet(106) THEN TRUE
  ELSE Print(<<"@@UNREACHED", TLCGet(101), TLCGet(102), TLCGet(103), TLCGet(104), TLCGet(105), TLCGet(106)>>, FALSE)
=============================================================================
