------------------------------- MODULE Upstream -------------------------------
(***************************************************************************)
(* One backend connection of the Redis proxy (`client`,                    *)
(* proc/redis/upstream.go) and the goroutines that touch it:               *)
(*   senders   - any goroutine calling client.Send (session readers,      *)
(*               redirection callbacks, the slot refresher)                *)
(*   writer    - client.loopWrite                                          *)
(*   reader    - client.loopRead                                           *)
(*   main      - the tail of client.Start (close, quit, drain, done)       *)
(*   stopper   - client.Stop (host removal, replace, upstream shutdown)    *)
(* and the environment: the backend answering, the connection being reset. *)
(*                                                                         *)
(* One action = the code between two consecutive verifhook points of one   *)
(* goroutine, so that a behaviour of this module can be forced on the real *)
(* goroutines by releasing them from those points in the same order        *)
(* (harness/cases/c02.go); the point that starts each action is named in   *)
(* the comment of the action.                                              *)
(*                                                                         *)
(* The three boolean constants select the pinned (defective) code or the   *)
(* repaired code for each of the three loss windows of property C02:       *)
(*   FixHandoff  - writer answers the request in hand when quit wins the   *)
(*                 hand-off select (upstream.go loopWrite)                 *)
(*   FixSend     - Send selects on quit while enqueueing and re-drains     *)
(*                 when the connection has already stopped                 *)
(*   FixReader   - reader selects on quit while waiting for the hand-off   *)
(*   FixFlushOnStop - when the filter chain answers a request itself       *)
(*                 (Stop) and nothing else is queued, the writer flushes   *)
(*                 the requests it encoded before; the pinned code jumps   *)
(*                 back to the select and leaves them in the write buffer  *)
(*                                                                         *)
(* Requests redirected by -ASK (constant Asking) carry the asking mark:    *)
(* the writer encodes ASKING in front of them and hands a placeholder for  *)
(* the +OK to the processing queue in a select of its own (the ASKING      *)
(* hand-over, upstream.go loopWrite `if req.asking`).  The request in hand  *)
(* is then in neither queue:                                               *)
(*   AskAnswersInHand - TRUE (the code): when quit wins the ASKING         *)
(*                 hand-over the writer answers the request in hand;       *)
(*                 FALSE (anti-vacuity): it answers the placeholder, which *)
(*                 nobody waits for, and the request is lost               *)
(*   DrainAfterStopped - TRUE (the code): a sender that finds the          *)
(*                 connection gone after its enqueue drains the queues     *)
(*                 only once `stopped` is closed, i.e. after both loops    *)
(*                 have exited; FALSE (anti-vacuity): as soon as `quit` is *)
(*                 closed - it then takes requests out of the processing   *)
(*                 queue while the reader still pairs buffered replies     *)
(*                 with its head: a request gets the reply of another      *)
(*   FilteredFailAnswers - FALSE (the code): when the flush behind a       *)
(*                 request that the filter chain answered itself fails,    *)
(*                 the writer just exits; TRUE (anti-vacuity): it goes to  *)
(*                 the FAIL label and answers the request in hand, which   *)
(*                 has been answered already (second completion)           *)
(* Replies carry the identity of the request they answer: res[r] is "err"  *)
(* or the identity of the reply that was delivered to r (OwnReply).        *)
(***************************************************************************)
EXTENDS Naturals, Sequences, FiniteSets, TLC

CONSTANTS Reqs,        \* request identities
          QCap,        \* capacity of pendingReqs / processingReqs (code: 1024)
          FixHandoff, FixSend, FixReader,
          Banned,      \* requests the filter chain answers itself (commands disabled in compress mode)
          Asking,      \* requests that arrive with the asking mark (redirected here by -ASK)
          AskAnswersInHand, \* the writer answers the request in hand when quit wins the ASKING hand-over
          DrainAfterStopped,   \* Send re-drains only after `stopped` (FALSE: after `quit`)
          FilteredFailAnswers, \* a failed flush behind a filter-answered request answers that request again
          BufCap,      \* complete requests the write buffer holds before it flushes by itself (code: 4096 bytes, i.e.
                       \* fewer than 300 requests against 1024 queue entries; a faithful scaling keeps BufCap < QCap,
                       \* otherwise a full processing queue could consist of unflushed requests only)
          FixFlushOnStop, \* the writer flushes what it has buffered when a filter answered the last queued request
          MaxResets,   \* how many times the environment may break the connection (0/1)
          WithStop,    \* whether a stopper calls client.Stop
          Det          \* TRUE: resolve environment nondeterminism the way a loopback TCP
                       \* connection does (used when behaviours are replayed on the code)

NoReq == "none"

\* the placeholder the writer puts into the processing queue for the +OK of ASKING
AskMark(r) == "ask_" \o r
Marks == {AskMark(r) : r \in Asking}
Items == Reqs \cup Marks

VARIABLES
  pend, proc,        \* pendingReqs, processingReqs (FIFO channels)
  quit, done,        \* latches (closed channels)
  stopped,           \* latch closed by Start before the final drain (repaired code only)
  connOpen,          \* the TCP connection is usable
  w, wreq,           \* writer pc, request in hand
  rd, rreq,          \* reader pc, <<request, reply>> paired by the reader
  wbuf,              \* requests encoded into the 4 KiB write buffer, not yet flushed
  wire,              \* requests written to the socket and not yet answered by the backend
  replies,           \* replies on their way to the reader (request ids)
  main,              \* pc of Start()
  mdr,               \* main's drain loop: request taken out, about to be answered
  spc,               \* sender pc per request
  sdr,               \* sender's self-drain: request taken out, about to be answered
  stp,               \* stopper pc
  compl,             \* number of SetResponse calls per request
  res,               \* outcome per request: "none" | "err" | the identity of the reply delivered to it
  resets             \* connection faults so far

vars == <<pend, proc, quit, done, stopped, connOpen, w, wreq, rd, rreq, wbuf, wire, replies,
          main, mdr, spc, sdr, stp, compl, res, resets>>

TypeOK ==
  /\ pend \in Seq(Reqs) /\ proc \in Seq(Items) /\ Len(pend) <= QCap /\ Len(proc) <= QCap
  /\ Len(wbuf) <= BufCap
  /\ quit \in BOOLEAN /\ done \in BOOLEAN /\ stopped \in BOOLEAN /\ connOpen \in BOOLEAN
  /\ w \in {"select", "have", "filtered", "asked", "handoff", "exited"}
  /\ rd \in {"decode", "decoded", "paired", "exited"}
  /\ main \in {"run", "readDone", "quitClosed", "writeDone", "drained", "done"}
  /\ stp \in {"idle", "stop", "wait", "waitDone", "ret"}
  /\ spc \in [Reqs -> {"idle", "send", "checked", "enqueued", "selfdrain", "done"}]

Init ==
  /\ pend = <<>> /\ proc = <<>> /\ quit = FALSE /\ done = FALSE /\ stopped = FALSE
  /\ connOpen = TRUE
  /\ w = "select" /\ wreq = NoReq /\ rd = "decode" /\ rreq = <<NoReq, NoReq>>
  /\ wbuf = <<>> /\ wire = <<>> /\ replies = <<>>
  /\ main = "run" /\ mdr = NoReq
  /\ spc = [r \in Reqs |-> "idle"] /\ sdr = [r \in Reqs |-> NoReq]
  /\ stp = "idle"
  /\ compl = [r \in Reqs |-> 0] /\ res = [r \in Reqs |-> "none"]
  /\ resets = 0

Complete(r, how) ==
  /\ compl' = [compl EXCEPT ![r] = @ + 1]
  /\ res' = [res EXCEPT ![r] = how]

\* a request encoded into a full write buffer: the buffer is flushed, the request stays in it - or, when the buffer holds
\* no complete request at all (BufCap = 0: requests larger than the buffer), goes straight to the socket
Kept(x) == IF BufCap = 0 THEN <<>> ELSE <<x>>
Through(x) == IF BufCap = 0 THEN <<x>> ELSE <<>>

\* an entry of the processing queue is answered: nobody waits for the placeholder of ASKING
CompleteItem(x, how) ==
  IF x \in Reqs THEN Complete(x, how) ELSE UNCHANGED <<compl, res>>

-----------------------------------------------------------------------------
(* Environment: a caller hands request r to client.Send                    *)
CallSend(r) ==
  /\ spc[r] = "idle"
  /\ spc' = [spc EXCEPT ![r] = "send"]
  /\ UNCHANGED <<pend, proc, quit, done, stopped, connOpen, w, wreq, rd, rreq, wbuf, wire, replies,
                 main, mdr, sdr, stp, compl, res, resets>>

(* point client.Send: the non-blocking check of the quit latch (upstream.go Send) *)
SendCheck(r) ==
  /\ spc[r] = "send"
  /\ IF quit
       THEN /\ Complete(r, "err") /\ spc' = [spc EXCEPT ![r] = "done"]
       ELSE /\ spc' = [spc EXCEPT ![r] = "checked"] /\ UNCHANGED <<compl, res>>
  /\ UNCHANGED <<pend, proc, quit, done, stopped, connOpen, w, wreq, rd, rreq, wbuf, wire, replies,
                 main, mdr, sdr, stp, resets>>

(* point client.Send.checked: the enqueue.  Pinned code: a plain blocking   *)
(* send.  Repaired code: select {enqueue | quit -> answer with an error}.   *)
SendEnqueue(r) ==
  /\ spc[r] = "checked"
  /\ \/ /\ Len(pend) < QCap
        /\ pend' = Append(pend, r)
        /\ spc' = [spc EXCEPT ![r] = IF FixSend THEN "enqueued" ELSE "done"]
        /\ UNCHANGED <<compl, res>>
     \/ /\ FixSend /\ quit
        /\ Complete(r, "err") /\ spc' = [spc EXCEPT ![r] = "done"]
        /\ UNCHANGED pend
  /\ UNCHANGED <<proc, quit, done, stopped, connOpen, w, wreq, rd, rreq, wbuf, wire, replies,
                 main, mdr, sdr, stp, resets>>

(* point client.Send.enqueued (repaired code): if Start has already begun   *)
(* its final drain, drain again so that the request just queued is answered *)
SendRecheck(r) ==
  /\ FixSend /\ spc[r] = "enqueued"
  /\ spc' = [spc EXCEPT ![r] = IF (IF DrainAfterStopped THEN stopped ELSE quit) THEN "selfdrain" ELSE "done"]
  /\ UNCHANGED <<pend, proc, quit, done, stopped, connOpen, w, wreq, rd, rreq, wbuf, wire, replies,
                 main, mdr, sdr, stp, compl, res, resets>>

(* point client.drain.select in a sender: one iteration of drainRequests    *)
SendDrainTake(r) ==
  /\ spc[r] = "selfdrain" /\ sdr[r] = NoReq
  /\ \/ /\ pend # <<>> /\ sdr' = [sdr EXCEPT ![r] = Head(pend)] /\ pend' = Tail(pend)
        /\ UNCHANGED <<proc, spc>>
     \/ /\ proc # <<>> /\ sdr' = [sdr EXCEPT ![r] = Head(proc)] /\ proc' = Tail(proc)
        /\ UNCHANGED <<pend, spc>>
     \/ /\ pend = <<>> /\ proc = <<>> /\ spc' = [spc EXCEPT ![r] = "done"]
        /\ UNCHANGED <<pend, proc, sdr>>
  /\ UNCHANGED <<quit, done, stopped, connOpen, w, wreq, rd, rreq, wbuf, wire, replies,
                 main, mdr, stp, compl, res, resets>>

(* point client.drain.pending / .processing in a sender: answer it          *)
SendDrainAnswer(r) ==
  /\ spc[r] = "selfdrain" /\ sdr[r] # NoReq
  /\ CompleteItem(sdr[r], "err") /\ sdr' = [sdr EXCEPT ![r] = NoReq]
  /\ UNCHANGED <<pend, proc, quit, done, stopped, connOpen, w, wreq, rd, rreq, wbuf, wire, replies,
                 main, mdr, spc, stp, resets>>

-----------------------------------------------------------------------------
(* point client.loopWrite.select: select {quit -> return | req <- pending}  *)
WriterSelect ==
  /\ w = "select"
  /\ \/ /\ quit /\ w' = "exited" /\ connOpen' = FALSE /\ UNCHANGED <<pend, wreq>>
     \/ /\ pend # <<>> /\ wreq' = Head(pend) /\ pend' = Tail(pend) /\ w' = "have"
        /\ UNCHANGED connOpen
  /\ UNCHANGED <<proc, quit, done, stopped, rd, rreq, wbuf, wire, replies, main, mdr, spc, sdr, stp,
                 compl, res, resets>>

(* point client.loopWrite.got, filter chain says Stop (upstream.go:624-628): the request has been      *)
(* answered by the filter; the repaired code flushes the buffer when the queue is empty, a failing      *)
(* flush ends the writer (the buffered requests are in processingReqs and are drained by Start)         *)
WriterFiltered ==
  /\ w = "have" /\ wreq \in Banned
  /\ Complete(wreq, "err") /\ w' = "filtered"
  /\ UNCHANGED <<pend, proc, quit, done, stopped, connOpen, wreq, rd, rreq, wbuf, wire, replies, main, mdr, spc, sdr, stp, resets>>

(* point client.loopWrite.filtered: the flush behind the request that the filter answered.  A failing flush ends the   *)
(* writer (the buffered requests are in processingReqs and are drained by Start); the request in hand has been         *)
(* answered, nothing is left to do for it (FilteredFailAnswers: it is answered once more at the FAIL label).           *)
WriterFilteredFlush ==
  /\ w = "filtered" /\ wreq' = NoReq
  /\ IF FixFlushOnStop /\ pend = <<>> /\ wbuf # <<>>
       THEN \/ /\ connOpen /\ wire' = wire \o wbuf /\ wbuf' = <<>> /\ w' = "select" /\ UNCHANGED <<compl, res>>
            \/ /\ ~connOpen /\ ~Det /\ wbuf' = <<>> /\ w' = "select" /\ UNCHANGED <<wire, compl, res>>
            \/ /\ ~connOpen /\ wbuf' = <<>> /\ w' = "exited" /\ UNCHANGED wire
               /\ IF FilteredFailAnswers THEN Complete(wreq, "err") ELSE UNCHANGED <<compl, res>>
       ELSE /\ w' = "select" /\ UNCHANGED <<wire, wbuf, compl, res>>
  /\ UNCHANGED <<pend, proc, quit, done, stopped, connOpen, rd, rreq, replies, main, mdr, spc, sdr, stp, resets>>

(* point client.loopWrite.got, request with the asking mark: ASKING is encoded into the write buffer  *)
(* and its placeholder handed to the processing queue, select {quit -> answer the request in hand,     *)
(* return | processing <- placeholder}; the writer then parks at client.loopWrite.asked.  There is no  *)
(* pause point between the encode and the select, so this is one action; it is disabled while the      *)
(* writer is blocked in the select (queue full, quit not closed).                                      *)
WriterAsk ==
  /\ w = "have" /\ wreq \in Asking /\ wreq \notin Banned
  /\ \/ /\ Len(wbuf) >= BufCap /\ ~connOpen      \* ASKING does not fit, the flush of the full buffer fails (FAIL label)
        /\ Complete(wreq, "err") /\ w' = "exited" /\ wreq' = NoReq /\ wbuf' = <<>>
        /\ UNCHANGED <<proc, wire, connOpen>>
     \/ /\ Len(wbuf) < BufCap \/ connOpen \/ ~Det
        /\ quit /\ w' = "exited" /\ connOpen' = FALSE
        /\ IF AskAnswersInHand THEN Complete(wreq, "err") ELSE UNCHANGED <<compl, res>>
        /\ wreq' = NoReq /\ UNCHANGED <<proc, wbuf, wire>>
     \/ /\ Len(proc) < QCap /\ proc' = Append(proc, AskMark(wreq)) /\ w' = "asked"
        /\ \/ /\ Len(wbuf) < BufCap /\ wbuf' = Append(wbuf, AskMark(wreq)) /\ UNCHANGED wire
           \/ /\ Len(wbuf) >= BufCap /\ connOpen /\ wire' = wire \o wbuf \o Through(AskMark(wreq)) /\ wbuf' = Kept(AskMark(wreq))
           \/ /\ Len(wbuf) >= BufCap /\ ~connOpen /\ ~Det /\ wbuf' = Kept(AskMark(wreq)) /\ UNCHANGED wire
        /\ UNCHANGED <<connOpen, compl, res, wreq>>
  /\ UNCHANGED <<pend, quit, done, stopped, rd, rreq, replies, main, mdr, spc, sdr, stp, resets>>

(* point client.loopWrite.got: filter chain, encode into the write buffer,  *)
(* flush only when pendingReqs is empty (upstream.go:635-639).  A flush on  *)
(* a broken connection fails: the request in hand is answered, the writer   *)
(* exits (FAIL label).  Without Det a write on a broken connection may also *)
(* be swallowed by the kernel without an error.                             *)
WriterEncode ==
  /\ \/ w = "have" /\ wreq \notin Banned /\ wreq \notin Asking
     \/ w = "asked"                          \* point client.loopWrite.asked
  /\ \/ /\ pend # <<>> /\ Len(wbuf) < BufCap   \* no flush
        /\ wbuf' = Append(wbuf, wreq) /\ w' = "handoff"
        /\ UNCHANGED <<wire, compl, res, wreq>>
     \/ /\ pend # <<>> /\ Len(wbuf) >= BufCap /\ connOpen   \* the buffer is full: it flushes by itself, the request stays in it
        /\ wire' = wire \o wbuf \o Through(wreq) /\ wbuf' = Kept(wreq) /\ w' = "handoff"   \* (BufCap = 0: it goes straight through)
        /\ UNCHANGED <<compl, res, wreq>>
     \/ /\ pend # <<>> /\ Len(wbuf) >= BufCap /\ ~connOpen /\ ~Det
        /\ wbuf' = Kept(wreq) /\ w' = "handoff" /\ UNCHANGED <<wire, compl, res, wreq>>
     \/ /\ pend # <<>> /\ Len(wbuf) >= BufCap /\ ~connOpen   \* that flush fails
        /\ Complete(wreq, "err") /\ w' = "exited" /\ wreq' = NoReq /\ wbuf' = <<>>
        /\ UNCHANGED wire
     \/ /\ pend = <<>> /\ connOpen           \* flush
        /\ wire' = wire \o Append(wbuf, wreq) /\ wbuf' = <<>> /\ w' = "handoff"
        /\ UNCHANGED <<compl, res, wreq>>
     \/ /\ pend = <<>> /\ ~connOpen /\ ~Det   \* flush swallowed
        /\ wbuf' = <<>> /\ w' = "handoff" /\ UNCHANGED <<wire, compl, res, wreq>>
     \/ /\ pend = <<>> /\ ~connOpen           \* flush fails
        /\ Complete(wreq, "err") /\ w' = "exited" /\ wreq' = NoReq /\ wbuf' = <<>>
        /\ UNCHANGED wire
  /\ UNCHANGED <<pend, proc, quit, done, stopped, connOpen, rd, rreq, replies, main, mdr, spc, sdr, stp, resets>>

(* point client.loopWrite.handoff: select {quit -> return | processing <- req} *)
WriterHandoff ==
  /\ w = "handoff"
  /\ \/ /\ quit /\ w' = "exited" /\ connOpen' = FALSE
        /\ IF FixHandoff THEN Complete(wreq, "err") ELSE UNCHANGED <<compl, res>>
        /\ wreq' = NoReq /\ UNCHANGED proc
     \/ /\ Len(proc) < QCap /\ proc' = Append(proc, wreq) /\ w' = "select" /\ wreq' = NoReq
        /\ UNCHANGED <<connOpen, compl, res>>
  /\ UNCHANGED <<pend, quit, done, stopped, rd, rreq, wbuf, wire, replies, main, mdr, spc, sdr, stp, resets>>

-----------------------------------------------------------------------------
(* Environment: the backend answers the oldest command it has received      *)
BackendReply ==
  /\ connOpen /\ wire # <<>>
  /\ replies' = Append(replies, Head(wire)) /\ wire' = Tail(wire)
  /\ UNCHANGED <<pend, proc, quit, done, stopped, connOpen, w, wreq, rd, rreq, wbuf, main, mdr, spc, sdr,
                 stp, compl, res, resets>>

(* Environment: the connection breaks (reset by the backend, network)       *)
BackendReset ==
  /\ connOpen /\ resets < MaxResets
  /\ Det => replies = <<>>
  /\ connOpen' = FALSE /\ resets' = resets + 1
  /\ UNCHANGED <<pend, proc, quit, done, stopped, w, wreq, rd, rreq, wbuf, wire, replies, main, mdr, spc,
                 sdr, stp, compl, res>>

-----------------------------------------------------------------------------
(* point client.loopRead.decode: blocking decode of one reply               *)
ReaderDecode ==
  /\ rd = "decode"
  /\ \/ /\ replies # <<>> /\ connOpen /\ rd' = "decoded"
     \/ /\ ~connOpen /\ rd' = "exited"
  /\ UNCHANGED <<pend, proc, quit, done, stopped, connOpen, w, wreq, rreq, wbuf, wire, replies, main, mdr,
                 spc, sdr, stp, compl, res, resets>>

(* point client.loopRead.decoded: take the head of processingReqs.  Pinned  *)
(* code: plain receive.  Repaired code: select {receive | quit -> return}.  *)
ReaderPair ==
  /\ rd = "decoded"
  /\ \/ /\ proc # <<>> /\ rreq' = <<Head(proc), Head(replies)>> /\ proc' = Tail(proc) /\ rd' = "paired"
        /\ replies' = Tail(replies)
     \/ /\ FixReader /\ quit /\ rd' = "exited" /\ UNCHANGED <<rreq, proc, replies>>
  /\ UNCHANGED <<pend, quit, done, stopped, connOpen, w, wreq, wbuf, wire, main, mdr, spc, sdr, stp,
                 compl, res, resets>>

(* point client.loopRead.paired: handleResp -> SetResponse                  *)
ReaderHandle ==
  /\ rd = "paired"
  /\ CompleteItem(rreq[1], rreq[2]) /\ rreq' = <<NoReq, NoReq>> /\ rd' = "decode"
  /\ UNCHANGED <<pend, proc, quit, done, stopped, connOpen, w, wreq, wbuf, wire, replies, main, mdr, spc,
                 sdr, stp, resets>>

-----------------------------------------------------------------------------
(* point client.Start.readDone: conn.Close(); close(quit)                   *)
MainAfterRead ==
  /\ main = "run" /\ rd = "exited"
  /\ connOpen' = FALSE /\ quit' = TRUE /\ main' = "quitClosed"
  /\ UNCHANGED <<pend, proc, done, stopped, w, wreq, rd, rreq, wbuf, wire, replies, mdr, spc, sdr, stp,
                 compl, res, resets>>

(* point client.Start.quitClosed: <-writeDone                               *)
MainWaitWrite ==
  /\ main = "quitClosed" /\ w = "exited"
  /\ main' = "writeDone"
  /\ stopped' = IF FixSend THEN TRUE ELSE stopped
  /\ UNCHANGED <<pend, proc, quit, done, connOpen, w, wreq, rd, rreq, wbuf, wire, replies, mdr, spc, sdr,
                 stp, compl, res, resets>>

(* point client.drain.select in Start: one iteration of drainRequests       *)
MainDrainTake ==
  /\ main = "writeDone" /\ mdr = NoReq
  /\ \/ /\ pend # <<>> /\ mdr' = Head(pend) /\ pend' = Tail(pend) /\ UNCHANGED <<proc, main>>
     \/ /\ proc # <<>> /\ mdr' = Head(proc) /\ proc' = Tail(proc) /\ UNCHANGED <<pend, main>>
     \/ /\ pend = <<>> /\ proc = <<>> /\ main' = "drained" /\ UNCHANGED <<pend, proc, mdr>>
  /\ UNCHANGED <<quit, done, stopped, connOpen, w, wreq, rd, rreq, wbuf, wire, replies, spc, sdr, stp,
                 compl, res, resets>>

MainDrainAnswer ==
  /\ main = "writeDone" /\ mdr # NoReq
  /\ CompleteItem(mdr, "err") /\ mdr' = NoReq
  /\ UNCHANGED <<pend, proc, quit, done, stopped, connOpen, w, wreq, rd, rreq, wbuf, wire, replies, main,
                 spc, sdr, stp, resets>>

(* point client.Start.drained: close(done)                                  *)
MainDone ==
  /\ main = "drained" /\ done' = TRUE /\ main' = "done"
  /\ UNCHANGED <<pend, proc, quit, stopped, connOpen, w, wreq, rd, rreq, wbuf, wire, replies, mdr, spc,
                 sdr, stp, compl, res, resets>>

-----------------------------------------------------------------------------
(* Environment: somebody calls client.Stop                                  *)
CallStop ==
  /\ WithStop /\ stp = "idle" /\ stp' = "stop"
  /\ UNCHANGED <<pend, proc, quit, done, stopped, connOpen, w, wreq, rd, rreq, wbuf, wire, replies, main,
                 mdr, spc, sdr, compl, res, resets>>

(* point client.Stop: close(quit) once                                      *)
StopQuit ==
  /\ stp = "stop" /\ quit' = TRUE /\ stp' = "wait"
  /\ UNCHANGED <<pend, proc, done, stopped, connOpen, w, wreq, rd, rreq, wbuf, wire, replies, main, mdr,
                 spc, sdr, compl, res, resets>>

(* point client.Stop.quitClosed: conn.Close() (idempotent), then <-done      *)
StopClose ==
  /\ stp = "wait" /\ connOpen' = FALSE /\ stp' = "waitDone"
  /\ UNCHANGED <<pend, proc, quit, done, stopped, w, wreq, rd, rreq, wbuf, wire, replies, main, mdr, spc,
                 sdr, compl, res, resets>>

(* point client.Stop.done: reached once done is closed                      *)
StopReturn ==
  /\ stp = "waitDone" /\ done /\ stp' = "ret"
  /\ UNCHANGED <<pend, proc, quit, done, stopped, connOpen, w, wreq, rd, rreq, wbuf, wire, replies, main,
                 mdr, spc, sdr, compl, res, resets>>

-----------------------------------------------------------------------------
SenderNext(r) == SendCheck(r) \/ SendEnqueue(r) \/ SendRecheck(r) \/ SendDrainTake(r) \/ SendDrainAnswer(r)
WriterNext == WriterSelect \/ WriterFiltered \/ WriterFilteredFlush \/ WriterAsk \/ WriterEncode \/ WriterHandoff
ReaderNext == ReaderDecode \/ ReaderPair \/ ReaderHandle
MainNext == MainAfterRead \/ MainWaitWrite \/ MainDrainTake \/ MainDrainAnswer \/ MainDone
StopNext == StopQuit \/ StopClose \/ StopReturn

ProxyNext == (\E r \in Reqs : SenderNext(r)) \/ WriterNext \/ ReaderNext \/ MainNext \/ StopNext
EnvNext == (\E r \in Reqs : CallSend(r)) \/ BackendReply \/ BackendReset \/ CallStop
Next == ProxyNext \/ EnvNext

Fairness ==
  /\ \A r \in Reqs : WF_vars(SenderNext(r))
  /\ WF_vars(WriterNext) /\ WF_vars(ReaderNext) /\ WF_vars(MainNext) /\ WF_vars(StopNext)
  /\ WF_vars(BackendReply)

Spec == Init /\ [][Next]_vars /\ Fairness

-----------------------------------------------------------------------------
(* Properties (C02)                                                         *)

\* a second completion closes a closed channel: the process crashes
AtMostOnce == \A r \in Reqs : compl[r] <= 1

\* nothing more can happen, yet a request that was handed to Send has no answer
Stuck == ~ENABLED ProxyNext /\ ~ENABLED BackendReply
NoLostRequest == Stuck => \A r \in Reqs : spc[r] # "idle" => compl[r] = 1

\* no sender stays blocked for ever inside Send
NoStuckSender == Stuck => \A r \in Reqs : spc[r] \in {"idle", "done"}

\* the writer is never left blocked at a hand-over with nothing on the wire that could make room: the write buffer
\* (BufCap) must hold fewer requests than the processing queue has entries (QCap), otherwise a full queue can consist
\* of requests that were never flushed, the backend owes no answer and nothing ever closes quit
NoStuckWriter == Stuck => w \in {"select", "exited"}

\* the reply handed to a request is the reply to that request
PairingFIFO == rd = "decoded" /\ proc # <<>> => Head(proc) = Head(replies)

\* the reply delivered to a request is the backend's answer to that request
OwnReply == \A r \in Reqs : res[r] \in {"none", "err", r}

\* every request handed to Send is eventually answered (liveness, under fairness)
Answered == \A r \in Reqs : (spc[r] = "send") ~> (compl[r] = 1)

\* once the connection quits, Start finishes; Stop returns
QuitLeadsToDone == quit ~> done
StopReturns == (stp = "stop") ~> (stp = "ret")

\* named windows (reachability is checked with trap invariants: ~W must be violated)
W_CheckedThenQuit == \E r \in Reqs : spc[r] = "checked" /\ quit
W_EnqueueAfterDrain == \E r \in Reqs : spc[r] = "checked" /\ main \in {"drained", "done"}
W_WriterHandoffQuit == w = "handoff" /\ quit
W_ReaderWaitsForHandoff == rd = "decoded" /\ proc = <<>> /\ w = "exited"
W_SenderBlockedOnDeadQueue == \E r \in Reqs : spc[r] = "checked" /\ Len(pend) = QCap /\ w = "exited"
W_AskHandoffQuit == w = "have" /\ wreq \in Asking /\ quit
W_AskHandoffBlocked == w = "have" /\ wreq \in Asking /\ Len(proc) = QCap /\ ~quit
W_ReaderHoldsReplyAtQuit == rd = "decoded" /\ proc = <<>> /\ quit
W_SenderEnqueuedAtQuit == \E r \in Reqs : spc[r] = "enqueued" /\ quit /\ ~stopped
W_FilteredFlushOnDeadConn == w = "filtered" /\ pend = <<>> /\ wbuf # <<>> /\ ~connOpen
NotW1 == ~W_CheckedThenQuit
NotW2 == ~W_EnqueueAfterDrain
NotW3 == ~W_WriterHandoffQuit
NotW4 == ~W_ReaderWaitsForHandoff
NotW5 == ~W_SenderBlockedOnDeadQueue
NotW6 == ~W_AskHandoffQuit
NotW7 == ~W_AskHandoffBlocked
NotW8 == ~W_ReaderHoldsReplyAtQuit
=============================================================================
