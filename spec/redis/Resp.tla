-------------------------------- MODULE Resp --------------------------------
(***************************************************************************)
(* C10 - the RESP (REdis Serialization Protocol, version 2) codec as pure  *)
(* operators: values, Encode, the decoder of a byte stream (DecodeAll),    *)
(* inline commands and the integer text forms.  No variables: the modules  *)
(* RespGen (enumeration / emission) and RespTrace (validation of recorded  *)
(* runs of the real codec) build on it.                                    *)
(*                                                                         *)
(* Bytes are naturals 0..255.  A byte string is a "rope": a sequence of    *)
(* integers in which x >= 0 is the literal byte x and x < 0 stands for a   *)
(* run: byte (-x) % 256 repeated (-x) \div 256 times (run-length form for  *)
(* long payloads; a rope without negative entries is a plain byte          *)
(* sequence).  Integers are a sign and a sequence of decimal digits        *)
(* because TLC integers have 32 bits.                                      *)
(***************************************************************************)
EXTENDS Integers, Sequences, FiniteSets, SequencesExt, TLC

CR     == 13
LF     == 10
SP     == 32
PLUS   == 43   \* '+'  simple string
MINUS  == 45   \* '-'  error
COLON  == 58   \* ':'  integer
DOLLAR == 36   \* '$'  bulk string
STAR   == 42   \* '*'  array
TypeBytes == {PLUS, MINUS, COLON, DOLLAR, STAR}
CRLF   == <<CR, LF>>

IsDigit(b) == b >= 48 /\ b <= 57

MaxArrayLen == 1048576          \* codec.go: maxArrayLen
MaxBulkLen  == 536870912        \* codec.go: maxBulkStringLen

----------------------------------------------------------------------------
\* ropes

SegByte(x) == IF x < 0 THEN (0 - x) % 256 ELSE x
SegLen(x)  == IF x < 0 THEN (0 - x) \div 256 ELSE 1
Run(b, n)  == 0 - (n * 256 + b)                      \* n >= 1

RopeLen(r) == FoldLeft(LAMBDA acc, x : acc + SegLen(x), 0, r)
IsFlat(r)  == \A i \in 1..Len(r) : r[i] >= 0

Flat(r) ==
  IF IsFlat(r) THEN r
  ELSE FoldLeft(LAMBDA acc, x : IF x >= 0 THEN Append(acc, x)
                                ELSE acc \o [i \in 1..SegLen(x) |-> SegByte(x)], <<>>, r)

\* unique normal form: maximal runs <<byte, count>>; two ropes denote the same bytes iff
\* their normal forms are equal
NormStep(acc, x) ==
  LET b == SegByte(x)
      n == SegLen(x)
      k == Len(acc)
  IN IF n = 0 THEN acc
     ELSE IF k > 0 /\ acc[k][1] = b THEN [acc EXCEPT ![k] = <<b, acc[k][2] + n>>]
     ELSE Append(acc, <<b, n>>)
Norm(r) == FoldLeft(NormStep, <<>>, r)
RopeEq(a, b) == Norm(a) = Norm(b)

----------------------------------------------------------------------------
\* decimal numbers as digit sequences

RECURSIVE NatDigits(_)
NatDigits(n) == IF n < 10 THEN <<n>> ELSE Append(NatDigits(n \div 10), n % 10)
DigitText(d) == [i \in 1..Len(d) |-> 48 + d[i]]
NatText(n)   == DigitText(NatDigits(n))
NatOf(d)     == FoldLeft(LAMBDA acc, x : acc * 10 + x, 0, d)     \* Len(d) <= 9 only

MaxPos == <<9,2,2,3,3,7,2,0,3,6,8,5,4,7,7,5,8,0,7>>               \* 2^63 - 1
MaxNeg == <<9,2,2,3,3,7,2,0,3,6,8,5,4,7,7,5,8,0,8>>               \* 2^63

\* a <= b for digit sequences without leading zeros
DigLE(a, b) ==
  \/ Len(a) < Len(b)
  \/ /\ Len(a) = Len(b)
     /\ LET diff == {i \in 1..Len(a) : a[i] # b[i]} IN
          \/ diff = {}
          \/ LET i == CHOOSE x \in diff : \A y \in diff : x <= y IN a[i] < b[i]

StripZeros(d) ==
  LET nz == {i \in 1..Len(d) : d[i] # 0} IN
  IF nz = {} THEN <<0>>
  ELSE SubSeq(d, CHOOSE x \in nz : \A y \in nz : x <= y, Len(d))

\* the canonical integers: what a RESP integer can be
IsInt64(neg, d) ==
  /\ Len(d) >= 1
  /\ \A i \in 1..Len(d) : d[i] \in 0..9
  /\ (Len(d) > 1 => d[1] # 0)
  /\ (neg => d # <<0>>)
  /\ DigLE(d, IF neg THEN MaxNeg ELSE MaxPos)

IntText(neg, d) == (IF neg THEN <<MINUS>> ELSE <<>>) \o DigitText(d)

(***************************************************************************)
(* Text -> integer, the contract of btoi64 = strconv.ParseInt(text,10,64): *)
(* optional sign, at least one digit, digits only, value within int64.     *)
(***************************************************************************)
ParseInt(text) ==
  LET n == Len(text)
      signed == n > 0 /\ text[1] \in {PLUS, MINUS}
      neg == n > 0 /\ text[1] = MINUS
      body == IF signed THEN SubSeq(text, 2, n) ELSE text
  IN IF Len(body) = 0 \/ \E i \in 1..Len(body) : ~IsDigit(body[i])
     THEN [ok |-> FALSE, why |-> "syntax"]
     ELSE LET mag == StripZeros([i \in 1..Len(body) |-> body[i] - 48]) IN
          IF DigLE(mag, IF neg THEN MaxNeg ELSE MaxPos)
          THEN [ok |-> TRUE, neg |-> (neg /\ mag # <<0>>), d |-> mag]
          ELSE [ok |-> FALSE, why |-> "range"]

(***************************************************************************)
(* Transcription of the fast path of btoi64 (codec.go:159-184) for texts   *)
(* of 1..9 bytes: [taken |-> FALSE] when the code falls through to         *)
(* strconv.ParseInt.  RespGen checks FastPath = ParseInt wherever taken.   *)
(***************************************************************************)
FastPath(text) ==
  LET n == Len(text) IN
  IF n = 0 \/ n >= 10 THEN [taken |-> FALSE]
  ELSE LET neg == text[1] = MINUS
           i0 == IF text[1] \in {PLUS, MINUS} THEN 2 ELSE 1
       IN IF i0 > n THEN [taken |-> FALSE]                      \* sign only
          ELSE IF \E i \in i0..n : ~IsDigit(text[i]) THEN [taken |-> FALSE]
          ELSE LET mag == StripZeros([i \in 1..(n - i0 + 1) |-> text[i0 + i - 1] - 48]) IN
               [taken |-> TRUE, ok |-> TRUE, neg |-> (neg /\ mag # <<0>>), d |-> mag]

----------------------------------------------------------------------------
\* values

Simple(s)   == [t |-> "simple", s |-> s]
Err(s)      == [t |-> "error", s |-> s]
IntV(neg, d) == [t |-> "int", neg |-> neg, d |-> d]
Bulk(s)     == [t |-> "bulk", null |-> FALSE, s |-> s]
NullBulk    == [t |-> "bulk", null |-> TRUE, s |-> <<>>]
Arr(a)      == [t |-> "array", null |-> FALSE, a |-> a]
NullArr     == [t |-> "array", null |-> TRUE, a |-> <<>>]

\* simple strings and errors cannot contain CR or LF
IsLineText(s) == \A i \in 1..Len(s) : SegByte(s[i]) \notin {CR, LF}

RECURSIVE IsValue(_)
IsValue(v) ==
  CASE v.t \in {"simple", "error"} -> IsLineText(v.s)
    [] v.t = "int"   -> IsInt64(v.neg, v.d)
    [] v.t = "bulk"  -> (v.null => v.s = <<>>) /\ RopeLen(v.s) <= MaxBulkLen
    [] v.t = "array" -> /\ (v.null => v.a = <<>>)
                        /\ Len(v.a) <= MaxArrayLen
                        /\ \A i \in 1..Len(v.a) : IsValue(v.a[i])
    [] OTHER -> FALSE

\* payloads expanded (values as the flat decoder returns them)
RECURSIVE FlatV(_)
FlatV(v) ==
  CASE v.t \in {"simple", "error"} -> [v EXCEPT !.s = Flat(v.s)]
    [] v.t = "bulk"  -> [v EXCEPT !.s = Flat(v.s)]
    [] v.t = "array" -> [v EXCEPT !.a = [i \in 1..Len(v.a) |-> FlatV(v.a[i])]]
    [] OTHER -> v

----------------------------------------------------------------------------
\* encoding

EncLine(tb, body) == <<tb>> \o body \o CRLF

RECURSIVE Encode(_)
Encode(v) ==
  CASE v.t = "simple" -> EncLine(PLUS, v.s)
    [] v.t = "error"  -> EncLine(MINUS, v.s)
    [] v.t = "int"    -> EncLine(COLON, IntText(v.neg, v.d))
    [] v.t = "bulk"   -> IF v.null THEN EncLine(DOLLAR, <<MINUS, 49>>)
                         ELSE EncLine(DOLLAR, NatText(RopeLen(v.s))) \o v.s \o CRLF
    [] v.t = "array"  -> IF v.null THEN EncLine(STAR, <<MINUS, 49>>)
                         ELSE FoldLeft(LAMBDA acc, e : acc \o Encode(e),
                                       EncLine(STAR, NatText(Len(v.a))), v.a)

EncodeAll(vs) == FoldLeft(LAMBDA acc, e : acc \o Encode(e), <<>>, vs)

\* cumulative end offsets of the messages in EncodeAll(vs)
Ends(vs) == [k \in 1..Len(vs) |-> RopeLen(EncodeAll(SubSeq(vs, 1, k)))]

----------------------------------------------------------------------------
\* inline commands: words separated by spaces on one line; the array form is the array of
\* the words as bulk strings

ArrayOfBulks(words) == Arr([i \in 1..Len(words) |-> Bulk(words[i])])

\* gaps[i] spaces before word i, gaps[Len(words)+1] after the last one
InlineBytes(words, gaps) ==
  FoldLeft(LAMBDA acc, i : acc \o [j \in 1..gaps[i] |-> SP] \o words[i], <<>>,
           [i \in 1..Len(words) |-> i])
    \o [j \in 1..gaps[Len(words) + 1] |-> SP] \o CRLF

IsInlineWord(w) == Len(w) > 0 /\ \A i \in 1..Len(w) : w[i] \notin {CR, LF, SP}
IsInline(words, gaps) ==
  /\ Len(words) >= 1 /\ Len(gaps) = Len(words) + 1
  /\ \A i \in 1..Len(words) : IsInlineWord(words[i])
  /\ \A i \in 2..Len(words) : gaps[i] >= 1
  /\ InlineBytes(words, gaps)[1] \notin TypeBytes

\* the maximal space-free parts of a line, in order
Words(text) ==
  LET n == Len(text)
      starts == {i \in 1..n : text[i] # SP /\ (i = 1 \/ text[i - 1] = SP)}
      stops  == {i \in 1..n : text[i] # SP /\ (i = n \/ text[i + 1] = SP)}
      S == SetToSortSeq(starts, <)
      E == SetToSortSeq(stops, <)
  IN [k \in 1..Len(S) |-> SubSeq(text, S[k], E[k])]

----------------------------------------------------------------------------
\* decoding a flat byte sequence s from index i

NextLF(s, i) == IF i > Len(s) THEN 0 ELSE SelectInSubSeq(s, i, Len(s), LAMBDA b : b = LF)

More     == [st |-> "more"]
Bad(why) == [st |-> "bad", why |-> why]

\* the line that starts at i: text without CR LF, nx = index after LF
Line(s, i) ==
  LET j == NextLF(s, i) IN
  IF j = 0 THEN More
  ELSE IF j - i < 1 \/ s[j - 1] # CR THEN Bad("crlf")
  ELSE [st |-> "ok", text |-> SubSeq(s, i, j - 2), nx |-> j + 1]

\* a length line: -1, or 0..limit
LenLine(s, i, limit) ==
  LET l == Line(s, i) IN
  IF l.st # "ok" THEN l
  ELSE LET p == ParseInt(l.text) IN
       IF ~p.ok THEN Bad("len")
       ELSE IF p.neg THEN (IF p.d = <<1>> THEN [st |-> "ok", n |-> 0 - 1, nx |-> l.nx] ELSE Bad("len"))
       ELSE IF Len(p.d) > 9 THEN Bad("toolong")
       ELSE IF NatOf(p.d) > limit THEN Bad("toolong")
       ELSE [st |-> "ok", n |-> NatOf(p.d), nx |-> l.nx]

RECURSIVE DecodeOne(_, _), DecodeElems(_, _, _, _)

DecodeOne(s, i) ==
  IF i > Len(s) THEN More
  ELSE LET b == s[i] IN
  CASE b \in {PLUS, MINUS} ->
         LET l == Line(s, i + 1) IN
         IF l.st # "ok" THEN l
         ELSE [st |-> "ok", v |-> (IF b = PLUS THEN Simple(l.text) ELSE Err(l.text)), nx |-> l.nx]
    [] b = COLON ->
         LET l == Line(s, i + 1) IN
         IF l.st # "ok" THEN l
         ELSE LET p == ParseInt(l.text) IN
              IF p.ok THEN [st |-> "ok", v |-> IntV(p.neg, p.d), nx |-> l.nx] ELSE Bad("int")
    [] b = DOLLAR ->
         LET l == LenLine(s, i + 1, MaxBulkLen) IN
         IF l.st # "ok" THEN l
         ELSE IF l.n < 0 THEN [st |-> "ok", v |-> NullBulk, nx |-> l.nx]
         ELSE IF l.nx + l.n + 1 > Len(s) THEN More
         ELSE IF s[l.nx + l.n] # CR \/ s[l.nx + l.n + 1] # LF THEN Bad("crlf")
         ELSE [st |-> "ok", v |-> Bulk(SubSeq(s, l.nx, l.nx + l.n - 1)), nx |-> l.nx + l.n + 2]
    [] b = STAR ->
         LET l == LenLine(s, i + 1, MaxArrayLen) IN
         IF l.st # "ok" THEN l
         ELSE IF l.n < 0 THEN [st |-> "ok", v |-> NullArr, nx |-> l.nx]
         ELSE DecodeElems(s, l.nx, l.n, <<>>)
    [] OTHER ->   \* inline command
         LET l == Line(s, i) IN
         IF l.st # "ok" THEN l
         ELSE LET ws == Words(l.text) IN
              IF ws = <<>> THEN Bad("empty") ELSE [st |-> "ok", v |-> ArrayOfBulks(ws), nx |-> l.nx]

DecodeElems(s, i, n, acc) ==
  IF n = 0 THEN [st |-> "ok", v |-> Arr(acc), nx |-> i]
  ELSE LET r == DecodeOne(s, i) IN
       IF r.st # "ok" THEN r ELSE DecodeElems(s, r.nx, n - 1, Append(acc, r.v))

\* all messages of the stream: values, end offsets (bytes consumed up to and including message
\* k), and how the stream ends: "eof" exactly after a message, "incomplete" in the middle of
\* one, "bad" at a protocol error
RECURSIVE DecodeFrom(_, _, _, _)
DecodeFrom(s, i, msgs, ends) ==
  IF i > Len(s) THEN [msgs |-> msgs, ends |-> ends, tail |-> "eof"]
  ELSE LET r == DecodeOne(s, i) IN
       IF r.st = "ok" THEN DecodeFrom(s, r.nx, Append(msgs, r.v), Append(ends, r.nx - 1))
       ELSE [msgs |-> msgs, ends |-> ends, tail |-> (IF r.st = "more" THEN "incomplete" ELSE "bad")]

DecodeAll(s) == DecodeFrom(s, 1, <<>>, <<>>)

----------------------------------------------------------------------------
\* the property C10, as predicates over values / message lists

\* encoding then decoding yields the same value, consuming exactly the encoding
RoundTrip(v) ==
  LET e == Flat(Encode(v)) IN
  DecodeAll(e) = [msgs |-> <<FlatV(v)>>, ends |-> <<Len(e)>>, tail |-> "eof"]

\* decoding canonical bytes then re-encoding yields the same bytes
ReEncode(bytes) ==
  LET d == DecodeAll(bytes) IN d.tail = "eof" /\ Flat(EncodeAll(d.msgs)) = bytes

\* no proper prefix of a message is a message: a decoder consumes exactly Len(Encode(v)) bytes
ExactConsumption(bytes) ==
  \A n \in 1..(Len(bytes) - 1) :
    LET d == DecodeAll(SubSeq(bytes, 1, n)) IN d.msgs = <<>> /\ d.tail = "incomplete"

\* a concatenation decodes to exactly its messages in order
ConcatDecodes(vs) ==
  DecodeAll(Flat(EncodeAll(vs))) =
    [msgs |-> [i \in 1..Len(vs) |-> FlatV(vs[i])], ends |-> Ends(vs), tail |-> "eof"]

\* an inline command decodes to the same request as its array form
InlineIsArray(words, gaps) ==
  LET a == ArrayOfBulks(words) IN
  /\ DecodeAll(InlineBytes(words, gaps)) =
       [msgs |-> <<a>>, ends |-> <<Len(InlineBytes(words, gaps))>>, tail |-> "eof"]
  /\ DecodeAll(Flat(Encode(a))).msgs = <<a>>
=============================================================================
