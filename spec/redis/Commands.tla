------------------------------ MODULE Commands ------------------------------
(***************************************************************************)
(* Command classification (C14): which commands the proxy answers itself,  *)
(* which it must reject without touching a backend, and to which node      *)
(* roles a forwarded command may be delivered under each read strategy.    *)
(* `RedisWrite` is Redis' own classification (command table of Redis 5,    *)
(* flag "write", plus the script commands which may write), NOT the        *)
(* proxy's list; `Supported` is the supported set of the pinned proxy      *)
(* (handler tables of proc/redis/handler.go / redis.go at the pinned       *)
(* commit) - the property is stated relative to it.                        *)
(***************************************************************************)
EXTENDS Naturals, Sequences, FiniteSets, TLC, TLCExt, Json, SequencesExt

Local == {"ping", "quit", "select", "info", "time", "hotkey"}

SupportedForwarded == {
  "dump", "expire", "expireat", "persist", "pexpire", "pexpireat", "pttl", "restore", "sort", "ttl", "type",
  "append", "bitcount", "bitpos", "decr", "decrby", "get", "getbit", "getrange", "getset", "incr", "incrby",
  "incrbyfloat", "psetex", "set", "setbit", "setex", "setnx", "setrange", "strlen",
  "hdel", "hexists", "hget", "hgetall", "hincrby", "hincrbyfloat", "hkeys", "hlen", "hmget", "hmset", "hset",
  "hsetnx", "hstrlen", "hvals", "hscan",
  "lindex", "linsert", "llen", "lpop", "lpush", "lpushx", "lrange", "lrem", "lset", "ltrim", "rpop", "rpoplpush",
  "rpush", "rpushx",
  "sadd", "scard", "sdiff", "sdiffstore", "sinter", "sinterstore", "sismember", "smembers", "smove", "spop",
  "srandmember", "srem", "sunion", "sunionstore", "sscan",
  "zadd", "zcard", "zcount", "zincrby", "zinterstore", "zlexcount", "zrange", "zrangebylex", "zrangebyscore",
  "zrank", "zrem", "zremrangebylex", "zremrangebyrank", "zremrangebyscore", "zrevrange", "zrevrangebylex",
  "zrevrangebyscore", "zrevrank", "zscore", "zunionstore", "zscan", "pfadd", "pfcount", "pfmerge",
  "geoadd", "geodist", "geohash", "geopos", "georadius", "georadiusbymember",
  "del", "exists", "touch", "unlink", "eval", "mset", "mget", "scan" }

Supported == Local \cup SupportedForwarded

\* Redis 5 command table, flag "write" (w), plus commands that may write through scripts
RedisWrite == {
  "append", "bitfield", "bitop", "blpop", "brpop", "brpoplpush", "bzpopmin", "bzpopmax", "decr", "decrby", "del",
  "expire", "expireat", "flushall", "flushdb", "geoadd", "georadius", "georadiusbymember", "getset", "hdel",
  "hincrby", "hincrbyfloat", "hmset", "hset", "hsetnx", "incr", "incrby", "incrbyfloat", "linsert", "lpop", "lpush",
  "lpushx", "lrem", "lset", "ltrim", "migrate", "move", "mset", "msetnx", "persist", "pexpire", "pexpireat", "pfadd",
  "pfmerge", "psetex", "rename", "renamenx", "restore", "restore-asking", "rpop", "rpoplpush", "rpush", "rpushx",
  "sadd", "sdiffstore", "set", "setbit", "setex", "setnx", "setrange", "sinterstore", "smove", "sort", "spop", "srem",
  "sunionstore", "swapdb", "unlink", "xadd", "xdel", "xtrim", "xgroup", "xreadgroup", "xack", "xclaim", "zadd",
  "zincrby", "zinterstore", "zpopmin", "zpopmax", "zrem", "zremrangebylex", "zremrangebyrank", "zremrangebyscore",
  "zunionstore", "eval", "evalsha" }

\* Redis 5 command table, flag "readonly" (r) and no "write"
RedisReadOnly == {
  "bitcount", "bitpos", "dbsize", "dump", "exists", "geodist", "geohash", "geopos", "georadius_ro",
  "georadiusbymember_ro", "get", "getbit", "getrange", "hexists", "hget", "hgetall", "hkeys", "hlen", "hmget", "hscan",
  "hstrlen", "hvals", "keys", "lindex", "llen", "lrange", "mget", "object", "pfcount", "pttl", "randomkey", "scan",
  "scard", "sdiff", "sinter", "sismember", "smembers", "srandmember", "sscan", "strlen", "substr", "sunion", "touch",
  "ttl", "type", "xlen", "xrange", "xrevrange", "xread", "xpending", "xinfo", "zcard", "zcount", "zlexcount", "zrange",
  "zrangebylex", "zrangebyscore", "zrank", "zrevrange", "zrevrangebylex", "zrevrangebyscore", "zrevrank", "zscan",
  "zscore", "memory" }

\* the rest of the Redis 5 command list (admin, pub/sub, transactions, connection, cluster, scripting)
RedisOther == {
  "asking", "auth", "bgrewriteaof", "bgsave", "client", "cluster", "command", "config", "debug", "discard", "echo",
  "exec", "hello", "lastsave", "latency", "lolwut", "module", "monitor", "multi", "psubscribe", "psync", "publish",
  "pubsub", "punsubscribe", "readonly", "readwrite", "replconf", "replicaof", "role", "save", "script", "shutdown",
  "slaveof", "slowlog", "subscribe", "sync", "unsubscribe", "unwatch", "wait", "watch", "pfdebug", "pfselftest",
  "post", "host:" }

\* names that are no Redis commands at all
Arbitrary == {"", "foo", "getx", "se", "get ", " get", "ge\tt", "GET2", "xyzzy", "hotkeys", "pin", "delete", "flush"}

AllNames == Supported \cup RedisWrite \cup RedisReadOnly \cup RedisOther \cup Arbitrary

Strategies == {"MASTER", "BOTH", "REPLICA"}

\* how the proxy must treat a name (compared case-insensitively)
Class(name) ==
  IF name \in Local THEN "local"
  ELSE IF name \in SupportedForwarded THEN "forward"
  ELSE "unsupported"

\* may the command modify data?  (everything Redis does not flag read-only is treated as possibly writing)
MayWrite(name) == name \notin RedisReadOnly

\* node roles a forwarded command may be delivered to: "master" = master owning the key's slot,
\* "replica" = replica of that master
AllowedRoles(name, strategy) ==
  IF MayWrite(name) THEN {"master"}
  ELSE CASE strategy = "MASTER"  -> {"master"}
         [] strategy = "BOTH"    -> {"master", "replica"}
         [] strategy = "REPLICA" -> {"replica"}    \* (master only when the owner has no replica)

Vector(name) == [name |-> name, class |-> Class(name), mayWrite |-> MayWrite(name),
                 roles |-> [s \in Strategies |-> AllowedRoles(name, s)]]

\* sanity of the tables themselves
ASSUME RedisWrite \cap RedisReadOnly = {}
ASSUME Local \cap SupportedForwarded = {}

NameSeq == TLCEval(SetToSeq(AllNames))
VARIABLE i
Init == i = 1
Next == /\ i <= Len(NameSeq) /\ PrintT("@@VEC " \o ToJson(Vector(NameSeq[i]))) /\ i' = i + 1
Spec == Init /\ [][Next]_i

\* properties of the classification checked by TLC over the whole name space
WritesOnlyToMaster == \A n \in AllNames : \A s \in Strategies : MayWrite(n) => AllowedRoles(n, s) = {"master"}
UnsupportedNeverForwarded == \A n \in AllNames : n \notin Supported => Class(n) = "unsupported"
LocalNeverForwarded == \A n \in Local : Class(n) = "local"
=============================================================================
