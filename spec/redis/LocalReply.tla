------------------------------ MODULE LocalReply ------------------------------
(***************************************************************************)
(* C01, last sentence: no request content can make the proxy emit more or  *)
(* fewer than one reply for it.                                            *)
(*                                                                         *)
(* Every reply that the proxy BUILDS ITSELF (instead of copying a value a  *)
(* backend node encoded) is modelled as a construction step whose output   *)
(* is the sequence of WIRE LINES a downstream client reads:                *)
(*   - locally answered commands (redis.go initCommandHandlers /           *)
(*     handler.go): PING [message], QUIT, SELECT, INFO [section], TIME,    *)
(*     HOTKEY (a summary that quotes the key names of EARLIER requests);   *)
(*   - error replies: unsupported command (quotes the command name,        *)
(*     redis.go handleRequest), invalid request / invalid cursor (arity    *)
(*     and shape checks of request.go), "is disabled in compress mode"     *)
(*     (filter_compress.go, built by the backend writer, i.e. later than   *)
(*     the session reader's own replies).                                  *)
(* A request is a sequence of words, a word a sequence of byte CHUNKS; the *)
(* chunks CR, LF, NUL and the RESP type bytes are chunks of their own so   *)
(* that the model can follow them from the request into the reply text.    *)
(* A simple-string / error reply is a line: type byte, text, CR LF.  A     *)
(* client reads lines: whatever follows an LF inside the text is the next  *)
(* line, i.e. the next reply (or garbage).  Bulk strings and arrays are    *)
(* length-delimited: their content cannot end them.                        *)
(*                                                                         *)
(* One behaviour = one pipeline on one connection: Pre forwarded GETs      *)
(* ahead, the probe request(s), two ordinary requests behind (a forwarded  *)
(* GET and a local PING), so that a surplus or missing reply shifts the    *)
(* pairing of everything behind it.  Session reader, backend, session      *)
(* writer and the client's line reader are separate steps (the reply of    *)
(* the probe is built while the requests ahead are still pending).         *)
(*                                                                         *)
(* The run with the code's policies is also the ENUMERATOR of the vectors  *)
(* replayed on the real proxy: every terminal state prints its pipeline.   *)
(***************************************************************************)
EXTENDS Naturals, Sequences, FiniteSets, TLC, Json

CONSTANTS
  ErrText,    \* constructor of error replies (resp.go newError): "neutralise" = the code: CR and LF become spaces;
              \* "pairs" = only CR LF pairs are replaced; "verbatim" = the text is copied
  Echo,       \* a locally answered command that is given an argument: "const" = the code: the argument is ignored;
              \* "bulk" = copied into a bulk string; "line" = copied into a simple string
  HotAs,      \* the HOTKEY summary: "bulk" = the code; "line" = a simple string
  PreSet,     \* numbers of forwarded requests ahead of the probe
  Forms,      \* forms of the probe request: "array", "inline"
  Tier,       \* "quick" | "thorough": payload classes
  Classes,    \* template classes explored: subset of {"local", "error", "forward", "stored"}
  Emit        \* print the pipelines (vectors for the replay)

CR == "\r"
LF == "\n"
NUL == "{00}"          \* replaced by the byte 0x00 by the replayer
TypeChunks == {"+", "-", ":", "$", "*"}
MARK == "{P}"          \* the position of the client-controlled bytes in a template word

(* ---- the client-controlled bytes *)
Pl(n, c) == [name |-> n, chunks |-> c]
CorePayloads == {
  Pl("plain",           <<"abc">>),
  Pl("crlf",            <<"a", CR, LF, "b">>),
  Pl("lf",              <<"a", LF, "b">>),
  Pl("cr",              <<"a", CR, "b">>),
  Pl("crlf-tail",       <<"a", CR, LF>>),
  Pl("crlf-only",       <<CR, LF>>),
  Pl("crlf+simple",     <<"a", CR, LF, "+", "OK">>),
  Pl("crlf+int",        <<"a", CR, LF, ":", "1">>),
  Pl("crlf+pong-crlf",  <<"a", CR, LF, "+", "PONG", CR, LF>>),
  Pl("lf+simple",       <<"a", LF, "+", "OK">>),
  Pl("nul",             <<"a", NUL, "b">>),
  Pl("type-first",      <<"+", "OK">>),
  Pl("quote",           <<"a'b">>),
  Pl("escaped-crlf",    <<"\"a\\r\\nb\"">>) }
MorePayloads == {
  Pl("crlf-head",       <<CR, LF, "b">>),
  Pl("lf-only",         <<LF>>),
  Pl("cr-tail",         <<"a", CR>>),
  Pl("crlfcrlf",        <<"a", CR, LF, CR, LF, "b">>),
  Pl("lfcr",            <<"a", LF, CR, "b">>),
  Pl("crlf+error",      <<"a", CR, LF, "-", "ERR x">>),
  Pl("crlf+nullbulk",   <<"a", CR, LF, "$", "-1">>),
  Pl("crlf+emptyarray", <<"a", CR, LF, "*", "0">>),
  Pl("crlf+bulk",       <<"a", CR, LF, "$", "1", CR, LF, "z">>),
  Pl("type-first-err",  <<"-", "ERR">>),
  Pl("type-first-int",  <<":", "1">>),
  Pl("type-first-bulk", <<"$", "5">>),
  Pl("type-first-arr",  <<"*", "1">>),
  Pl("space",           <<"a", " ", "b">>),
  Pl("empty",           <<>>) }
Payloads == IF Tier = "thorough" THEN CorePayloads \cup MorePayloads ELSE CorePayloads

(* ---- the request templates: every position a client controls in every request the proxy answers itself, and    *)
(* in the requests it forwards (their replies are encoded by a node; the proxy only has to keep them apart)        *)
W(s) == <<s>>
P == <<MARK>>
\* ctx = stable name of handler / position; kind: who builds the reply in the code; reqs: the probe request(s);
\* stored: the earlier probe requests are also sent ahead and the hot-key period elapses before the pipeline
T(cls, ctx, proxies, reqs) == [cls |-> cls, ctx |-> ctx, proxies |-> proxies, reqs |-> reqs, stored |-> FALSE]
Both == {"plain", "compress"}
Templates == {
  \* locally answered commands
  T("local", "local/ping/arg1",    Both, << <<W("PING"), P>> >>),
  T("local", "local/ping/arg2",    Both, << <<W("PING"), W("m"), P>> >>),
  T("local", "local/quit/arg1",    Both, << <<W("QUIT"), P>> >>),
  T("local", "local/select/arg1",  Both, << <<W("SELECT"), P>> >>),
  T("local", "local/select/arg2",  Both, << <<W("SELECT"), W("0"), P>> >>),
  T("local", "local/info/arg1",    Both, << <<W("INFO"), P>> >>),
  T("local", "local/info/arg2",    Both, << <<W("INFO"), W("server"), P>> >>),
  T("local", "local/time/arg1",    Both, << <<W("TIME"), P>> >>),
  T("local", "local/hotkey/arg1",  Both, << <<W("HOTKEY"), P>> >>),
  \* error replies that quote (or could quote) the request
  T("error", "error/unsupported/name",        Both, << <<P>> >>),
  T("error", "error/unsupported/name+args",   Both, << <<P, W("k"), W("v")>> >>),
  T("error", "error/unsupported/name-prefix", Both, << <<<<"PING", MARK>>>> >>),
  T("error", "error/unsupported/name-suffix", Both, << <<<<MARK, "GET">>, W("k")>> >>),
  T("error", "error/unsupported/arg1",        Both, << <<W("KEYS"), P>> >>),
  T("error", "error/unsupported/arg2",        Both, << <<W("OBJECT"), W("ENCODING"), P>> >>),
  T("error", "error/arity/mset-1",            Both, << <<W("MSET"), P>> >>),
  T("error", "error/arity/mset-3",            Both, << <<W("MSET"), W("k"), W("v"), P>> >>),
  T("error", "error/arity/eval-1",            Both, << <<W("EVAL"), P>> >>),
  T("error", "error/arity/eval-2",            Both, << <<W("EVAL"), P, W("1")>> >>),
  T("error", "error/cursor/scan",             Both, << <<W("SCAN"), P>> >>),
  T("error", "error/cursor/scan+match",       Both, << <<W("SCAN"), P, W("MATCH"), W("*")>> >>),
  \* disabled in compress mode: the error reply is built by the backend writer
  T("error", "error/banned/key",       {"compress"}, << <<W("APPEND"), P, W("v")>> >>),
  T("error", "error/banned/value",     {"compress"}, << <<W("APPEND"), W("k"), P>> >>),
  T("error", "error/banned/arg",       {"compress"}, << <<W("GETRANGE"), W("k"), P, W("1")>> >>),
  T("error", "error/banned/script",    {"compress"}, << <<W("EVAL"), P, W("1"), W("k")>> >>),
  \* forwarded requests
  T("forward", "forward/get/key",        Both, << <<W("GET"), P>> >>),
  T("forward", "forward/set/key",        Both, << <<W("SET"), P, W("v")>> >>),
  T("forward", "forward/set/value",      Both, << <<W("SET"), W("k"), P>> >>),
  T("forward", "forward/set+get/value",  Both, << <<W("SET"), W("{U}"), P>>, <<W("GET"), W("{U}")>> >>),
  T("forward", "forward/mget/key1",      Both, << <<W("MGET"), P, W("k2")>> >>),
  T("forward", "forward/mget/key2",      Both, << <<W("MGET"), W("k1"), P>> >>),
  T("forward", "forward/mset/key",       Both, << <<W("MSET"), P, W("v")>> >>),
  T("forward", "forward/mset/value",     Both, << <<W("MSET"), W("k"), P>> >>),
  T("forward", "forward/del/key2",       Both, << <<W("DEL"), W("k"), P>> >>),
  T("forward", "forward/exists/key",     Both, << <<W("EXISTS"), P>> >>),
  T("forward", "forward/hset/field",     Both, << <<W("HSET"), W("h"), P, W("v")>> >>),
  T("forward", "forward/hset+hget/value", Both, << <<W("HSET"), W("{U}"), W("f"), P>>, <<W("HGET"), W("{U}"), W("f")>> >>),
  T("forward", "forward/eval/script",    {"plain"}, << <<W("EVAL"), P, W("1"), W("k")>> >>),
  T("forward", "forward/eval/key",       {"plain"}, << <<W("EVAL"), W("s"), W("1"), P>> >>),
  T("forward", "forward/scan/match",     Both, << <<W("SCAN"), W("0"), W("MATCH"), P>> >>),
  \* bytes of an earlier request that come back in a later, locally built reply
  [T("stored", "stored/hotkey/key",     {"plain"}, << <<W("GET"), P>>, <<W("HOTKEY")>> >>) EXCEPT !.stored = TRUE] }

(* ---- building the pipeline of a behaviour *)
RECURSIVE SubstWord(_, _)
SubstWord(w, pay) == IF w = <<>> THEN <<>>
                     ELSE (IF Head(w) = MARK THEN pay ELSE <<Head(w)>>) \o SubstWord(Tail(w), pay)
Subst(words, pay) == [i \in DOMAIN words |-> SubstWord(words[i], pay)]
Req(kind, form, words) == [kind |-> kind, form |-> form, words |-> words]
Filler(i) == Req("get", "array", <<W("GET"), W("{K}")>>)      \* {K}: a unique preloaded key chosen by the replayer
                                                              \* ({U}: a key of this pipeline's own)
Behind == << Req("get", "array", <<W("GET"), W("{K}")>>), Req("ping", "inline", <<W("PING")>>) >>
Pipe(t, p, f, pre) ==
  [i \in 1..pre |-> Filler(i)] \o [i \in DOMAIN t.reqs |-> Req("probe", f, Subst(t.reqs[i], p.chunks))] \o Behind

\* the inline form has no way to carry LF, a space or an empty word, and its first byte decides the form
HasMark(words) == \E i \in DOMAIN words : \E j \in DOMAIN words[i] : words[i][j] = MARK
InlineOK(t, p) ==
  /\ p.chunks # <<>>
  /\ \A i \in DOMAIN p.chunks : p.chunks[i] \notin {LF, " "}
  /\ \A r \in DOMAIN t.reqs : Head(t.reqs[r][1]) = MARK => Head(p.chunks) \notin TypeChunks
Admissible(t, p, f) == (f = "inline" => InlineOK(t, p)) /\ (t.stored => p.chunks # <<>>)

(* ---- the proxy: dispatch of a request (redis.go handleRequest, handler.go, request.go, filter_compress.go) *)
Local   == {"PING", "QUIT", "SELECT", "INFO", "TIME", "HOTKEY"}
Simple  == {"GET", "SET", "HSET", "HGET", "APPEND", "GETRANGE"}
Sum     == {"DEL", "EXISTS"}
Banned  == {"APPEND", "GETRANGE", "EVAL"}
Known   == Local \cup Simple \cup Sum \cup {"MGET", "MSET", "EVAL", "SCAN"}
Name(r) == IF Len(r.words[1]) = 1 /\ r.words[1][1] \in Known THEN r.words[1][1] ELSE "?"
NW(r) == Len(r.words)
ValidShape(r) ==
  LET c == Name(r) IN
  CASE c \in Simple \cup Sum \cup {"MGET"} -> NW(r) >= 2
    [] c = "MSET" -> NW(r) >= 3 /\ (NW(r) % 2) = 1
    [] c = "EVAL" -> NW(r) >= 4
    [] c = "SCAN" -> NW(r) >= 2
    [] OTHER -> TRUE
\* who answers: "reader" = the session reader builds the reply at once; "writer" = the backend writer builds it
\* (compress filter); "node" = a backend node
Answers(r, proxy) ==
  LET c == Name(r) IN
  IF r.kind = "get" THEN "node" ELSE IF r.kind = "ping" THEN "reader"
  ELSE IF c = "?" \/ c \in Local \/ ~ValidShape(r) THEN "reader"
  ELSE IF c = "SCAN" /\ r.words[2] # W("0") THEN "reader"
  ELSE IF proxy = "compress" /\ c \in Banned THEN "writer"
  ELSE "node"

Neutral(text) == [i \in DOMAIN text |-> IF text[i] \in {CR, LF} THEN " " ELSE text[i]]
RECURSIVE PairsOnly(_)
PairsOnly(text) == IF Len(text) < 2 THEN text
                   ELSE IF text[1] = CR /\ text[2] = LF THEN <<" ", " ">> \o PairsOnly(SubSeq(text, 3, Len(text)))
                   ELSE <<text[1]>> \o PairsOnly(Tail(text))
Clean(text) == CASE ErrText = "neutralise" -> Neutral(text) [] ErrText = "pairs" -> PairsOnly(text) [] OTHER -> text
Val(t, text) == [t |-> t, text |-> text]
NoVal == Val("none", <<>>)
ErrVal(text) == Val("-", Clean(text))
RECURSIVE Flat(_)
Flat(ws) == IF ws = <<>> THEN <<>> ELSE Head(ws) \o Flat(Tail(ws))
EchoVal(r, const) ==
  IF NW(r) < 2 \/ Echo = "const" THEN Val("+", <<const>>)
  ELSE IF Echo = "bulk" THEN Val("$", r.words[2]) ELSE Val("+", r.words[2])
\* the reply the proxy builds for a request it answers itself; hot = key words of the requests forwarded so far
Built(r, hot) ==
  LET c == Name(r) IN
  CASE r.kind = "ping" -> Val("+", <<"PONG">>)
    [] c = "?" -> ErrVal(<<"ERR unsupported command '">> \o r.words[1] \o <<"'">>)
    [] c = "PING" -> EchoVal(r, "PONG")
    [] c \in {"QUIT", "SELECT"} -> EchoVal(r, "OK")
    [] c = "INFO" -> Val("$", <<"pid: 1", LF>>)
    [] c = "TIME" -> Val("*", <<>>)
    [] c = "HOTKEY" -> IF HotAs = "bulk" THEN Val("$", <<"Collect">> \o Flat(hot)) ELSE Val("+", <<"Collect">> \o Flat(hot))
    [] c = "SCAN" /\ ValidShape(r) -> ErrVal(<<"invalid cursor">>)
    [] OTHER -> ErrVal(<<"invalid request">>)
BannedVal(r) == ErrVal(<<"ERR command '", Name(r), "' is disabled in compress mode">>)
NodeVal == Val("$", <<"node">>)      \* encoded by a node: one well-formed value whatever the key or value

(* ---- the wire: the lines a downstream client reads for a value *)
RECURSIVE Split(_, _, _)
Split(s, cur, acc) ==
  IF s = <<>> THEN (IF cur = <<>> THEN acc ELSE Append(acc, cur))
  ELSE IF Head(s) = LF THEN Split(Tail(s), <<>>, Append(acc, cur))
  ELSE Split(Tail(s), Append(cur, Head(s)), acc)
Lines(v) == IF v.t \in {"+", "-"} THEN Split(<<v.t>> \o v.text \o <<CR, LF>>, <<>>, <<>>)
            ELSE << <<v.t, CR>> >>          \* header line; the body is length-delimited
\* what the client makes of a line: one reply, or garbage (no type byte, a CR that is not the line end, no CR)
Reads(line) == IF /\ line # <<>> /\ Head(line) \in TypeChunks /\ line[Len(line)] = CR
                  /\ \A i \in 1..(Len(line) - 1) : line[i] # CR
               THEN "reply" ELSE "garbage"

VARIABLES
  pl,      \* the behaviour: [ctx, proxy, payload, form, pre, stored, reqs]
  rd,      \* requests read by the session reader
  sq,      \* session queue: request indexes in read order
  val,     \* val[k]: the reply value of request k (NoVal while pending)
  bq,      \* backend FIFO: requests handed to the backend connection
  hot,     \* key words of the forwarded requests (what the hot-key summary quotes)
  wire,    \* lines written downstream and not yet read by the client: [k, line]
  got,     \* what the client has read: [k |-> request the line was written for, as |-> "reply" | "garbage"]
  fin
vars == <<pl, rd, sq, val, bq, hot, wire, got, fin>>

N == Len(pl.reqs)

Init ==
  /\ \E t \in Templates, p \in Payloads, f \in Forms, pre \in PreSet, px \in Both :
       /\ t.cls \in Classes /\ px \in t.proxies /\ Admissible(t, p, f)
       /\ pl = [ctx |-> t.ctx, proxy |-> px, payload |-> p.name, form |-> f, pre |-> pre, stored |-> t.stored,
                mayclose |-> (t.ctx = "local/quit/arg1"), reqs |-> Pipe(t, p, f, pre)]
  /\ rd = 0 /\ sq = <<>> /\ bq = <<>> /\ hot = <<>> /\ wire = <<>> /\ got = <<>> /\ fin = FALSE
  /\ val = [k \in 1..Len(pl.reqs) |-> NoVal]

(* session reader: decode, dispatch (the reply of a request the proxy answers itself is built here), enqueue *)
Read ==
  /\ rd < N
  /\ LET k == rd + 1  r == pl.reqs[k]  who == Answers(r, pl.proxy) IN
       /\ rd' = k /\ sq' = Append(sq, k)
       /\ IF who = "reader"
            THEN /\ val' = [val EXCEPT ![k] = Built(r, hot)] /\ UNCHANGED <<bq, hot>>
            ELSE /\ bq' = Append(bq, k) /\ UNCHANGED val
                 /\ hot' = IF who = "node" /\ NW(r) >= 2 THEN Append(hot, r.words[2]) ELSE hot
  /\ UNCHANGED <<pl, wire, got, fin>>

(* the backend connection: its writer rejects a banned command itself, a node answers the others *)
Backend ==
  /\ bq # <<>>
  /\ LET k == Head(bq) IN
       val' = [val EXCEPT ![k] = IF Answers(pl.reqs[k], pl.proxy) = "writer" THEN BannedVal(pl.reqs[k]) ELSE NodeVal]
  /\ bq' = Tail(bq)
  /\ UNCHANGED <<pl, rd, sq, hot, wire, got, fin>>

(* session writer: the head of the session queue is complete -> encode it *)
Write ==
  /\ sq # <<>> /\ val[Head(sq)].t # "none"
  /\ LET k == Head(sq)  ls == Lines(val[k]) IN
       wire' = wire \o [i \in DOMAIN ls |-> [k |-> k, line |-> ls[i]]]
  /\ sq' = Tail(sq)
  /\ UNCHANGED <<pl, rd, val, bq, hot, got, fin>>

(* the client reads the next line *)
ClientRead ==
  /\ wire # <<>>
  /\ got' = Append(got, [k |-> Head(wire).k, as |-> Reads(Head(wire).line)])
  /\ wire' = Tail(wire)
  /\ UNCHANGED <<pl, rd, sq, val, bq, hot, fin>>

AllDone == rd = N /\ sq = <<>> /\ wire = <<>>
Finish ==
  /\ AllDone /\ ~fin /\ fin' = TRUE
  /\ Emit => PrintT("@@VEC " \o ToJson([ctx |-> pl.ctx, proxy |-> pl.proxy, payload |-> pl.payload, form |-> pl.form,
                                        pre |-> pl.pre, stored |-> pl.stored, mayclose |-> pl.mayclose, reqs |-> pl.reqs,
                                        who |-> [k \in 1..N |-> Answers(pl.reqs[k], pl.proxy)],
                                        first |-> [k \in 1..N |-> val[k].t], replies |-> Len(got)]))
  /\ UNCHANGED <<pl, rd, sq, val, bq, hot, wire, got>>

Next == Read \/ Backend \/ Write \/ ClientRead \/ Finish
Spec == Init /\ [][Next]_vars

-----------------------------------------------------------------------------
(* the property: the i-th thing the client reads is a reply, and it is the reply of the i-th request *)
OneReplyEach == \A i \in 1..Len(got) : got[i].k = i /\ got[i].as = "reply"
AllDelivered == AllDone => Len(got) = N
\* anti-vacuity of the class: client bytes really reach a line-typed reply in the model of the code
QuotedInLine == \E k \in 1..N : val[k].t = "-" /\ \E i \in DOMAIN val[k].text : val[k].text[i] \in {"abc", "a'b", NUL}
NotW_QuotedInLine == ~QuotedInLine
\* window: a reply the proxy built itself waits in the session queue behind a request a node has not answered yet
BuiltBehindPending == \E i, j \in DOMAIN sq : i < j /\ val[sq[i]].t = "none" /\ val[sq[j]].t # "none"
                                              /\ pl.reqs[sq[j]].kind = "probe"
NotW_BuiltBehindPending == ~BuiltBehindPending
\* window: the backend writer's own reply (banned command) is built while the session reader has read the requests behind it
WriterBuiltLate == \E k \in 1..N : k < rd /\ val[k].t = "none" /\ Answers(pl.reqs[k], pl.proxy) = "writer"
NotW_WriterBuiltLate == ~WriterBuiltLate
=============================================================================
