---------------------------- MODULE RouteRefresh ----------------------------
(***************************************************************************)
(* Routing of read-only commands ACROSS a slot refresh (C14: "only to       *)
(* replicas of the owning master").  One master A whose address never       *)
(* changes; its replica set in the cluster (topo) changes (a replica is     *)
(* re-pointed, another one attached).  The proxy routes by its table; the   *)
(* refresher replaces the table in two steps with a network round trip in   *)
(* between:                                                                 *)
(*   RefreshBegin  CLUSTER NODES is sent and received by the seed node: the *)
(*                 answer (snap) is the topology of that moment             *)
(*   RefreshEnd    the answer arrives, the table is replaced                *)
(* Routing decisions (Route: atomic here, its inner steps are Route.tla)    *)
(* happen before, BETWEEN and after the two steps.  A decision is judged by *)
(* the table in force when it is taken: {A} + replicas(table) as far as the *)
(* strategy permits.  A read routed while the refresh is outstanding        *)
(* legitimately follows the old table; once RefreshEnd has happened no      *)
(* decision may use anything older (window W_RouteDuringRefresh).           *)
(*                                                                         *)
(* CandCache selects an implementation-shaped variant:                      *)
(*   "none"    candidates are built from the table for every decision (the  *)
(*             code as it is)                                               *)
(*   "after"   candidates cached per master, cache emptied at RefreshEnd    *)
(*   "before"  cache emptied at RefreshBegin: a decision during the refresh *)
(*             re-creates the entry from the old table and it survives the  *)
(*             refresh - must violate RoutedByTableInForce                  *)
(***************************************************************************)
EXTENDS Naturals, Sequences, FiniteSets, TLC

CONSTANTS Strategies,    \* read strategies (chosen at Init)
          MaxRoutes,     \* routed reads per behaviour
          MaxRefresh,    \* refreshes per behaviour
          MaxReassign,   \* topology changes per behaviour
          CandCache      \* "none" | "after" | "before"

ReplicaSets == {{1}, {2}}          \* replica 1 / replica 2 of the layout follows A (the other one follows master B)
Other(rs) == IF rs = {1} THEN {2} ELSE {1}
NoCache == {0}                     \* (no entry)

VARIABLES strategy, topo, table, snap, refreshing, cache, routes, refreshes, reassigns,
          last,          \* the last decision: [dest, table] (dest 0 = master A, k = replica k; table = replicas in force)
          during         \* ghost: a read was routed during the outstanding refresh whose answer differs from the table

vars == <<strategy, topo, table, snap, refreshing, cache, routes, refreshes, reassigns, last, during>>

Init ==
  /\ strategy \in Strategies
  /\ topo = {1} /\ table = {1} /\ snap = {1}
  /\ refreshing = FALSE
  /\ cache = NoCache
  /\ routes = 0 /\ refreshes = 0 /\ reassigns = 0
  /\ last = [dest |-> 0, table |-> {1}]
  /\ during = FALSE

\* the cluster changes: the replica of A is re-pointed to B, B's replica to A (address of A unchanged)
Reassign ==
  /\ reassigns < MaxReassign
  /\ topo' = Other(topo)
  /\ reassigns' = reassigns + 1
  /\ UNCHANGED <<strategy, table, snap, refreshing, cache, routes, refreshes, last, during>>

RefreshBegin ==
  /\ ~refreshing /\ refreshes < MaxRefresh
  /\ refreshing' = TRUE
  /\ snap' = topo
  /\ cache' = IF CandCache = "before" THEN NoCache ELSE cache
  /\ refreshes' = refreshes + 1
  /\ during' = FALSE
  /\ UNCHANGED <<strategy, topo, table, routes, reassigns, last>>

RefreshEnd ==
  /\ refreshing
  /\ refreshing' = FALSE
  /\ table' = snap
  /\ cache' = IF CandCache = "after" THEN NoCache ELSE cache
  /\ UNCHANGED <<strategy, topo, snap, routes, refreshes, reassigns, last, during>>

CandsOf(reps) ==
  CASE strategy = "MASTER"  -> {0}
    [] strategy = "BOTH"    -> {0} \cup reps
    [] strategy = "REPLICA" -> reps

Route(d) ==
  /\ routes < MaxRoutes
  /\ LET reps == IF CandCache # "none" /\ cache # NoCache THEN cache ELSE table IN
     /\ d \in CandsOf(reps)
     /\ cache' = IF CandCache # "none" THEN reps ELSE cache
  /\ last' = [dest |-> d, table |-> table]
  /\ routes' = routes + 1
  /\ during' = (during \/ (refreshing /\ snap # table))
  /\ UNCHANGED <<strategy, topo, table, snap, refreshing, refreshes, reassigns>>

Next == Reassign \/ RefreshBegin \/ RefreshEnd \/ \E d \in 0..2 : Route(d)

Spec == Init /\ [][Next]_vars

Done == ~refreshing /\ routes = MaxRoutes

\* nodes the property allows for a read of a key of A under the table in force
AllowedBy(reps) == IF strategy = "MASTER" THEN {0} ELSE {0} \cup reps

RoutedByTableInForce == last.dest \in AllowedBy(last.table)

TypeOK == topo \in ReplicaSets /\ table \in ReplicaSets /\ snap \in ReplicaSets /\ last.dest \in 0..2

\* a read was routed while a refresh with a different answer was outstanding, that refresh has ended and a
\* further read can be routed
W_RouteDuringRefresh == during /\ ~refreshing /\ routes < MaxRoutes
W_ReassignDuringRefresh == refreshing /\ snap # topo
\* reachability of the window: this "invariant" must be violated
WindowNeverReached == ~W_RouteDuringRefresh
=============================================================================
