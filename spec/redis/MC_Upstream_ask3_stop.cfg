SPECIFICATION Spec
CONSTANTS
  Reqs = {"r1", "r2", "a3"}
  QCap = 2
  FixHandoff = TRUE
  FixSend = TRUE
  FixReader = TRUE
  Banned = {}
  Asking = {"a3"}
  AskAnswersInHand = TRUE
  DrainAfterStopped = TRUE
  FilteredFailAnswers = FALSE
  BufCap = 1
  FixFlushOnStop = TRUE
  MaxResets = 0
  WithStop = TRUE
  Det = FALSE
INVARIANTS TypeOK AtMostOnce NoLostRequest NoStuckSender PairingFIFO OwnReply
PROPERTIES Answered QuitLeadsToDone StopReturns
CHECK_DEADLOCK FALSE
