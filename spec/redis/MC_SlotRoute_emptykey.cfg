SPECIFICATION Spec
CONSTANTS
  Layouts = {"three"}
  MaxRefresh = 2
  WipeFirst = FALSE
  EmptyKeyAny = TRUE
INVARIANTS TypeOK RoutedByOwner
CHECK_DEADLOCK FALSE
