---- MODULE MC_Cluster ----
EXTENDS Cluster
MCSlotOf == [k \in {"a1", "a2", "b1"} |-> IF k = "b1" THEN "B" ELSE "A"]
MCSlotOf2 == [k \in {"a1", "b1"} |-> IF k = "b1" THEN "B" ELSE "A"]
MCSlotOf3 == [k \in {"a1", "a2"} |-> "A"]
MCSlotOf4 == [k \in {"a1"} |-> "A"]
====
