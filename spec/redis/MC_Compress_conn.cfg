\* connection age: two connections, config changes at run time, connections made again - the code's filter reads the live config
SPECIFICATION Spec
CONSTANTS
  Keys = {"k1"}
  MaxOps = 5
  MaxRedirects = 1
  FixOnce = TRUE
  MaxVals = 1
  HookDepth = 2
  OwnBytes = TRUE
  Nodes = {"a", "b"}
  ConnConfig = "live"
INVARIANTS StoredForm ReadBack OnlyWhenEnabled OffMeansOff
CHECK_DEADLOCK FALSE
