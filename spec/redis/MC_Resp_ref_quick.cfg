SPECIFICATION RefSpec
CONSTANTS
  K = 3
  N = 3
  NN = 2
  MaxCat = 1
  NMsgs = 12
  Caps = {32, 33, 64, 4096, 8192}
  MaxCuts = 1
  KI = 5
INVARIANTS RefHolds
CHECK_DEADLOCK FALSE
