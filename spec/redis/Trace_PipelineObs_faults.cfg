SPECIFICATION TraceSpec
CONSTANTS
  Conns <- TraceConns
  ErrorsOK = TRUE
INVARIANTS NeverAhead EndedComplete
POSTCONDITION TraceAccepted
CHECK_DEADLOCK FALSE
