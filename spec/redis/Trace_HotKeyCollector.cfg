SPECIFICATION TraceSpec
INVARIANTS ReportSorted ReportUnique ReportCapped OnlyAccessed ViewSorted ViewUnique ViewCapped ViewOnlyAccessed
POSTCONDITION TraceAccepted
CHECK_DEADLOCK FALSE
