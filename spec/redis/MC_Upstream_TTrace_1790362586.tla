---- MODULE MC_Upstream_TTrace_1790362586 ----
EXTENDS Sequences, TLCExt, Toolbox, Naturals, TLC, MC_Upstream

_expression ==
    LET MC_Upstream_TEExpression == INSTANCE MC_Upstream_TEExpression
    IN MC_Upstream_TEExpression!expression
----

_trace ==
    LET MC_Upstream_TETrace == INSTANCE MC_Upstream_TETrace
    IN MC_Upstream_TETrace!trace
----

_inv ==
    ~(
        TLCGet("level") = Len(_TETrace)
        /\
        sdr = ((r1 :> "none" @@ r2 :> "none"))
        /\
        res = ((r1 :> "none" @@ r2 :> "none"))
        /\
        proc = (<<>>)
        /\
        stopped = (TRUE)
        /\
        connOpen = (FALSE)
        /\
        spc = ((r1 :> "done" @@ r2 :> "idle"))
        /\
        resets = (1)
        /\
        main = ("done")
        /\
        done = (TRUE)
        /\
        stp = ("idle")
        /\
        wreq = ("none")
        /\
        wire = (<<r1>>)
        /\
        rd = ("exited")
        /\
        replies = (<<>>)
        /\
        w = ("exited")
        /\
        rreq = ("none")
        /\
        compl = ((r1 :> 0 @@ r2 :> 0))
        /\
        quit = (TRUE)
        /\
        mdr = ("none")
        /\
        pend = (<<>>)
    )
----

_init ==
    /\ done = _TETrace[1].done
    /\ proc = _TETrace[1].proc
    /\ wire = _TETrace[1].wire
    /\ stopped = _TETrace[1].stopped
    /\ stp = _TETrace[1].stp
    /\ resets = _TETrace[1].resets
    /\ w = _TETrace[1].w
    /\ pend = _TETrace[1].pend
    /\ rd = _TETrace[1].rd
    /\ res = _TETrace[1].res
    /\ main = _TETrace[1].main
    /\ replies = _TETrace[1].replies
    /\ compl = _TETrace[1].compl
    /\ wreq = _TETrace[1].wreq
    /\ connOpen = _TETrace[1].connOpen
    /\ rreq = _TETrace[1].rreq
    /\ spc = _TETrace[1].spc
    /\ quit = _TETrace[1].quit
    /\ mdr = _TETrace[1].mdr
    /\ sdr = _TETrace[1].sdr
----

_next ==
    /\ \E i,j \in DOMAIN _TETrace:
        /\ \/ /\ j = i + 1
              /\ i = TLCGet("level")
        /\ done  = _TETrace[i].done
        /\ done' = _TETrace[j].done
        /\ proc  = _TETrace[i].proc
        /\ proc' = _TETrace[j].proc
        /\ wire  = _TETrace[i].wire
        /\ wire' = _TETrace[j].wire
        /\ stopped  = _TETrace[i].stopped
        /\ stopped' = _TETrace[j].stopped
        /\ stp  = _TETrace[i].stp
        /\ stp' = _TETrace[j].stp
        /\ resets  = _TETrace[i].resets
        /\ resets' = _TETrace[j].resets
        /\ w  = _TETrace[i].w
        /\ w' = _TETrace[j].w
        /\ pend  = _TETrace[i].pend
        /\ pend' = _TETrace[j].pend
        /\ rd  = _TETrace[i].rd
        /\ rd' = _TETrace[j].rd
        /\ res  = _TETrace[i].res
        /\ res' = _TETrace[j].res
        /\ main  = _TETrace[i].main
        /\ main' = _TETrace[j].main
        /\ replies  = _TETrace[i].replies
        /\ replies' = _TETrace[j].replies
        /\ compl  = _TETrace[i].compl
        /\ compl' = _TETrace[j].compl
        /\ wreq  = _TETrace[i].wreq
        /\ wreq' = _TETrace[j].wreq
        /\ connOpen  = _TETrace[i].connOpen
        /\ connOpen' = _TETrace[j].connOpen
        /\ rreq  = _TETrace[i].rreq
        /\ rreq' = _TETrace[j].rreq
        /\ spc  = _TETrace[i].spc
        /\ spc' = _TETrace[j].spc
        /\ quit  = _TETrace[i].quit
        /\ quit' = _TETrace[j].quit
        /\ mdr  = _TETrace[i].mdr
        /\ mdr' = _TETrace[j].mdr
        /\ sdr  = _TETrace[i].sdr
        /\ sdr' = _TETrace[j].sdr

\* Uncomment the ASSUME below to write the states of the error trace
\* to the given file in Json format. Note that you can pass any tuple
\* to `JsonSerialize`. For example, a sub-sequence of _TETrace.
    \* ASSUME
    \*     LET J == INSTANCE Json
    \*         IN J!JsonSerialize("MC_Upstream_TTrace_1790362586.json", _TETrace)

=============================================================================

 Note that you can extract this module `MC_Upstream_TEExpression`
  to a dedicated file to reuse `expression` (the module in the 
  dedicated `MC_Upstream_TEExpression.tla` file takes precedence 
  over the module `MC_Upstream_TEExpression` below).

---- MODULE MC_Upstream_TEExpression ----
EXTENDS Sequences, TLCExt, Toolbox, Naturals, TLC, MC_Upstream

expression == 
    [
        \* To hide variables of the `MC_Upstream` spec from the error trace,
        \* remove the variables below.  The trace will be written in the order
        \* of the fields of this record.
        done |-> done
        ,proc |-> proc
        ,wire |-> wire
        ,stopped |-> stopped
        ,stp |-> stp
        ,resets |-> resets
        ,w |-> w
        ,pend |-> pend
        ,rd |-> rd
        ,res |-> res
        ,main |-> main
        ,replies |-> replies
        ,compl |-> compl
        ,wreq |-> wreq
        ,connOpen |-> connOpen
        ,rreq |-> rreq
        ,spc |-> spc
        ,quit |-> quit
        ,mdr |-> mdr
        ,sdr |-> sdr
        
        \* Put additional constant-, state-, and action-level expressions here:
        \* ,_stateNumber |-> _TEPosition
        \* ,_doneUnchanged |-> done = done'
        
        \* Format the `done` variable as Json value.
        \* ,_doneJson |->
        \*     LET J == INSTANCE Json
        \*     IN J!ToJson(done)
        
        \* Lastly, you may build expressions over arbitrary sets of states by
        \* leveraging the _TETrace operator.  For example, this is how to
        \* count the number of times a spec variable changed up to the current
        \* state in the trace.
        \* ,_doneModCount |->
        \*     LET F[s \in DOMAIN _TETrace] ==
        \*         IF s = 1 THEN 0
        \*         ELSE IF _TETrace[s].done # _TETrace[s-1].done
        \*             THEN 1 + F[s-1] ELSE F[s-1]
        \*     IN F[_TEPosition - 1]
    ]

=============================================================================



Parsing and semantic processing can take forever if the trace below is long.
 In this case, it is advised to uncomment the module below to deserialize the
 trace from a generated binary file.

\*
\*---- MODULE MC_Upstream_TETrace ----
\*EXTENDS IOUtils, TLC, MC_Upstream
\*
\*trace == IODeserialize("MC_Upstream_TTrace_1790362586.bin", TRUE)
\*
\*=============================================================================
\*

---- MODULE MC_Upstream_TETrace ----
EXTENDS TLC, MC_Upstream

trace == 
    <<
    ([sdr |-> (r1 :> "none" @@ r2 :> "none"),res |-> (r1 :> "none" @@ r2 :> "none"),proc |-> <<>>,stopped |-> FALSE,connOpen |-> TRUE,spc |-> (r1 :> "idle" @@ r2 :> "idle"),resets |-> 0,main |-> "run",done |-> FALSE,stp |-> "idle",wreq |-> "none",wire |-> <<>>,rd |-> "decode",replies |-> <<>>,w |-> "select",rreq |-> "none",compl |-> (r1 :> 0 @@ r2 :> 0),quit |-> FALSE,mdr |-> "none",pend |-> <<>>]),
    ([sdr |-> (r1 :> "none" @@ r2 :> "none"),res |-> (r1 :> "none" @@ r2 :> "none"),proc |-> <<>>,stopped |-> FALSE,connOpen |-> TRUE,spc |-> (r1 :> "send" @@ r2 :> "idle"),resets |-> 0,main |-> "run",done |-> FALSE,stp |-> "idle",wreq |-> "none",wire |-> <<>>,rd |-> "decode",replies |-> <<>>,w |-> "select",rreq |-> "none",compl |-> (r1 :> 0 @@ r2 :> 0),quit |-> FALSE,mdr |-> "none",pend |-> <<>>]),
    ([sdr |-> (r1 :> "none" @@ r2 :> "none"),res |-> (r1 :> "none" @@ r2 :> "none"),proc |-> <<>>,stopped |-> FALSE,connOpen |-> TRUE,spc |-> (r1 :> "checked" @@ r2 :> "idle"),resets |-> 0,main |-> "run",done |-> FALSE,stp |-> "idle",wreq |-> "none",wire |-> <<>>,rd |-> "decode",replies |-> <<>>,w |-> "select",rreq |-> "none",compl |-> (r1 :> 0 @@ r2 :> 0),quit |-> FALSE,mdr |-> "none",pend |-> <<>>]),
    ([sdr |-> (r1 :> "none" @@ r2 :> "none"),res |-> (r1 :> "none" @@ r2 :> "none"),proc |-> <<>>,stopped |-> FALSE,connOpen |-> TRUE,spc |-> (r1 :> "enqueued" @@ r2 :> "idle"),resets |-> 0,main |-> "run",done |-> FALSE,stp |-> "idle",wreq |-> "none",wire |-> <<>>,rd |-> "decode",replies |-> <<>>,w |-> "select",rreq |-> "none",compl |-> (r1 :> 0 @@ r2 :> 0),quit |-> FALSE,mdr |-> "none",pend |-> <<r1>>]),
    ([sdr |-> (r1 :> "none" @@ r2 :> "none"),res |-> (r1 :> "none" @@ r2 :> "none"),proc |-> <<>>,stopped |-> FALSE,connOpen |-> TRUE,spc |-> (r1 :> "done" @@ r2 :> "idle"),resets |-> 0,main |-> "run",done |-> FALSE,stp |-> "idle",wreq |-> "none",wire |-> <<>>,rd |-> "decode",replies |-> <<>>,w |-> "select",rreq |-> "none",compl |-> (r1 :> 0 @@ r2 :> 0),quit |-> FALSE,mdr |-> "none",pend |-> <<r1>>]),
    ([sdr |-> (r1 :> "none" @@ r2 :> "none"),res |-> (r1 :> "none" @@ r2 :> "none"),proc |-> <<>>,stopped |-> FALSE,connOpen |-> TRUE,spc |-> (r1 :> "done" @@ r2 :> "idle"),resets |-> 0,main |-> "run",done |-> FALSE,stp |-> "idle",wreq |-> r1,wire |-> <<>>,rd |-> "decode",replies |-> <<>>,w |-> "have",rreq |-> "none",compl |-> (r1 :> 0 @@ r2 :> 0),quit |-> FALSE,mdr |-> "none",pend |-> <<>>]),
    ([sdr |-> (r1 :> "none" @@ r2 :> "none"),res |-> (r1 :> "none" @@ r2 :> "none"),proc |-> <<>>,stopped |-> FALSE,connOpen |-> TRUE,spc |-> (r1 :> "done" @@ r2 :> "idle"),resets |-> 0,main |-> "run",done |-> FALSE,stp |-> "idle",wreq |-> r1,wire |-> <<r1>>,rd |-> "decode",replies |-> <<>>,w |-> "handoff",rreq |-> "none",compl |-> (r1 :> 0 @@ r2 :> 0),quit |-> FALSE,mdr |-> "none",pend |-> <<>>]),
    ([sdr |-> (r1 :> "none" @@ r2 :> "none"),res |-> (r1 :> "none" @@ r2 :> "none"),proc |-> <<>>,stopped |-> FALSE,connOpen |-> FALSE,spc |-> (r1 :> "done" @@ r2 :> "idle"),resets |-> 1,main |-> "run",done |-> FALSE,stp |-> "idle",wreq |-> r1,wire |-> <<r1>>,rd |-> "decode",replies |-> <<>>,w |-> "handoff",rreq |-> "none",compl |-> (r1 :> 0 @@ r2 :> 0),quit |-> FALSE,mdr |-> "none",pend |-> <<>>]),
    ([sdr |-> (r1 :> "none" @@ r2 :> "none"),res |-> (r1 :> "none" @@ r2 :> "none"),proc |-> <<>>,stopped |-> FALSE,connOpen |-> FALSE,spc |-> (r1 :> "done" @@ r2 :> "idle"),resets |-> 1,main |-> "run",done |-> FALSE,stp |-> "idle",wreq |-> r1,wire |-> <<r1>>,rd |-> "exited",replies |-> <<>>,w |-> "handoff",rreq |-> "none",compl |-> (r1 :> 0 @@ r2 :> 0),quit |-> FALSE,mdr |-> "none",pend |-> <<>>]),
    ([sdr |-> (r1 :> "none" @@ r2 :> "none"),res |-> (r1 :> "none" @@ r2 :> "none"),proc |-> <<>>,stopped |-> FALSE,connOpen |-> FALSE,spc |-> (r1 :> "done" @@ r2 :> "idle"),resets |-> 1,main |-> "quitClosed",done |-> FALSE,stp |-> "idle",wreq |-> r1,wire |-> <<r1>>,rd |-> "exited",replies |-> <<>>,w |-> "handoff",rreq |-> "none",compl |-> (r1 :> 0 @@ r2 :> 0),quit |-> TRUE,mdr |-> "none",pend |-> <<>>]),
    ([sdr |-> (r1 :> "none" @@ r2 :> "none"),res |-> (r1 :> "none" @@ r2 :> "none"),proc |-> <<>>,stopped |-> FALSE,connOpen |-> FALSE,spc |-> (r1 :> "done" @@ r2 :> "idle"),resets |-> 1,main |-> "quitClosed",done |-> FALSE,stp |-> "idle",wreq |-> "none",wire |-> <<r1>>,rd |-> "exited",replies |-> <<>>,w |-> "exited",rreq |-> "none",compl |-> (r1 :> 0 @@ r2 :> 0),quit |-> TRUE,mdr |-> "none",pend |-> <<>>]),
    ([sdr |-> (r1 :> "none" @@ r2 :> "none"),res |-> (r1 :> "none" @@ r2 :> "none"),proc |-> <<>>,stopped |-> TRUE,connOpen |-> FALSE,spc |-> (r1 :> "done" @@ r2 :> "idle"),resets |-> 1,main |-> "writeDone",done |-> FALSE,stp |-> "idle",wreq |-> "none",wire |-> <<r1>>,rd |-> "exited",replies |-> <<>>,w |-> "exited",rreq |-> "none",compl |-> (r1 :> 0 @@ r2 :> 0),quit |-> TRUE,mdr |-> "none",pend |-> <<>>]),
    ([sdr |-> (r1 :> "none" @@ r2 :> "none"),res |-> (r1 :> "none" @@ r2 :> "none"),proc |-> <<>>,stopped |-> TRUE,connOpen |-> FALSE,spc |-> (r1 :> "done" @@ r2 :> "idle"),resets |-> 1,main |-> "drained",done |-> FALSE,stp |-> "idle",wreq |-> "none",wire |-> <<r1>>,rd |-> "exited",replies |-> <<>>,w |-> "exited",rreq |-> "none",compl |-> (r1 :> 0 @@ r2 :> 0),quit |-> TRUE,mdr |-> "none",pend |-> <<>>]),
    ([sdr |-> (r1 :> "none" @@ r2 :> "none"),res |-> (r1 :> "none" @@ r2 :> "none"),proc |-> <<>>,stopped |-> TRUE,connOpen |-> FALSE,spc |-> (r1 :> "done" @@ r2 :> "idle"),resets |-> 1,main |-> "done",done |-> TRUE,stp |-> "idle",wreq |-> "none",wire |-> <<r1>>,rd |-> "exited",replies |-> <<>>,w |-> "exited",rreq |-> "none",compl |-> (r1 :> 0 @@ r2 :> 0),quit |-> TRUE,mdr |-> "none",pend |-> <<>>])
    >>
----


=============================================================================

---- CONFIG MC_Upstream_TTrace_1790362586 ----
CONSTANTS
    r1 = r1
    r2 = r2
    r3 = r3
    Reqs <- MCReqs2
    QCap = 1
    FixHandoff = FALSE
    FixSend = TRUE
    FixReader = TRUE
    MaxResets = 1
    WithStop = TRUE
    r1 = r1
    r3 = r3
    r2 = r2

INVARIANT
    _inv

CHECK_DEADLOCK
    \* CHECK_DEADLOCK off because of PROPERTY or INVARIANT above.
    FALSE

INIT
    _init

NEXT
    _next

CONSTANT
    _TETrace <- _trace

ALIAS
    _expression
=============================================================================
\* Generated on Fri Sep 25 18:56:29 UTC 2026