SPECIFICATION KeySpec
CONSTANTS
  MaxLen = 7
  Alphabet = {123, 125, 97, 98}
INVARIANTS TableAgreesOnKey TagIsPart EmitKey
CHECK_DEADLOCK FALSE
