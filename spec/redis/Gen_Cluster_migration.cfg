SPECIFICATION GenSpec
CONSTANTS
  Nodes = {1, 2, 3}
  Slots = {"A", "B"}
  Keys = {"a1", "a2", "b1"}
  SlotOf <- MCSlotOf
  MaxCmds = 10
  MaxHops = 4
  WithMigration = TRUE
  EmptyTableAtStart = FALSE
  AtomicAsk = TRUE
  WithFailover = FALSE
  FixRefreshOnDialError = TRUE
  StepwiseRefresh = FALSE
  ClearBeforeFill = FALSE
  MaxTicks = 0
  LazyConnect = FALSE
  AsyncRedirectDial = FALSE
  TrackOrder = FALSE
  WithDemotion = FALSE
  ReadonlyEverywhere = TRUE
  MaxMigs = 1
  StaleTableAtStart = FALSE
  MaxFollowed = 0
  DeathKinds = {"refused"}
  RefreshOnTimeout = TRUE
  PromotedFlags = {{"master"}}
  ParserSkips = {}
  Pipelined = FALSE
  MaxBurst = 4
  HoldRefresh = FALSE
CHECK_DEADLOCK FALSE
