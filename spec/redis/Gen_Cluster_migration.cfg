SPECIFICATION GenSpec
CONSTANTS
  Nodes = {1, 2, 3}
  Slots = {"A", "B"}
  Keys = {"a1", "a2", "b1"}
  SlotOf <- MCSlotOf
  MaxCmds = 10
  MaxHops = 4
  WithMigration = TRUE
  EmptyTableAtStart = FALSE
  AtomicAsk = FALSE
  WithFailover = FALSE
  FixRefreshOnDialError = TRUE
CHECK_DEADLOCK FALSE
