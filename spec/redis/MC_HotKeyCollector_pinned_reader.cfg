SPECIFICATION Spec
CONSTANTS
  Keys = {"a", "b", "c"}
  Ctrs = {"n1", "n2"}
  Cap = 2
  MaxVal = 255
  MaxPeriods = 3
  MaxHits = 4
  MaxTicks = 2
  MaxEvicts = 2
  MaxReads = 1
  MaxFrees = 1
  FixEvict = TRUE
  CopyOnMerge = FALSE
INVARIANTS TypeOK ReportSorted ReportUnique ReportCapped OnlyAccessed NoZeroHeat ViewSorted ViewUnique ViewCapped ViewOnlyAccessed CountersBounded
CHECK_DEADLOCK FALSE
