SPECIFICATION Spec
CONSTANTS
  Layouts = {"three"}
  MaxRefresh = 2
  WipeFirst = TRUE
  EmptyKeyAny = FALSE
INVARIANTS TypeOK RoutedByOwner
CHECK_DEADLOCK FALSE
