SPECIFICATION GenSpec
CONSTANTS
  Reqs = {1, 2, 3, 4, 5}
  MaxGens = 4
  MaxClients = 5
  MaxFaults = 4
  MaxStalls = 1
  MaxAsk = 2
  AskSelectsQuit = TRUE
  ResetStopsUnderLock = FALSE
  Counters = FALSE
  MaxCollects = 0
  MaxCfg = 1
  FreeDestroys = FALSE
  FreeHoldsCounterLock = FALSE
  UpdateLosesDefaults = FALSE
  FixCallEntry = TRUE
  FixResetSnapshot = TRUE
  FixRemoveOwn = TRUE
CHECK_DEADLOCK FALSE
