SPECIFICATION GenSpec
CONSTANTS
  Reqs = {1, 2, 3, 4, 5}
  MaxGens = 4
  MaxClients = 5
  MaxFaults = 4
  MaxStalls = 1
  MaxAsk = 2
  AskSelectsQuit = TRUE
  ResetStopsUnderLock = FALSE
  FixCallEntry = TRUE
  FixResetSnapshot = TRUE
  FixRemoveOwn = TRUE
CHECK_DEADLOCK FALSE
