----------------------------- MODULE RefreshGen -----------------------------
(* Behaviour emitter for Refresh: histories of layout changes, requests that *)
(* notice the stale table (and ask for a refresh), and the steps of the      *)
(* refresh loop (take the token and ask a node, reply installed / attempt    *)
(* failed, end of the minimum interval), each with the model state after the *)
(* step.  The replay holds the CLUSTER NODES replies of the queried node     *)
(* back, so that a layout change and a trigger can be placed between the     *)
(* moment the node produces its reply and the moment the proxy installs it.  *)
EXTENDS Refresh, Sequences, Json

CONSTANTS MaxSteps,
          Periodic      \* the replay runs with a short refresh period: the loop also moves when its timer fires (Tick), and
                        \* silent layout changes (healed by the period only) are part of the histories; FALSE: the period is an
                        \* hour, neither happens

VARIABLES hist, finished,
          wins      \* loop phases in which a request has noticed the stale table so far (strata)
gvars == <<vars, hist, finished, wins>>
GenView == <<vars, finished, wins>>

GenInit == Init /\ hist = <<>> /\ finished = FALSE /\ wins = {}

After == [layout |-> layout'[1], rlayout |-> layout'[2], table |-> table'[1], rtable |-> table'[2], trig |-> trig', loop |-> loop',
          noticed |-> noticed', rounds |-> rounds']
Log(a, ph) == hist' = Append(hist, [a |-> a, phase |-> ph] @@ After)

\* where the refresh loop is when a request notices the stale table
Phase == IF loop = "asking" THEN (IF Same(seen, layout) THEN "asking-fresh" ELSE "asking-stale") ELSE loop
\* ... and what is stale: the master assignment, or only the replica assignment ("replica moves, master stays")
Win == IF table[1] = layout[1] THEN "replica:" \o Phase ELSE Phase

Settled == ~Stale /\ loop = "wait" /\ ~trig

Finish ==
  /\ ~finished /\ (Len(hist) >= MaxSteps \/ (Settled /\ layout[1] + layout[2] = MaxLayout))
  /\ PrintT("@@BEH " \o ToJson(hist))
  /\ finished' = TRUE /\ UNCHANGED <<vars, hist, wins>>

\* The replay decides when the environment acts and when the held reply is delivered; it cannot hold the loop back where
\* the loop moves on its own: with a token waiting and the loop idle the next step is the loop's (LoopTake).
EnvMay == ~(loop = "wait" /\ trig)

GenNext ==
  /\ ~finished /\ Len(hist) < MaxSteps
  /\ \/ \E k \in {"master", "replica"} : EnvMay /\ LayoutChange(k) /\ Log("Change", k) /\ UNCHANGED wins
     \/ Periodic /\ EnvMay /\ LayoutChange("silent") /\ Log("Change", "silent")
                  /\ wins' = wins \cup {IF \E i \in 1..Len(hist) : hist[i].a = "Tick"
                                          THEN (IF loop = "wait" THEN "silent:after-quiet-period" ELSE "silent:during-periodic-refresh")
                                          ELSE "silent:first-period"}
     \/ Periodic /\ LoopTick /\ Log("Tick", "") /\ UNCHANGED wins
     \/ EnvMay /\ Redirect /\ Log("Notice", Phase) /\ wins' = wins \cup {Win}
     \/ LoopTake /\ loop' = "asking" /\ Log("Take", "") /\ UNCHANGED wins
     \/ LoopRefreshed /\ rounds' # rounds /\ Log("Answer", "") /\ UNCHANGED wins
     \/ LoopRefreshed /\ rounds' = rounds /\ Log("Fail", "")
                      /\ wins' = wins \cup {IF trig THEN "fail-with-token" ELSE "fail"}
     \/ LoopWake /\ Log("Wake", "") /\ UNCHANGED wins
  /\ UNCHANGED finished

GenSpec == GenInit /\ [][GenNext \/ Finish]_gvars

\* mandatory strata (exhaustive run, VIEW GenView, ACTION_CONSTRAINT StrataEmit): the path is printed when the loop comes
\* to rest with a converged table; the check takes the shortest path per phase in which a request noticed the stale table
StrataEmit == (~Settled /\ Settled' /\ wins' # {}) => PrintT("@@STRATUM " \o ToJson([wins |-> wins', hist |-> hist']))
=============================================================================
