SPECIFICATION Spec
CONSTANTS
  SharedScratch = FALSE
  SplitWrites = TRUE
INVARIANTS NeverAllDone
CHECK_DEADLOCK FALSE
