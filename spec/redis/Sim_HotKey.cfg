SPECIFICATION SimSpec
CONSTANTS
  Keys = {"a", "b", "c", "d", "e", "f", "g"}
  Caps = {1, 2, 3, 4, 5, 6}
  MaxIncr = 40
  MaxCtl = 3
INVARIANTS StructOK LBounded LExactSinceAdmission LEvictsMinimum
CHECK_DEADLOCK FALSE
