SPECIFICATION SimSpec
CONSTANTS
  Keys = {"a", "b", "c", "d", "e", "f", "g"}
  Caps = {2, 3, 4, 5}
  MaxIncr = 60
  MaxCtl = 2
INVARIANTS StructOK LBounded LExactSinceAdmission LEvictsMinimum
CHECK_DEADLOCK FALSE
