SPECIFICATION Spec
CONSTANTS
  MaxLayout = 3
  MaxFailures = 2
INVARIANTS BoundedRounds
PROPERTIES Converges NoLostTrigger QuitEnds
CHECK_DEADLOCK FALSE
