SPECIFICATION Spec
CONSTANTS
  Reqs = {1, 2, 3, 4}
  MaxGens = 4
  MaxClients = 3
  MaxFaults = 3
  MaxStalls = 1
  MaxAsk = 1
  AskSelectsQuit = TRUE
  ResetStopsUnderLock = FALSE
  Counters = FALSE
  MaxCollects = 0
  MaxCfg = 0
  FreeDestroys = FALSE
  FreeHoldsCounterLock = FALSE
  UpdateLosesDefaults = FALSE
  FixCallEntry = TRUE
  FixResetSnapshot = TRUE
  FixRemoveOwn = TRUE
INVARIANTS ErrorsOnlyWhileDown NoDeadEntry NoOrphanClient NoStaleCall NoWedgedClient
CHECK_DEADLOCK FALSE
