----------------------------- MODULE UpstreamGen -----------------------------
(***************************************************************************)
(* Behaviour emitter for Upstream: the same actions, plus a history        *)
(* variable that records, per step, the action, the goroutine role that    *)
(* performs it, the verifhook point at which that goroutine parks          *)
(* afterwards, and the observable state of the real client after the step  *)
(* (queue lengths, latches, completions).  Run with -simulate: when a      *)
(* behaviour can no longer continue, Finish prints it as one JSON line.    *)
(***************************************************************************)
EXTENDS Upstream, Json

VARIABLES hist, finished

gvars == <<vars, hist, finished>>

SenderGate(r) ==
  CASE spc[r] = "send"      -> "client.Send"
    [] spc[r] = "checked"   -> "client.Send.checked"
    [] spc[r] = "enqueued"  -> "client.Send.enqueued"
    [] spc[r] = "selfdrain" -> IF sdr[r] = NoReq THEN "client.drain.select" ELSE "client.drain.answer"
    [] OTHER                -> ""

WriterGate ==
  CASE w = "select"  -> "client.loopWrite.select"
    [] w = "have"    -> "client.loopWrite.got"
    [] w = "handoff" -> "client.loopWrite.handoff"
    [] OTHER         -> ""

ReaderGate ==
  CASE rd = "decode"  -> "client.loopRead.decode"
    [] rd = "decoded" -> "client.loopRead.decoded"
    [] rd = "paired"  -> "client.loopRead.paired"
    [] OTHER ->
       CASE main = "run"        -> "client.Start.readDone"
         [] main = "quitClosed" -> "client.Start.quitClosed"
         [] main = "writeDone"  -> IF mdr = NoReq THEN "client.drain.select" ELSE "client.drain.answer"
         [] main = "drained"    -> "client.Start.drained"
         [] OTHER               -> ""

StopGate ==
  CASE stp = "stop" -> "client.Stop"
    [] stp = "wait" -> "client.Stop.quitClosed"
    [] stp = "waitDone" -> IF done THEN "client.Stop.done" ELSE ""
    [] OTHER        -> ""

Obs == [pend |-> Len(pend), proc |-> Len(proc), quit |-> quit, done |-> done,
        compl |-> compl, res |-> res]

\* role: "S" (sender of request r), "W", "R", "X", "env"
Gate(role, r) ==
  CASE role = "S" -> SenderGate(r)
    [] role = "W" -> WriterGate
    [] role = "R" -> ReaderGate
    [] role = "X" -> StopGate
    [] OTHER      -> ""

Log(a, role, r) ==
  hist' = Append(hist, [a |-> a, role |-> role, r |-> r, next |-> Gate(role, r)', obs |-> Obs'])

\* after an environment action the goroutine it wakes parks at its first point
LogEnv(a, r, wakes) ==
  hist' = Append(hist, [a |-> a, role |-> "env", r |-> r, wakes |-> wakes,
                        next |-> Gate(wakes, r)', obs |-> Obs'])

GenInit == Init /\ hist = <<>> /\ finished = FALSE

Finish ==
  /\ ~finished /\ Stuck /\ \A r \in Reqs : spc[r] # "idle"
  /\ PrintT("@@BEH " \o ToJson(hist))
  /\ finished' = TRUE
  /\ UNCHANGED <<vars, hist>>

GenNext ==
  /\ ~finished
  /\ \/ \E r \in Reqs :
          \/ CallSend(r) /\ LogEnv("CallSend", r, "S")
          \/ SendCheck(r) /\ Log("SendCheck", "S", r)
          \/ SendEnqueue(r) /\ Log("SendEnqueue", "S", r)
          \/ SendRecheck(r) /\ Log("SendRecheck", "S", r)
          \/ SendDrainTake(r) /\ Log("SendDrainTake", "S", r)
          \/ SendDrainAnswer(r) /\ Log("SendDrainAnswer", "S", r)
     \/ WriterSelect /\ Log("WriterSelect", "W", "")
     \/ WriterFiltered /\ Log("WriterFiltered", "W", "")
     \/ WriterEncode /\ Log("WriterEncode", "W", "")
     \/ WriterHandoff /\ Log("WriterHandoff", "W", "")
     \/ BackendReply /\ LogEnv("BackendReply", "", "R")
     \/ BackendReset /\ LogEnv("BackendReset", "", "R")
     \/ ReaderDecode /\ Log("ReaderDecode", "R", "")
     \/ ReaderPair /\ Log("ReaderPair", "R", "")
     \/ ReaderHandle /\ Log("ReaderHandle", "R", "")
     \/ MainAfterRead /\ Log("MainAfterRead", "R", "")
     \/ MainWaitWrite /\ Log("MainWaitWrite", "R", "")
     \/ MainDrainTake /\ Log("MainDrainTake", "R", "")
     \/ MainDrainAnswer /\ Log("MainDrainAnswer", "R", "")
     \/ MainDone /\ Log("MainDone", "R", "")
     \/ CallStop /\ LogEnv("CallStop", "", "X")
     \/ StopQuit /\ Log("StopQuit", "X", "")
     \/ StopClose /\ Log("StopClose", "X", "")
     \/ StopReturn /\ Log("StopReturn", "X", "")
  /\ UNCHANGED finished

GenSpec == GenInit /\ [][GenNext \/ Finish]_gvars
=============================================================================
