----------------------------- MODULE UpstreamGen -----------------------------
(***************************************************************************)
(* Behaviour emitter for Upstream: the same actions, plus a history        *)
(* variable that records, per step, the action, the goroutine role that    *)
(* performs it, the verifhook point at which that goroutine parks          *)
(* afterwards, and the observable state of the real client after the step  *)
(* (queue lengths, latches, completions) and the named windows of Upstream *)
(* that hold after the step.  Run with -simulate: when a behaviour can no  *)
(* longer continue, Finish prints it as one JSON line                      *)
(* [at |-> stratum of the fault point, steps |-> history]; checks/c02.py   *)
(* draws a mandatory stratum of behaviours per named window from them.     *)
(***************************************************************************)
EXTENDS Upstream, Json

CONSTANTS FaultPoints,  \* the strata of the fault point (see FaultPoint); {"any"} = unconstrained
          EmitViolating \* TRUE (configurations of a broken variant): print a behaviour as soon as it violates a safety
                        \* property of Upstream and nothing else - the counterexample is replayed on the real code as a
                        \* schedule (the real code leaves it where the broken variant deviates, unless it is that variant)

VARIABLES hist, finished,
          fat          \* the stratum of this behaviour: where the fault strikes (chosen in the initial state)

gvars == <<vars, hist, finished, fat>>

(***************************************************************************)
(* Stratification of the fault point.  The property quantifies over every  *)
(* point at which the backend connection can be stopped or lost; uniform   *)
(* simulation puts the fault early in most behaviours and almost never     *)
(* into the narrow windows.  A behaviour of stratum f closes the quit      *)
(* latch through Stop (StopQuit), or breaks the connection (BackendReset), *)
(* only in a state that satisfies FaultPoint(f).                           *)
(***************************************************************************)
FaultPoint(f) ==
  CASE f = "any"                -> TRUE
    [] f = "reader-holds-reply" -> rd = "decoded" /\ proc = <<>>            \* a decoded reply, nothing to pair it with yet
    [] f = "writer-handoff"     -> w = "handoff"                           \* the writer holds a request, in neither queue
    [] f = "writer-ask"         -> w = "have" /\ wreq \in Asking           \* ... about to hand the ASKING placeholder over
    [] f = "writer-got"         -> w = "have"                              \* ... about to encode and flush
    [] f = "sender-checked"     -> \E r \in Reqs : spc[r] = "checked"      \* a sender past the quit check, not yet enqueued
    [] f = "sender-after-drain" -> \E r \in Reqs : spc[r] = "checked"      \* ... and held there until Start has drained
    [] f = "sender-enqueued"    -> (\E r \in Reqs : spc[r] = "enqueued") /\ proc # <<>> /\ rd = "decoded"
                                                                           \* a sender between its enqueue and its look at the latch,
                                                                           \* requests in flight, a reply decoded
    [] f = "writer-filtered"    -> w = "filtered" /\ wbuf # <<>> /\ pend = <<>> \* the filter answered the request in hand, older
                                                                           \* requests wait in the write buffer for the flush
    [] f = "queues-loaded"      -> pend # <<>> /\ proc # <<>>              \* requests queued and requests in flight
    [] f = "reader-paired"      -> rd = "paired"                           \* the reader holds a request and its reply
    [] OTHER                    -> FALSE

SenderGate(r) ==
  CASE spc[r] = "send"      -> "client.Send"
    [] spc[r] = "checked"   -> "client.Send.checked"
    [] spc[r] = "enqueued"  -> "client.Send.enqueued"
    [] spc[r] = "selfdrain" -> IF sdr[r] = NoReq THEN "client.drain.select" ELSE "client.drain.answer"
    [] OTHER                -> ""

WriterGate ==
  CASE w = "select"  -> "client.loopWrite.select"
    [] w = "have"    -> "client.loopWrite.got"
    [] w = "filtered" -> "client.loopWrite.filtered"
    [] w = "asked"   -> "client.loopWrite.asked"
    [] w = "handoff" -> "client.loopWrite.handoff"
    [] OTHER         -> ""

ReaderGate ==
  CASE rd = "decode"  -> "client.loopRead.decode"
    [] rd = "decoded" -> "client.loopRead.decoded"
    [] rd = "paired"  -> "client.loopRead.paired"
    [] OTHER ->
       CASE main = "run"        -> "client.Start.readDone"
         [] main = "quitClosed" -> "client.Start.quitClosed"
         [] main = "writeDone"  -> IF mdr = NoReq THEN "client.drain.select" ELSE "client.drain.answer"
         [] main = "drained"    -> "client.Start.drained"
         [] OTHER               -> ""

StopGate ==
  CASE stp = "stop" -> "client.Stop"
    [] stp = "wait" -> "client.Stop.quitClosed"
    [] stp = "waitDone" -> IF done THEN "client.Stop.done" ELSE ""
    [] OTHER        -> ""

Obs == [pend |-> Len(pend), proc |-> Len(proc), quit |-> quit, done |-> done,
        compl |-> compl, res |-> res]

\* the named windows of Upstream that hold in the current state (the check draws a mandatory stratum of behaviours per window)
WindowNames == <<"W_SenderEnqueuedAtQuit", "W_FilteredFlushOnDeadConn", "W_CheckedThenQuit", "W_EnqueueAfterDrain", "W_WriterHandoffQuit", "W_ReaderWaitsForHandoff",
                 "W_SenderBlockedOnDeadQueue", "W_AskHandoffQuit", "W_AskHandoffBlocked", "W_ReaderHoldsReplyAtQuit">>
WindowHolds(n) ==
  CASE n = "W_CheckedThenQuit"          -> W_CheckedThenQuit
    [] n = "W_SenderEnqueuedAtQuit"     -> W_SenderEnqueuedAtQuit
    [] n = "W_FilteredFlushOnDeadConn"  -> W_FilteredFlushOnDeadConn
    [] n = "W_EnqueueAfterDrain"        -> W_EnqueueAfterDrain
    [] n = "W_WriterHandoffQuit"        -> W_WriterHandoffQuit
    [] n = "W_ReaderWaitsForHandoff"    -> W_ReaderWaitsForHandoff
    [] n = "W_SenderBlockedOnDeadQueue" -> W_SenderBlockedOnDeadQueue
    [] n = "W_AskHandoffQuit"           -> W_AskHandoffQuit
    [] n = "W_AskHandoffBlocked"        -> W_AskHandoffBlocked
    [] n = "W_ReaderHoldsReplyAtQuit"   -> W_ReaderHoldsReplyAtQuit
    [] OTHER                            -> FALSE
Wins == {WindowNames[i] : i \in {j \in 1..Len(WindowNames) : WindowHolds(WindowNames[j])}}

\* role: "S" (sender of request r), "W", "R", "X", "env"
Gate(role, r) ==
  CASE role = "S" -> SenderGate(r)
    [] role = "W" -> WriterGate
    [] role = "R" -> ReaderGate
    [] role = "X" -> StopGate
    [] OTHER      -> ""

Log(a, role, r) ==
  hist' = Append(hist, [a |-> a, role |-> role, r |-> r, next |-> Gate(role, r)', obs |-> Obs', win |-> Wins'])

\* after an environment action the goroutine it wakes parks at its first point
LogEnv(a, r, wakes) ==
  hist' = Append(hist, [a |-> a, role |-> "env", r |-> r, wakes |-> wakes,
                        next |-> Gate(wakes, r)', obs |-> Obs', win |-> Wins'])

GenInit == Init /\ hist = <<>> /\ finished = FALSE /\ fat \in FaultPoints

Lost == Stuck /\ \E r \in Reqs : spc[r] # "idle" /\ compl[r] # 1
Violating == ~AtMostOnce \/ ~OwnReply \/ Lost

Finish ==
  /\ ~finished
  /\ IF EmitViolating THEN Violating ELSE Stuck /\ \A r \in Reqs : spc[r] # "idle"
  /\ PrintT("@@BEH " \o ToJson([at |-> fat, steps |-> hist]))
  /\ finished' = TRUE
  /\ UNCHANGED <<vars, hist, fat>>

\* in a stratum other than "any" Stop is called first (the stopper parks in front of the quit latch) and the fault
\* strikes as soon as the fault point is reached
Armed == fat # "any" /\ FaultPoint(fat) /\ (stp = "stop" \/ ENABLED BackendReset)

\* stratum "reader-holds-reply": the writer is slow at its hand-over while the answer to the request in its hand is on
\* its way, so that the reader decodes a reply it cannot pair yet
HeldAtHandoff ==
  fat = "reader-holds-reply" /\ ~quit /\ connOpen /\ proc = <<>> /\ (wire # <<>> \/ replies # <<>>)

\* stratum "sender-after-drain": a sender that has passed the quit check is slow until Start has finished its drain
HeldAtEnqueue == fat = "sender-after-drain" /\ quit /\ main \notin {"drained", "done"}

\* stratum "sender-enqueued": a sender is slow between its enqueue and its look at the latch until the fault
HeldAtRecheck == fat = "sender-enqueued" /\ ~quit

GenNext ==
  /\ ~finished /\ ~(EmitViolating /\ Violating)
  /\ IF fat # "any" /\ stp = "idle" /\ WithStop
       THEN CallStop /\ LogEnv("CallStop", "", "X")
       ELSE IF Armed
       THEN \/ StopQuit /\ Log("StopQuit", "X", "")
            \/ BackendReset /\ LogEnv("BackendReset", "", "R")
       ELSE
     \/ \E r \in Reqs :
          \/ CallSend(r) /\ LogEnv("CallSend", r, "S")
          \/ SendCheck(r) /\ Log("SendCheck", "S", r)
          \/ SendEnqueue(r) /\ ~HeldAtEnqueue /\ Log("SendEnqueue", "S", r)
          \/ SendRecheck(r) /\ ~HeldAtRecheck /\ Log("SendRecheck", "S", r)
          \/ SendDrainTake(r) /\ Log("SendDrainTake", "S", r)
          \/ SendDrainAnswer(r) /\ Log("SendDrainAnswer", "S", r)
     \/ WriterSelect /\ Log("WriterSelect", "W", "")
     \/ WriterFiltered /\ Log("WriterFiltered", "W", "")
     \/ WriterFilteredFlush /\ Log("WriterFilteredFlush", "W", "")
     \/ WriterAsk /\ Log("WriterAsk", "W", "")
     \/ WriterEncode /\ Log("WriterEncode", "W", "")
     \/ WriterHandoff /\ ~HeldAtHandoff /\ Log("WriterHandoff", "W", "")
     \/ BackendReply /\ LogEnv("BackendReply", "", "R")
     \/ BackendReset /\ fat = "any" /\ LogEnv("BackendReset", "", "R")
     \/ ReaderDecode /\ Log("ReaderDecode", "R", "")
     \/ ReaderPair /\ Log("ReaderPair", "R", "")
     \/ ReaderHandle /\ Log("ReaderHandle", "R", "")
     \/ MainAfterRead /\ Log("MainAfterRead", "R", "")
     \/ MainWaitWrite /\ Log("MainWaitWrite", "R", "")
     \/ MainDrainTake /\ Log("MainDrainTake", "R", "")
     \/ MainDrainAnswer /\ Log("MainDrainAnswer", "R", "")
     \/ MainDone /\ Log("MainDone", "R", "")
     \/ CallStop /\ LogEnv("CallStop", "", "X")
     \/ StopQuit /\ fat = "any" /\ Log("StopQuit", "X", "")
     \/ StopClose /\ Log("StopClose", "X", "")
     \/ StopReturn /\ Log("StopReturn", "X", "")
  /\ UNCHANGED <<finished, fat>>

GenSpec == GenInit /\ [][GenNext \/ Finish]_gvars
=============================================================================
