SPECIFICATION Spec
CONSTANTS
  MaxLayout = 3
  MaxFailures = 2
  DrainOnSuccess = FALSE
  SkipUnchanged = FALSE
  RearmOnlyAfterTrigger = FALSE
  Strategy = "REPLICA"
INVARIANTS NoReplicaStale
CHECK_DEADLOCK FALSE
