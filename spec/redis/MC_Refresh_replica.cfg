SPECIFICATION Spec
CONSTANTS
  MaxLayout = 3
  MaxFailures = 2
  DrainOnSuccess = FALSE
  SkipUnchanged = FALSE
  RearmOnlyAfterTrigger = FALSE
  Strategy = "REPLICA"
INVARIANTS BoundedRounds TriggerKept
PROPERTIES Converges NoLostTrigger QuitEnds
CHECK_DEADLOCK FALSE
