SPECIFICATION GenSpec
CONSTANTS
  Reqs = {"r1", "r2", "r3"}
  QCap = 2
  FixHandoff = TRUE
  FixSend = TRUE
  FixReader = FALSE
  Banned = {}
  Asking = {}
  AskAnswersInHand = TRUE
  DrainAfterStopped = TRUE
  FilteredFailAnswers = FALSE
  BufCap = 3
  FixFlushOnStop = TRUE
  MaxResets = 1
  WithStop = TRUE
  Det = TRUE
  EmitViolating = TRUE
  FaultPoints = {"reader-holds-reply"}
CHECK_DEADLOCK FALSE
