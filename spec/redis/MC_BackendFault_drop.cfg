SPECIFICATION Spec
CONSTANTS
  NPlain = 3
  QCap = 2
  AskQuitExit = "drop"
  Faults = {"eof", "rst", "garbage", "stop", "remove"}
INVARIANTS TypeOK NoLost

CHECK_DEADLOCK FALSE
