------------------------------- MODULE RespGen -------------------------------
(***************************************************************************)
(* C10, enumeration and emission (spec -> code).  One state variable st;   *)
(* four state machines that each enumerate a bounded space breadth first   *)
(* (a transition extends a text / an element list / a message list / a cut *)
(* list by one item, so TLC's workers share the enumeration), check the    *)
(* property predicates of Resp / RespReader on every state and print the   *)
(* test vector of the state as one JSON line:                              *)
(*                                                                         *)
(*  ValSpec  @@VAL  every value of bounded size over the structural bytes  *)
(*                  with its encoding and the cut candidates;              *)
(*  CatSpec  @@CAT  every concatenation of <= MaxCat messages of Msgs      *)
(*                  (values and inline commands) with the expected         *)
(*                  messages and end offsets;                              *)
(*  RdSpec   @@RD   long lines / payloads around the buffer size and the   *)
(*                  allocator thresholds x buffer sizes x explicit         *)
(*                  chunkings, with the reads and branches predicted by    *)
(*                  RespReader;                                            *)
(*  IntSpec  @@INT  integer text forms with the result of ParseInt,        *)
(*           @@ITOA decimal texts of the integers around the itoa table.   *)
(***************************************************************************)
EXTENDS RespReader, Json

CONSTANTS
  K,        \* ValSpec: maximal payload length
  N,        \* ValSpec: maximal number of elements of an array of leaves
  NN,       \* ValSpec: maximal number of elements of a nested array
  MaxCat,   \* CatSpec: maximal number of messages
  NMsgs,    \* CatSpec: how many entries of Msgs are used
  Caps,     \* RdSpec: buffer sizes
  MaxCuts,  \* RdSpec: maximal number of cut points
  KI        \* IntSpec: maximal length of the enumerated integer texts

VARIABLE st

ZERO == 48
ONE  == 49
LA   == 97     \* 'a'

\* every structural byte of the protocol plus digits and a letter
Alphabet  == {PLUS, MINUS, COLON, DOLLAR, STAR, CR, LF, SP, ZERO, ONE, LA}

Pos(d) == IntV(FALSE, d)
Neg(d) == IntV(TRUE, d)

\* integers: small, the bounds of the itoa table (-128 .. 32768), the bounds of the btoi64 fast
\* path (fewer than 10 characters), 32 bit and 64 bit bounds
IntVals ==
  { Pos(<<0>>), Pos(<<1>>), Neg(<<1>>), Pos(<<9>>), Pos(<<1,0>>), Neg(<<1,0>>),
    Pos(<<1,2,7>>), Neg(<<1,2,7>>), Neg(<<1,2,8>>), Neg(<<1,2,9>>),
    Pos(<<3,2,7,6,7>>), Pos(<<3,2,7,6,8>>), Pos(<<3,2,7,6,9>>),
    Pos(<<9,9,9,9,9,9,9,9>>), Neg(<<9,9,9,9,9,9,9,9>>),
    Pos(<<9,9,9,9,9,9,9,9,9>>), Neg(<<9,9,9,9,9,9,9,9,9>>),
    Pos(<<1,0,0,0,0,0,0,0,0,0>>), Neg(<<1,0,0,0,0,0,0,0,0,0>>),
    Pos(<<2,1,4,7,4,8,3,6,4,7>>), Pos(<<2,1,4,7,4,8,3,6,4,8>>), Neg(<<2,1,4,7,4,8,3,6,4,8>>),
    Neg(<<2,1,4,7,4,8,3,6,4,9>>), Pos(<<4,2,9,4,9,6,7,2,9,6>>),
    Pos(MaxPos), Neg(MaxNeg), Neg(MaxPos),
    Pos(<<9,2,2,3,3,7,2,0,3,6,8,5,4,7,7,5,8,0,6>>),
    Pos(<<1,0,0,0,0,0,0,0,0,0,0,0,0,0,0,0,0,0,0>>), Neg(<<1,0,0,0,0,0,0,0,0,0,0,0,0,0,0,0,0,0,0>>) }

----------------------------------------------------------------------------
\* ValSpec

ArrElems ==
  { Simple(<<>>), Simple(<<79, 75>>), Err(<<LA>>), Pos(<<0>>), Neg(<<1>>), Pos(MaxPos), Neg(MaxNeg),
    Bulk(<<>>), Bulk(<<LA>>), Bulk(CRLF), Bulk(<<DOLLAR, ONE, CR, LF>>), NullBulk }

NestElems ==
  { NullArr, Arr(<<>>), Arr(<<Bulk(<<LA>>)>>), Arr(<<Pos(<<1>>), NullBulk>>), Arr(<<Arr(<<>>), NullArr>>),
    Arr(<<Arr(<<Arr(<<Simple(<<LA>>)>>)>>)>>),
    Bulk(<<STAR, ONE>>), Pos(<<1>>), Simple(<<>>) }

ValInit ==
  \/ st \in {[k |-> "text", x |-> <<>>], [k |-> "arr", x |-> <<>>]}
  \/ st \in {[k |-> "one", x |-> <<v>>] : v \in IntVals \cup {NullBulk, NullArr}}
  \/ st \in {[k |-> "nest", x |-> <<e>>] : e \in NestElems}

ValNext ==
  \/ st.k = "text" /\ Len(st.x) < K /\ \E b \in Alphabet : st' = [st EXCEPT !.x = Append(@, b)]
  \/ st.k = "arr" /\ Len(st.x) < N /\ \E e \in ArrElems : st' = [st EXCEPT !.x = Append(@, e)]
  \/ st.k = "nest" /\ Len(st.x) < NN /\ \E e \in NestElems : st' = [st EXCEPT !.x = Append(@, e)]

ValSpec == ValInit /\ [][ValNext]_st

ValuesOf(s) ==
  CASE s.k = "text" -> {Bulk(s.x)} \cup (IF IsLineText(s.x) THEN {Simple(s.x), Err(s.x)} ELSE {})
    [] s.k = "one"  -> {s.x[1]}
    [] OTHER        -> {Arr(s.x)}

\* cut candidates of a stream: every position when it is short, else the positions around
\* the ends of lines and of the stream
CutCands(bytes) ==
  LET L == Len(bytes) IN
  IF L <= 14 THEN 1..(L - 1)
  ELSE {p \in 1..(L - 1) : \/ p <= 2 \/ p >= L - 2
                           \/ bytes[p] \in {CR, LF}
                           \/ bytes[p + 1] = CR
                           \/ (p > 1 /\ bytes[p - 1] = LF)}

ValHolds ==
  \A v \in ValuesOf(st) :
    /\ IsValue(v)
    /\ RoundTrip(v)
    /\ ReEncode(Encode(v))
    /\ ExactConsumption(Encode(v))

EmitVal ==
  \A v \in ValuesOf(st) :
    PrintT("@@VAL " \o ToJson([v |-> v, e |-> Encode(v), p |-> SetToSortSeq(CutCands(Encode(v)), <)]))

----------------------------------------------------------------------------
\* CatSpec: messages are values (sent in canonical encoding) or inline commands

Val(v) == [b |-> Encode(v), v |-> v]
Inl(words, gaps) == [b |-> InlineBytes(words, gaps), v |-> ArrayOfBulks(words)]

Msgs ==
  << Val(Simple(<<79, 75>>)),
     Val(Bulk(<<LA>>)),
     Inl(<<<<LA>>, <<ONE>>>>, <<0, 1, 0>>),
     Val(Arr(<<Bulk(<<LA>>), Bulk(<<>>)>>)),
     Val(NullBulk),
     Val(Neg(<<1>>)),
     Val(Bulk(CRLF)),
     Val(Arr(<<>>)),
     Inl(<<<<ONE, PLUS>>, <<MINUS>>, <<LA, COLON>>>>, <<2, 1, 3, 1>>),
     Val(Err(<<LA, SP, ONE>>)),
     Val(NullArr),
     Val(Bulk(<<>>)),
     \* beyond the quick tier
     Val(Simple(<<>>)),
     Val(Pos(MaxPos)),
     Val(Neg(MaxNeg)),
     Val(Arr(<<Arr(<<NullBulk, Arr(<<>>)>>), Pos(<<0>>), NullArr>>)),
     Val(Bulk(<<DOLLAR, MINUS, ONE, CR, LF>>)),
     Val(Bulk(<<STAR, ONE, CR, LF, DOLLAR, ONE, CR, LF, LA>>)),
     Inl(<<<<LA>>>>, <<0, 0>>),
     Inl(<<<<ZERO>>, <<DOLLAR, ONE>>>>, <<1, 2, 0>>),
     Val(Err(<<>>)),
     Val(Pos(<<0>>)),
     Val(Arr(<<Simple(<<PLUS>>), Err(<<MINUS>>), Pos(<<3,2,7,6,9>>)>>)),
     Val(Bulk(<<LF>>)),
     Val(Bulk(<<CR>>)),
     Inl(<<<<LA, LA>>, <<STAR>>, <<ONE>>, <<ZERO>>>>, <<0, 1, 1, 1, 1>>) >>

ASSUME NMsgs <= Len(Msgs)

CatInit == st = [k |-> "cat", x |-> <<>>]
CatNext == /\ Len(st.x) < MaxCat
           /\ \E i \in 1..NMsgs : st' = [st EXCEPT !.x = Append(@, i)]
CatSpec == CatInit /\ [][CatNext]_st

CatStream(x) == FoldLeft(LAMBDA acc, i : acc \o Msgs[i].b, <<>>, x)
CatEnds(x)   == [k \in 1..Len(x) |-> Len(CatStream(SubSeq(x, 1, k)))]
CatMsgs(x)   == [k \in 1..Len(x) |-> Msgs[x[k]].v]

\* message boundaries are cut candidates as well
CatCands(x) ==
  LET s == CatStream(x) IN
  CutCands(s) \cup {p \in 1..(Len(s) - 1) : \E k \in 1..Len(x) : p \in {CatEnds(x)[k] - 1, CatEnds(x)[k], CatEnds(x)[k] + 1}}

CatHolds ==
  /\ DecodeAll(CatStream(st.x)) = [msgs |-> CatMsgs(st.x), ends |-> CatEnds(st.x), tail |-> "eof"]
  \* cutting the stream anywhere inside message k yields exactly the k-1 messages before it
  /\ \A k \in 1..Len(st.x) :
       LET lo == IF k = 1 THEN 0 ELSE CatEnds(st.x)[k - 1] IN
       \A n \in (lo + 1)..(CatEnds(st.x)[k] - 1) :
         LET d == DecodeAll(SubSeq(CatStream(st.x), 1, n)) IN
         d.msgs = SubSeq(CatMsgs(st.x), 1, k - 1) /\ d.tail = "incomplete"

MsgsAreWellFormed ==
  \A i \in 1..Len(Msgs) : IsValue(Msgs[i].v) /\ DecodeAll(Msgs[i].b).msgs = <<Msgs[i].v>>

ASSUME MsgsAreWellFormed

EmitCat ==
  st.x # <<>> =>
    PrintT("@@CAT " \o ToJson([i |-> st.x, s |-> CatStream(st.x), m |-> CatMsgs(st.x),
                              e |-> CatEnds(st.x), p |-> SetToSortSeq(CatCands(st.x), <)]))

----------------------------------------------------------------------------
\* RdSpec: long lines and payloads x buffer sizes x explicit chunkings

\* a payload of n bytes: three runs of different letters, so that a buffer fragment returned in the
\* place of another one is visible in the decoded value
As(n) == IF n < 6 THEN [i \in 1..n |-> LA]
         ELSE <<Run(LA, n \div 3), Run(98, n \div 3), Run(99, n - 2 * (n \div 3))>>

\* line lengths (payload of a simple string / error / inline word) that make the line end
\* around the end of a buffer of size B (type byte + n + CR LF) and around the allocator
\* thresholds (ReadBytes allocates n + 2 after the type byte, n + 3 for inline)
LineLens(B) == {B - 4, B - 3, B - 2, B - 1, B, B + 1, 2 * B}
                 \cup (IF B < 4096 THEN {2 * B - 2, 2 * B + 1, 3 * B + 5} ELSE {})
                 \cup {508, 509, 510, 511} \cup {8188, 8189, 8190, 8191}
\* bulk payload lengths: ReadFull(n + 2)
BulkLens(B) == {0, 1, 2, B - 7, B - 6, B - 3, B - 2, B - 1, B, B + 1, 2 * B, 2 * B + 1}
                 \cup {509, 510, 511} \cup {8189, 8190, 8191, 8192}

Pre  == Simple(<<79, 75>>)
Post == Pos(<<1>>)

\* a message class: list of [b |-> bytes (rope), v |-> value]
RdCore(B) ==
  {<<Val(Simple(As(n)))>> : n \in LineLens(B)}
    \cup {<<Val(Err(As(n)))>> : n \in {B - 2, B - 1, 2 * B}}
    \cup {<<Inl(<<As(n)>>, <<0, 0>>)>> : n \in {B - 3, B - 2, B - 1, 2 * B, 510, 8190}}
    \cup {<<Inl(<<As(n), <<ONE>>>>, <<0, 2, 1>>)>> : n \in {B - 6, B}}
    \cup {<<Val(Bulk(As(n)))>> : n \in BulkLens(B)}
    \cup {<<Val(Arr(<<Bulk(As(n)), Bulk(As(3))>>))>> : n \in {B - 12, B - 11, B}}
    \* enough small allocations to exhaust one slab
    \cup {<<Val(Arr([i \in 1..44 |-> Bulk(As(198))]))>>}
    \cup {<<Val(Arr([i \in 1..20 |-> Simple(As(500))]))>>}

RdClasses(B) ==
  RdCore(B) \cup {<<Val(Pre)>> \o c \o <<Val(Post)>> : c \in RdCore(B)}

RdStream(c) == FoldLeft(LAMBDA acc, m : acc \o m.b, <<>>, c)
RdEnds(c)   == [k \in 1..Len(c) |-> RopeLen(RdStream(SubSeq(c, 1, k)))]
RdMsgs(c)   == [k \in 1..Len(c) |-> c[k].v]

\* cut candidates: around message boundaries, around multiples of the buffer size, after the
\* first line of each message, near the end
RdCands(c, B) ==
  LET L == RopeLen(RdStream(c))
      E == RdEnds(c)
      starts == {0} \cup {E[k] : k \in 1..Len(c)}
  IN {p \in {1, B - 1, B, B + 1, 2 * B, L - 2, L - 1} \cup
            UNION {{e - 1, e, e + 1, e + 2, e + 5, e + 6, e + B, e + B + 1} : e \in starts} : p >= 1 /\ p <= L - 1}

ChunksOf(cuts, L) ==
  LET c == <<0>> \o cuts \o <<L>> IN [i \in 1..(Len(c) - 1) |-> c[i + 1] - c[i]]

\* roots only spread the enumeration of the classes over TLC's workers
RdRoots == 8
RdInit == st \in {[k |-> "rdroot", cap |-> B, i |-> i] : B \in Caps, i \in 0..(RdRoots - 1)}

RdNext ==
  \/ /\ st.k = "rdroot"
     /\ LET cs == SetToSeq(RdClasses(st.cap)) IN
        \E j \in 1..Len(cs) :
          /\ j % RdRoots = st.i
          /\ \/ st' = [k |-> "rd", cap |-> st.cap, c |-> cs[j], cuts |-> <<>>, all |-> FALSE]
             \* byte by byte for the streams that are not too long for the model
             \/ /\ RopeLen(RdStream(cs[j])) <= 300
                /\ st' = [k |-> "rd", cap |-> st.cap, c |-> cs[j], cuts |-> <<>>, all |-> TRUE]
  \/ /\ st.k = "rd"
     /\ ~st.all
     /\ Len(st.cuts) < MaxCuts
     /\ \E p \in RdCands(st.c, st.cap) :
          /\ (IF st.cuts = <<>> THEN TRUE ELSE p > st.cuts[Len(st.cuts)])
          /\ st' = [st EXCEPT !.cuts = Append(@, p)]

RdSpec == RdInit /\ [][RdNext]_st

RdChunks(s) ==
  LET L == RopeLen(RdStream(s.c)) IN
  IF s.all THEN [i \in 1..L |-> 1] ELSE ChunksOf(s.cuts, L)

\* one evaluation of both decoders per state: the property predicates, then the vector
RdHoldsEmit ==
  st.k = "rd" =>
    LET flat == Flat(RdStream(st.c))
        a == DecodeAll(flat)
        c == RDecodeAll(flat, RdChunks(st), st.cap)
    IN /\ a = [msgs |-> [k \in 1..Len(st.c) |-> FlatV(st.c[k].v)], ends |-> RdEnds(st.c), tail |-> "eof"]
       /\ c.msgs = a.msgs /\ c.ends = a.ends /\ c.st = "err" /\ c.err = "EOF"
       /\ PrintT("@@RD " \o ToJson([cap |-> st.cap, s |-> RdStream(st.c),
                                    c |-> IF st.all THEN <<0>> ELSE RdChunks(st),
                                    m |-> RdMsgs(st.c), e |-> RdEnds(st.c),
                                    r |-> c.reads, br |-> SetToSeq(c.br), al |-> c.allocs]))

----------------------------------------------------------------------------
\* RefSpec: the implementation-shaped decoder refines the abstract one on every chunking with
\* at most 3 cuts (and byte by byte) of the short streams of CatSpec, for small buffers too
\* (a scaled-down buffer makes every branch reachable with short streams)

RefCaps == {4, 5, 8, 32}

RefInit == st = [k |-> "ref", x |-> <<>>]
RefNext == /\ Len(st.x) < MaxCat
           /\ \E i \in 1..NMsgs : st' = [st EXCEPT !.x = Append(@, i)]
RefSpec == RefInit /\ [][RefNext]_st

\* increasing cut sequences with at most k <= 3 cuts within 1..L-1
CutSeqs(L, k) ==
  LET P == 1..(L - 1) IN
  {<<>>} \cup {<<a>> : a \in P}
    \cup (IF k >= 2 THEN {c \in {<<a, b>> : a \in P, b \in P} : c[1] < c[2]} ELSE {})
    \cup (IF k >= 3 THEN {c \in {<<a, b, d>> : a \in P, b \in P, d \in P} : c[1] < c[2] /\ c[2] < c[3]} ELSE {})

RefHolds ==
  LET s == CatStream(st.x)
      L == Len(s)
  IN st.x # <<>> =>
       \* the first 12 messages have no length / integer line above 4 bytes
       \A B \in {c \in RefCaps : c >= 32 \/ NMsgs <= 12} :
         /\ Refines(s, [i \in 1..L |-> 1], B)
         /\ \A cs \in CutSeqs(L, IF Len(st.x) = 1 THEN 3 ELSE 2) : Refines(s, ChunksOf(cs, L), B)
         \* truncated streams as well
         /\ \A n \in 1..(L - 1) : Refines(SubSeq(s, 1, n), <<n>>, B)

----------------------------------------------------------------------------
\* IntSpec

IntAlphabet == {PLUS, MINUS, ZERO, ONE, 57, LA, SP}

Nines(n)  == [i \in 1..n |-> 57]
Zeros(n)  == [i \in 1..n |-> ZERO]
Signs     == {<<>>, <<PLUS>>, <<MINUS>>}

\* MaxPos - 1, MaxPos, MaxPos + 1 (= MaxNeg), MaxNeg + 1, 10^19
Bounds == { DigitText(<<9,2,2,3,3,7,2,0,3,6,8,5,4,7,7,5,8,0,6>>), DigitText(MaxPos), DigitText(MaxNeg),
            DigitText(<<9,2,2,3,3,7,2,0,3,6,8,5,4,7,7,5,8,0,9>>),
            DigitText(<<1,0,0,0,0,0,0,0,0,0,0,0,0,0,0,0,0,0,0,0>>),
            DigitText(<<9,2,2,3,3,7,2,0,3,6,8,5,4,7,7,5,8,1,7>>),
            DigitText(<<1,8,4,4,6,7,4,4,0,7,3,7,0,9,5,5,1,6,1,5>>),
            DigitText(<<1,8,4,4,6,7,4,4,0,7,3,7,0,9,5,5,1,6,1,6>>) }

LongForms ==
  UNION { {sg \o Nines(n), sg \o Zeros(n), sg \o Zeros(n) \o <<ONE>>, sg \o <<ONE>> \o Zeros(n)} : sg \in Signs, n \in 0..20 }
    \cup UNION { {sg \o Zeros(z) \o b : z \in {0, 1, 3}} : sg \in Signs, b \in Bounds }
    \cup UNION { { [sg \o b EXCEPT ![i] = c] : i \in 1..Len(sg \o b) } : sg \in Signs, b \in {DigitText(MaxPos), Nines(8), Nines(9), Nines(10)}, c \in {LA, SP, MINUS, PLUS, 47, 58} }
    \cup { <<ONE, 95, ZERO>>, <<ZERO, 120, ONE>>, <<ONE, 46, ZERO>>, <<ONE, 101, ONE>>, <<SP, ONE>>, <<ONE, SP>>, <<ONE, CR>>, <<ONE, 0>> }

ItoaLo == 0 - 400
ItoaChunks == 132       \* 132 * 256 = 33792 integers: -400 .. 33391

IntInit ==
  \/ st = [k |-> "itext", x |-> <<>>]
  \/ st \in {[k |-> "ilong", x |-> t] : t \in LongForms}
  \/ st \in {[k |-> "itoa", x |-> <<c>>] : c \in 0..(ItoaChunks - 1)}

IntNext ==
  /\ st.k = "itext" /\ Len(st.x) < KI
  /\ \E b \in IntAlphabet : st' = [st EXCEPT !.x = Append(@, b)]

IntSpec == IntInit /\ [][IntNext]_st

\* the fast path never disagrees with ParseInt
FastPathAgrees ==
  st.k \in {"itext", "ilong"} =>
    LET f == FastPath(st.x)
        p == ParseInt(st.x)
    IN f.taken => (p.ok /\ p.neg = f.neg /\ p.d = f.d)

\* parsing the canonical text of an integer yields the integer
IntTextRoundTrip ==
  st.k \in {"itext", "ilong"} =>
    LET p == ParseInt(st.x) IN
    p.ok => /\ IsInt64(p.neg, p.d)
            /\ ParseInt(IntText(p.neg, p.d)) = p

SignedText(i) == IF i < 0 THEN <<MINUS>> \o NatText(0 - i) ELSE NatText(i)

EmitInt ==
  CASE st.k \in {"itext", "ilong"} ->
         LET p == ParseInt(st.x) IN
         PrintT("@@INT " \o ToJson(IF p.ok THEN [x |-> st.x, ok |-> TRUE, neg |-> p.neg, d |-> p.d,
                                                 fast |-> FastPath(st.x).taken]
                                   ELSE [x |-> st.x, ok |-> FALSE, fast |-> FastPath(st.x).taken]))
    [] st.k = "itoa" ->
         LET lo == ItoaLo + st.x[1] * 256 IN
         PrintT("@@ITOA " \o ToJson([lo |-> lo, t |-> [j \in 1..256 |-> SignedText(lo + j - 1)]]))
    [] OTHER -> TRUE
=============================================================================
