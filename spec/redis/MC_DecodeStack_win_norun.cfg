SPECIFICATION Spec
CONSTANTS
  MaxDepth = 2
  MaxRun = 9
  BlankPolicy = "error"
  EmptyPolicy = "deliver"
  DepthPolicy = "limit"
INVARIANTS NotW_LongRunNoFrame
CHECK_DEADLOCK FALSE
