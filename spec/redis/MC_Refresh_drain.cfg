SPECIFICATION Spec
CONSTANTS
  MaxLayout = 3
  MaxFailures = 2
  DrainOnSuccess = TRUE
  SkipUnchanged = FALSE
  RearmOnlyAfterTrigger = FALSE
  Strategy = "MASTER"
INVARIANTS TriggerKept
CHECK_DEADLOCK FALSE
