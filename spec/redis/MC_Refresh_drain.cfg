SPECIFICATION Spec
CONSTANTS
  MaxLayout = 3
  MaxFailures = 2
  DrainOnSuccess = TRUE
INVARIANTS TriggerKept
CHECK_DEADLOCK FALSE
