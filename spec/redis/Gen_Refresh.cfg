SPECIFICATION GenSpec
CONSTANTS
  MaxLayout = 3
  MaxFailures = 2
  DrainOnSuccess = FALSE
  MaxSteps = 24
CHECK_DEADLOCK FALSE
