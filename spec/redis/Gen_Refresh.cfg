SPECIFICATION GenSpec
CONSTANTS
  MaxLayout = 3
  MaxFailures = 2
  DrainOnSuccess = FALSE
  SkipUnchanged = FALSE
  Strategy = "REPLICA"
  MaxSteps = 24
CHECK_DEADLOCK FALSE
