SPECIFICATION GenSpec
CONSTANTS
  MaxLayout = 3
  MaxFailures = 2
  DrainOnSuccess = FALSE
  SkipUnchanged = FALSE
  RearmOnlyAfterTrigger = FALSE
  Strategy = "REPLICA"
  MaxSteps = 24
  Periodic = FALSE
CHECK_DEADLOCK FALSE
