------------------------------ MODULE RouteGen ------------------------------
(***************************************************************************)
(* Behaviour emitter for Route (run with -simulate): the same actions plus *)
(* a history variable and the set of windows the behaviour went through.   *)
(* Finish prints one JSON line per completed behaviour: the strategy, the  *)
(* layout, the steps (session, request, candidate stored, index picked and *)
(* destination), the windows, and - per (shard, kind) - the nodes the      *)
(* property allows; the harness runs the sessions' requests on real        *)
(* processors (concurrently where the behaviour overlaps decisions) and    *)
(* judges every arrival at a backend by that table.                        *)
(***************************************************************************)
EXTENDS Route, Json

VARIABLES hist, win, finished

gvars == <<vars, hist, win, finished>>

Windows ==
  (IF W_OverlapForeign THEN {"W_OverlapForeign"} ELSE {}) \cup
  (IF W_OverlapSame THEN {"W_OverlapSame"} ELSE {}) \cup
  (IF W_WriteDuringRead THEN {"W_WriteDuringRead"} ELSE {}) \cup
  (IF W_RejectDuringRouting THEN {"W_RejectDuringRouting"} ELSE {}) \cup
  (IF W_UpdateDuringRouting THEN {"W_UpdateDuringRouting"} ELSE {}) \cup
  (IF W_RouteAfterUpdate THEN {"W_RouteAfterUpdate"} ELSE {})

Log(e) == hist' = Append(hist, e) /\ win' = win \cup Windows' /\ UNCHANGED finished

GenInit == Init /\ hist = <<>> /\ win = {} /\ finished = FALSE

AllowedTable ==
  {[st |-> st, sh |-> m, kind |-> k, nodes |-> Allowed(st, m, k)] : st \in Strategies, m \in Shards, k \in Kinds}

Finish ==
  /\ ~finished /\ Done
  /\ PrintT("@@BEH " \o ToJson([strategy |-> strategy0, nrep |-> NRep, shards |-> Shards, hist |-> hist,
                                windows |-> win, allowed |-> AllowedTable,
                                dests |-> {[s |-> s, d |-> dest[s]] : s \in Sessions}]))
  /\ finished' = TRUE
  /\ UNCHANGED <<vars, hist, win>>

GenNext ==
  /\ ~finished
  /\ \/ \E s \in Sessions :
          \/ \E m \in Shards, k \in Kinds :
                Issue(s, m, k) /\ Log([a |-> "issue", s |-> s, sh |-> m, kind |-> k])
          \/ Dispatch(s) /\ Log([a |-> "dispatch", s |-> s, reply |-> reply'[s]])
          \/ Lookup(s) /\ Log([a |-> "lookup", s |-> s, dest |-> dest'[s]])
          \/ Store(s) /\ Log([a |-> "store", s |-> s, at |-> n'[s]])
          \/ \E i \in 1..MaxC : Pick(s, i) /\ Log([a |-> "pick", s |-> s, i |-> i, dest |-> dest'[s]])
     \/ \E st \in Strategies :
          ConfigUpdate(st) /\ Log([a |-> "config", to |-> st, inflight |-> {s \in Sessions : pc[s] # "idle"}])
     \/ Finish

\* mandatory stratum (ACTION_CONSTRAINT of the Strata_* configurations): every session routes a read-only
\* command and no two sessions route keys of the same shard
ForeignReadsOnly ==
  /\ \A s, t \in Sessions :
        /\ req'[s].kind \in {"-", "read"}
        /\ (s # t /\ req'[s].sh # "-") => req'[s].sh # req'[t].sh
  \* ... and the decisions overlap by construction: nobody picks before everybody holds a half-built candidate list
  \* (W_OverlapForeign is reached in every behaviour of the stratum, whatever the seed)
  /\ \A s \in Sessions : (pc[s] = "build" /\ pc'[s] = "idle") =>
        \A t \in Sessions : Deciding(t) \/ (pc[t] = "idle" /\ left[t] = 0 /\ req[t].kind = "read")

\* stratum for run-time strategy changes: read-only commands only
ReadsOnly == \A s \in Sessions : req'[s].kind \in {"-", "read"}

GenSpec == GenInit /\ [][GenNext]_gvars
=============================================================================
