SPECIFICATION Spec
CONSTANTS
  MaxChild = 3
  NConn = 3
  Modes = {"reply", "drain"}
  AtomicDecTest = FALSE
INVARIANTS TypeOK ParentAtMostOnce ParentAnswered
PROPERTIES ParentEventually
CHECK_DEADLOCK FALSE
