SPECIFICATION Spec
CONSTANTS
  Nodes = {1, 2}
  Keys = {"a1", "a2", "b1"}
  Ops = {"mdel"}
  MaxCmds = 1
  MaxLen = 2
  DedupKeys = TRUE
  AssembleByArrival = FALSE
  FoldUnsynchronised = FALSE
  FailKeys = {}
  MsetIgnoresChildErrors = FALSE
INVARIANTS EqualsReference StoreIsReference ChildAtOwner
CHECK_DEADLOCK FALSE
