\* anti-vacuity: compressed bytes left in the shared scratch buffer must violate StoredForm
SPECIFICATION Spec
CONSTANTS
  Keys = {"k1", "k2"}
  MaxOps = 4
  MaxRedirects = 2
  FixOnce = TRUE
  MaxVals = 2
  HookDepth = 2
  OwnBytes = FALSE
  Nodes = {}
  ConnConfig = "live"
  BareUpdate = "refused"
  Sizes = {0}
  ReadLimit = 0
  OwnFrame = TRUE
INVARIANTS StoredForm ReadBack OnlyWhenEnabled
CHECK_DEADLOCK FALSE
