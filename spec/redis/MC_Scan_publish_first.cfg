SPECIFICATION Spec
CONSTANTS
  MinNodes = 0
  MaxNodes = 2
  Base = 256
  MaxChain = 1
  IdxSpace = 8
  PastEndRule = "ge"
  CompletionOrder = "publish-rewrite"
  Withdrawals = FALSE
  ConcurrentWithdrawals = FALSE
  HostReads = "snapshot"
  Reannouncements = FALSE
  ReannounceRule = "atomic"
CHECK_DEADLOCK FALSE
INVARIANTS DeliveredComposite
