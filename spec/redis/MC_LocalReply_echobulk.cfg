SPECIFICATION Spec
CONSTANTS
  ErrText = "neutralise"
  Echo = "bulk"
  HotAs = "bulk"
  PreSet = {1}
  Forms = {"array", "inline"}
  Tier = "quick"
  Classes = {"local", "error", "forward", "stored"}
  Emit = FALSE
INVARIANTS OneReplyEach AllDelivered
CHECK_DEADLOCK FALSE
