SPECIFICATION Spec
CONSTANTS
  Keys = {"k1", "k2"}
  MaxOps = 5
  MaxRedirects = 2
  FixOnce = FALSE
INVARIANTS StoredForm ReadBack OnlyWhenEnabled
CHECK_DEADLOCK FALSE
