------------------------------- MODULE HotKey -------------------------------
(***************************************************************************)
(* C19, part 1: the abstract per-backend key counter of                    *)
(* proc/redis/hotkey/counter.go.                                           *)
(*                                                                         *)
(* A counter of capacity cap maps every tracked key to the number of       *)
(* accesses since the key was admitted.  For every count f, ord[f] is the  *)
(* FIFO order in which the keys arrived at that count: when the counter is *)
(* full, a new key evicts Head(ord[f]) for the lowest non-empty f.         *)
(* Latch returns the map and resets; Free resets.                          *)
(*                                                                         *)
(* Ghost state: since[k] = accesses of k since it was last admitted,       *)
(* ev = the last eviction (victim, its count, the minimum count at that    *)
(* moment), out = the map returned by the last Latch.                      *)
(***************************************************************************)
EXTENDS Naturals, Sequences, FiniteSets

CONSTANTS Keys,      \* set of key names (strings)
          Caps,      \* set of capacities to explore (>= 1), chosen in Init
          MaxIncr,   \* bound on the number of accesses in a history
          MaxCtl     \* bound on the number of Latch / Free calls in a history

VARIABLES cap, cnt, ord, since, ev, out, nI, nC

vars == <<cap, cnt, ord, since, ev, out, nI, nC>>

Freqs == 1..MaxIncr
NoEv == [key |-> "", count |-> 0, min |-> 0]
Zero == [k \in Keys |-> 0]
EmptyOrd == [f \in Freqs |-> <<>>]

Tracked == {k \in Keys : cnt[k] > 0}
SetMin(S) == CHOOSE x \in S : \A y \in S : x <= y
MinCount == SetMin({cnt[k] : k \in Tracked})
Without(s, k) == SelectSeq(s, LAMBDA x : x # k)

TypeOK ==
  /\ cap \in Caps
  /\ cnt \in [Keys -> 0..MaxIncr]
  /\ ord \in [Freqs -> Seq(Keys)]
  /\ since \in [Keys -> 0..MaxIncr]
  /\ out \in [Keys -> 0..MaxIncr]
  /\ nI \in 0..MaxIncr /\ nC \in 0..MaxCtl

Init ==
  /\ cap \in Caps
  /\ cnt = Zero /\ ord = EmptyOrd /\ since = Zero
  /\ ev = NoEv /\ out = Zero /\ nI = 0 /\ nC = 0

Bump(k) ==
  LET f == cnt[k] IN
  /\ cnt' = [cnt EXCEPT ![k] = f + 1]
  /\ ord' = [ord EXCEPT ![f] = Without(@, k), ![f + 1] = Append(@, k)]
  /\ since' = [since EXCEPT ![k] = @ + 1]
  /\ ev' = NoEv

Admit(k) ==
  /\ cnt' = [cnt EXCEPT ![k] = 1]
  /\ ord' = [ord EXCEPT ![1] = Append(@, k)]
  /\ since' = [since EXCEPT ![k] = 1]
  /\ ev' = NoEv

EvictAndAdmit(k) ==
  LET f == MinCount
      v == Head(ord[f])
      o1 == [ord EXCEPT ![f] = Tail(@)]
  IN /\ cnt' = [cnt EXCEPT ![v] = 0, ![k] = 1]
     /\ ord' = [o1 EXCEPT ![1] = Append(@, k)]
     /\ since' = [since EXCEPT ![v] = 0, ![k] = 1]
     /\ ev' = [key |-> v, count |-> cnt[v], min |-> f]

Incr(k) ==
  /\ nI < MaxIncr
  /\ IF cnt[k] > 0 THEN Bump(k)
     ELSE IF Cardinality(Tracked) >= cap THEN EvictAndAdmit(k)
     ELSE Admit(k)
  /\ nI' = nI + 1
  /\ out' = Zero
  /\ UNCHANGED <<cap, nC>>

Reset ==
  /\ cnt' = Zero /\ ord' = EmptyOrd /\ since' = Zero /\ ev' = NoEv

Latch ==
  /\ nC < MaxCtl
  /\ out' = cnt
  /\ Reset
  /\ nC' = nC + 1
  /\ UNCHANGED <<cap, nI>>

\* Free and Latch differ in what they return; a Free is a Latch whose result
\* is thrown away.
Free ==
  /\ nC < MaxCtl
  /\ out' = Zero
  /\ Reset
  /\ nC' = nC + 1
  /\ UNCHANGED <<cap, nI>>

Next == (\E k \in Keys : Incr(k)) \/ Latch \/ Free

Spec == Init /\ [][Next]_vars

---------------------------------------------------------------------------
\* the properties of the statement
Bounded == Cardinality(Tracked) <= cap
ExactSinceAdmission == \A k \in Keys : cnt[k] > 0 => cnt[k] = since[k]
EvictsMinimum == ev.key # "" => ev.count = ev.min
LatchExact == \A k \in Keys : out[k] > 0 => out[k] <= nI

\* consistency of the order with the counts
OrdConsistent ==
  /\ \A f \in Freqs : \A i \in 1..Len(ord[f]) : cnt[ord[f][i]] = f
  /\ \A k \in Tracked : \E i \in 1..Len(ord[cnt[k]]) : ord[cnt[k]][i] = k
  /\ \A f \in Freqs : \A i, j \in 1..Len(ord[f]) : i # j => ord[f][i] # ord[f][j]
=============================================================================
