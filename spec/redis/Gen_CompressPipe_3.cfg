SPECIFICATION GenSpec
CONSTANTS
  MaxLen = 3
  AfterStop = "next"
INVARIANTS BannedRejectedLocally AnsweredOnce OthersPass
CHECK_DEADLOCK FALSE
