SPECIFICATION TabSpec
CONSTANTS
  MaxLen = 0
  Alphabet = {}
INVARIANT EmitTab
CHECK_DEADLOCK FALSE
