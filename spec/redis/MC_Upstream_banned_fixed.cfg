SPECIFICATION Spec
CONSTANTS
  Reqs = {"r1", "r2"}
  QCap = 1
  FixHandoff = TRUE
  FixSend = TRUE
  FixReader = TRUE
  Banned = {"r2"}
  Asking = {}
  AskAnswersInHand = TRUE
  DrainAfterStopped = TRUE
  FilteredFailAnswers = FALSE
  BufCap = 3
  FixFlushOnStop = TRUE
  MaxResets = 1
  WithStop = TRUE
  Det = FALSE
INVARIANTS TypeOK AtMostOnce NoLostRequest NoStuckSender PairingFIFO OwnReply
PROPERTIES Answered QuitLeadsToDone StopReturns
CHECK_DEADLOCK FALSE
