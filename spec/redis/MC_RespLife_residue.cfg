SPECIFICATION Spec
CONSTANTS
  Residue = TRUE
  Cap = 32
  MaxConn = 2
INVARIANTS OwnMessagesOnly
CHECK_DEADLOCK FALSE
