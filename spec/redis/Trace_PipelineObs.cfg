SPECIFICATION TraceSpec
CONSTANTS
  Conns <- TraceConns
  ErrorsOK = FALSE
INVARIANTS NeverAhead EndedComplete
POSTCONDITION TraceAccepted
CHECK_DEADLOCK FALSE
