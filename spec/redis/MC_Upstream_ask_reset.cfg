SPECIFICATION Spec
CONSTANTS
  Reqs = {"r1", "a2"}
  QCap = 2
  FixHandoff = TRUE
  FixSend = TRUE
  FixReader = TRUE
  Banned = {}
  Asking = {"a2"}
  AskAnswersInHand = TRUE
  DrainAfterStopped = TRUE
  FilteredFailAnswers = FALSE
  BufCap = 1
  FixFlushOnStop = TRUE
  MaxResets = 1
  WithStop = FALSE
  Det = FALSE
INVARIANTS TypeOK AtMostOnce NoLostRequest NoStuckSender PairingFIFO OwnReply
PROPERTIES Answered QuitLeadsToDone StopReturns
CHECK_DEADLOCK FALSE
