SPECIFICATION Spec
CONSTANTS
  Nodes = {1, 2}
  Slots = {"A", "B"}
  Keys = {"a1", "a2", "b1"}
  SlotOf <- MCSlotOf
  MaxCmds = 3
  MaxHops = 3
  WithMigration = TRUE
  EmptyTableAtStart = TRUE
  AtomicAsk = FALSE
  WithFailover = FALSE
  FixRefreshOnDialError = TRUE
  StepwiseRefresh = FALSE
  ClearBeforeFill = FALSE
  MaxTicks = 0
  LazyConnect = FALSE
  AsyncRedirectDial = FALSE
  TrackOrder = FALSE
  WithDemotion = FALSE
  ReadonlyEverywhere = TRUE
  MaxMigs = 1
  StaleTableAtStart = FALSE
  MaxFollowed = 0
  DeathKinds = {"refused"}
  RefreshOnTimeout = TRUE
  PromotedFlags = {{"master"}}
  ParserSkips = {}
INVARIANTS EqualsReference EffectOnce SingleCopy CopyIsReference NoLostKey FirstHopIsOwner
CONSTRAINT HopBound
CHECK_DEADLOCK FALSE
