SPECIFICATION GenSpec
CONSTANTS
  Sessions = {"s1", "s2"}
  Shards = {"A", "B"}
  NRep = 2
  Strategies = {"MASTER", "BOTH", "REPLICA"}
  Kinds = {"read", "write", "unsupported", "local"}
  MaxReq = 2
  MaxUpdates = 1
  StickyStrategy = FALSE
  SharedScratch = FALSE
CHECK_DEADLOCK FALSE
