SPECIFICATION Spec
CONSTANTS
  Strategies = {"MASTER", "BOTH", "REPLICA"}
  MaxRoutes = 4
  MaxRefresh = 2
  MaxReassign = 2
  CandCache = "before"
INVARIANTS TypeOK RoutedByTableInForce
CHECK_DEADLOCK FALSE
