SPECIFICATION Spec
CONSTANTS
  MaxDepth = 2
  MaxRun = 9
  BlankPolicy = "recurse"
  EmptyPolicy = "deliver"
  DepthPolicy = "limit"
INVARIANTS TypeOK StackBounded
CHECK_DEADLOCK FALSE
