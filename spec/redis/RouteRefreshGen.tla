--------------------------- MODULE RouteRefreshGen ---------------------------
(* Behaviour emitter for RouteRefresh (-simulate): the steps with, per routed read, the nodes the property allows
   (table in force), and the windows the behaviour went through.  Replayed by `c14-refresh` on a real processor:
   Reassign = the simulated cluster re-points the replicas, RefreshBegin = a refresh is triggered while the replies
   of the seed nodes are held, Route = a read-only command is sent and its ARRIVAL at a node judged, RefreshEnd =
   the held CLUSTER NODES answer is released and the refresh completes. *)
EXTENDS RouteRefresh, Json

VARIABLES hist, win, finished
gvars == <<vars, hist, win, finished>>

Windows == (IF W_RouteDuringRefresh THEN {"W_RouteDuringRefresh"} ELSE {}) \cup
           (IF W_ReassignDuringRefresh THEN {"W_ReassignDuringRefresh"} ELSE {})

Log(e) == hist' = Append(hist, e) /\ win' = win \cup Windows' /\ UNCHANGED finished

GenInit == Init /\ hist = <<>> /\ win = {} /\ finished = FALSE

Finish ==
  /\ ~finished /\ Done
  /\ PrintT("@@RBEH " \o ToJson([strategy |-> strategy, hist |-> hist, windows |-> win]))
  /\ finished' = TRUE
  /\ UNCHANGED <<vars, hist, win>>

GenNext ==
  /\ ~finished
  /\ \/ Reassign /\ Log([a |-> "reassign", topo |-> topo'])
     \/ RefreshBegin /\ Log([a |-> "begin", answer |-> snap'])
     \/ RefreshEnd /\ Log([a |-> "end", table |-> table'])
     \/ \E d \in 0..2 : Route(d) /\ Log([a |-> "route", table |-> table, allowed |-> AllowedBy(table), during |-> refreshing])
     \/ Finish

\* mandatory stratum: the topology changes first, and a read is routed during the refresh that brings the change
ChangeThenRefresh ==
  /\ (refreshes' > 0 /\ refreshes = 0) => reassigns > 0
  /\ (~refreshing' /\ refreshing /\ refreshes = 1) => during
  /\ (routes' > routes /\ (refreshes = 0 \/ (refreshes = 1 /\ refreshing))) => routes' < MaxRoutes

GenSpec == GenInit /\ [][GenNext]_gvars
=============================================================================
