-------------------------- MODULE CompressPipeGen --------------------------
(* emits every behaviour (pipeline, config, interleaving of enqueue and take steps) for a forced replay on the real writer *)
EXTENDS CompressPipe, Json
VARIABLES hist, items, finished
gvars == <<vars, hist, items, finished>>
GenInit == Init /\ hist = <<>> /\ items = todo /\ finished = FALSE
GenNext ==
  /\ ~finished
  /\ \/ Enqueue /\ hist' = Append(hist, "E")
     \/ Take /\ hist' = Append(hist, "T")
  /\ UNCHANGED <<items, finished>>
Finish ==
  /\ ~finished /\ Done
  /\ PrintT("@@PIPE " \o ToJson([enabled |-> enabled, items |-> items, sched |-> hist, window |-> window,
                                   wire |-> [i \in 1..Len(wire) |-> wire[i].id], local |-> [i \in 1..Len(local) |-> local[i].id]]))
  /\ finished' = TRUE /\ UNCHANGED <<vars, hist, items>>
GenSpec == GenInit /\ [][GenNext \/ Finish]_gvars
=============================================================================
