SPECIFICATION Spec
CONSTANTS
  Reqs = {1, 2, 3}
  MaxGens = 3
  MaxClients = 2
  MaxFaults = 2
  MaxStalls = 1
  MaxAsk = 1
  AskSelectsQuit = TRUE
  ResetStopsUnderLock = TRUE
  Counters = FALSE
  MaxCollects = 0
  MaxCfg = 0
  FreeDestroys = FALSE
  FreeHoldsCounterLock = FALSE
  UpdateLosesDefaults = FALSE
  FixCallEntry = TRUE
  FixResetSnapshot = TRUE
  FixRemoveOwn = TRUE
INVARIANTS NoStuckReset
CHECK_DEADLOCK FALSE
