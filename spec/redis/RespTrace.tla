------------------------------ MODULE RespTrace ------------------------------
(***************************************************************************)
(* C10, code -> spec: trace.json is an array of records written by the Go  *)
(* harness (c10-record): seeded random values, inline commands, chunkings  *)
(* and buffer sizes run through the REAL encoder and decoder.  Record l is *)
(* accepted iff what the real codec did is what Resp.tla says:             *)
(*                                                                         *)
(*  decode    the decoded messages are DecodeAll of the bytes on the wire, *)
(*            ending exactly at the end of the stream;                     *)
(*  reencode  Encode(decoded message) = the bytes of that message on the   *)
(*            wire (produced by the real encoder) for canonical messages;  *)
(*  consumed  the end offsets are the sums of Len(Encode(m)) (of the line  *)
(*            lengths for inline commands);                                *)
(*  inline    an inline command decoded to the value its array form        *)
(*            decodes to;                                                  *)
(*  trunc     the first "at" bytes yield exactly the messages that end     *)
(*            within them;                                                 *)
(*  sent      the bytes on the wire are Encode of the value given to the   *)
(*            real encoder (also when other encoders run at the same time: *)
(*            the records of c10-concurrent);                              *)
(*  reads     (model conformance, not part of the property) the reads the  *)
(*            real Reader issued are those RespReader predicts.            *)
(***************************************************************************)
EXTENDS RespReader, Json, TLCExt

TraceLog == TLCEval(JsonDeserialize("trace.json"))

VARIABLE l

FlatVs(vs) == [i \in 1..Len(vs) |-> FlatV(vs[i])]

CumLens(lens) == [k \in 1..Len(lens) |-> FoldLeft(LAMBDA acc, x : acc + x, 0, SubSeq(lens, 1, k))]

\* the names of the conjuncts that do not hold for record e (one string; empty: accepted)
Failed(e) ==
  LET flat == Flat(e.stream)
      D    == DecodeAll(flat)
      dec  == FlatVs(e.dec)
      ends == CumLens(e.lens)
      n    == Len(e.dec)
  IN (IF D.msgs = dec /\ D.tail = "eof" /\ e.err = "EOF" THEN "" ELSE "decode ")
     \o (IF n = Len(e.lens) /\ D.ends = ends THEN "" ELSE "consumed ")
     \o (IF \A k \in 1..MinI(n, Len(e.lens)) :
                 \/ e.inline[k]
                 \/ /\ RopeLen(Encode(e.dec[k])) = e.lens[k]
                    /\ Flat(Encode(e.dec[k])) = SubSeq(flat, ends[k] - e.lens[k] + 1, ends[k])
           THEN "" ELSE "reencode ")
     \o (IF \A k \in 1..MinI(n, Len(e.lens)) :
                 e.inline[k] =>
                   /\ e.dec[k].t = "array" /\ ~e.dec[k].null
                   /\ \A j \in 1..Len(e.dec[k].a) : e.dec[k].a[j].t = "bulk" /\ ~e.dec[k].a[j].null
                   /\ DecodeAll(Flat(Encode(e.dec[k]))).msgs = <<dec[k]>>
                   /\ LET ws == [j \in 1..Len(dec[k].a) |-> dec[k].a[j].s] IN
                        ws = Words(SubSeq(flat, ends[k] - e.lens[k] + 1, ends[k] - 2))
           THEN "" ELSE "inline ")
     \o (IF \A i \in 1..Len(e.trunc) :
                 LET T == DecodeAll(SubSeq(flat, 1, e.trunc[i].at)) IN
                 /\ Len(T.msgs) = e.trunc[i].n
                 /\ e.trunc[i].n = Cardinality({k \in 1..Len(ends) : ends[k] <= e.trunc[i].at})
           THEN "" ELSE "trunc ")
     \o (IF /\ Len(e.sent) = Len(e.lens)
            /\ \A k \in 1..Len(e.lens) :
                 \/ e.inline[k]
                 \/ Flat(Encode(e.sent[k])) = SubSeq(flat, ends[k] - e.lens[k] + 1, ends[k])
         THEN "" ELSE "sent ")
     \o (IF e.reads = <<<<0 - 7, 0 - 7>>>> \/ RDecodeAll(flat, e.chunks, e.buf).reads = e.reads
           THEN "" ELSE "reads")

TraceInit == l = 1

TraceNext ==
  /\ l <= Len(TraceLog)
  /\ Failed(TraceLog[l]) = ""
  /\ l' = l + 1

TraceSpec == TraceInit /\ [][TraceNext]_l

TraceAccepted ==
  LET d == TLCGet("stats").diameter IN
  IF d - 1 = Len(TraceLog) THEN TRUE
  ELSE Print(<<"@@REJECT", d, IF d <= Len(TraceLog) THEN Failed(TraceLog[d]) ELSE "end">>, FALSE)
=============================================================================
