SPECIFICATION GenSpec
CONSTANTS
  Reqs = {"r1", "r2", "r3"}
  QCap = 2
  FixHandoff = TRUE
  FixSend = TRUE
  FixReader = TRUE
  Banned = {}
  Asking = {}
  AskAnswersInHand = TRUE
  DrainAfterStopped = FALSE
  FilteredFailAnswers = FALSE
  BufCap = 3
  FixFlushOnStop = TRUE
  MaxResets = 1
  WithStop = TRUE
  Det = TRUE
  EmitViolating = TRUE
  FaultPoints = {"sender-enqueued"}
CHECK_DEADLOCK FALSE
