SPECIFICATION GenSpec
CONSTANTS
  Nodes = {1, 2, 3}
  Keys = {"a1", "a2", "b1"}
  Ops = {"mcount", "mdel", "mread", "mwrite"}
  MaxCmds = 8
  MaxLen = 3
  DedupKeys = FALSE
  AssembleByArrival = FALSE
  FoldUnsynchronised = FALSE
  FailKeys = {}
  MsetIgnoresChildErrors = FALSE
  EmitVectors = TRUE
CHECK_DEADLOCK FALSE
