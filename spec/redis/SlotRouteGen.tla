----------------------------- MODULE SlotRouteGen -----------------------------
(***************************************************************************)
(* Emission for the routing part of C12 (spec -> code): the layouts, the   *)
(* keys with hash tag and slot as Slot.tla defines them, and for every     *)
(* reachable state of the refresh (RefreshSpec: the refresh alone) the     *)
(* node every key must be routed to in that state.  The harness drives a   *)
(* real upstream through these states (the refresh goroutine is paused     *)
(* after each master is written) and routes every key in every one.        *)
(***************************************************************************)
EXTENDS SlotRoute, Json

Assigned == IF phase = "update" THEN {Name(i) : i \in (1..N) \ todo} ELSE {}

EmitState ==
  /\ (phase = "boot" /\ nref = 0) =>
        PrintT("@@LAYOUT " \o ToJson([name |-> lay, nodes |-> LayoutDef(lay)]))
  /\ (phase = "boot" /\ nref = 0 /\ lay = CHOOSE l \in Layouts : TRUE) =>
        PrintT("@@RKEYS " \o ToJson([ki \in 1..NKeys |-> [k |-> Keys[ki], t |-> KeyTag[ki], s |-> KeySlot[ki]]]))
  /\ PrintT("@@STATE " \o ToJson([lay |-> lay, phase |-> phase, assigned |-> Assigned, filled |-> filled,
                                   window |-> InWindow,
                                   exp |-> [ki \in 1..NKeys |-> Node(ki)],
                                   own |-> [ki \in 1..NKeys |-> OwnerOf(ki)]]))
=============================================================================
