SPECIFICATION Spec
CONSTANTS
  Reqs = {"r1", "r2", "r3"}
  QCap = 2
  FixHandoff = TRUE
  FixSend = TRUE
  FixReader = TRUE
  Banned = {}
  Asking = {}
  AskAnswersInHand = TRUE
  DrainAfterStopped = TRUE
  FilteredFailAnswers = FALSE
  BufCap = 3
  FixFlushOnStop = TRUE
  MaxResets = 1
  WithStop = TRUE
  Det = FALSE
INVARIANTS TypeOK AtMostOnce NoLostRequest NoStuckSender PairingFIFO OwnReply
PROPERTIES Answered QuitLeadsToDone StopReturns
CHECK_DEADLOCK FALSE
