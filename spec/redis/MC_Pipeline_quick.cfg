SPECIFICATION Spec
CONSTANTS
  Conns = {1, 2}
  Nodes = {1, 2}
  MaxReq = 2
  SessCap = 1
INVARIANTS ReplyOrder OnlyComplete NeverAhead
PROPERTIES AllAnswered
CHECK_DEADLOCK FALSE
