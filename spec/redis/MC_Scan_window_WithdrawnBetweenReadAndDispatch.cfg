SPECIFICATION Spec
CONSTANTS
  MinNodes = 0
  MaxNodes = 2
  Base = 256
  MaxChain = 1
  IdxSpace = 8
  PastEndRule = "ge"
  CompletionOrder = "rewrite-publish"
  Withdrawals = TRUE
  ConcurrentWithdrawals = TRUE
  HostReads = "snapshot"
  Reannouncements = TRUE
  ReannounceRule = "atomic"
CHECK_DEADLOCK FALSE
INVARIANTS NotW_WithdrawnBetweenReadAndDispatch
