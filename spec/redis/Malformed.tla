------------------------------ MODULE Malformed ------------------------------
(***************************************************************************)
(* Structural partition of the byte strings the Redis proxy has to parse   *)
(* (C11): malformed RESP on either side, and the reply grammars the proxy  *)
(* itself interprets - redirection errors, CLUSTERDOWN, CLUSTER NODES      *)
(* lines, SCAN replies, replies to its own ASKING / READONLY.  TLC         *)
(* enumerates the product of the classes and emits one vector per          *)
(* combination: [side, ctx, bytes | descriptor].  The expected reaction is *)
(* the same for every vector (the property): the process keeps running,    *)
(* other connections are served, the offending connection gets an error    *)
(* reply or is closed, a waiting client gets a reply, memory and stack     *)
(* stay bounded.                                                            *)
(***************************************************************************)
EXTENDS Naturals, Sequences, FiniteSets, TLC, TLCExt, Json, SequencesExt

CRLF == "\r\n"

(* ---- generic malformed / boundary RESP frames (sent by a client, or by a backend as a reply) *)
Generic == {
  "!x" \o CRLF,  "$abc" \o CRLF,  "$-2" \o CRLF,  "$" \o CRLF,  "$ 1" \o CRLF \o "a" \o CRLF,
  "$1" \o CRLF \o "abX" \o CRLF,  "$3" \o CRLF \o "abcXY",  "$0" \o CRLF \o CRLF,  "$-1" \o CRLF,
  "$536870913" \o CRLF,  "$9223372036854775807" \o CRLF,  "$9223372036854775808" \o CRLF,
  "$99999999999999999999999999" \o CRLF,  "$-9223372036854775808" \o CRLF,
  "*-2" \o CRLF,  "*-1" \o CRLF,  "*0" \o CRLF,  "*abc" \o CRLF,  "*1048577" \o CRLF,
  "*9223372036854775807" \o CRLF,  "*9223372036854775808" \o CRLF,  "*1" \o CRLF \o "!" \o CRLF,
  ":abc" \o CRLF,  ":" \o CRLF,  ":99999999999999999999999999" \o CRLF,  ":-" \o CRLF,  ":+" \o CRLF, ":1" \o "\n",
  "+OK" \o "\n",  "-" \o CRLF,  "+" \o CRLF,  CRLF,  "\n",  " " \o CRLF
}

\* well-formed prefixes of frames that never complete: the peer sends them and then closes its side
Truncated == {
  "$536870912" \o CRLF,  "*1048576" \o CRLF,  "+OK" \o "\r",  "\r",  "$3" \o CRLF \o "ab",
  "*2" \o CRLF \o "$3" \o CRLF \o "GET" \o CRLF,  "*1" \o CRLF \o "$4" \o CRLF \o "PI"
}

\* descriptors for frames too long to spell out: [kind, n]: nested arrays of depth n, a line of n bytes without CRLF,
\* an inline command of n bytes, a bulk of n bytes
Big == { [kind |-> "nest", n |-> 8], [kind |-> "nest", n |-> 1000], [kind |-> "nest", n |-> 200000], [kind |-> "nest", n |-> 2000000],
         [kind |-> "nestwide", n |-> 1000],
         [kind |-> "line", n |-> 70000], [kind |-> "inline", n |-> 70000], [kind |-> "bulk", n |-> 600000],
         [kind |-> "arrayhdrs", n |-> 200] }

(* ---- runs: one unit repeated n times on one connection without anything in between.  DecodeStack.tla is the   *)
(* model of what a run does to the decoder's stack: "blank" units (no frame at all), "empty" units (frames      *)
(* without content, which redis-server skips silently) and "cmd" units (a run of complete frames); the stack    *)
(* and the heap in use must not depend on n.  The counts are classes: a handful (what a telnet user types), a   *)
(* thousand (beyond every declared nesting limit), 10^6 and 8*10^6 (beyond every declared length limit; at two  *)
(* activations per unit the latter exceeds the 1 GB goroutine stack limit of the Go runtime).                   *)
RunUnit(class, name, unit) == [class |-> class, name |-> name, unit |-> unit]
BlankUnits == { RunUnit("blank", "crlf", CRLF), RunUnit("blank", "lf", "\n"), RunUnit("blank", "space-crlf", " " \o CRLF) }
EmptyUnits == { RunUnit("empty", "empty-array", "*0" \o CRLF), RunUnit("empty", "null-array", "*-1" \o CRLF),
                RunUnit("empty", "null-bulk", "$-1" \o CRLF) }
CmdUnits   == { RunUnit("cmd", "inline-ping", "PING" \o CRLF) }
RunCounts(class) == CASE class = "blank" -> {3, 1000, 1000000, 8000000}
                      [] class = "empty" -> {1000, 1000000}
                      [] class = "cmd"   -> {100000}
Run(u, n) == [kind |-> "repeat", n |-> n, class |-> u.class, name |-> u.name, unit |-> u.unit]
ClientRuns == UNION {{Run(u, n) : n \in RunCounts(u.class)} : u \in BlankUnits \cup EmptyUnits \cup CmdUnits}
\* a backend that sends surplus complete frames desynchronises its own connection: only a short run of those
BackendRuns ==    {Run(u, n) : u \in BlankUnits, n \in RunCounts("blank")}
             \cup {Run(u, 1000) : u \in EmptyUnits}

(* ---- redirection errors a backend may answer to a keyed command *)
Verbs == {"MOVED", "ASK", "moved", "Ask", "CLUSTERDOWN", "clusterdown"}
Addrs == {"127.0.0.1:1", "", "x", ":", "host:abc", "256.256.256.256:70000", "127.0.0.1", "[::1]:1"}
SlotToks == {"1", "-1", "abc", "99999", ""}
Redirects ==
     {v : v \in Verbs}                                             \* one word, no space
  \cup {v \o " " : v \in Verbs}                                    \* trailing space
  \cup {v \o " " \o s : v \in Verbs, s \in SlotToks}               \* two words
  \cup {v \o " " \o s \o " " \o a : v \in {"MOVED", "ASK"}, s \in SlotToks, a \in Addrs}
  \cup {v \o " 1 127.0.0.1:1 extra" : v \in {"MOVED", "ASK"}}
  \cup {v \o "  1  127.0.0.1:1" : v \in {"MOVED", "ASK"}}          \* double spaces
  \cup {v \o "\t1\t127.0.0.1:1" : v \in {"MOVED", "ASK"}}

(* ---- error replies whose first word is ALMOST a redirection verb.  The proxy recognises MOVED / ASK / CLUSTERDOWN   *)
(* by comparing the first word case-insensitively; a comparison that folds case the Unicode way also accepts the words  *)
(* that equal the verb only under Unicode simple case folding: s ~ U+017F (LATIN SMALL LETTER LONG S), k ~ U+212A        *)
(* (KELVIN SIGN) - the only ASCII letters with a non-ASCII fold partner, so the class is {A?K, CLU?TERDOWN}; MOVED has   *)
(* none.  {017f} {212a} stand for the UTF-8 encoding of those runes (replaced by the replayer).  Also: mixed ASCII case   *)
(* (legitimate), and first words that merely START with a verb.  Shapes: 3 words (passes every length check, address of  *)
(* a live node), 4 words, 2 words.                                                                                      *)
LongS == "{017f}"
Kelvin == "{212a}"
FoldWords == {"A" \o LongS \o "K", "a" \o LongS \o "k", "AS" \o Kelvin, "as" \o Kelvin, "A" \o LongS \o Kelvin,
              "CLU" \o LongS \o "TERDOWN", "clu" \o LongS \o "terdown"}
CaseWords == {"MoVeD", "aSk", "ClusterDown"}
PrefixWords == {"ASKING", "MOVEDX", "CLUSTERDOWNX", "ASK" \o LongS, "MOVED:"}
NearShapes(w) == {w \o " 866 {ADDR}", w \o " 866 {ADDR} extra", w \o " 866"}
NearRedirects == UNION {NearShapes(w) : w \in FoldWords \cup CaseWords \cup PrefixWords}
\* the well-formed looking ones (three words) with a first word that matches only under Unicode folding
FoldRedirects == {w \o " 866 {ADDR}" : w \in FoldWords}

(* ---- CLUSTER NODES payloads *)
Id1 == "1111111111111111111111111111111111111111"
Id2 == "2222222222222222222222222222222222222222"
IdX == "9999999999999999999999999999999999999999"
\* {ADDR} is replaced by the address of the simulated node by the replayer
GoodMaster == Id1 \o " {ADDR}@17000 myself,master - 0 0 1 connected 0-16383"
SlotForms == {"0-16383", "5", "5-1", "-1", "16384", "0-99999999999", "99999999999", "16383-16390", "[5->-" \o Id2 \o "]",
              "[5-<-" \o Id2 \o "]", "[", "]", "a-b", "1-2-3", "-", "5-", "-5", "0-16383 0-16383", "+5", "0x10"}
MasterLines == {Id1 \o " {ADDR}@17000 myself,master - 0 0 1 connected " \o s : s \in SlotForms}
AddrForms == {"{ADDR}", "{ADDR}@", "127.0.0.1", ":7000", "a:b:c", "", "@17000", "{ADDR}@17000@1"}
AddrLines == {Id1 \o " " \o a \o " myself,master - 0 0 1 connected 0-16383" : a \in AddrForms}
FieldCounts == {Id1, Id1 \o " {ADDR}@17000", Id1 \o " {ADDR}@17000 master", Id1 \o " {ADDR}@17000 master -",
                Id1 \o " {ADDR}@17000 master - 0 0 1", Id1 \o " {ADDR}@17000 master - 0 0 1 connected",
                Id2 \o " {ADDR}@17000 slave " \o Id1 \o " 0 0 1"}
ReplicaLines == {GoodMaster \o "\n" \o Id2 \o " 127.0.0.1:2@17001 slave " \o m \o " 0 0 1 connected" : m \in {Id1, IdX, "-", ""}}
ClusterNodes == MasterLines \cup AddrLines \cup FieldCounts \cup ReplicaLines
                \cup {"", "\n", "\n\n" \o GoodMaster, GoodMaster \o "\n" \o GoodMaster, " ", "garbage"}

(* ---- SCAN replies (complete RESP frames) *)
B(s) == "$" \o ToString(Len(s)) \o CRLF \o s \o CRLF
ScanReplies == {
  "+OK" \o CRLF, ":1" \o CRLF, "$-1" \o CRLF, "*-1" \o CRLF, "*0" \o CRLF, "*1" \o CRLF \o B("0"),
  "*2" \o CRLF \o ":0" \o CRLF \o "*0" \o CRLF,
  "*2" \o CRLF \o B("0") \o B("x"),
  "*2" \o CRLF \o "*0" \o CRLF \o "*0" \o CRLF,
  "*2" \o CRLF \o B("abc") \o "*0" \o CRLF,
  "*2" \o CRLF \o B("99999999999999999999") \o "*0" \o CRLF,
  "*2" \o CRLF \o B("-5") \o "*0" \o CRLF,
  "*2" \o CRLF \o "$-1" \o CRLF \o "*0" \o CRLF,
  "*2" \o CRLF \o B("") \o "*0" \o CRLF,
  "*3" \o CRLF \o B("0") \o "*0" \o CRLF \o B("x"),
  "*2" \o CRLF \o B("281474976710656") \o "*0" \o CRLF,       \* node cursor = 2^48
  "*2" \o CRLF \o B("0") \o "*1" \o CRLF \o "*1" \o CRLF \o B("k") }

(* ---- values a backend may return while a compression config is present: the decompress hook inspects every *)
(* bulk string of the reply (also nested ones) for the header  magic(3) algorithm(1) CR LF; {00} {01} {ff}  *)
(* stand for the bytes 0x00 0x01 0xff (replaced by the replayer, which also fixes the bulk lengths)          *)
Magic == "(P$"
CpsBulks == { "(", "(P", Magic, Magic \o "{00}", Magic \o "{00}\r", Magic \o "{00}" \o CRLF,
              Magic \o "{01}" \o CRLF \o "x", Magic \o "{ff}" \o CRLF \o "x", Magic \o "{00}" \o CRLF \o "garbage-not-snappy",
              Magic \o "{00}" \o "\n\r" \o "x", "x" \o Magic \o "{00}" \o CRLF }
\* shape of the reply around the value: a bulk, a pair of bulks, a nested array, a simple string, an error
CpsReplies ==    {[shape |-> "bulk", val |-> b] : b \in CpsBulks}
            \cup {[shape |-> "pair", val |-> b] : b \in CpsBulks}
            \cup {[shape |-> "nested", val |-> b] : b \in {Magic, Magic \o "{00}\r"}}
            \cup {[shape |-> "simple", val |-> Magic], [shape |-> "error", val |-> Magic]}

(* ---- well-formed requests with adversarial ARGUMENT bytes (side client).  The frames above are malformed; these are    *)
(* not: they pass the parser and reach the code behind it - key routing (hash tag, slot), the splitting of MGET / MSET /  *)
(* DEL / EXISTS into children, EVAL's key position, the SCAN cursor the proxy parses and rewrites itself, the argument    *)
(* counts every handler indexes.  One vector = one connection that sends the requests of the class back to back; the      *)
(* reaction is the same as everywhere: one reply per request or the connection closed, the process lives, others served.  *)
(* {00} {ff} stand for the bytes 0x00 0xff, {fill:n} for n filler bytes (replaced by the replayer).                       *)
BraceAlpha == {"{", "}", "x"}
B1 == BraceAlpha
B2 == {a \o b : a \in B1, b \in BraceAlpha}
B3 == {a \o b : a \in B2, b \in BraceAlpha}
B4 == {a \o b : a \in B3, b \in BraceAlpha}
\* every key over the brace alphabet up to length 4 (every order of the braces), and a few longer ones
BraceKeys == B1 \cup B2 \cup B3 \cup B4 \cup {"a}b{c}", "{a}{b}", "x{y}z", "}x{y}z", "{x}}{", "{{x}}", "}}}{{{", "{}{x}"}
ByteKeys  == {" ", "\r", "\n", "\t", "{00}", "{ff}", "*", "$", "-", "+", ":", "0"}
CtlKeys   == {"a\r\nb", "\r\n", "a\nb", "a{00}b", "{00}{00}", "{" \o "\r\n" \o "}", "{{00}}", "a b", " a", "a ", "GET",
              "*1\r\n$4\r\nPING\r\n", "{ff}{ff}{ff}{ff}"}
LongNs    == {1024, 70000, 1048576}
Fill(n)   == "{fill:" \o ToString(n) \o "}"
LongKeys  == UNION {{Fill(n), "{" \o Fill(n) \o "}", "}" \o Fill(n) \o "{", "{a}" \o Fill(n), Fill(n) \o "{a}"} : n \in LongNs}
\* the requests a key goes through: routed by itself, as a child in every position of the commands the proxy splits, as EVAL's key
KeyReqs(k) == << <<"GET", k>>, <<"SET", k, "v">>, <<"MGET", k, "o">>, <<"MGET", "o", k>>, <<"MSET", k, "v", "o", "v">>,
                 <<"MSET", "o", "v", k, "v">>, <<"DEL", "o", k>>, <<"EXISTS", k, k>>, <<"EVAL", "return 1", "1", k>>, <<"HSET", k, k, k>> >>
Req(class, name, reqs) == [class |-> class, name |-> name, reqs |-> reqs]
KeyVecs ==    {Req("brace", k, KeyReqs(k)) : k \in BraceKeys}
         \cup {Req("empty", "", KeyReqs(""))}
         \cup {Req("byte", k, KeyReqs(k)) : k \in ByteKeys}
         \cup {Req("ctl", k, KeyReqs(k)) : k \in CtlKeys}
         \cup {Req("long", k, KeyReqs(k)) : k \in LongKeys}
\* SCAN: the cursor is  node index (16 bit) * 2^48 + node cursor ; the proxy parses it as a signed 64 bit number
Cursors == {"-1", "0", "1", "281474976710655", "281474976710656", "281474976710657", "562949953421312", "18446462598732840960",
            "9223372036854775807", "9223372036854775808", "-9223372036854775808", "18446744073709551615", "18446744073709551616",
            "abc", "", "1e3", "+1", "0x10", " 1", "1 ", "00000000000000000001", "{00}", "-"}
ScanArgs == {"-1", "0", "abc", "9223372036854775808", ""}
NumberVecs ==    {Req("scan-cursor", c, << <<"SCAN", c>>, <<"SCAN", c, "COUNT", "10">>, <<"SCAN", c, "MATCH", "*", "COUNT", "1">> >>) : c \in Cursors}
            \cup {Req("scan-count", x, << <<"SCAN", "0", "COUNT", x>>, <<"SCAN", "0", "MATCH", x>>, <<"SCAN", "0", x>> >>) : x \in ScanArgs}
\* argument counts at and below what the handlers index
ArityReqs == { <<"GET">>, <<"SET">>, <<"SET", "k">>, <<"MGET">>, <<"MSET">>, <<"MSET", "k">>, <<"MSET", "k", "v", "k2">>, <<"DEL">>, <<"EXISTS">>,
               <<"EVAL">>, <<"EVAL", "s">>, <<"EVAL", "s", "1">>, <<"EVAL", "s", "abc", "k">>, <<"EVAL", "s", "-1", "k">>, <<"EVAL", "s", "0">>,
               <<"SCAN">>, <<"HOTKEY">>, <<"PING", "x", "y">>, <<"INFO", "x">>, <<"SELECT">>, <<"TIME", "x">>, <<"">>, <<"", "k">>,
               <<"get">>, <<"GeT", "k", "extra">>, <<"HSCAN", "k">>, <<"SORT">>, <<"ZUNIONSTORE">> }
JoinSp(t) == IF Len(t) = 1 THEN t[1] ELSE t[1] \o " " \o t[2] \o (IF Len(t) > 2 THEN " .." \o ToString(Len(t)) ELSE "")
ArityVecs == {Req("arity", JoinSp(t), << t, <<"PING">> >>) : t \in ArityReqs}

(* ---- the vectors *)
Vec(side, ctx, form, payload) == [side |-> side, ctx |-> ctx, form |-> form, payload |-> payload]

ClientVecs == {Vec("client", "raw", "bytes", g) : g \in Generic} \cup {Vec("client", "raw", "truncated", g) : g \in Truncated}
              \cup {Vec("client", "raw", "big", b) : b \in Big}
              \cup {Vec("client", "raw", "big", r) : r \in ClientRuns}
              \cup {Vec("client", "key", "request", r) : r \in KeyVecs}
              \cup {Vec("client", "number", "request", r) : r \in NumberVecs}
              \cup {Vec("client", "arity", "request", r) : r \in ArityVecs}
BackendVecs ==
       {Vec("backend", "keyed", "bytes", g) : g \in Generic}
  \cup {Vec("backend", "keyed", "truncated", g) : g \in Truncated}
  \cup {Vec("backend", "cluster-nodes", "truncated", g) : g \in Truncated}
  \cup {Vec("backend", "keyed", "big", b) : b \in Big}
  \cup {Vec("backend", "keyed", "big", r) : r \in BackendRuns}
  \cup {Vec("backend", "keyed", "error", r) : r \in Redirects}
  \cup {Vec("backend", "keyed", "error", r) : r \in NearRedirects}
  \cup {Vec("backend", "keyed-child", "error", r) : r \in FoldRedirects \cup {"MOVED 1", "ASK 866 127.0.0.1:1", "aSk 866 {ADDR}"}}
  \cup {Vec("backend", "cluster-nodes", "error", r) : r \in FoldRedirects \cup {"MOVED 1 {ADDR}", "aSk 866 {ADDR}", "CLUSTERDOWN down"}}
  \cup {Vec("backend", "scan", "error", r) : r \in {"A" \o LongS \o "K 866 {ADDR}", "AS" \o Kelvin \o " 866 {ADDR}"}}
  \cup {Vec("backend", "readonly", "error", "A" \o LongS \o "K 866 {ADDR}"), Vec("backend", "asking", "error", "A" \o LongS \o "K 866 {ADDR}")}
  \cup {Vec("backend", "cluster-nodes", "bulk", c) : c \in ClusterNodes}
  \cup {Vec("backend", "cluster-nodes", "bytes", g) : g \in Generic}
  \cup {Vec("backend", "keyed-cps", "cps", c) : c \in CpsReplies}
  \cup {Vec("backend", "scan", "bytes", s) : s \in ScanReplies}
  \cup {Vec("backend", "scan", "error", r) : r \in {"MOVED 1 127.0.0.1:1", "ASK 1", "MOVED"}}
  \cup {Vec("backend", "readonly", "bytes", g) : g \in {"-ERR unknown" \o CRLF, "*0" \o CRLF, "$-1" \o CRLF, "-MOVED 1" \o CRLF, "-ASK" \o CRLF}}
  \cup {Vec("backend", "asking", "bytes", g) : g \in {"-ERR unknown" \o CRLF, "*0" \o CRLF, "-MOVED 1" \o CRLF, "-ASK 1 x" \o CRLF, ":1" \o CRLF}}

AllVecs == ClientVecs \cup BackendVecs
VecSeq == TLCEval(SetToSeq(AllVecs))

VARIABLE i
Init == i = 1
Next == /\ i <= Len(VecSeq) /\ PrintT("@@VEC " \o ToJson(VecSeq[i])) /\ i' = i + 1
Spec == Init /\ [][Next]_i

\* every parsing context of the proxy is covered by at least one vector of every form it can meet
Contexts == {"raw", "key", "number", "arity", "keyed", "keyed-child", "keyed-cps", "cluster-nodes", "scan", "readonly", "asking"}
AllContextsCovered == \A c \in Contexts : \E v \in AllVecs : v.ctx = c
\* every class of run unit of DecodeStack.tla is sent by a client and by a backend with a count beyond every declared limit
\* every context in which the proxy interprets an error reply meets a first word that is a verb only under Unicode folding
FoldCovered == \A c \in {"keyed", "keyed-child", "cluster-nodes", "scan", "readonly", "asking"} :
                 \E v \in AllVecs : v.ctx = c /\ v.form = "error" /\ v.payload = "A" \o LongS \o "K 866 {ADDR}"
\* the brace alphabet is complete up to length 4: every order of an opening and a closing brace around zero, one or two fillers
BracesCovered == /\ Cardinality(B1 \cup B2 \cup B3 \cup B4) = 3 + 9 + 27 + 81
                 /\ \A k \in {"}{", "}{x}", "a}b{c}", "{}", "{x}", "x}{x"} : \E v \in AllVecs : v.ctx = "key" /\ v.payload.name = k
RunsCovered == /\ \A cl \in {"blank", "empty", "cmd"} : \E r \in ClientRuns : r.class = cl /\ r.n >= 100000
               /\ \E r \in BackendRuns : r.class = "blank" /\ r.n >= 1000000
=============================================================================
