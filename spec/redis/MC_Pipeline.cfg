SPECIFICATION Spec
CONSTANTS
  Conns = {1, 2}
  Nodes = {1, 2, 3}
  MaxReq = 2
  SessCap = 2
INVARIANTS ReplyOrder OnlyComplete NeverAhead
PROPERTIES AllAnswered
CHECK_DEADLOCK FALSE
