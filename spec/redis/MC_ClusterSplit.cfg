SPECIFICATION Spec
CONSTANTS
  Nodes = {1, 2}
  Keys = {"a1", "b1"}
  Ops = {"mcount", "mdel", "mread", "mwrite"}
  MaxCmds = 1
  MaxLen = 3
  DedupKeys = FALSE
  AssembleByArrival = FALSE
  FoldUnsynchronised = FALSE
  FailKeys = {"b1"}
  MsetIgnoresChildErrors = FALSE
INVARIANTS EqualsReference StoreIsReference ChildAtOwner
CHECK_DEADLOCK FALSE
