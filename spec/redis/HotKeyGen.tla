----------------------------- MODULE HotKeyGen -----------------------------
(***************************************************************************)
(* Behaviour emitter for the counter (C19): HotKeyList plus a history      *)
(* variable.  Run exhaustively with VIEW GenView (state without hist) and  *)
(* ACTION_CONSTRAINT Emit: TLC prints, for every transition of the reduced *)
(* state graph, one path from the initial state that ends with that        *)
(* transition (transition cover).  Every step carries the operation and    *)
(* the complete abstract state expected after it: counts, the keys of      *)
(* every frequency in eviction order, size, the victim of the step, the    *)
(* map returned by Latch.                                                  *)
(***************************************************************************)
EXTENDS HotKeyList, Json, TLC

VARIABLE hist

gvars == <<lvars, hist>>

NodesOf(S) ==
  LET ns == Nodes(S) IN
  [i \in 1..Len(ns) |-> [freq |-> S.fn[ns[i]].freq, keys |-> ItemsOf(S, ns[i])]]

Rec(op, k) ==
  [op |-> op, k |-> k, cap |-> cap,
   counts |-> [x \in heap'.items |-> FreqOf(heap', x)],
   nodes |-> NodesOf(heap'),
   size |-> Cardinality(heap'.items),
   victim |-> ev'.key,
   out |-> [x \in {y \in Keys : out'[y] > 0} |-> out'[x]]]

GenInit == LInit /\ hist = <<>>

GenNext ==
  \/ \E k \in Keys : LIncr(k) /\ hist' = Append(hist, Rec("Incr", k))
  \/ LLatch /\ hist' = Append(hist, Rec("Latch", ""))
  \/ LFree /\ hist' = Append(hist, Rec("Free", ""))

GenSpec == GenInit /\ [][GenNext]_gvars

GenView == lvars

Emit == PrintT("@@EDGE " \o ToJson(hist'))
=============================================================================
