\* anti-vacuity: a filter that works with the config of connection time must violate ReadBack (and OffMeansOff)
SPECIFICATION Spec
CONSTANTS
  Keys = {"k1"}
  MaxOps = 5
  MaxRedirects = 1
  FixOnce = TRUE
  MaxVals = 1
  HookDepth = 2
  OwnBytes = TRUE
  Nodes = {"a", "b"}
  ConnConfig = "at-connect"
  BareUpdate = "refused"
  Sizes = {0}
  ReadLimit = 0
  OwnFrame = TRUE
INVARIANTS ReadBack OffMeansOff
CHECK_DEADLOCK FALSE
