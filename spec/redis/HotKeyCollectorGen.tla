------------------------- MODULE HotKeyCollectorGen -------------------------
(***************************************************************************)
(* Behaviour emitter for the collector (C19): HotKeyCollector plus a       *)
(* history of the steps taken.  Run with -simulate (seeded): when the      *)
(* period and eviction budgets are used up, Finish prints the history as   *)
(* one JSON line.  The harness folds the per-key steps of a job into one   *)
(* collect / evictStale call on the real collector; clk says whether the   *)
(* step reads the minute clock, so that a Tick inside a job becomes "the   *)
(* scripted clock advances after the j-th reading within this call".       *)
(***************************************************************************)
EXTENDS HotKeyCollector, Json, TLC

VARIABLES hist, finished

gvars == <<vars, hist, finished>>

Log(a, c, k, clk) == hist' = Append(hist, [a |-> a, c |-> c, k |-> k, clk |-> clk])

Done == JobIdle /\ rph = "idle" /\ budget.periods = 0 /\ budget.evicts = 0

GenInit == Init /\ hist = <<>> /\ finished = FALSE

Finish ==
  /\ ~finished /\ Done
  /\ PrintT("@@BEH " \o ToJson([cap |-> Cap, steps |-> hist]))
  /\ finished' = TRUE
  /\ UNCHANGED <<vars, hist>>

StaleAt(i) == ecur > ework[i].lut /\ ework[i].v # 0

GenNext ==
  /\ ~finished /\ ~Done
  /\ \/ \E c \in Ctrs, k \in Keys : CIncr(c, k) /\ Log("incr", c, k, 0)
     \/ \E c \in Ctrs : CFree(c) /\ Log("free", c, "", 0)
     \/ Tick /\ Log("tick", "", "", 0)
     \/ CollectStart /\ Log(IF cph' = "idle" THEN "collect0" ELSE "collect", "", "", 0)
     \/ \E k \in Keys : MergeOne(k) /\ Log("merge", "", k, 1)
     \/ \E k \in Keys : AddNew(k) /\ Log("new", "", k, 1)
     \/ Publish /\ Log("publish", "", "", 0)
     \/ EvictStart /\ Log("evict", "", "", 1)
     \/ HalveNext /\ Log("halve", "", "", IF StaleAt(epos) THEN 1 ELSE 0)
     \/ EvictFinish /\ Log("evicted", "", "", 0)
     \/ ReadStart /\ Log("read", "", "", 0)
     \/ ReadNext /\ Log("readnext", "", "", 0)
     \/ ReadEnd /\ Log("readend", "", "", 0)
  /\ UNCHANGED finished

GenSpec == GenInit /\ [][GenNext \/ Finish]_gvars

\* targeted emission (Win_HotKeyCollector.cfg, exhaustive run): every transition that enters the
\* window EvictWindow is printed as one script that ends inside that evictStale
WinView == vars
EmitWindow == (~EvictWindow') \/ PrintT("@@WIN " \o ToJson([cap |-> Cap, steps |-> hist']))
=============================================================================
