SPECIFICATION Spec
CONSTANTS
  Layouts = {"three", "frag"}
  MaxRefresh = 3
  WipeFirst = FALSE
  EmptyKeyAny = FALSE
INVARIANTS TypeOK RoutedByOwner RoutesNow TagMatesTogether
CHECK_DEADLOCK FALSE
