SPECIFICATION Spec
CONSTANTS
  Keys = {"a", "b"}
  Ctrs = {"n1"}
  Cap = 2
  MaxVal = 255
  MaxPeriods = 2
  MaxHits = 5
  MaxTicks = 2
  MaxEvicts = 1
  MaxReads = 0
  MaxFrees = 0
  FixEvict = FALSE
  CopyOnMerge = TRUE
INVARIANTS TypeOK ReportSorted ReportUnique ReportCapped OnlyAccessed NoZeroHeat ViewSorted ViewUnique ViewCapped ViewOnlyAccessed CountersBounded
CHECK_DEADLOCK FALSE
