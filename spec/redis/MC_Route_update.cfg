SPECIFICATION Spec
CONSTANTS
  Sessions = {"s1", "s2"}
  Shards = {"A", "B"}
  NRep = 1
  Strategies = {"MASTER", "BOTH", "REPLICA"}
  Kinds = {"read", "write"}
  MaxReq = 1
  MaxUpdates = 1
  StickyStrategy = FALSE
  SharedScratch = FALSE
INVARIANTS TypeOK OnlySupportedReachBackends WritesToOwningMaster RoutedWithinOwnerFamily
CHECK_DEADLOCK FALSE
