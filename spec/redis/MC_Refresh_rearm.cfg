SPECIFICATION Spec
CONSTANTS
  MaxLayout = 3
  MaxFailures = 2
  DrainOnSuccess = FALSE
  SkipUnchanged = FALSE
  RearmOnlyAfterTrigger = TRUE
  Strategy = "MASTER"
INVARIANTS TimerArmed
PROPERTIES Converges
CHECK_DEADLOCK FALSE
