------------------------------- MODULE SlotGen -------------------------------
(***************************************************************************)
(* Emission for C12 (spec -> code):                                        *)
(*  Gen_SlotTab.cfg  : the 256 entry table and the 65536 entry step table  *)
(*                     R8[v] = Rep8(v) in 256 chunks of 256 entries;       *)
(*  Gen_SlotKeys.cfg : (key, hash tag, slot) for every key of length       *)
(*                     <= MaxLen over Alphabet, computed with HashTag and  *)
(*                     Slot; the table driven fold must agree on each.     *)
(***************************************************************************)
EXTENDS Slot, Json

CONSTANTS MaxLen, Alphabet

VARIABLE key

\* ---- tables: one state per chunk c = v
TabInit == v \in 0..255 /\ key = <<>>
TabNext == UNCHANGED <<v, key>>
TabSpec == TabInit /\ [][TabNext]_<<v, key>>

EmitTab ==
  /\ v = 0 => PrintT("@@TAB " \o ToJson([j \in 1..256 |-> Tab[j - 1]]))
  /\ PrintT("@@R8 " \o ToJson([c |-> v, r |-> [j \in 1..256 |-> Rep8(v * 256 + j - 1)]]))

\* ---- brace keys: states are keys, a transition appends one byte
KeyInit == v = 0 /\ key = <<>>
KeyNext == /\ Len(key) < MaxLen
           /\ \E a \in Alphabet : key' = Append(key, a)
           /\ v' = v
KeySpec == KeyInit /\ [][KeyNext]_<<v, key>>

TableAgreesOnKey == CRCTab(HashTag(key)) % 16384 = Slot(key)

\* the tag is a contiguous part of the key; keys sharing the tag share the slot
TagIsPart ==
  LET t == HashTag(key) IN
    \/ t = key
    \/ \E i \in 1..Len(key) : /\ key[i] = LB
                              /\ i + Len(t) + 1 <= Len(key)
                              /\ key[i + Len(t) + 1] = RB
                              /\ t = SubSeq(key, i + 1, i + Len(t))
                              /\ Len(t) > 0
                              /\ \A j \in 1..(i - 1) : key[j] # LB
                              /\ \A j \in 1..Len(t) : t[j] # RB

EmitKey == PrintT("@@KEY " \o ToJson([k |-> key, t |-> HashTag(key), s |-> Slot(key)]))
=============================================================================
