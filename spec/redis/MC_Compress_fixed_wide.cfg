\* thorough tier: three value positions per request
SPECIFICATION Spec
CONSTANTS
  Keys = {"k1", "k2"}
  MaxOps = 3
  MaxRedirects = 2
  FixOnce = TRUE
  MaxVals = 3
  HookDepth = 2
  OwnBytes = TRUE
  Nodes = {}
  ConnConfig = "live"
  BareUpdate = "refused"
  Sizes = {0}
  ReadLimit = 0
  OwnFrame = TRUE
INVARIANTS StoredForm ReadBack OnlyWhenEnabled OffMeansOff
CHECK_DEADLOCK FALSE
