--------------------------- MODULE ClusterSplitGen ---------------------------
(* Emitter for ClusterSplit.                                                 *)
(* @@VEC: one vector per (set of existing keys, command class, argument      *)
(*        list up to MaxLen WITH repetitions) and the reply the definition   *)
(*        (RefMulti) gives - the complete finite space, printed once; these  *)
(*        are the mandatory strata of every run (repeated existing key,      *)
(*        repeated missing key, distinct keys, per class).                   *)
(* @@BEH: programs of a sequential client (simulation), every command with   *)
(*        the reply of the single server, on a random layout.                *)
EXTENDS ClusterSplit, Json
CONSTANT EmitVectors
VARIABLES hist, finished
gvars == <<vars, hist, finished>>

ValsOf(ks) == [i \in 1..Len(ks) |-> 10 + i]
StoreOf(P) == [k \in Keys |-> IF k \in P THEN Preset ELSE Absent]
Vector(P, o, s, F) == LET rm == RefMulti(o, s, ValsOf(s), StoreOf(P), F)
                      IN [present |-> StoreOf(P), op |-> o, ks |-> s, vals |-> ValsOf(s), exp |-> rm[1], after |-> rm[2],
                          failing |-> [k \in Keys |-> IF k \in F THEN 1 ELSE 0]]
Vectors == {Vector(P, o, s, {}) : P \in SUBSET Keys, o \in Ops, s \in KeySeqs}
\* @@VEC with a failing key: the node answers an error to the per-key command of ONE key the command names
\* (all keys existing / none existing); exp carries ErrV = 2000 where the combination is an error
Naming(k) == {x \in KeySeqs : \E i \in DOMAIN x : x[i] = k}
ErrVectors == UNION {{Vector(P, o, s, {k}) : P \in {{}, Keys}, o \in Ops, s \in Naming(k)} : k \in Keys}
ASSUME EmitVectors => \A v \in Vectors \cup ErrVectors : PrintT("@@VEC " \o ToJson(v))

GenInit == /\ Init /\ finished = FALSE
           /\ hist = <<[a |-> "layout", owner |-> owner, present |-> ref]>>
Finish ==
  /\ ~finished /\ Len(cmds) = MaxCmds /\ AllAnswered
  /\ PrintT("@@BEH " \o ToJson(hist))
  /\ finished' = TRUE /\ UNCHANGED <<vars, hist>>
GenNext ==
  /\ ~finished
  /\ \/ Len(cmds) < MaxCmds /\ AllAnswered /\ \E op \in Ops, ks \in KeySeqs :
          /\ Issue(op, ks)
          /\ hist' = Append(hist, [a |-> "cmd", op |-> op, ks |-> ks, vals |-> cmds'[Len(cmds')].vals,
                                   exp |-> cmds'[Len(cmds')].exp, after |-> ref'])
     \/ (\E n \in Nodes : NodeExec(n) \/ FoldWrite(n)) /\ UNCHANGED hist
     \/ (\E c \in 1..Len(cmds) : Assemble(c)) /\ UNCHANGED hist
  /\ UNCHANGED finished
GenSpec == GenInit /\ [][GenNext \/ Finish]_gvars
=============================================================================
