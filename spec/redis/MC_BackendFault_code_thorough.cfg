SPECIFICATION Spec
CONSTANTS
  NPlain = 4
  QCap = 3
  AskQuitExit = "answer"
  Faults = {"eof", "rst", "garbage", "stop", "remove"}
INVARIANTS TypeOK NoCrash AtMostOnce NoLost PairingFIFO
ACTION_CONSTRAINT EmitStratum
CHECK_DEADLOCK FALSE
