SPECIFICATION TraceSpec
ACTION_CONSTRAINT DiagEmit
POSTCONDITION TraceAccepted
CHECK_DEADLOCK FALSE
