SPECIFICATION Spec
CONSTANTS
  Normalise = "never"
INVARIANTS OnlyAccessedKeysReported
CHECK_DEADLOCK FALSE
