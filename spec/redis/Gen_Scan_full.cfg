SPECIFICATION GenSpec
CONSTANTS
  MinNodes = 0
  MaxNodes = 3
  Base = 256
  MaxChain = 2
  IdxSpace = 8
  PastEndRule = "ge"
  CompletionOrder = "rewrite-publish"
  Withdrawals = FALSE
  ConcurrentWithdrawals = FALSE
  HostReads = "snapshot"
  Reannouncements = FALSE
  ReannounceRule = "atomic"
CHECK_DEADLOCK FALSE
