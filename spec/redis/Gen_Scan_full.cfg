SPECIFICATION GenSpec
CONSTANTS
  MaxNodes = 3
  Base = 256
  MaxChain = 2
CHECK_DEADLOCK FALSE
