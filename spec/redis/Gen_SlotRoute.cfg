SPECIFICATION RefreshSpec
CONSTANTS
  Layouts = {"three", "frag"}
  MaxRefresh = 2
  WipeFirst = FALSE
  EmptyKeyAny = FALSE
INVARIANTS TypeOK RoutesNow EmitState
CHECK_DEADLOCK FALSE
