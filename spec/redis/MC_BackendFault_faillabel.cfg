SPECIFICATION Spec
CONSTANTS
  NPlain = 3
  QCap = 2
  AskQuitExit = "fail-label"
  Faults = {"eof", "rst", "garbage", "stop", "remove"}
INVARIANTS TypeOK NoCrash

CHECK_DEADLOCK FALSE
