SPECIFICATION GenSpec
CONSTANTS
  Keys = {"a", "b", "c"}
  Ctrs = {"n1"}
  Cap = 3
  MaxVal = 255
  MaxPeriods = 1
  MaxHits = 6
  MaxTicks = 1
  MaxEvicts = 1
  MaxReads = 0
  MaxFrees = 0
  FixEvict = TRUE
  CopyOnMerge = TRUE
VIEW WinView
ACTION_CONSTRAINT EmitWindow
CHECK_DEADLOCK FALSE
