----------------------------- MODULE DecodeStack -----------------------------
(***************************************************************************)
(* C11, "stack and memory use are bounded by the protocol's declared       *)
(* limits, not by attacker-chosen ...": the RESP decoder of one connection *)
(* (proc/redis/codec.go decoder.Decode / decode / decodeArray /            *)
(* decodeInline) seen as a machine over a STREAM of units, with the number *)
(* of decoder activations that are live on the goroutine stack as state.   *)
(*                                                                         *)
(* Malformed.tla enumerates single frames.  This module adds the dimension *)
(* that single frames cannot show: what a RUN of units does to the stack.  *)
(* A unit is                                                               *)
(*   "cmd"    a complete frame that is delivered (command / reply)         *)
(*   "blank"  a degenerate line that carries no frame (CRLF, LF, spaces)   *)
(*   "empty"  a frame without content: "*0", "*-1", "$-1"                 *)
(*   "open"   an array header announcing one more element (nesting)        *)
(*   "leaf"   a scalar that completes every open array                     *)
(* The peer chooses the units; Run is the length of the run it may send    *)
(* (the real peer: unbounded; the model: MaxRun, larger than every bound). *)
(*                                                                         *)
(* Policies (the code as it is = "error"/"limit"/"deliver"; the other      *)
(* values are the ways a tolerant decoder goes wrong and MUST violate      *)
(* StackBounded - anti-vacuity of the invariant):                          *)
(*   BlankPolicy  "error"   a blank line is a protocol error: sticky       *)
(*                          decoder error, the connection is closed        *)
(*                "loop"    skipped by iteration (what redis-server does)  *)
(*                "recurse" skipped by calling decode() again: two more    *)
(*                          activations per blank line                     *)
(*   EmptyPolicy  "deliver" handed to the caller like any frame            *)
(*                "recurse" skipped by calling decode() again              *)
(*   DepthPolicy  "limit"   nesting deeper than MaxDepth is an error       *)
(*                "none"    the decoder recurses as deep as announced      *)
(***************************************************************************)
EXTENDS Naturals, Sequences, FiniteSets, TLC

CONSTANTS MaxDepth,      \* declared nesting limit (code: maxArrayDepth = 128)
          MaxRun,        \* length of the run the peer may send in the model
          BlankPolicy, EmptyPolicy, DepthPolicy

Units == {"cmd", "blank", "empty", "open", "leaf"}

VARIABLES st,        \* "run" | "closed" (sticky decoder error => the connection is closed)
          depth,     \* arrays currently open (decoder.depth)
          frames,    \* decoder activations live on the stack
          run,       \* units consumed so far
          delivered  \* frames handed to the caller so far

vars == <<st, depth, frames, run, delivered>>

\* activations per construct: decode -> decodeResp/decodeArray, decode -> decodeInline
PerLevel == 2

\* the declared limits allow MaxDepth nested arrays plus the scalar inside them
FrameBound == PerLevel * (MaxDepth + 1)

Init == st = "run" /\ depth = 0 /\ frames = 0 /\ run = 0 /\ delivered = 0

Close == st' = "closed" /\ depth' = 0 /\ frames' = 0 /\ UNCHANGED delivered

\* a frame completes: every activation returns
Deliver == st' = st /\ depth' = 0 /\ frames' = 0 /\ delivered' = delivered + 1

Recurse == st' = st /\ depth' = depth /\ frames' = frames + PerLevel /\ UNCHANGED delivered

Keep == UNCHANGED <<st, depth, frames, delivered>>

ReadBlank == CASE BlankPolicy = "error"   -> Close
               [] BlankPolicy = "loop"    -> Keep
               [] BlankPolicy = "recurse" -> Recurse

\* inside an open array an empty frame is just an element
ReadEmpty == IF depth > 0 THEN Keep
             ELSE CASE EmptyPolicy = "deliver" -> Deliver
                    [] EmptyPolicy = "recurse" -> Recurse

ReadOpen == IF DepthPolicy = "limit" /\ depth >= MaxDepth
              THEN Close
              ELSE st' = st /\ depth' = depth + 1 /\ frames' = frames + PerLevel /\ UNCHANGED delivered

Read(u) ==
  /\ st = "run" /\ run < MaxRun
  /\ run' = run + 1
  /\ CASE u = "cmd"   -> Deliver
       [] u = "leaf"  -> Deliver
       [] u = "blank" -> ReadBlank
       [] u = "empty" -> ReadEmpty
       [] u = "open"  -> ReadOpen

Next == \E u \in Units : Read(u)
Spec == Init /\ [][Next]_vars

TypeOK == st \in {"run", "closed"} /\ depth \in 0..MaxRun /\ frames \in 0..(PerLevel * MaxRun) /\ run \in 0..MaxRun

(* the property: the stack in use never depends on how many units the peer sends *)
StackBounded == frames <= FrameBound
DepthBounded == depth <= MaxDepth

(* windows that must be reachable (trap invariants, expected to be violated): a run longer than every    *)
(* declared limit that still has not produced a frame, and a run of frames longer than every limit       *)
W_LongRunNoFrame == run > FrameBound /\ delivered = 0 /\ st = "run"
W_LongRunOfFrames == delivered > FrameBound
NotW_LongRunNoFrame == ~W_LongRunNoFrame
NotW_LongRunOfFrames == ~W_LongRunOfFrames
=============================================================================
