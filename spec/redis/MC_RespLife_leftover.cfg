SPECIFICATION Spec
CONSTANTS
  Residue = FALSE
  Cap = 32
  MaxConn = 2
INVARIANTS NeverLeftover
CHECK_DEADLOCK FALSE
