SPECIFICATION ObsSpec
CONSTANTS
  Conns = {1, 2}
  ErrorsOK = TRUE
INVARIANTS NeverAhead EndedComplete
CONSTRAINT Bound
CHECK_DEADLOCK FALSE
