SPECIFICATION Spec
CONSTANTS
  Normalise = "first-byte"
INVARIANTS OnlyAccessedKeysReported
CHECK_DEADLOCK FALSE
