\* thorough tier: the strata with up to three value positions and two redirections
SPECIFICATION StrataSpec
CONSTANTS
  Keys = {"k1"}
  MaxOps = 4
  MaxRedirects = 2
  FixOnce = TRUE
  MaxVals = 3
  HookDepth = 2
  OwnBytes = TRUE
INVARIANTS StoredForm ReadBack OnlyWhenEnabled
CHECK_DEADLOCK FALSE
