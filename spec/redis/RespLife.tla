------------------------------- MODULE RespLife -------------------------------
(***************************************************************************)
(* C10 - the life cycle of a decoder.                                      *)
(*                                                                         *)
(* RespReader is one decoder over one stream.  In the proxy a decoder is   *)
(* created for a connection, the connection ends at any point - also in    *)
(* the middle of a message, with bytes of the unfinished message still in  *)
(* the window [r,w) - and later a NEW connection gets "a decoder".  The    *)
(* property "decoding a stream yields exactly the messages of that         *)
(* stream" is about the new connection's stream alone, so its decoder must *)
(* be in the initial state.                                                *)
(*                                                                         *)
(* Residue = FALSE: the code as it is - a new decoder per connection       *)
(*   (codec.go newDecoder: r = w = 0, no error, empty slab).               *)
(* Residue = TRUE: a retired decoder is handed to the next connection with *)
(*   its source, error and slab reset but its window kept: the bytes the   *)
(*   previous connection left unconsumed are decoded in front of the new   *)
(*   connection's bytes.  OwnMessagesOnly must be violated.                *)
(*                                                                         *)
(* The first connection sends K complete requests and a prefix of another  *)
(* message cut at EVERY position (inside a length line, between lines,     *)
(* inside a bulk payload, inside CR LF, inside an inline line) and ends;   *)
(* its decoder is retired; one or two further connections follow, each     *)
(* gets either the retired decoder or a new one (a pool may be empty).     *)
(* The code side (c10-residue) runs the same rounds through a real         *)
(* processor's sessions.                                                   *)
(***************************************************************************)
EXTENDS RespReader

CONSTANTS
  Residue,   \* TRUE: the window of a retired decoder survives into the next connection
  Cap,       \* buffer size of the session decoder (scaled down; the code uses 4096)
  MaxConn    \* number of consecutive connections

LA == 97
Ping   == Encode(Arr(<<Bulk(<<80, 73, 78, 71>>)>>))                            \* *1 $4 PING
GetA   == Encode(Arr(<<Bulk(<<71, 69, 84>>), Bulk(<<LA>>)>>))                  \* *2 $3 GET $1 a
Inline == <<80, 73, 78, 71, SP, LA, CR, LF>>                                   \* PING a

Requests == {Ping, GetA, Inline}

VARIABLES
  phase,   \* "new" | "open" | "retired" | "done"
  conn,    \* number of the current connection (1..MaxConn)
  dec,     \* the decoder (reader state of RespReader) of the current connection / the retired one
  left,    \* bytes the retired decoder still holds in its window (they belong to a previous connection)
  own,     \* the stream the current connection sends
  ok       \* every finished connection decoded exactly its own messages

vars == <<phase, conn, dec, left, own, ok>>

Fresh == NewReader(Cap, <<>>)

Init ==
  /\ phase = "new" /\ conn = 1
  /\ dec = Fresh /\ left = <<>>
  /\ own = <<>>
  /\ ok = TRUE

\* what a connection sends: k complete requests and then either nothing or a proper prefix of a request
Streams ==
  LET fulls == {<<>>, Ping, Inline \o GetA}
      prefixes == {<<>>} \cup UNION {{SubSeq(m, 1, n) : n \in 1..(Len(m) - 1)} : m \in Requests}
  IN {f \o p : f \in fulls, p \in prefixes}

\* a connection is accepted and gets its decoder: a new one, or (Residue) the retired one with the
\* source, the error and the slab reset but r and w as they were
Accept(useRetired) ==
  /\ phase \in {"new", "retired"}
  /\ \E s \in Streams : own' = s
  /\ dec' = IF useRetired /\ phase = "retired" /\ Residue
            THEN [Fresh EXCEPT !.r = dec.r, !.w = dec.w]
            ELSE Fresh
  /\ left' = IF useRetired /\ phase = "retired" /\ Residue THEN left ELSE <<>>
  /\ phase' = "open"
  /\ UNCHANGED ok

\* the connection delivers its bytes (one or two reads) and ends; the session decodes until the error.
\* The decoder works on "bytes still in its window, then the bytes of the connection".
Serve ==
  /\ phase = "open"
  /\ \E cutAt \in {0, 1, Len(own) \div 2, Len(own) - 1} \cap 0..Len(own) :
       LET chunks == IF cutAt = 0 \/ cutAt = Len(own) THEN (IF own = <<>> THEN <<>> ELSE <<Len(own)>>)
                     ELSE <<cutAt, Len(own) - cutAt>>
           eff == left \o own
           d == RDecodeFrom([dec EXCEPT !.ch = chunks], eff, <<>>, <<>>)
           a == DecodeAll(own)
       IN \* exactly the messages of this connection's stream, consuming exactly their bytes
          /\ ok' = (ok /\ d.msgs = a.msgs /\ d.ends = [i \in 1..Len(a.ends) |-> a.ends[i] + Len(left)])
          \* of a retired decoder only the window matters
          /\ dec' = [Fresh EXCEPT !.r = d.R.r, !.w = d.R.w]
          \* what the decoder has not consumed stays in its window
          /\ left' = SubSeq(eff, d.R.off + 1, d.R.off + (d.R.w - d.R.r))
  /\ phase' = "retired"
  /\ UNCHANGED own

Next3 ==
  \/ Accept(TRUE) /\ (phase = "retired" => conn < MaxConn) /\ conn' = IF phase = "retired" THEN conn + 1 ELSE conn
  \/ Accept(FALSE) /\ (phase = "retired" => conn < MaxConn) /\ conn' = IF phase = "retired" THEN conn + 1 ELSE conn
  \/ Serve /\ conn' = conn

\* Accept leaves conn to Next3
Next == Next3

Spec == Init /\ [][Next]_vars

\* the property for every connection
OwnMessagesOnly == ok

\* a connection's decoder starts in the initial state
StartsInitial == phase = "open" => (dec.r = 0 /\ dec.w = 0 /\ dec.err = "" /\ left = <<>>)

\* anti-vacuity: some connection does end with bytes in the window (else Residue could not matter)
NeverLeftover == ~(phase = "retired" /\ left # <<>>)
=============================================================================
