------------------------------ MODULE ConnTable ------------------------------
(***************************************************************************)
(* The backend connection table of the Redis upstream                      *)
(* (proc/redis/upstream.go:214-319): `clients` (address -> live client,    *)
(* copy-on-write under clientsMu), `createClientCalls` (address -> shared  *)
(* result of a connection attempt), dialling, a client that dies and       *)
(* removes its address from the table, resetAllClients, and the requests   *)
(* that go through getClient / Send.  One address is enough: entries of    *)
(* different addresses never interact.                                     *)
(*                                                                         *)
(*   FixCallEntry   - the finished connect call is removed from            *)
(*                    createClientCalls (pinned code: never removed, so    *)
(*                    every later request gets the cached dead client or   *)
(*                    the cached dial error for ever)                      *)
(*   FixRemoveOwn   - a finished client removes the table entry only if    *)
(*                    the entry still is this client (pinned code removes  *)
(*                    by address and may orphan a newer client after       *)
(*                    resetAllClients)                                     *)
(*   FixResetSnapshot - resetAllClients takes its snapshot of the table     *)
(*                    under clientsMu (pinned code: before taking the lock,  *)
(*                    so a client registered in between is wiped from the    *)
(*                    table without being stopped)                           *)
(*                                                                         *)
(* A backend that stops answering (Stall) fills the in-flight queue of its  *)
(* connection (cap(processingReqs)); the writer of that client then waits   *)
(* at a hand-over with the next request in hand (upstream.go loopWrite):    *)
(* the hand-over of a command, or - for a request that follows an ASK       *)
(* redirection - the hand-over of the ASKING placeholder.  A connection     *)
(* loss must wake the writer at either point, otherwise client.Start never  *)
(* returns, the dead client is never removed from the table and the address *)
(* never heals.                                                             *)
(* A request that follows a MOVED / ASK redirection runs on the reader       *)
(* goroutine of the redirecting backend's client (handleRedirection ->      *)
(* MakeRequestToHost -> getClient -> createClient); when the target has no  *)
(* client that reader needs clientsMu.  resetAllClients stops every old     *)
(* client and waits for its reader: it must not hold clientsMu meanwhile.   *)
(*   ResetStopsUnderLock - resetAllClients keeps clientsMu while it stops   *)
(*                    the old clients (`defer Unlock()`): FALSE in the code; *)
(*                    TRUE must violate NoStuckReset (reset waits for the   *)
(*                    reader, the reader waits for the lock)                *)
(* What a backend connection depends on indirectly:                         *)
(*  - the hot-key collector hands out one counter PER ADDRESS (AllocCounter):*)
(*    the successor connection of an address gets the counter the old       *)
(*    client still has registered; client.Stop frees it (unregisters it     *)
(*    under the collector's lock, resets it under the counter's lock) while *)
(*    the collector's pass holds its lock and latches each counter.         *)
(*      FreeDestroys        - Free leaves the counter unusable (FALSE in    *)
(*                            the code: reset); TRUE must violate NoCrash   *)
(*      FreeHoldsCounterLock- Free keeps the counter's lock while it takes  *)
(*                            the collector's lock (FALSE in the code);     *)
(*                            TRUE must violate NoLockCycle                 *)
(*  - the connect timeout of the run-time configuration: an update that     *)
(*    omits it gets the default from the processor wrapper.                 *)
(*      UpdateLosesDefaults - the defaults do not reach the processor       *)
(*                            (FALSE in the code); TRUE must violate        *)
(*                            NoCrash at the next connect                   *)
(*   AskSelectsQuit - the hand-over of the ASKING placeholder also waits    *)
(*                    for quit (FALSE: plain channel send, the writer stays *)
(*                    blocked for ever when the connection is lost)         *)
(***************************************************************************)
EXTENDS Naturals, Sequences, FiniteSets, TLC

CONSTANTS Reqs,           \* request ids (naturals, issued in order)
          MaxGens,        \* bound on connect calls ever stored
          MaxClients,     \* bound on clients ever created
          MaxFaults,      \* bound on environment faults
          MaxStalls,      \* bound on backend stalls (in-flight queue of a connection full)
          MaxAsk,         \* bound on requests that follow an ASK redirection
          FixCallEntry, FixRemoveOwn, FixResetSnapshot,
          AskSelectsQuit,
          ResetStopsUnderLock,
          Counters,       \* BOOLEAN: model the counter registry and its locks
          MaxCollects,    \* bound on collector passes
          MaxCfg,         \* bound on run-time configuration updates
          FreeDestroys, FreeHoldsCounterLock, UpdateLosesDefaults

NoClient == 0
Pending == MaxClients + 1     \* result of a call that has not finished yet
Clients == 1..MaxClients

VARIABLES
  table,        \* client id registered for the address (NoClient if none)
  call,         \* generation of the call stored in createClientCalls (0 = no entry)
  gens,         \* number of calls stored so far
  callRes,      \* callRes[g]: Pending | client id | NoClient (dial error) - callers hold a pointer to their call
  alive,        \* alive[c]: the client's connection is up and its loops run
  exited,       \* exited[c]: Start() returned, removeClient not yet executed
  created,      \* number of clients created so far
  up,           \* backend reachable (accepts connections)
  rq,           \* rq[r]: "idle" | "lookup" | "waitcall" | "dial" | "send" | "done"
  rqc,          \* client a request is going to be sent on
  outcome,      \* outcome[r]: "none" | "ok" | "err"
  sawDown,      \* sawDown[r]: backend down or a connection lost during r's life
  next,         \* next request to be issued (requests are issued one after the other or concurrently)
  rst,          \* resetAllClients in progress: "idle" | "snap"
  snap,         \* its snapshot of the table
  genDown,      \* genDown[g]: the connect attempt of call g was started while the backend was down
  faults,
  full,         \* full[c]: the backend stalls and the in-flight queue of c's connection is full
  hand,         \* hand[c]: request the writer of c holds while it waits at a hand-over (0 = none)
  asking,       \* asking[r]: r follows an ASK redirection (the writer sends ASKING in front of it)
  wedged,       \* wedged[c]: connection lost, but the writer never woke up: Start() never returns
  stalls, asks,
  mu,           \* clientsMu: "free" | "reset" (createClient / removeExitedClient hold it within one step)
  reg,          \* counter registered under the address in the collector (0 = none)
  cctr,         \* cctr[c]: counter client c increments for every keyed command
  dead,         \* dead[k]: counter k was freed in a way that leaves it unusable
  tostop,       \* clients resetAllClients still has to Stop (Stop frees the client's counter)
  fr,           \* client whose Stop is between the two halves of Counter.Free (0 = none)
  rw,           \* the collector's lock: "free" | "collect" (read-held by a collect pass); AllocCounter / the free callback
                \* take it for writing within one step
  latched,      \* the pass has latched the registered counter
  collects,
  cfgTO,        \* the configuration the processor holds has a connect timeout
  cfgs,
  crashed       \* the process has died (nil map in the backend writer / nil timeout in createClient)

pvars == <<full, hand, asking, wedged, stalls, asks>>      \* pipeline part
cvars == <<reg, cctr, dead, tostop, fr, rw, latched, collects, cfgTO, cfgs, crashed>>     \* counters, configuration
vars == <<table, call, gens, callRes, alive, exited, created, up, rq, rqc, outcome, sawDown, next, rst, snap, genDown, faults, pvars, mu, cvars>>

Init ==
  /\ table = NoClient /\ call = 0 /\ gens = 0 /\ callRes = [g \in 1..MaxGens |-> Pending]
  /\ alive = [c \in Clients |-> FALSE] /\ exited = [c \in Clients |-> FALSE]
  /\ created = 0 /\ up \in BOOLEAN
  /\ rq = [r \in Reqs |-> "idle"] /\ rqc = [r \in Reqs |-> NoClient]
  /\ outcome = [r \in Reqs |-> "none"]
  /\ sawDown = [r \in Reqs |-> FALSE]
  /\ next = 1 /\ rst = "idle" /\ snap = NoClient /\ genDown = [g \in 1..MaxGens |-> FALSE] /\ faults = 0
  /\ full = [c \in Clients |-> FALSE] /\ hand = [c \in Clients |-> 0] /\ asking = [r \in Reqs |-> FALSE]
  /\ wedged = [c \in Clients |-> FALSE] /\ stalls = 0 /\ asks = 0 /\ mu = "free"
  /\ reg = 0 /\ cctr = [c \in Clients |-> 0] /\ dead = [k \in Clients |-> FALSE] /\ tostop = {} /\ fr = 0
  /\ rw = "free" /\ latched = FALSE /\ collects = 0 /\ cfgTO = TRUE /\ cfgs = 0 /\ crashed = FALSE

InFlight(r) == rq[r] \notin {"idle", "done"}
\* every request in flight witnesses a fault
Witness == [r \in Reqs |-> sawDown[r] \/ InFlight(r)]

\* the writer of c can leave when the connection is lost: it holds nothing, or waits at a hand-over that also waits for quit
CanExit(c) == hand[c] = 0 \/ ~asking[hand[c]] \/ AskSelectsQuit
\* c's connection is lost (or c is stopped) in this step
Lose(cs) ==
  /\ alive' = [c \in Clients |-> IF c \in cs THEN FALSE ELSE alive[c]]
  /\ exited' = [c \in Clients |-> IF c \in cs /\ alive[c] THEN CanExit(c) ELSE exited[c]]
  /\ wedged' = [c \in Clients |-> IF c \in cs /\ alive[c] THEN ~CanExit(c) ELSE wedged[c]]
  /\ full' = [c \in Clients |-> IF c \in cs THEN FALSE ELSE full[c]]

(* a client issues request r: MakeRequestToHost -> getClient: table lookup; the request may be one that   *)
(* an ASK redirection sent here (handleRedirection sets req.asking)                                        *)
Issue(r) ==
  /\ rq[r] = "idle" /\ r = next /\ next' = next + 1
  /\ rq' = [rq EXCEPT ![r] = "lookup"]
  \* a loss that the proxy is still processing (client exited, entry not yet removed) counts:
  \* the request may meet the dying client - a short, bounded window
  /\ sawDown' = [sawDown EXCEPT ![r] = ~up \/ \E c \in Clients : exited[c]]
  /\ \/ UNCHANGED <<asking, asks>>
     \/ asks < MaxAsk /\ asks' = asks + 1 /\ asking' = [asking EXCEPT ![r] = TRUE]
  /\ UNCHANGED <<mu, table, call, gens, callRes, alive, exited, created, up, rqc, outcome, rst, snap, genDown, faults, full, hand, wedged, stalls, cvars>>

(* getClient (upstream.go:214-233): hit -> send; miss -> LoadOrStore the call *)
Lookup(r) ==
  /\ rq[r] = "lookup"
  /\ IF table # NoClient
       THEN /\ rq' = [rq EXCEPT ![r] = "send"] /\ rqc' = [rqc EXCEPT ![r] = table]
            /\ UNCHANGED <<call, gens>>
       ELSE IF call = 0
              THEN /\ gens < MaxGens /\ gens' = gens + 1 /\ call' = gens + 1
                   /\ rq' = [rq EXCEPT ![r] = "dial"] /\ rqc' = [rqc EXCEPT ![r] = gens + 1]
              ELSE /\ rq' = [rq EXCEPT ![r] = "waitcall"] /\ rqc' = [rqc EXCEPT ![r] = call]
                   /\ UNCHANGED <<call, gens>>
  /\ UNCHANGED <<mu, table, callRes, alive, exited, created, up, outcome, sawDown, next, rst, snap, genDown, faults, pvars, cvars>>

(* a caller that found an existing call entry waits for it and takes its result; the shared attempt may  *)
(* have been started while the backend was down (fail fast): that request witnesses the outage too       *)
WaitCall(r) ==
  /\ rq[r] = "waitcall" /\ callRes[rqc[r]] # Pending
  /\ IF callRes[rqc[r]] = NoClient
       THEN /\ outcome' = [outcome EXCEPT ![r] = "err"] /\ rq' = [rq EXCEPT ![r] = "done"] /\ UNCHANGED rqc
       ELSE /\ rqc' = [rqc EXCEPT ![r] = callRes[rqc[r]]] /\ rq' = [rq EXCEPT ![r] = "send"] /\ UNCHANGED outcome
  /\ sawDown' = [sawDown EXCEPT ![r] = @ \/ genDown[rqc[r]]]
  /\ UNCHANGED <<mu, table, call, gens, callRes, alive, exited, created, up, next, rst, snap, genDown, faults, pvars, cvars>>

(* the caller that stored the call starts to connect: whether the backend is reachable is decided now,    *)
(* the attempt finishes later (DialEnd)                                                                    *)
DialStart(r) ==
  /\ rq[r] = "dial" /\ mu = "free" /\ rq' = [rq EXCEPT ![r] = "dialing"]
  /\ genDown' = [genDown EXCEPT ![rqc[r]] = ~up]
  /\ UNCHANGED <<mu, table, call, gens, callRes, alive, exited, created, up, rqc, outcome, sawDown, next, rst, snap, faults, pvars, cvars>>

(* createClient (upstream.go:235-270) by the caller that stored the call    *)
Dial(r) ==
  /\ rq[r] = "dialing" /\ mu = "free" /\ (Counters => rw = "free")
  /\ IF table # NoClient
       THEN \* somebody registered a client meanwhile
            /\ callRes' = [callRes EXCEPT ![rqc[r]] = table] /\ rqc' = [rqc EXCEPT ![r] = table]
            /\ rq' = [rq EXCEPT ![r] = "send"]
            /\ UNCHANGED <<table, alive, exited, created, outcome, cctr, reg>>
       ELSE IF ~genDown[rqc[r]] /\ created < MaxClients
              THEN /\ created' = created + 1
                   /\ table' = created + 1 /\ alive' = [alive EXCEPT ![created + 1] = up]
                   /\ exited' = [exited EXCEPT ![created + 1] = ~up]
                   /\ callRes' = [callRes EXCEPT ![rqc[r]] = created + 1] /\ rqc' = [rqc EXCEPT ![r] = created + 1]
                   /\ rq' = [rq EXCEPT ![r] = "send"] /\ UNCHANGED outcome
                   \* AllocCounter(addr): the counter registered under the address, a new one otherwise
                   /\ IF Counters
                        THEN /\ cctr' = [cctr EXCEPT ![created + 1] = IF reg # 0 THEN reg ELSE created + 1]
                             /\ reg' = IF reg # 0 THEN reg ELSE created + 1
                        ELSE UNCHANGED <<cctr, reg>>
              ELSE /\ genDown[rqc[r]] /\ UNCHANGED <<cctr, reg>>
                   /\ callRes' = [callRes EXCEPT ![rqc[r]] = NoClient]
                   /\ outcome' = [outcome EXCEPT ![r] = "err"] /\ rq' = [rq EXCEPT ![r] = "done"]
                   /\ UNCHANGED <<table, alive, exited, created, rqc>>
  /\ call' = IF FixCallEntry THEN 0 ELSE call
  \* netutil.Dial(addr, *cfg.ConnectTimeout): a configuration without the timeout kills the process at the connect
  /\ crashed' = (crashed \/ (table = NoClient /\ ~cfgTO))
  /\ UNCHANGED <<mu, gens, up, sawDown, next, rst, snap, genDown, faults, pvars, dead, tostop, fr, rw, latched, collects, cfgTO, cfgs>>

(* client.Send + the round trip: served if the client is alive, answered    *)
(* with an error by Send / the drain if it has quit.  While the backend     *)
(* stalls with a full in-flight queue nothing is answered.                  *)
SendAndReply(r) ==
  /\ rq[r] = "send" /\ ~(alive[rqc[r]] /\ full[rqc[r]])
  /\ outcome' = [outcome EXCEPT ![r] = IF alive[rqc[r]] THEN "ok" ELSE "err"]
  /\ rq' = [rq EXCEPT ![r] = "done"]
  \* the writer counts the key of every command in the client's counter
  /\ crashed' = (crashed \/ (alive[rqc[r]] /\ cctr[rqc[r]] # 0 /\ dead[cctr[rqc[r]]]))
  /\ UNCHANGED <<mu, table, call, gens, callRes, alive, exited, created, up, rqc, sawDown, next, rst, snap, genDown, faults, pvars,
                  reg, cctr, dead, tostop, fr, rw, latched, collects, cfgTO, cfgs>>

(* loopWrite takes the next request of a stalled connection and waits at the hand-over to the in-flight    *)
(* queue: with the command written (hand-off of the command), or - for an asking request - with ASKING     *)
(* encoded (hand-off of the ASKING placeholder)                                                            *)
WriterTake(r) ==
  /\ rq[r] = "send" /\ alive[rqc[r]] /\ full[rqc[r]] /\ hand[rqc[r]] = 0
  /\ hand' = [hand EXCEPT ![rqc[r]] = r] /\ rq' = [rq EXCEPT ![r] = "inhand"]
  /\ UNCHANGED <<mu, table, call, gens, callRes, alive, exited, created, up, rqc, outcome, sawDown, next, rst, snap, genDown, faults, full, asking, wedged, stalls, asks, cvars>>

(* the backend answers again: the hand-over completes *)
HandOver(r) ==
  /\ rq[r] = "inhand" /\ alive[rqc[r]] /\ ~full[rqc[r]]
  /\ hand' = [hand EXCEPT ![rqc[r]] = 0] /\ rq' = [rq EXCEPT ![r] = "send"]
  /\ UNCHANGED <<mu, table, call, gens, callRes, alive, exited, created, up, rqc, outcome, sawDown, next, rst, snap, genDown, faults, full, asking, wedged, stalls, asks, cvars>>

(* the connection was lost while the writer waited: quit wakes it, the request in hand is answered here *)
HandQuit(r) ==
  /\ rq[r] = "inhand" /\ ~alive[rqc[r]] /\ ~wedged[rqc[r]]
  /\ hand' = [hand EXCEPT ![rqc[r]] = 0]
  /\ outcome' = [outcome EXCEPT ![r] = "err"] /\ rq' = [rq EXCEPT ![r] = "done"]
  /\ UNCHANGED <<mu, table, call, gens, callRes, alive, exited, created, up, rqc, sawDown, next, rst, snap, genDown, faults, full, asking, wedged, stalls, asks, cvars>>

(* environment: the backend stops answering; the traffic of other sessions fills the in-flight queue of   *)
(* the connection.  Taken while no modelled request is on its way, so that the next request is the one    *)
(* the writer holds at the hand-over.                                                                      *)
Stall(c) ==
  /\ alive[c] /\ table = c /\ ~full[c] /\ stalls < MaxStalls /\ rst = "idle"
  /\ \A r \in Reqs : ~InFlight(r)
  /\ stalls' = stalls + 1 /\ full' = [full EXCEPT ![c] = TRUE]
  /\ UNCHANGED <<mu, table, call, gens, callRes, alive, exited, created, up, rq, rqc, outcome, sawDown, next, rst, snap, genDown, faults, hand, asking, wedged, asks, cvars>>
Unstall(c) ==
  /\ alive[c] /\ full[c] /\ full' = [full EXCEPT ![c] = FALSE]
  /\ UNCHANGED <<mu, table, call, gens, callRes, alive, exited, created, up, rq, rqc, outcome, sawDown, next, rst, snap, genDown, faults, hand, asking, wedged, stalls, asks, cvars>>

(* environment: the connection of client c is lost (reset, backend restart) *)
ConnLost(c) ==
  /\ alive[c] /\ faults < MaxFaults /\ faults' = faults + 1
  /\ Lose({c})
  /\ sawDown' = Witness
  /\ UNCHANGED <<mu, table, call, gens, callRes, created, up, rq, rqc, outcome, next, rst, snap, genDown, hand, asking, stalls, asks, cvars>>

(* environment: the backend goes down (all its connections are lost) / comes back *)
BackendDown ==
  /\ up /\ faults < MaxFaults /\ faults' = faults + 1 /\ up' = FALSE
  /\ Lose(Clients)
  /\ sawDown' = Witness
  /\ UNCHANGED <<mu, table, call, gens, callRes, created, rq, rqc, outcome, next, rst, snap, genDown, hand, asking, stalls, asks, cvars>>
BackendUp ==
  /\ ~up /\ up' = TRUE
  /\ UNCHANGED <<mu, table, call, gens, callRes, alive, exited, created, rq, rqc, outcome, sawDown, next, rst, snap, genDown, faults, pvars, cvars>>

(* the goroutine `c.Start(); u.removeClient(addr)` (upstream.go:263-268)     *)
RemoveSelf(c) ==
  /\ exited[c] /\ mu = "free" /\ exited' = [exited EXCEPT ![c] = FALSE]
  /\ table' = IF FixRemoveOwn /\ table # c THEN table ELSE NoClient
  /\ UNCHANGED <<mu, call, gens, callRes, alive, created, up, rq, rqc, outcome, sawDown, next, rst, snap, genDown, faults, pvars, cvars>>

(* OnHostReplace -> resetAllClients (upstream.go:290-302): snapshot of the    *)
(* table, empty the table under the lock, then stop the clients of the      *)
(* snapshot.  Pinned code takes the snapshot before the lock: two steps.    *)
ResetSnapshot ==
  /\ rst = "idle" /\ mu = "free" /\ faults < MaxFaults /\ faults' = faults + 1
  /\ ~FixResetSnapshot
  /\ rst' = "snap" /\ snap' = table
  /\ UNCHANGED <<mu, table, call, gens, callRes, alive, exited, created, up, rq, rqc, outcome, sawDown, next, genDown, pvars, cvars>>

ResetSwap ==
  /\ mu = "free"
  /\ \/ rst = "snap" /\ UNCHANGED faults
     \/ rst = "idle" /\ FixResetSnapshot /\ faults < MaxFaults /\ faults' = faults + 1
  /\ LET old == IF rst = "snap" THEN snap ELSE table IN Lose({old} \cap Clients)
  /\ table' = NoClient /\ snap' = NoClient
  \* the old clients (of every address) are stopped next; the variant keeps clientsMu until they have all stopped
  /\ IF ResetStopsUnderLock THEN rst' = "stopping" /\ mu' = "reset" ELSE rst' = "idle" /\ UNCHANGED mu
  /\ sawDown' = Witness
  /\ tostop' = IF Counters THEN tostop \cup ({IF rst = "snap" THEN snap ELSE table} \cap Clients) ELSE tostop
  /\ UNCHANGED <<call, gens, callRes, created, up, rq, rqc, outcome, next, genDown, hand, asking, stalls, asks,
                  reg, cctr, dead, fr, rw, latched, collects, cfgTO, cfgs, crashed>>

\* the reader of the redirecting client is on its way to a client of this address for a redirected request
ReaderBusy == \E r \in Reqs : asking[r] /\ rq[r] \in {"lookup", "waitcall", "dial", "dialing"}
(* Stop of the old clients returns when their readers have finished what they were doing *)
ResetDone ==
  /\ rst = "stopping" /\ ~ReaderBusy
  /\ rst' = "idle" /\ mu' = "free"
  /\ UNCHANGED <<table, call, gens, callRes, alive, exited, created, up, rq, rqc, outcome, sawDown, next, snap, genDown, faults, pvars, cvars>>

(* client.Stop of an old client (after its loops have ended): filter.Reset -> Counter.Free.  In the code: the free  *)
(* callback unregisters the counter under the collector's lock, then the counter is reset under its own lock.   *)
(* Variant FreeHoldsCounterLock: the counter's lock is taken first and kept while the callback runs.             *)
StopFreeA(c) ==
  /\ Counters /\ c \in tostop /\ fr = 0 /\ ~alive[c]
  /\ IF FreeHoldsCounterLock
       THEN UNCHANGED reg                                   \* counter lock taken (fr = c holds it)
       ELSE rw = "free" /\ reg' = 0                         \* delete(counters, addr) - by name
  /\ fr' = c
  /\ UNCHANGED <<mu, table, call, gens, callRes, alive, exited, created, up, rq, rqc, outcome, sawDown, next, rst, snap, genDown, faults, pvars,
                  cctr, dead, tostop, rw, latched, collects, cfgTO, cfgs, crashed>>
StopFreeB(c) ==
  /\ Counters /\ fr = c
  /\ IF FreeHoldsCounterLock THEN rw = "free" /\ reg' = 0 ELSE UNCHANGED reg
  /\ dead' = [dead EXCEPT ![cctr[c]] = FreeDestroys]
  /\ fr' = 0 /\ tostop' = tostop \ {c}
  /\ UNCHANGED <<mu, table, call, gens, callRes, alive, exited, created, up, rq, rqc, outcome, sawDown, next, rst, snap, genDown, faults, pvars,
                  cctr, rw, latched, collects, cfgTO, cfgs, crashed>>

(* the collector's pass (every 10 s): read lock, Latch of every registered counter (counter lock), unlock *)
CounterLockHeld == FreeHoldsCounterLock /\ fr # 0 /\ cctr[fr] = reg
CollectStart ==
  /\ Counters /\ rw = "free" /\ collects < MaxCollects /\ reg # 0
  /\ rw' = "collect" /\ latched' = FALSE /\ collects' = collects + 1
  /\ UNCHANGED <<mu, table, call, gens, callRes, alive, exited, created, up, rq, rqc, outcome, sawDown, next, rst, snap, genDown, faults, pvars,
                  reg, cctr, dead, tostop, fr, cfgTO, cfgs, crashed>>
CollectLatch ==
  /\ rw = "collect" /\ ~latched /\ ~CounterLockHeld /\ latched' = TRUE
  /\ UNCHANGED <<mu, table, call, gens, callRes, alive, exited, created, up, rq, rqc, outcome, sawDown, next, rst, snap, genDown, faults, pvars,
                  reg, cctr, dead, tostop, fr, rw, collects, cfgTO, cfgs, crashed>>
CollectEnd ==
  /\ rw = "collect" /\ latched /\ rw' = "free"
  /\ UNCHANGED <<mu, table, call, gens, callRes, alive, exited, created, up, rq, rqc, outcome, sawDown, next, rst, snap, genDown, faults, pvars,
                  reg, cctr, dead, tostop, fr, latched, collects, cfgTO, cfgs, crashed>>

(* environment: a run-time configuration update that does not name the connect timeout; the processor wrapper fills *)
(* the default in before the processor stores it                                                                   *)
ConfigUpdate ==
  /\ cfgs < MaxCfg /\ cfgs' = cfgs + 1 /\ cfgTO' = ~UpdateLosesDefaults
  /\ UNCHANGED <<mu, table, call, gens, callRes, alive, exited, created, up, rq, rqc, outcome, sawDown, next, rst, snap, genDown, faults, pvars,
                  reg, cctr, dead, tostop, fr, rw, latched, collects, crashed>>

ProxyNext == (\E r \in Reqs : Lookup(r) \/ WaitCall(r) \/ DialStart(r) \/ Dial(r) \/ SendAndReply(r) \/ WriterTake(r) \/ HandOver(r) \/ HandQuit(r))
               \/ (\E c \in Clients : RemoveSelf(c) \/ StopFreeA(c) \/ StopFreeB(c))
               \/ CollectLatch \/ CollectEnd
EnvNext == (\E r \in Reqs : Issue(r)) \/ (\E c \in Clients : ConnLost(c) \/ Stall(c) \/ Unstall(c)) \/ BackendDown \/ BackendUp \/ ResetSnapshot
             \/ CollectStart \/ ConfigUpdate
ResetNext == ResetSwap \/ ResetDone
Next == ProxyNext \/ EnvNext \/ ResetNext
Spec == Init /\ [][Next]_vars /\ WF_vars(ProxyNext) /\ WF_vars(ResetNext)

-----------------------------------------------------------------------------
(* C07 *)
\* an error reply only for a request during whose life the backend was down or a connection was lost
ErrorsOnlyWhileDown == \A r \in Reqs : outcome[r] = "err" => sawDown[r]

\* the table never holds a client whose goroutine has finished and removed itself (dead entry for ever)
Quiet == (\A r \in Reqs : ~InFlight(r)) /\ (\A c \in Clients : ~exited[c]) /\ rst = "idle" /\ tostop = {} /\ rw = "free"
NoDeadEntry == Quiet => (table # NoClient => alive[table])
\* a running client is always reachable through the table (otherwise it is never stopped: leak)
NoOrphanClient == Quiet => \A c \in Clients : alive[c] => table = c
\* a finished connect call never pins a dead client or a stale dial error
NoStaleCall == Quiet => (call # 0 => (callRes[call] \notin {Pending, NoClient} /\ alive[callRes[call]]))
\* a lost connection always ends its client: no writer stays behind at a hand-over (the dead client would keep the address for ever)
NoWedgedClient == \A c \in Clients : ~wedged[c]
\* resetAllClients never waits for a reader that waits for the lock resetAllClients holds (OnHostReplace would never return,
\* no backend connection could be created or removed any more)
NoStuckReset == ~(rst = "stopping" /\ \E r \in Reqs : asking[r] /\ rq[r] \in {"dial", "dialing"})
\* window (must be reachable): all clients are reset while the reader of a redirecting client is about to create the client
\* of this address
W_ResetDuringRedirectDial == rst = "idle" /\ table = NoClient /\ \E r \in Reqs : asking[r] /\ rq[r] \in {"dial", "dialing"} /\ sawDown[r]
\* the process never dies: not at a connect (configuration without the timeout), not in a backend writer (counter freed
\* under the feet of the successor connection that shares it)
NoCrash == ~crashed
\* Counter.Free and the collector's pass never wait for each other (createClient needs the collector's lock: no backend
\* connection could be created any more)
NoLockCycle == ~(rw = "collect" /\ ~latched /\ CounterLockHeld)
\* windows (must be reachable): the successor connection shares the counter of a client that is still to be stopped;
\* a client is stopped (its counter freed) during a pass of the collector; a connect after a configuration update
W_SharedCounter == \E c \in tostop : table # NoClient /\ table # c /\ cctr[table] = cctr[c]
W_FreeDuringCollect == rw = "collect" /\ fr # 0
NoSharedCounter == ~W_SharedCounter
NoFreeDuringCollect == ~W_FreeDuringCollect
NoResetDuringRedirectDial == ~W_ResetDuringRedirectDial
\* window: the connection is alive, its in-flight queue is full and the writer waits with a request in hand (must be reachable)
W_HandoverCmd == \E c \in Clients : alive[c] /\ hand[c] # 0 /\ ~asking[hand[c]]
W_HandoverAsk == \E c \in Clients : alive[c] /\ hand[c] # 0 /\ asking[hand[c]]
NoHandoverCmd == ~W_HandoverCmd
NoHandoverAsk == ~W_HandoverAsk
=============================================================================
