------------------------------ MODULE ConnTable ------------------------------
(***************************************************************************)
(* The backend connection table of the Redis upstream                      *)
(* (proc/redis/upstream.go:214-319): `clients` (address -> live client,    *)
(* copy-on-write under clientsMu), `createClientCalls` (address -> shared  *)
(* result of a connection attempt), dialling, a client that dies and       *)
(* removes its address from the table, resetAllClients, and the requests   *)
(* that go through getClient / Send.  One address is enough: entries of    *)
(* different addresses never interact.                                     *)
(*                                                                         *)
(*   FixCallEntry   - the finished connect call is removed from            *)
(*                    createClientCalls (pinned code: never removed, so    *)
(*                    every later request gets the cached dead client or   *)
(*                    the cached dial error for ever)                      *)
(*   FixRemoveOwn   - a finished client removes the table entry only if    *)
(*                    the entry still is this client (pinned code removes  *)
(*                    by address and may orphan a newer client after       *)
(*                    resetAllClients)                                     *)
(*   FixResetSnapshot - resetAllClients takes its snapshot of the table     *)
(*                    under clientsMu (pinned code: before taking the lock,  *)
(*                    so a client registered in between is wiped from the    *)
(*                    table without being stopped)                           *)
(*                                                                         *)
(* A backend that stops answering (Stall) fills the in-flight queue of its  *)
(* connection (cap(processingReqs)); the writer of that client then waits   *)
(* at a hand-over with the next request in hand (upstream.go loopWrite):    *)
(* the hand-over of a command, or - for a request that follows an ASK       *)
(* redirection - the hand-over of the ASKING placeholder.  A connection     *)
(* loss must wake the writer at either point, otherwise client.Start never  *)
(* returns, the dead client is never removed from the table and the address *)
(* never heals.                                                             *)
(* A request that follows a MOVED / ASK redirection runs on the reader       *)
(* goroutine of the redirecting backend's client (handleRedirection ->      *)
(* MakeRequestToHost -> getClient -> createClient); when the target has no  *)
(* client that reader needs clientsMu.  resetAllClients stops every old     *)
(* client and waits for its reader: it must not hold clientsMu meanwhile.   *)
(*   ResetStopsUnderLock - resetAllClients keeps clientsMu while it stops   *)
(*                    the old clients (`defer Unlock()`): FALSE in the code; *)
(*                    TRUE must violate NoStuckReset (reset waits for the   *)
(*                    reader, the reader waits for the lock)                *)
(*   AskSelectsQuit - the hand-over of the ASKING placeholder also waits    *)
(*                    for quit (FALSE: plain channel send, the writer stays *)
(*                    blocked for ever when the connection is lost)         *)
(***************************************************************************)
EXTENDS Naturals, Sequences, FiniteSets, TLC

CONSTANTS Reqs,           \* request ids (naturals, issued in order)
          MaxGens,        \* bound on connect calls ever stored
          MaxClients,     \* bound on clients ever created
          MaxFaults,      \* bound on environment faults
          MaxStalls,      \* bound on backend stalls (in-flight queue of a connection full)
          MaxAsk,         \* bound on requests that follow an ASK redirection
          FixCallEntry, FixRemoveOwn, FixResetSnapshot,
          AskSelectsQuit,
          ResetStopsUnderLock

NoClient == 0
Pending == MaxClients + 1     \* result of a call that has not finished yet
Clients == 1..MaxClients

VARIABLES
  table,        \* client id registered for the address (NoClient if none)
  call,         \* generation of the call stored in createClientCalls (0 = no entry)
  gens,         \* number of calls stored so far
  callRes,      \* callRes[g]: Pending | client id | NoClient (dial error) - callers hold a pointer to their call
  alive,        \* alive[c]: the client's connection is up and its loops run
  exited,       \* exited[c]: Start() returned, removeClient not yet executed
  created,      \* number of clients created so far
  up,           \* backend reachable (accepts connections)
  rq,           \* rq[r]: "idle" | "lookup" | "waitcall" | "dial" | "send" | "done"
  rqc,          \* client a request is going to be sent on
  outcome,      \* outcome[r]: "none" | "ok" | "err"
  sawDown,      \* sawDown[r]: backend down or a connection lost during r's life
  next,         \* next request to be issued (requests are issued one after the other or concurrently)
  rst,          \* resetAllClients in progress: "idle" | "snap"
  snap,         \* its snapshot of the table
  genDown,      \* genDown[g]: the connect attempt of call g was started while the backend was down
  faults,
  full,         \* full[c]: the backend stalls and the in-flight queue of c's connection is full
  hand,         \* hand[c]: request the writer of c holds while it waits at a hand-over (0 = none)
  asking,       \* asking[r]: r follows an ASK redirection (the writer sends ASKING in front of it)
  wedged,       \* wedged[c]: connection lost, but the writer never woke up: Start() never returns
  stalls, asks,
  mu            \* clientsMu: "free" | "reset" (createClient / removeExitedClient hold it within one step)

pvars == <<full, hand, asking, wedged, stalls, asks>>      \* pipeline part
vars == <<table, call, gens, callRes, alive, exited, created, up, rq, rqc, outcome, sawDown, next, rst, snap, genDown, faults, pvars, mu>>

Init ==
  /\ table = NoClient /\ call = 0 /\ gens = 0 /\ callRes = [g \in 1..MaxGens |-> Pending]
  /\ alive = [c \in Clients |-> FALSE] /\ exited = [c \in Clients |-> FALSE]
  /\ created = 0 /\ up \in BOOLEAN
  /\ rq = [r \in Reqs |-> "idle"] /\ rqc = [r \in Reqs |-> NoClient]
  /\ outcome = [r \in Reqs |-> "none"]
  /\ sawDown = [r \in Reqs |-> FALSE]
  /\ next = 1 /\ rst = "idle" /\ snap = NoClient /\ genDown = [g \in 1..MaxGens |-> FALSE] /\ faults = 0
  /\ full = [c \in Clients |-> FALSE] /\ hand = [c \in Clients |-> 0] /\ asking = [r \in Reqs |-> FALSE]
  /\ wedged = [c \in Clients |-> FALSE] /\ stalls = 0 /\ asks = 0 /\ mu = "free"

InFlight(r) == rq[r] \notin {"idle", "done"}
\* every request in flight witnesses a fault
Witness == [r \in Reqs |-> sawDown[r] \/ InFlight(r)]

\* the writer of c can leave when the connection is lost: it holds nothing, or waits at a hand-over that also waits for quit
CanExit(c) == hand[c] = 0 \/ ~asking[hand[c]] \/ AskSelectsQuit
\* c's connection is lost (or c is stopped) in this step
Lose(cs) ==
  /\ alive' = [c \in Clients |-> IF c \in cs THEN FALSE ELSE alive[c]]
  /\ exited' = [c \in Clients |-> IF c \in cs /\ alive[c] THEN CanExit(c) ELSE exited[c]]
  /\ wedged' = [c \in Clients |-> IF c \in cs /\ alive[c] THEN ~CanExit(c) ELSE wedged[c]]
  /\ full' = [c \in Clients |-> IF c \in cs THEN FALSE ELSE full[c]]

(* a client issues request r: MakeRequestToHost -> getClient: table lookup; the request may be one that   *)
(* an ASK redirection sent here (handleRedirection sets req.asking)                                        *)
Issue(r) ==
  /\ rq[r] = "idle" /\ r = next /\ next' = next + 1
  /\ rq' = [rq EXCEPT ![r] = "lookup"]
  \* a loss that the proxy is still processing (client exited, entry not yet removed) counts:
  \* the request may meet the dying client - a short, bounded window
  /\ sawDown' = [sawDown EXCEPT ![r] = ~up \/ \E c \in Clients : exited[c]]
  /\ \/ UNCHANGED <<asking, asks>>
     \/ asks < MaxAsk /\ asks' = asks + 1 /\ asking' = [asking EXCEPT ![r] = TRUE]
  /\ UNCHANGED <<mu, table, call, gens, callRes, alive, exited, created, up, rqc, outcome, rst, snap, genDown, faults, full, hand, wedged, stalls>>

(* getClient (upstream.go:214-233): hit -> send; miss -> LoadOrStore the call *)
Lookup(r) ==
  /\ rq[r] = "lookup"
  /\ IF table # NoClient
       THEN /\ rq' = [rq EXCEPT ![r] = "send"] /\ rqc' = [rqc EXCEPT ![r] = table]
            /\ UNCHANGED <<call, gens>>
       ELSE IF call = 0
              THEN /\ gens < MaxGens /\ gens' = gens + 1 /\ call' = gens + 1
                   /\ rq' = [rq EXCEPT ![r] = "dial"] /\ rqc' = [rqc EXCEPT ![r] = gens + 1]
              ELSE /\ rq' = [rq EXCEPT ![r] = "waitcall"] /\ rqc' = [rqc EXCEPT ![r] = call]
                   /\ UNCHANGED <<call, gens>>
  /\ UNCHANGED <<mu, table, callRes, alive, exited, created, up, outcome, sawDown, next, rst, snap, genDown, faults, pvars>>

(* a caller that found an existing call entry waits for it and takes its result; the shared attempt may  *)
(* have been started while the backend was down (fail fast): that request witnesses the outage too       *)
WaitCall(r) ==
  /\ rq[r] = "waitcall" /\ callRes[rqc[r]] # Pending
  /\ IF callRes[rqc[r]] = NoClient
       THEN /\ outcome' = [outcome EXCEPT ![r] = "err"] /\ rq' = [rq EXCEPT ![r] = "done"] /\ UNCHANGED rqc
       ELSE /\ rqc' = [rqc EXCEPT ![r] = callRes[rqc[r]]] /\ rq' = [rq EXCEPT ![r] = "send"] /\ UNCHANGED outcome
  /\ sawDown' = [sawDown EXCEPT ![r] = @ \/ genDown[rqc[r]]]
  /\ UNCHANGED <<mu, table, call, gens, callRes, alive, exited, created, up, next, rst, snap, genDown, faults, pvars>>

(* the caller that stored the call starts to connect: whether the backend is reachable is decided now,    *)
(* the attempt finishes later (DialEnd)                                                                    *)
DialStart(r) ==
  /\ rq[r] = "dial" /\ mu = "free" /\ rq' = [rq EXCEPT ![r] = "dialing"]
  /\ genDown' = [genDown EXCEPT ![rqc[r]] = ~up]
  /\ UNCHANGED <<mu, table, call, gens, callRes, alive, exited, created, up, rqc, outcome, sawDown, next, rst, snap, faults, pvars>>

(* createClient (upstream.go:235-270) by the caller that stored the call    *)
Dial(r) ==
  /\ rq[r] = "dialing" /\ mu = "free"
  /\ IF table # NoClient
       THEN \* somebody registered a client meanwhile
            /\ callRes' = [callRes EXCEPT ![rqc[r]] = table] /\ rqc' = [rqc EXCEPT ![r] = table]
            /\ rq' = [rq EXCEPT ![r] = "send"]
            /\ UNCHANGED <<table, alive, exited, created, outcome>>
       ELSE IF ~genDown[rqc[r]] /\ created < MaxClients
              THEN /\ created' = created + 1
                   /\ table' = created + 1 /\ alive' = [alive EXCEPT ![created + 1] = up]
                   /\ exited' = [exited EXCEPT ![created + 1] = ~up]
                   /\ callRes' = [callRes EXCEPT ![rqc[r]] = created + 1] /\ rqc' = [rqc EXCEPT ![r] = created + 1]
                   /\ rq' = [rq EXCEPT ![r] = "send"] /\ UNCHANGED outcome
              ELSE /\ genDown[rqc[r]]
                   /\ callRes' = [callRes EXCEPT ![rqc[r]] = NoClient]
                   /\ outcome' = [outcome EXCEPT ![r] = "err"] /\ rq' = [rq EXCEPT ![r] = "done"]
                   /\ UNCHANGED <<table, alive, exited, created, rqc>>
  /\ call' = IF FixCallEntry THEN 0 ELSE call
  /\ UNCHANGED <<mu, gens, up, sawDown, next, rst, snap, genDown, faults, pvars>>

(* client.Send + the round trip: served if the client is alive, answered    *)
(* with an error by Send / the drain if it has quit.  While the backend     *)
(* stalls with a full in-flight queue nothing is answered.                  *)
SendAndReply(r) ==
  /\ rq[r] = "send" /\ ~(alive[rqc[r]] /\ full[rqc[r]])
  /\ outcome' = [outcome EXCEPT ![r] = IF alive[rqc[r]] THEN "ok" ELSE "err"]
  /\ rq' = [rq EXCEPT ![r] = "done"]
  /\ UNCHANGED <<mu, table, call, gens, callRes, alive, exited, created, up, rqc, sawDown, next, rst, snap, genDown, faults, pvars>>

(* loopWrite takes the next request of a stalled connection and waits at the hand-over to the in-flight    *)
(* queue: with the command written (hand-off of the command), or - for an asking request - with ASKING     *)
(* encoded (hand-off of the ASKING placeholder)                                                            *)
WriterTake(r) ==
  /\ rq[r] = "send" /\ alive[rqc[r]] /\ full[rqc[r]] /\ hand[rqc[r]] = 0
  /\ hand' = [hand EXCEPT ![rqc[r]] = r] /\ rq' = [rq EXCEPT ![r] = "inhand"]
  /\ UNCHANGED <<mu, table, call, gens, callRes, alive, exited, created, up, rqc, outcome, sawDown, next, rst, snap, genDown, faults, full, asking, wedged, stalls, asks>>

(* the backend answers again: the hand-over completes *)
HandOver(r) ==
  /\ rq[r] = "inhand" /\ alive[rqc[r]] /\ ~full[rqc[r]]
  /\ hand' = [hand EXCEPT ![rqc[r]] = 0] /\ rq' = [rq EXCEPT ![r] = "send"]
  /\ UNCHANGED <<mu, table, call, gens, callRes, alive, exited, created, up, rqc, outcome, sawDown, next, rst, snap, genDown, faults, full, asking, wedged, stalls, asks>>

(* the connection was lost while the writer waited: quit wakes it, the request in hand is answered here *)
HandQuit(r) ==
  /\ rq[r] = "inhand" /\ ~alive[rqc[r]] /\ ~wedged[rqc[r]]
  /\ hand' = [hand EXCEPT ![rqc[r]] = 0]
  /\ outcome' = [outcome EXCEPT ![r] = "err"] /\ rq' = [rq EXCEPT ![r] = "done"]
  /\ UNCHANGED <<mu, table, call, gens, callRes, alive, exited, created, up, rqc, sawDown, next, rst, snap, genDown, faults, full, asking, wedged, stalls, asks>>

(* environment: the backend stops answering; the traffic of other sessions fills the in-flight queue of   *)
(* the connection.  Taken while no modelled request is on its way, so that the next request is the one    *)
(* the writer holds at the hand-over.                                                                      *)
Stall(c) ==
  /\ alive[c] /\ table = c /\ ~full[c] /\ stalls < MaxStalls /\ rst = "idle"
  /\ \A r \in Reqs : ~InFlight(r)
  /\ stalls' = stalls + 1 /\ full' = [full EXCEPT ![c] = TRUE]
  /\ UNCHANGED <<mu, table, call, gens, callRes, alive, exited, created, up, rq, rqc, outcome, sawDown, next, rst, snap, genDown, faults, hand, asking, wedged, asks>>
Unstall(c) ==
  /\ alive[c] /\ full[c] /\ full' = [full EXCEPT ![c] = FALSE]
  /\ UNCHANGED <<mu, table, call, gens, callRes, alive, exited, created, up, rq, rqc, outcome, sawDown, next, rst, snap, genDown, faults, hand, asking, wedged, stalls, asks>>

(* environment: the connection of client c is lost (reset, backend restart) *)
ConnLost(c) ==
  /\ alive[c] /\ faults < MaxFaults /\ faults' = faults + 1
  /\ Lose({c})
  /\ sawDown' = Witness
  /\ UNCHANGED <<mu, table, call, gens, callRes, created, up, rq, rqc, outcome, next, rst, snap, genDown, hand, asking, stalls, asks>>

(* environment: the backend goes down (all its connections are lost) / comes back *)
BackendDown ==
  /\ up /\ faults < MaxFaults /\ faults' = faults + 1 /\ up' = FALSE
  /\ Lose(Clients)
  /\ sawDown' = Witness
  /\ UNCHANGED <<mu, table, call, gens, callRes, created, rq, rqc, outcome, next, rst, snap, genDown, hand, asking, stalls, asks>>
BackendUp ==
  /\ ~up /\ up' = TRUE
  /\ UNCHANGED <<mu, table, call, gens, callRes, alive, exited, created, rq, rqc, outcome, sawDown, next, rst, snap, genDown, faults, pvars>>

(* the goroutine `c.Start(); u.removeClient(addr)` (upstream.go:263-268)     *)
RemoveSelf(c) ==
  /\ exited[c] /\ mu = "free" /\ exited' = [exited EXCEPT ![c] = FALSE]
  /\ table' = IF FixRemoveOwn /\ table # c THEN table ELSE NoClient
  /\ UNCHANGED <<mu, call, gens, callRes, alive, created, up, rq, rqc, outcome, sawDown, next, rst, snap, genDown, faults, pvars>>

(* OnHostReplace -> resetAllClients (upstream.go:290-302): snapshot of the    *)
(* table, empty the table under the lock, then stop the clients of the      *)
(* snapshot.  Pinned code takes the snapshot before the lock: two steps.    *)
ResetSnapshot ==
  /\ rst = "idle" /\ mu = "free" /\ faults < MaxFaults /\ faults' = faults + 1
  /\ ~FixResetSnapshot
  /\ rst' = "snap" /\ snap' = table
  /\ UNCHANGED <<mu, table, call, gens, callRes, alive, exited, created, up, rq, rqc, outcome, sawDown, next, genDown, pvars>>

ResetSwap ==
  /\ mu = "free"
  /\ \/ rst = "snap" /\ UNCHANGED faults
     \/ rst = "idle" /\ FixResetSnapshot /\ faults < MaxFaults /\ faults' = faults + 1
  /\ LET old == IF rst = "snap" THEN snap ELSE table IN Lose({old} \cap Clients)
  /\ table' = NoClient /\ snap' = NoClient
  \* the old clients (of every address) are stopped next; the variant keeps clientsMu until they have all stopped
  /\ IF ResetStopsUnderLock THEN rst' = "stopping" /\ mu' = "reset" ELSE rst' = "idle" /\ UNCHANGED mu
  /\ sawDown' = Witness
  /\ UNCHANGED <<call, gens, callRes, created, up, rq, rqc, outcome, next, genDown, hand, asking, stalls, asks>>

\* the reader of the redirecting client is on its way to a client of this address for a redirected request
ReaderBusy == \E r \in Reqs : asking[r] /\ rq[r] \in {"lookup", "waitcall", "dial", "dialing"}
(* Stop of the old clients returns when their readers have finished what they were doing *)
ResetDone ==
  /\ rst = "stopping" /\ ~ReaderBusy
  /\ rst' = "idle" /\ mu' = "free"
  /\ UNCHANGED <<table, call, gens, callRes, alive, exited, created, up, rq, rqc, outcome, sawDown, next, snap, genDown, faults, pvars>>

ProxyNext == (\E r \in Reqs : Lookup(r) \/ WaitCall(r) \/ DialStart(r) \/ Dial(r) \/ SendAndReply(r) \/ WriterTake(r) \/ HandOver(r) \/ HandQuit(r))
               \/ (\E c \in Clients : RemoveSelf(c))
EnvNext == (\E r \in Reqs : Issue(r)) \/ (\E c \in Clients : ConnLost(c) \/ Stall(c) \/ Unstall(c)) \/ BackendDown \/ BackendUp \/ ResetSnapshot
ResetNext == ResetSwap \/ ResetDone
Next == ProxyNext \/ EnvNext \/ ResetNext
Spec == Init /\ [][Next]_vars /\ WF_vars(ProxyNext) /\ WF_vars(ResetNext)

-----------------------------------------------------------------------------
(* C07 *)
\* an error reply only for a request during whose life the backend was down or a connection was lost
ErrorsOnlyWhileDown == \A r \in Reqs : outcome[r] = "err" => sawDown[r]

\* the table never holds a client whose goroutine has finished and removed itself (dead entry for ever)
Quiet == (\A r \in Reqs : ~InFlight(r)) /\ (\A c \in Clients : ~exited[c]) /\ rst = "idle"
NoDeadEntry == Quiet => (table # NoClient => alive[table])
\* a running client is always reachable through the table (otherwise it is never stopped: leak)
NoOrphanClient == Quiet => \A c \in Clients : alive[c] => table = c
\* a finished connect call never pins a dead client or a stale dial error
NoStaleCall == Quiet => (call # 0 => (callRes[call] \notin {Pending, NoClient} /\ alive[callRes[call]]))
\* a lost connection always ends its client: no writer stays behind at a hand-over (the dead client would keep the address for ever)
NoWedgedClient == \A c \in Clients : ~wedged[c]
\* resetAllClients never waits for a reader that waits for the lock resetAllClients holds (OnHostReplace would never return,
\* no backend connection could be created or removed any more)
NoStuckReset == ~(rst = "stopping" /\ \E r \in Reqs : asking[r] /\ rq[r] \in {"dial", "dialing"})
\* window (must be reachable): all clients are reset while the reader of a redirecting client is about to create the client
\* of this address
W_ResetDuringRedirectDial == rst = "idle" /\ table = NoClient /\ \E r \in Reqs : asking[r] /\ rq[r] \in {"dial", "dialing"} /\ sawDown[r]
NoResetDuringRedirectDial == ~W_ResetDuringRedirectDial
\* window: the connection is alive, its in-flight queue is full and the writer waits with a request in hand (must be reachable)
W_HandoverCmd == \E c \in Clients : alive[c] /\ hand[c] # 0 /\ ~asking[hand[c]]
W_HandoverAsk == \E c \in Clients : alive[c] /\ hand[c] # 0 /\ asking[hand[c]]
NoHandoverCmd == ~W_HandoverCmd
NoHandoverAsk == ~W_HandoverAsk
=============================================================================
