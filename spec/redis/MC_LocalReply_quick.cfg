SPECIFICATION Spec
CONSTANTS
  ErrText = "neutralise"
  Echo = "const"
  HotAs = "bulk"
  PreSet = {1}
  Forms = {"array", "inline"}
  Tier = "quick"
  Classes = {"local", "error", "forward", "stored"}
  Emit = TRUE
INVARIANTS OneReplyEach AllDelivered
CHECK_DEADLOCK FALSE
