SPECIFICATION GenSpec
CONSTANTS
  Reqs = {"r1", "b2", "r3"}
  QCap = 2
  FixHandoff = TRUE
  FixSend = TRUE
  FixReader = TRUE
  Banned = {"b2"}
  Asking = {}
  AskAnswersInHand = TRUE
  DrainAfterStopped = TRUE
  FilteredFailAnswers = TRUE
  BufCap = 3
  FixFlushOnStop = TRUE
  MaxResets = 1
  WithStop = TRUE
  Det = TRUE
  EmitViolating = TRUE
  FaultPoints = {"writer-filtered"}
CHECK_DEADLOCK FALSE
