SPECIFICATION Spec
CONSTANTS
  ErrText = "neutralise"
  Echo = "line"
  HotAs = "bulk"
  PreSet = {1}
  Forms = {"array"}
  Tier = "quick"
  Classes = {"local"}
  Emit = FALSE
INVARIANTS OneReplyEach AllDelivered
CHECK_DEADLOCK FALSE
