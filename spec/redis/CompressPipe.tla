---------------------------- MODULE CompressPipe ----------------------------
(***************************************************************************)
(* C13, last clause: commands documented as disabled under compression     *)
(* (append, eval, setbit, getbit, setrange, getrange) are rejected WITHOUT  *)
(* reaching a backend.  The rejection happens in the writer of a backend    *)
(* connection (client.loopWrite, upstream.go): the sessions put requests    *)
(* into the connection's queue, the writer takes the head, runs the filter  *)
(* chain and either encodes the request for the backend (Continue) or - the *)
(* compress filter has answered it - goes on with the next one (Stop).      *)
(* What the writer does after Stop depends on whether more requests are     *)
(* queued behind (it flushes only when nothing is), so the window           *)
(* "a disabled command is taken while others are queued behind it" is a     *)
(* separate path of the code: pipelining clients, or several sessions       *)
(* sharing the backend connection.                                         *)
(* AfterStop = "next"  : the writer leaves the loop iteration (the code);   *)
(*           = "queued-falls-through" : with requests queued behind, the    *)
(*             writer only leaves the Stop branch and encodes the request.  *)
(***************************************************************************)
EXTENDS Naturals, Sequences, FiniteSets, TLC

CONSTANTS MaxLen, AfterStop

Kinds == {"read", "write", "banned"}

VARIABLES enabled,   \* compression enabled (otherwise nothing is disabled)
          todo,      \* requests the clients have not sent yet (kinds, in order)
          queue,     \* the backend connection's queue of pending requests: [id, kind]
          wire,      \* what was encoded for the backend, in order
          local,     \* requests answered by the filter
          nsent,
          window     \* a disabled command was taken while enabled with n requests queued behind it (largest n so far)

vars == <<enabled, todo, queue, wire, local, nsent, window>>

Pipelines == UNION {[1..n -> Kinds] : n \in 1..MaxLen}

Init ==
  /\ enabled \in BOOLEAN /\ todo \in Pipelines
  /\ queue = <<>> /\ wire = <<>> /\ local = <<>> /\ nsent = 0 /\ window = 0

\* a session hands the next request to the backend connection
Enqueue ==
  /\ todo # <<>>
  /\ queue' = Append(queue, [id |-> nsent + 1, kind |-> Head(todo)])
  /\ todo' = Tail(todo) /\ nsent' = nsent + 1
  /\ UNCHANGED <<enabled, wire, local, window>>

\* the writer takes the head of the queue and runs the filter chain
Take ==
  /\ queue # <<>>
  /\ LET req == Head(queue)
         behind == Len(queue) - 1
         stop == enabled /\ req.kind = "banned"
         encoded == ~stop \/ (AfterStop = "queued-falls-through" /\ behind > 0)
     IN /\ local' = IF stop THEN Append(local, req) ELSE local
        /\ wire' = IF encoded THEN Append(wire, req) ELSE wire
        /\ window' = IF stop /\ behind > window THEN behind ELSE window
  /\ queue' = Tail(queue)
  /\ UNCHANGED <<enabled, todo, nsent>>

Next == Enqueue \/ Take
Spec == Init /\ [][Next]_vars

Done == todo = <<>> /\ queue = <<>>
-----------------------------------------------------------------------------
Range(s) == {s[i] : i \in 1..Len(s)}
\* a disabled command never reaches the backend while compression is enabled
BannedRejectedLocally == enabled => \A q \in Range(wire) : q.kind # "banned"
\* every request is either answered by the filter or sent to the backend, never both, never neither
AnsweredOnce ==
  /\ Range(wire) \cap Range(local) = {}
  /\ Done => Cardinality(Range(wire) \cup Range(local)) = nsent
\* everything else reaches the backend, in the order it was queued
OthersPass == \A i, j \in 1..Len(wire) : i < j => wire[i].id < wire[j].id
\* window that must be reachable (TLC must violate it): a disabled command taken with requests queued behind it
NoBannedWithQueueBehind == window = 0
=============================================================================
