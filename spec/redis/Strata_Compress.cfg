\* exhaustive enumeration of the mandatory strata (every run): the model's invariants are checked on them as well
SPECIFICATION StrataSpec
CONSTANTS
  Keys = {"k1"}
  MaxOps = 4
  MaxRedirects = 1
  FixOnce = TRUE
  MaxVals = 2
  HookDepth = 2
  OwnBytes = TRUE
INVARIANTS StoredForm ReadBack OnlyWhenEnabled
CHECK_DEADLOCK FALSE
