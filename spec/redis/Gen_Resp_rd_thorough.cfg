SPECIFICATION RdSpec
CONSTANTS
  K = 3
  N = 3
  NN = 2
  MaxCat = 3
  NMsgs = 12
  Caps = {32, 33, 64, 4096, 8192}
  MaxCuts = 2
  KI = 5
INVARIANTS RdHoldsEmit
CHECK_DEADLOCK FALSE
