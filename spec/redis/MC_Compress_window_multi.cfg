\* the window the mandatory strata are made of must be reachable: TLC must violate NoTwoCompressedInOneRequest
SPECIFICATION Spec
CONSTANTS
  Keys = {"k1", "k2"}
  MaxOps = 4
  MaxRedirects = 2
  FixOnce = TRUE
  MaxVals = 2
  HookDepth = 2
  OwnBytes = TRUE
  Nodes = {}
  ConnConfig = "live"
INVARIANTS NoTwoCompressedInOneRequest
CHECK_DEADLOCK FALSE
