\* anti-vacuity: decompress hooks that do not descend into nested arrays (HSCAN) must violate ReadBack
SPECIFICATION Spec
CONSTANTS
  Keys = {"k1", "k2"}
  MaxOps = 4
  MaxRedirects = 2
  FixOnce = TRUE
  MaxVals = 2
  HookDepth = 1
  OwnBytes = TRUE
  Nodes = {}
  ConnConfig = "live"
  BareUpdate = "refused"
  Sizes = {0}
  ReadLimit = 0
  OwnFrame = TRUE
INVARIANTS StoredForm ReadBack OnlyWhenEnabled
CHECK_DEADLOCK FALSE
