\* MC_Compress_sizelimit.cfg1
SPECIFICATION Spec
CONSTANTS
  Keys = {"k1"}
  MaxOps = 3
  MaxRedirects = 1
  FixOnce = TRUE
  MaxVals = 1
  HookDepth = 2
  OwnBytes = TRUE
  Nodes = {}
  ConnConfig = "live"
  BareUpdate = "refused"
  Sizes = {0, 65535, 65536, 65537, 524287, 524288, 524289, 1048577, 3145728, 16777216}
  ReadLimit = 524288
  OwnFrame = TRUE
INVARIANTS ReadBack
CHECK_DEADLOCK FALSE
