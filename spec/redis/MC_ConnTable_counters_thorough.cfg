SPECIFICATION Spec
CONSTANTS
  Reqs = {1, 2, 3}
  MaxGens = 3
  MaxClients = 3
  MaxFaults = 2
  MaxStalls = 0
  MaxAsk = 0
  AskSelectsQuit = TRUE
  ResetStopsUnderLock = FALSE
  Counters = TRUE
  MaxCollects = 2
  MaxCfg = 1
  FreeDestroys = FALSE
  FreeHoldsCounterLock = FALSE
  UpdateLosesDefaults = FALSE
  FixCallEntry = TRUE
  FixResetSnapshot = TRUE
  FixRemoveOwn = TRUE
INVARIANTS ErrorsOnlyWhileDown NoDeadEntry NoOrphanClient NoStaleCall NoWedgedClient NoCrash NoLockCycle
CHECK_DEADLOCK FALSE
