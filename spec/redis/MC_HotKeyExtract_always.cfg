SPECIFICATION Spec
CONSTANTS
  Normalise = "always"
INVARIANTS OnlyAccessedKeysReported
CHECK_DEADLOCK FALSE
