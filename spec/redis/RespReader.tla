------------------------------ MODULE RespReader ------------------------------
(***************************************************************************)
(* C10 - the decoder as implemented: transcription of proc/redis/bufio.go  *)
(* (Reader: fixed buffer with window [r,w), compaction on fill, ReadSlice  *)
(* with buffer-full, ReadBytes fragment assembly, Read with the bypass for *)
(* requests of at least a buffer, sliceAlloc thresholds 512 / 8192) and of *)
(* the decoder of proc/redis/codec.go on top of it, reading a flat byte    *)
(* stream s that the connection delivers in the given chunks.              *)
(*                                                                         *)
(* The model tracks the window arithmetic, not the buffer contents: the    *)
(* bytes an operation returns are those at the stream offsets it consumed  *)
(* (off).  That the real buffer holds exactly these bytes is observed on   *)
(* the real code (decoded values); that the arithmetic is the real one is  *)
(* observed through the sequence of (requested, returned) sizes of the     *)
(* reads the real Reader issues to the connection, which RDecodeAll        *)
(* predicts (field reads).  br collects the branches taken, so that TLC    *)
(* can pick chunkings x buffer sizes reaching each branch.                 *)
(*                                                                         *)
(* Refinement checked by RespGen: RDecodeAll(s, chunks, cap) yields the    *)
(* messages, end offsets and kind of ending of Resp!DecodeAll(s) for every *)
(* chunking and buffer size enumerated.                                    *)
(***************************************************************************)
EXTENDS Resp

MinI(a, b) == IF a < b THEN a ELSE b

SlabSize == 8192
BigAlloc == 512

NewReader(cap, chunks) ==
  [cap |-> cap, r |-> 0, w |-> 0, off |-> 0, ch |-> chunks, err |-> "",
   reads |-> <<>>, br |-> {}, slab |-> 0, allocs |-> 0]

Buffered(R) == R.w - R.r
Hit(R, name) == [R EXCEPT !.br = @ \cup {name}]

\* b.rd.Read(p) with len(p) = req: <<n, remaining chunks>>; n = -1 is io.EOF
Under(R, req) ==
  IF R.ch = <<>> THEN <<0 - 1, <<>>>>
  ELSE LET n == MinI(req, R.ch[1]) IN
       <<n, IF n = R.ch[1] THEN Tail(R.ch) ELSE <<R.ch[1] - n>> \o Tail(R.ch)>>

\* bufio.go:79-97
Fill(R) ==
  LET R1 == IF R.r > 0
            THEN [Hit(R, IF R.w > R.r THEN "fill.compact" ELSE "fill.reset") EXCEPT !.w = R.w - R.r, !.r = 0]
            ELSE R
      req == R1.cap - R1.w
      u == Under(R1, req)
  IN IF u[1] < 0 THEN [R1 EXCEPT !.err = "EOF", !.reads = Append(@, <<req, 0 - 1>>)]
     ELSE IF u[1] = 0 THEN [R1 EXCEPT !.err = "noprogress", !.reads = Append(@, <<req, 0>>)]
     ELSE [R1 EXCEPT !.w = @ + u[1], !.ch = u[2], !.reads = Append(@, <<req, u[1]>>)]

\* PeekByte / ReadByte: fill when nothing is buffered (bufio.go:123-150)
EnsureByte(R) ==
  IF R.err # "" THEN R
  ELSE IF Buffered(R) = 0 THEN Fill(Hit(R, "byte.fill")) ELSE R

\* ReadSlice(LF) (bufio.go:153-173); j = stream index of the next LF at or after off+1 (0: none)
RECURSIVE ReadSliceTo(_, _)
ReadSliceTo(R, j) ==
  IF R.err # "" THEN [R |-> R, st |-> "err", n |-> 0]
  ELSE LET need == IF j = 0 THEN 0 - 1 ELSE j - R.off IN
       IF need > 0 /\ need <= Buffered(R)
       THEN [R |-> [R EXCEPT !.r = @ + need, !.off = @ + need], st |-> "ok", n |-> need]
       ELSE IF Buffered(R) = R.cap
       THEN [R |-> [Hit(R, "slice.full") EXCEPT !.r = R.w, !.off = @ + R.cap], st |-> "full", n |-> R.cap]
       ELSE LET R1 == Fill(Hit(R, IF Buffered(R) > 0 THEN "slice.refill" ELSE "slice.fill")) IN
            IF R1.err # "" THEN [R |-> R1, st |-> "err", n |-> 0] ELSE ReadSliceTo(R1, j)

ReadSlice(R, s) == ReadSliceTo(R, NextLF(s, R.off + 1))

\* sliceAlloc.Make (bufio.go:31-45)
Make(R, n) ==
  CASE n = 0 -> Hit(R, "make.zero")
    [] n >= BigAlloc -> [Hit(R, IF n >= SlabSize THEN "make.big.8192" ELSE "make.big") EXCEPT !.allocs = @ + 1]
    [] OTHER -> IF R.slab < n
                THEN [Hit(R, IF R.slab > 0 THEN "make.slab.exhausted" ELSE "make.slab.first")
                        EXCEPT !.slab = SlabSize - n, !.allocs = @ + 1]
                ELSE [Hit(R, "make.slab") EXCEPT !.slab = @ - n]

\* ReadBytes(LF) (bufio.go:176-204): fragments of a full buffer are copied, then assembled
RECURSIVE ReadBytesLoop(_, _, _, _)
ReadBytesLoop(R, j, size, nfrag) ==
  LET x == ReadSliceTo(R, j) IN
  CASE x.st = "err"  -> [R |-> x.R, st |-> "err", n |-> 0]
    [] x.st = "full" -> ReadBytesLoop(Make(x.R, x.n), j, size + x.n, nfrag + 1)
    [] OTHER -> [R |-> Make(IF nfrag > 0 THEN Hit(x.R, "bytes.assembled") ELSE x.R, size + x.n),
                 st |-> "ok", n |-> size + x.n]

ReadBytes(R, s) == ReadBytesLoop(R, NextLF(s, R.off + 1), 0, 0)

\* io.ReadFull(b, buf) over Reader.Read (bufio.go:103-121); rem = bytes still wanted
RECURSIVE ReadLoop(_, _)
ReadLoop(R, rem) ==
  IF rem = 0 THEN [R |-> R, st |-> "ok"]
  ELSE IF R.err # "" THEN [R |-> R, st |-> "err"]
  ELSE IF Buffered(R) = 0
  THEN IF rem >= R.cap
       THEN LET u == Under(R, rem) IN       \* read straight into the caller's slice
            IF u[1] < 0 THEN [R |-> [R EXCEPT !.err = "EOF", !.reads = Append(@, <<rem, 0 - 1>>)], st |-> "err"]
            ELSE ReadLoop([Hit(R, "read.bypass") EXCEPT !.off = @ + u[1], !.ch = u[2],
                                                     !.reads = Append(@, <<rem, u[1]>>)], rem - u[1])
       ELSE LET R1 == Fill(Hit(R, "read.fill")) IN
            IF R1.err # "" THEN [R |-> R1, st |-> "err"]
            ELSE LET k == MinI(rem, Buffered(R1)) IN
                 ReadLoop([R1 EXCEPT !.r = @ + k, !.off = @ + k], rem - k)
  ELSE LET k == MinI(rem, Buffered(R)) IN
       ReadLoop([Hit(R, "read.buffered") EXCEPT !.r = @ + k, !.off = @ + k], rem - k)

\* ReadFull(n) (bufio.go:207-217)
ReadFull(R, n) ==
  IF R.err # "" THEN [R |-> R, st |-> "err"]
  ELSE IF n = 0 THEN [R |-> R, st |-> "ok"]
  ELSE ReadLoop(Make(R, n), n)

----------------------------------------------------------------------------
\* the decoder on top (codec.go:82-243); st: "ok" | "err" (read error) | "bad" (protocol error)

Fail(R, st) == [R |-> R, st |-> st]

\* decodeInt: ReadSlice, CRLF check, btoi64; a full buffer without LF is an error
RInt(R, s) ==
  LET x == ReadSlice(R, s) IN
  IF x.st = "err" THEN Fail(x.R, "err")
  ELSE IF x.st = "full" THEN Fail(x.R, "bad")
  ELSE LET n == x.n - 2 IN
       IF n < 0 \/ s[R.off + n + 1] # CR THEN Fail(x.R, "bad")
       ELSE LET p == ParseInt(SubSeq(s, R.off + 1, R.off + n)) IN
            IF p.ok THEN [R |-> x.R, st |-> "ok", p |-> p] ELSE Fail(x.R, "bad")

\* decodeTextBytes: ReadBytes, CRLF check
RText(R, s) ==
  LET x == ReadBytes(R, s) IN
  IF x.st # "ok" THEN Fail(x.R, "err")
  ELSE LET n == x.n - 2 IN
       IF n < 0 \/ s[R.off + n + 1] # CR THEN Fail(x.R, "bad")
       ELSE [R |-> x.R, st |-> "ok", text |-> SubSeq(s, R.off + 1, R.off + n)]

\* a length: p as returned by RInt; -1, 0..limit, or bad
RLen(p, limit) ==
  IF p.neg THEN (IF p.d = <<1>> THEN 0 - 1 ELSE 0 - 2)
  ELSE IF Len(p.d) > 9 THEN 0 - 2
  ELSE IF NatOf(p.d) > limit THEN 0 - 2 ELSE NatOf(p.d)

RECURSIVE RDecode(_, _), RElems(_, _, _, _)

RDecode(R0, s) ==
  LET R == EnsureByte(R0) IN                            \* PeekByte
  IF R.err # "" THEN Fail(R, "err")
  ELSE LET b == s[R.off + 1] IN
  IF b \notin TypeBytes
  THEN LET x == RText(R, s) IN                          \* decodeInline
       IF x.st # "ok" THEN x
       ELSE LET ws == Words(x.text) IN
            IF ws = <<>> THEN Fail(x.R, "bad") ELSE [R |-> x.R, st |-> "ok", v |-> ArrayOfBulks(ws)]
  ELSE LET R1 == [R EXCEPT !.r = @ + 1, !.off = @ + 1] IN   \* ReadByte
  CASE b \in {PLUS, MINUS} ->
         LET x == RText(R1, s) IN
         IF x.st # "ok" THEN x
         ELSE [R |-> x.R, st |-> "ok", v |-> (IF b = PLUS THEN Simple(x.text) ELSE Err(x.text))]
    [] b = COLON ->
         LET x == RInt(R1, s) IN
         IF x.st # "ok" THEN x ELSE [R |-> x.R, st |-> "ok", v |-> IntV(x.p.neg, x.p.d)]
    [] b = DOLLAR ->
         LET x == RInt(R1, s) IN
         IF x.st # "ok" THEN x
         ELSE LET n == RLen(x.p, MaxBulkLen) IN
              IF n < 0 - 1 THEN Fail(x.R, "bad")
              ELSE IF n < 0 THEN [R |-> x.R, st |-> "ok", v |-> NullBulk]
              ELSE LET y == ReadFull(x.R, n + 2) IN
                   IF y.st # "ok" THEN Fail(y.R, "err")
                   ELSE IF s[x.R.off + n + 1] # CR \/ s[x.R.off + n + 2] # LF THEN Fail(y.R, "bad")
                   ELSE [R |-> y.R, st |-> "ok", v |-> Bulk(SubSeq(s, x.R.off + 1, x.R.off + n))]
    [] OTHER ->   \* STAR
         LET x == RInt(R1, s) IN
         IF x.st # "ok" THEN x
         ELSE LET n == RLen(x.p, MaxArrayLen) IN
              IF n < 0 - 1 THEN Fail(x.R, "bad")
              ELSE IF n < 0 THEN [R |-> x.R, st |-> "ok", v |-> NullArr]
              ELSE RElems(x.R, s, n, <<>>)

RElems(R, s, n, acc) ==
  IF n = 0 THEN [R |-> R, st |-> "ok", v |-> Arr(acc)]
  ELSE LET x == RDecode(R, s) IN
       IF x.st # "ok" THEN x ELSE RElems(x.R, s, n - 1, Append(acc, x.v))

\* Decode until the first error (what the session loop does)
RECURSIVE RDecodeFrom(_, _, _, _)
RDecodeFrom(R, s, msgs, ends) ==
  LET x == RDecode(R, s) IN
  IF x.st = "ok" THEN RDecodeFrom(x.R, s, Append(msgs, x.v), Append(ends, x.R.off))
  ELSE [msgs |-> msgs, ends |-> ends, st |-> x.st, reads |-> x.R.reads, br |-> x.R.br,
        allocs |-> x.R.allocs, err |-> x.R.err, R |-> x.R]

RDecodeAll(s, chunks, cap) == RDecodeFrom(NewReader(cap, chunks), s, <<>>, <<>>)

\* the implementation-shaped decoder agrees with the abstract one
Refines(s, chunks, cap) ==
  LET a == DecodeAll(s)
      c == RDecodeAll(s, chunks, cap)
  IN /\ c.msgs = a.msgs
     /\ c.ends = a.ends
     /\ (a.tail = "bad") = (c.st = "bad")
     /\ (a.tail \in {"eof", "incomplete"}) = (c.st = "err" /\ c.err = "EOF")
=============================================================================
