SPECIFICATION Spec
INVARIANTS AllContextsCovered RunsCovered
CHECK_DEADLOCK FALSE
