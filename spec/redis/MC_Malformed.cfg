SPECIFICATION Spec
INVARIANTS AllContextsCovered RunsCovered FoldCovered BracesCovered
CHECK_DEADLOCK FALSE
