SPECIFICATION Spec
INVARIANTS AllContextsCovered
CHECK_DEADLOCK FALSE
