SPECIFICATION Spec
INVARIANTS AllContextsCovered RunsCovered FoldCovered
CHECK_DEADLOCK FALSE
