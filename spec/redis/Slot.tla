-------------------------------- MODULE Slot --------------------------------
(***************************************************************************)
(* C12 - key-to-slot mapping of Redis Cluster.                             *)
(*                                                                         *)
(* Reference: CRC16/XMODEM (polynomial 0x1021, initial value 0, most       *)
(* significant bit first, no reflection, no final XOR) computed bit by bit,*)
(* the hash tag rule in the words of the Redis Cluster specification, and  *)
(* Slot(key) = CRC16(HashTag(key)) mod 16384.                              *)
(*                                                                         *)
(* Implementation shape (proc/redis/util.go:56-62): the table driven fold  *)
(*     crc = ((crc << 8) & 0xff00) ^ crc16tab[((crc >> 8) & 0xff) ^ b]     *)
(* with the table derived here from the reference (Tab[i] = Rep8(i << 8)). *)
(*                                                                         *)
(* Both step functions depend on (s, b) only through the 16 bit value      *)
(* v = s XOR (b << 8): the low byte of v is the low byte of s and the high *)
(* byte is (s >> 8) XOR b.  MC_Slot.cfg checks StepAgreeV for all 65536 v; *)
(* MC_SlotFull.cfg checks the unreduced statement (all 2^16 states x all   *)
(* 256 next bytes) by brute force, which also checks the reduction.        *)
(***************************************************************************)
EXTENDS Integers, Sequences, Bitwise, TLC

Poly == 4129                    \* 0x1021
M16  == 65536

\* one MSB-first division step of the 16 bit remainder r
Rep1(r) == IF r >= 32768 THEN ((r * 2) % M16) ^^ Poly ELSE r * 2

\* eight steps
Rep8(r) == Rep1(Rep1(Rep1(Rep1(Rep1(Rep1(Rep1(Rep1(r))))))))

\* reference: feed byte b (0..255) into CRC state s (0..65535)
StepRef(s, b) == Rep8(s ^^ (b * 256))

\* the table, derived from the reference; Tab[i] for i in 0..255 (evaluated once)
Tab == [i \in 0..255 |-> Rep8(i * 256)]

\* the fold of util.go, literally: shifts by multiplication / division, masks by &
StepTab(s, b) == (((s * 256) % M16) & 65280) ^^ Tab[((s \div 256) & 255) ^^ b]

\* the reduced form of the same comparison
StepAgreeV(v) == Rep8(v) = (((v % 256) * 256) ^^ Tab[v \div 256])

RECURSIVE CRCFrom(_, _, _)
CRCFrom(s, bytes, i) == IF i > Len(bytes) THEN s ELSE CRCFrom(StepRef(s, bytes[i]), bytes, i + 1)
CRC(bytes) == CRCFrom(0, bytes, 1)

RECURSIVE CRCTabFrom(_, _, _)
CRCTabFrom(s, bytes, i) == IF i > Len(bytes) THEN s ELSE CRCTabFrom(StepTab(s, bytes[i]), bytes, i + 1)
CRCTab(bytes) == CRCTabFrom(0, bytes, 1)

LB == 123   \* '{'
RB == 125   \* '}'

(***************************************************************************)
(* Redis Cluster specification: "if the key contains a '{' character, and  *)
(* there is a '}' character to the right of '{', and there are one or more *)
(* characters between the first occurrence of '{' and the first occurrence *)
(* of '}' [after it], then only what is between them is hashed".           *)
(* Stated declaratively (no scan loop).                                    *)
(***************************************************************************)
HashTag(key) ==
  LET n == Len(key)
      opens == {i \in 1..n : key[i] = LB}
  IN IF opens = {} THEN key
     ELSE LET i == CHOOSE x \in opens : \A y \in opens : x <= y
              closes == {j \in (i + 1)..n : key[j] = RB}
          IN IF closes = {} THEN key
             ELSE LET j == CHOOSE x \in closes : \A y \in closes : x <= y
                  IN IF j = i + 1 THEN key ELSE SubSeq(key, i + 1, j - 1)

Slot(key) == CRC(HashTag(key)) % 16384

(***************************************************************************)
(* Exhaustive check, reduced form: one state per v.                        *)
(***************************************************************************)
VARIABLE v

VInit == v \in 0..(M16 - 1)
VNext == v' = (v + 1) % M16
VSpec == VInit /\ [][VNext]_v

StepAgree == StepAgreeV(v)

\* the unreduced statement on the state v read as a CRC state, for every next byte
\* (MC_SlotFull.cfg: 65536 states x 256 bytes); the last conjunct checks the reduction
FullAgree ==
  \A b \in 0..255 :
    /\ StepTab(v, b) = StepRef(v, b)
    /\ LET x == v ^^ (b * 256) IN
         /\ x % 256 = v % 256
         /\ x \div 256 = ((v \div 256) ^^ b)
         /\ StepAgreeV(x)

\* CRC state machine: from 0 every 16 bit state is reachable within two bytes
SInit == v = 0
SNext == \E b \in 0..255 : v' = StepRef(v, b)
SSpec == SInit /\ [][SNext]_v

\* the well known check value of CRC16/XMODEM and the examples of the cluster spec
Check ==
  /\ CRC(<<49, 50, 51, 52, 53, 54, 55, 56, 57>>) = 12739            \* "123456789" -> 0x31C3
  /\ Slot(<<49, 50, 51, 52, 53, 54, 55, 56, 57>>) = 12739
  /\ Tab[1] = Poly /\ Tab[0] = 0 /\ Tab[255] = 7920                  \* 0x1ef0
  /\ HashTag(<<LB, 97, RB, 98>>) = <<97>>
  /\ HashTag(<<97, LB, RB, LB, 98, RB>>) = <<97, LB, RB, LB, 98, RB>>   \* foo{}{bar}: whole key
  /\ HashTag(<<97, LB, LB, 98, RB, RB>>) = <<LB, 98>>                \* foo{{bar}}: "{bar"
  /\ HashTag(<<97, LB, 98, RB, LB, 97, RB>>) = <<98>>                \* foo{bar}{zap}: "bar"
  /\ CRCTab(<<49, 50, 51, 52, 53, 54, 55, 56, 57>>) = 12739

ASSUME Check
=============================================================================
