SPECIFICATION Spec
CONSTANTS
  Reqs = {1, 2, 3}
  MaxGens = 3
  MaxClients = 2
  MaxFaults = 2
  MaxStalls = 1
  MaxAsk = 1
  AskSelectsQuit = TRUE
  ResetStopsUnderLock = FALSE
  FixCallEntry = TRUE
  FixResetSnapshot = TRUE
  FixRemoveOwn = TRUE
INVARIANTS NoHandoverCmd
CHECK_DEADLOCK FALSE
