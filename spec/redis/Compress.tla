------------------------------- MODULE Compress -------------------------------
(***************************************************************************)
(* Transparent compression (C13, proc/redis/filter_compress.go).  Values   *)
(* are abstracted to classes by how the value compression behaves on them; *)
(* what matters is how many times the stored bytes have been compressed    *)
(* (`layers`) and how many decompression steps a read applies.             *)
(*   - the filter chain runs once per SEND of a request, i.e. again on      *)
(*     every resend after a MOVED / ASK redirection (upstream.go:624-628);  *)
(*   - every pass with a compression config present registers one           *)
(*     decompress hook on the request; every hook strips one layer;         *)
(*   - a pass with compression enabled compresses each value position once  *)
(*     if the value is at least `threshold` bytes and gets strictly shorter.*)
(* FixOnce = the repaired filter: a request is compressed, and gets its     *)
(* decompress hook, only on its first pass.                                 *)
(***************************************************************************)
EXTENDS Naturals, Sequences, FiniteSets, TLC

CONSTANTS Keys, MaxOps, MaxRedirects, FixOnce

\* value classes (relative to the configured threshold)
\*  small  : shorter than the threshold                       -> never compressed
\*  comp1  : compresses to something shorter than the threshold -> a second pass skips it
\*  comp2  : the once-compressed form is still >= threshold and compresses again
\*  incomp : >= threshold but does not get shorter            -> stored as is
Classes == {"small", "comp1", "comp2", "incomp"}

Configs == {"absent", "disabled", "enabled"}

VARIABLES cfg,        \* current compression config of the service
          everEnabled,
          stored,     \* stored[k]: [cls, layers] or <<>> if never written
          lastRead,   \* result of the last read: number of layers left on the value handed to the client (0 = original)
          lastReadCfg,\* config that was in force at that read
          ops

vars == <<cfg, everEnabled, stored, lastRead, lastReadCfg, ops>>

Init ==
  /\ cfg \in Configs /\ everEnabled = (cfg = "enabled")
  /\ stored = [k \in Keys |-> <<>>] /\ lastRead = 0 /\ lastReadCfg = "absent" /\ ops = 0

\* one compression pass over a value of class cls that already has l layers
Pass(cls, l) ==
  CASE cls = "small"  -> l
    [] cls = "incomp" -> l
    [] cls = "comp1"  -> IF l = 0 THEN 1 ELSE l
    [] cls = "comp2"  -> IF l < 2 THEN l + 1 ELSE l      \* a third pass no longer shrinks it

RECURSIVE Passes(_, _, _)
Passes(cls, l, n) == IF n = 0 THEN l ELSE Passes(cls, Pass(cls, l), n - 1)

SetConfig(c) ==
  /\ c # cfg /\ ops < MaxOps /\ ops' = ops + 1
  /\ cfg' = c /\ everEnabled' = (everEnabled \/ c = "enabled")
  /\ UNCHANGED <<stored, lastRead, lastReadCfg>>

\* a write whose request is sent 1 + r times (r redirections)
Write(k, cls, r) ==
  /\ ops < MaxOps /\ ops' = ops + 1
  /\ LET n == IF cfg = "enabled" THEN (IF FixOnce THEN 1 ELSE 1 + r) ELSE 0
     IN stored' = [stored EXCEPT ![k] = [cls |-> cls, layers |-> Passes(cls, 0, n)]]
  /\ UNCHANGED <<cfg, everEnabled, lastRead, lastReadCfg>>

\* a read whose request is sent 1 + r times: one decompress hook per pass while a config is present
Read(k, r) ==
  /\ stored[k] # <<>> /\ ops < MaxOps /\ ops' = ops + 1
  /\ LET hooks == IF cfg = "absent" THEN 0 ELSE (IF FixOnce THEN 1 ELSE 1 + r)
         l == stored[k].layers
     IN lastRead' = IF hooks >= l THEN 0 ELSE l - hooks
  /\ lastReadCfg' = cfg
  /\ UNCHANGED <<cfg, everEnabled, stored>>

Next ==
  \/ \E c \in Configs : SetConfig(c)
  \/ \E k \in Keys, cls \in Classes, r \in 0..MaxRedirects : Write(k, cls, r)
  \/ \E k \in Keys, r \in 0..MaxRedirects : Read(k, r)

Spec == Init /\ [][Next]_vars

-----------------------------------------------------------------------------
\* what reaches the backend is the original or ONE compression of it (header + stream that expands to the original)
StoredForm == \A k \in Keys : stored[k] # <<>> => stored[k].layers <= 1
\* a value read back through the proxy is the original, as long as a compression config (enabled or switched off) is present
ReadBack == lastReadCfg # "absent" => lastRead = 0
\* nothing is ever compressed while compression is not enabled
OnlyWhenEnabled == ~everEnabled => \A k \in Keys : stored[k] # <<>> => stored[k].layers = 0
=============================================================================
