------------------------------- MODULE Compress -------------------------------
(***************************************************************************)
(* Transparent compression (C13, proc/redis/filter_compress.go).  Values   *)
(* are abstracted to classes by how the value compression behaves on them; *)
(* what matters is how many times the stored bytes have been compressed    *)
(* (`layers`), whether the bytes that reach the backend are still the      *)
(* bytes the filter produced (`ok`), and how many decompression steps a    *)
(* read applies to each value of its reply.                                *)
(*   - the filter chain runs once per SEND of a request, i.e. again on      *)
(*     every resend after a MOVED / ASK redirection (upstream.go);          *)
(*   - every pass with a compression config present registers one           *)
(*     decompress hook on the request; every hook strips one layer of every *)
(*     value of the reply it reaches: the reply is a bulk (depth 0), a flat *)
(*     array (depth 1: MGET / HMGET / HGETALL / HVALS) or an array that     *)
(*     nests arrays (depth 2: HSCAN answers [cursor, [field, value, ..]]);  *)
(*   - a pass with compression enabled compresses EVERY value position of   *)
(*     the request once (HMSET / HSET carry several) if the value is at     *)
(*     least `threshold` bytes and gets strictly shorter;                   *)
(*   - the value compression works in a scratch buffer that is shared by    *)
(*     all compressions and decompressions of the process (bufferPool): the *)
(*     scratch is rewritten by the compression of the next value position   *)
(*     of the same request and by any other traffic that passes between the *)
(*     filter pass and the (re)encoding of the request - certainly between  *)
(*     the sends of a redirected write, and under concurrency at any time.  *)
(* FixOnce  = the repaired filter: a request is compressed, and gets its    *)
(*            decompress hook, only on its first pass.                      *)
(* HookDepth = nesting depth down to which a decompress hook descends; the  *)
(*            filter recurses into arrays, i.e. HookDepth = MaxDepth.       *)
(* OwnBytes = TRUE: the compressed bytes are copied into memory owned by    *)
(*            the request before the scratch buffer is given back; FALSE:   *)
(*            the request keeps pointing into the scratch buffer.           *)
(* Connection age: the filter chain belongs to a backend CONNECTION (one    *)
(* per node, made on first use, made again after it broke), the config is   *)
(* changed at run time by OnSvcConfigUpdate.  `conn[n]` is the config that  *)
(* was in force when the connection to node n was made; the request passes  *)
(* the filter (compression, decompress hook) of the connection it is first  *)
(* sent over.                                                               *)
(* ConnConfig = "live": the filter of every connection reads the service's  *)
(*            current config (the code: all clients share one *config);     *)
(*            "at-connect": it reads the config of connection time.         *)
(* Nodes = {}: connection age is not modelled (request parameter "any").    *)
(* Config updates can be REFUSED: the validator insists on a threshold > 0, *)
(* so a compression section without one ("bare": `enable: false` alone, or  *)
(* `enable: true` alone) is answered with an error and nothing changes.     *)
(* `asked` is the config the operator has been told is in force (the last   *)
(* update that was acknowledged); reads are judged by it.                   *)
(* BareUpdate = "refused": the code; "off-dropped": a bare `enable: false`  *)
(*            is acknowledged and carried out as "no section at all".       *)
(* Absolute sizes: besides its class relative to the threshold a value has  *)
(* a size, 0 = near the threshold, otherwise the length in bytes of a large *)
(* value (around the 64 KiB snappy block, 512 KiB, 1 MiB, several MiB);     *)
(* large values are compressible ("comp2") or not ("incomp").               *)
(* OwnFrame = TRUE: header and stream are put together in storage that     *)
(*            belongs to this compression (the code: the header is written  *)
(*            into the scratch buffer, the stream behind it); FALSE: a      *)
(*            frame with a SHORT stream (values of class comp1 near the     *)
(*            threshold: a few dozen bytes of stream) is put together in    *)
(*            storage shared by all compressions of the process, so it is   *)
(*            rewritten when another connection's writer compresses at the  *)
(*            same instant (busy).                                          *)
(* ReadLimit = 0: decompression hands back everything (the code); S > 0: a  *)
(*            decompressed value is cut to its first S bytes.               *)
(***************************************************************************)
EXTENDS Naturals, Sequences, FiniteSets, TLC

CONSTANTS Keys, MaxOps, MaxRedirects, FixOnce, MaxVals, HookDepth, OwnBytes, Nodes, ConnConfig, BareUpdate, Sizes, ReadLimit, OwnFrame

\* value classes (relative to the configured threshold)
\*  small  : shorter than the threshold                       -> never compressed
\*  comp1  : compresses to something shorter than the threshold -> a second pass skips it
\*  comp2  : the once-compressed form is still >= threshold and compresses again
\*  incomp : >= threshold but does not get shorter            -> stored as is
Classes == {"small", "comp1", "comp2", "incomp"}

Configs == {"absent", "disabled", "enabled"}

MaxDepth == 2
Depths == 0..MaxDepth

\* the value positions of one write request
ValSeqs == UNION {[1..n -> Classes] : n \in 1..MaxVals}
\* ... and their sizes: a large value is compressible or incompressible
SizeSeqs(vals) == {szs \in [1..Len(vals) -> Sizes] : \A i \in 1..Len(vals) : szs[i] > 0 => vals[i] \in {"comp2", "incomp"}}

\* the connection a request is first sent over
Via == IF Nodes = {} THEN {"any"} ELSE Nodes

VARIABLES cfg,        \* current compression config of the service
          asked,      \* the config the operator has been told is in force (last acknowledged update)
          conn,       \* conn[n]: config in force when the connection to node n was made
          everEnabled,
          stored,     \* stored[k]: sequence of [cls, layers, ok, size] (one per value position) or <<>> if never written
          lastRead,   \* result of the last read: largest number of layers left on a value handed to the client (0 = original)
          lastReadOk, \* ... and whether every value handed to the client stems from the bytes the filter produced
          lastReadCfg,\* config the operator had been told was in force at that read
          packedOff,  \* a write request was compressed although compression was not enabled at that moment
          ops

vars == <<cfg, asked, conn, everEnabled, stored, lastRead, lastReadOk, lastReadCfg, packedOff, ops>>

Init ==
  /\ cfg \in Configs /\ asked = cfg /\ everEnabled = (cfg = "enabled")
  /\ conn = [n \in Nodes |-> cfg]      \* every node is connected before the first config change
  /\ stored = [k \in Keys |-> <<>>] /\ lastRead = 0 /\ lastReadOk = TRUE /\ lastReadCfg = "absent" /\ packedOff = FALSE /\ ops = 0

\* one compression pass over a value of class cls that already has l layers
Pass(cls, l) ==
  CASE cls = "small"  -> l
    [] cls = "incomp" -> l
    [] cls = "comp1"  -> IF l = 0 THEN 1 ELSE l
    [] cls = "comp2"  -> IF l < 2 THEN l + 1 ELSE l      \* a third pass no longer shrinks it

RECURSIVE Passes(_, _, _)
Passes(cls, l, n) == IF n = 0 THEN l ELSE Passes(cls, Pass(cls, l), n - 1)

\* the config the filter of the connection to node n works with
Eff(n) == IF n = "any" \/ ConnConfig = "live" THEN cfg ELSE conn[n]

SetConfig(c) ==
  /\ c # cfg /\ ops < MaxOps /\ ops' = ops + 1
  /\ cfg' = c /\ asked' = c /\ everEnabled' = (everEnabled \/ c = "enabled")
  /\ UNCHANGED <<conn, stored, lastRead, lastReadOk, lastReadCfg, packedOff>>

\* an update with a compression section that has no threshold (on: `enable: true` alone, ~on: `enable: false` alone)
BareConfig(on) ==
  /\ ops < MaxOps /\ ops' = ops + 1
  /\ IF BareUpdate = "off-dropped" /\ ~on
       THEN cfg' = "absent" /\ asked' = "disabled"        \* acknowledged as "switched off", carried out as "no section"
       ELSE UNCHANGED <<cfg, asked>>                       \* refused with the validation error: nothing changes
  /\ UNCHANGED <<conn, everEnabled, stored, lastRead, lastReadOk, lastReadCfg, packedOff>>

\* the connection to node n breaks and is made again (under the current config)
Reconnect(n) ==
  /\ conn[n] # cfg /\ ops < MaxOps /\ ops' = ops + 1
  /\ conn' = [conn EXCEPT ![n] = cfg]
  /\ UNCHANGED <<cfg, asked, everEnabled, stored, lastRead, lastReadOk, lastReadCfg, packedOff>>

\* a write request with the value positions vals whose request is sent 1 + r times (r redirections);
\* busy = other values are compressed / decompressed by the proxy while this request is on its way
Write(k, vals, szs, r, busy, via) ==
  /\ ops < MaxOps /\ ops' = ops + 1
  /\ LET n == IF Eff(via) = "enabled" THEN (IF FixOnce THEN 1 ELSE 1 + r) ELSE 0
         layersOf(i) == Passes(vals[i], 0, n)
         \* the value compression is entered (and the scratch buffer taken) for every value of at least threshold bytes
         taken(j) == n > 0 /\ vals[j] # "small"
         \* the compressed bytes of position i are gone when the scratch buffer was rewritten before the request is encoded
         lost(i) == \/ /\ ~OwnBytes /\ layersOf(i) > 0
                       /\ \/ \E j \in (i + 1)..Len(vals) : taken(j)
                          \/ busy
                    \* a short frame put together in shared storage while another writer does the same
                    \/ ~OwnFrame /\ layersOf(i) > 0 /\ vals[i] = "comp1" /\ szs[i] = 0 /\ busy
     IN /\ stored' = [stored EXCEPT ![k] = [i \in 1..Len(vals) |-> [cls |-> vals[i], layers |-> layersOf(i), ok |-> ~lost(i), size |-> szs[i]]]]
        /\ packedOff' = (packedOff \/ (cfg # "enabled" /\ \E i \in 1..Len(vals) : layersOf(i) > 0))
  /\ UNCHANGED <<cfg, asked, conn, everEnabled, lastRead, lastReadOk, lastReadCfg>>

Max(S) == CHOOSE x \in S : \A y \in S : y <= x

\* a read whose request is sent 1 + r times and whose reply carries the values at nesting depth d:
\* one decompress hook per pass while a config is present, each reaching down to HookDepth
Read(k, r, d, via) ==
  /\ stored[k] # <<>> /\ ops < MaxOps /\ ops' = ops + 1
  /\ LET hooks == IF Eff(via) = "absent" \/ d > HookDepth THEN 0 ELSE (IF FixOnce THEN 1 ELSE 1 + r)
         left(i) == IF hooks >= stored[k][i].layers THEN 0 ELSE stored[k][i].layers - hooks
         \* a value that is decompressed on the way back comes out cut when it is longer than the limit
         cut(i) == ReadLimit > 0 /\ stored[k][i].size > ReadLimit /\ hooks > 0 /\ stored[k][i].layers > 0
     IN /\ lastRead' = Max({left(i) : i \in 1..Len(stored[k])})
        /\ lastReadOk' = \A i \in 1..Len(stored[k]) : stored[k][i].ok /\ ~cut(i)
  /\ lastReadCfg' = asked
  /\ UNCHANGED <<cfg, asked, conn, everEnabled, stored, packedOff>>

Next ==
  \/ \E c \in Configs : SetConfig(c)
  \/ \E on \in BOOLEAN : BareConfig(on)
  \/ \E n \in Nodes : Reconnect(n)
  \/ \E k \in Keys, vals \in ValSeqs, r \in 0..MaxRedirects, busy \in BOOLEAN, via \in Via :
       \E szs \in SizeSeqs(vals) : Write(k, vals, szs, r, busy, via)
  \/ \E k \in Keys, r \in 0..MaxRedirects, d \in Depths, via \in Via : Read(k, r, d, via)

Spec == Init /\ [][Next]_vars

-----------------------------------------------------------------------------
\* what reaches the backend is the original or ONE compression of it (header + stream that expands to the original)
StoredForm == \A k \in Keys : \A i \in 1..Len(stored[k]) : stored[k][i].layers <= 1 /\ stored[k][i].ok
\* a value read back through the proxy is the original, as long as the operator has been told that a compression config
\* (enabled or switched off) is in force
ReadBack == lastReadCfg # "absent" => lastRead = 0 /\ lastReadOk
\* nothing is ever compressed while compression is not enabled
OnlyWhenEnabled == ~everEnabled => \A k \in Keys : \A i \in 1..Len(stored[k]) : stored[k][i].layers = 0

\* switched off means switched off: whatever is stored compressed was written while compression was enabled
OffMeansOff == ~packedOff

\* windows that must be reachable (checked as invariants that TLC must violate)
NoNestedReadOfCompressed ==   \* a value stored compressed is read back inside a nested array while a config is present
  ~(\E k \in Keys : ops < MaxOps /\ cfg # "absent" /\ \E i \in 1..Len(stored[k]) : stored[k][i].layers > 0)
NoLargeCompressedRead ==   \* a value of more than 512 KiB stored compressed can be read back
  ~(\E k \in Keys : ops < MaxOps /\ asked # "absent" /\ \E i \in 1..Len(stored[k]) : stored[k][i].layers > 0 /\ stored[k][i].size > 524288)
NoReadOverOlderConnection ==   \* a value stored compressed can be read over a connection made before the config became what it is
  ~(\E k \in Keys, n \in Nodes : ops < MaxOps /\ cfg # "absent" /\ conn[n] # cfg /\ \E i \in 1..Len(stored[k]) : stored[k][i].layers > 0)
NoTwoCompressedInOneRequest ==
  ~(\E k \in Keys : Cardinality({i \in 1..Len(stored[k]) : stored[k][i].layers > 0}) >= 2)
=============================================================================
