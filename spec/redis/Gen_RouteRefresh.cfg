SPECIFICATION GenSpec
CONSTANTS
  Strategies = {"BOTH", "REPLICA"}
  MaxRoutes = 4
  MaxRefresh = 2
  MaxReassign = 1
  CandCache = "none"
CHECK_DEADLOCK FALSE
