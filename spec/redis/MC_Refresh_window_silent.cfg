SPECIFICATION Spec
CONSTANTS
  MaxLayout = 3
  MaxFailures = 2
  DrainOnSuccess = FALSE
  SkipUnchanged = FALSE
  RearmOnlyAfterTrigger = FALSE
  Strategy = "MASTER"
INVARIANTS NoSilentChange
CHECK_DEADLOCK FALSE
