SPECIFICATION Spec
CONSTANTS
  Nodes = {1, 2}
  Keys = {"a1", "b1"}
  Ops = {"mcount", "mdel", "mread", "mwrite"}
  MaxCmds = 1
  MaxLen = 2
  DedupKeys = FALSE
  AssembleByArrival = TRUE
  FoldUnsynchronised = FALSE
  FailKeys = {}
  MsetIgnoresChildErrors = FALSE
INVARIANTS EqualsReference StoreIsReference ChildAtOwner
CHECK_DEADLOCK FALSE
