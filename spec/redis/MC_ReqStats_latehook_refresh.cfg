SPECIFICATION Spec
CONSTANTS
  Reqs = {1, 2}
  MaxResends = 0
  MaxRefresh = 2
  HookBeforeQuitCheck = FALSE
INVARIANTS Conserved NeverAhead
CHECK_DEADLOCK FALSE
