SPECIFICATION Spec
CONSTANTS
  Reqs = {}
  MaxResends = 1
  MaxRefresh = 2
  HookBeforeQuitCheck = FALSE
INVARIANTS Conserved NeverAhead
CHECK_DEADLOCK FALSE
