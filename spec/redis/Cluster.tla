------------------------------- MODULE Cluster -------------------------------
(***************************************************************************)
(* Redis Cluster as the nodes implement it (slot ownership, MIGRATING /    *)
(* IMPORTING, per-key location, MOVED / ASK / ASKING) and the proxy's      *)
(* routing (proc/redis/upstream.go): a possibly stale or empty slot table, *)
(* one FIFO connection per node, interception of MOVED / ASK replies       *)
(* (handleRedirection: MOVED -> resend to the named node; ASK -> send      *)
(* ASKING and resend as TWO separate enqueues), refresh of the table.      *)
(* Properties C03 / C04: clients never see a redirection, every reply      *)
(* equals the reply of a single server holding all data, every command is  *)
(* executed exactly once, each key has at most one copy.                   *)
(***************************************************************************)
EXTENDS Naturals, Sequences, FiniteSets, TLC

CONSTANTS Nodes,        \* master nodes (naturals)
          Slots, Keys, SlotOf,   \* SlotOf[k] \in Slots
          MaxCmds,      \* client commands issued in total
          MaxHops,      \* bound on redirections per request (state constraint only)
          WithMigration,\* allow one slot to migrate
          EmptyTableAtStart, \* the proxy starts without routing information
          AtomicAsk,    \* TRUE: ASKING and the command are enqueued atomically (repaired design)
          WithFailover, \* allow one master to be replaced by a standby node (its replica) and to die
          FixRefreshOnDialError \* TRUE: a failed connect to a backend triggers a table refresh (repaired code)

Absent == 0            \* values are request ids (>= 1)
OKReply == 1000
NoReply == 999
NoNode == 0

VARIABLES
  owner,      \* owner[s]: node owning slot s
  mig,        \* mig[s]: <<>> or <<src, dst>>
  store,      \* store[n][k]: value or Absent
  table,      \* proxy: table[s] node or NoNode
  needRefresh,
  q,          \* q[n]: FIFO of the proxy's connection to node n: records [t, r]
  asking,     \* asking[n]: ASKING flag of that connection
  reqs,       \* sequence of requests: [op, k, val, st, reply, exp, hops, applied, askTo]
  ref,        \* ref[k]: value a single server would hold
  migs,       \* migrations started so far (one per model run: a redirection that is delayed across
              \* several migrations of the same slot misbehaves with any Redis Cluster client)
  up,         \* up[n]: node n is reachable
  refreshes,  \* number of table refreshes so far
  failAt      \* value of `refreshes` when the failover happened (requests routed before the next refresh may fail)

vars == <<owner, mig, store, table, needRefresh, q, asking, reqs, ref, migs, up, refreshes, failAt>>

ErrReply == 998

R == 1..Len(reqs)

Init ==
  /\ owner \in [Slots -> Nodes]
  /\ mig = [s \in Slots |-> <<>>]
  /\ store = [n \in Nodes |-> [k \in Keys |-> Absent]]
  /\ table = IF EmptyTableAtStart THEN [s \in Slots |-> NoNode] ELSE owner
  /\ needRefresh = EmptyTableAtStart
  /\ q = [n \in Nodes |-> <<>>]
  /\ asking = [n \in Nodes |-> FALSE]
  /\ reqs = <<>>
  /\ ref = [k \in Keys |-> Absent]
  /\ migs = 0
  /\ up = [n \in Nodes |-> TRUE]
  /\ refreshes = 0 /\ failAt = 0

Enq(qq, n, item) == [qq EXCEPT ![n] = Append(@, item)]

(* a client issues a command; the proxy routes it by its table (random seed host when empty) *)
Issue(op, k) ==
  /\ Len(reqs) < MaxCmds
  /\ LET r == Len(reqs) + 1
         s == SlotOf[k]
     IN \E n \in Nodes :
          /\ (table[s] # NoNode => n = table[s])
          /\ reqs' = Append(reqs, [op |-> op, k |-> k, val |-> r, st |-> "inflight", reply |-> NoReply,
                                   exp |-> NoReply, hops |-> 0, applied |-> 0, askTo |-> NoNode, at |-> refreshes])
          /\ q' = Enq(q, n, [t |-> "cmd", r |-> r])
  /\ UNCHANGED <<owner, mig, store, table, needRefresh, asking, ref, migs, up, refreshes, failAt>>

\* what node n answers to request r (asking flag af): "serve" | <<"moved", n2>> | <<"ask", n2>>
Decide(n, k, af) ==
  LET s == SlotOf[k] IN
  IF owner[s] = n
    THEN IF mig[s] # <<>> /\ mig[s][1] = n /\ store[n][k] = Absent
           THEN <<"ask", mig[s][2]>>
           ELSE <<"serve", n>>
    ELSE IF mig[s] # <<>> /\ mig[s][2] = n /\ af
           THEN <<"serve", n>>
           ELSE <<"moved", owner[s]>>

(* node n processes the head of the proxy's connection *)
NodeExec(n) ==
  /\ up[n] /\ q[n] # <<>>
  /\ LET h == Head(q[n]) IN
     IF h.t = "asking"
       THEN /\ asking' = [asking EXCEPT ![n] = TRUE]
            /\ q' = [q EXCEPT ![n] = Tail(@)]
            /\ UNCHANGED <<store, reqs, ref, needRefresh>>
       ELSE
         LET r == h.r
             rq == reqs[r]
             d == Decide(n, rq.k, asking[n])
         IN /\ asking' = [asking EXCEPT ![n] = FALSE]
            /\ CASE d[1] = "serve" ->
                      /\ IF rq.op = "write"
                           THEN /\ store' = [store EXCEPT ![n][rq.k] = rq.val]
                                /\ ref' = [ref EXCEPT ![rq.k] = rq.val]
                                /\ reqs' = [reqs EXCEPT ![r].st = "done", ![r].reply = OKReply, ![r].exp = OKReply,
                                                         ![r].applied = @ + 1]
                           ELSE /\ reqs' = [reqs EXCEPT ![r].st = "done", ![r].reply = store[n][rq.k],
                                                         ![r].exp = ref[rq.k], ![r].applied = @ + 1]
                                /\ UNCHANGED <<store, ref>>
                      /\ q' = [q EXCEPT ![n] = Tail(@)]
                      /\ UNCHANGED needRefresh
                 [] d[1] = "moved" ->   \* handleRedirection: resend to the named node, trigger a refresh
                      /\ q' = Enq([q EXCEPT ![n] = Tail(@)], d[2], [t |-> "cmd", r |-> r])
                      /\ reqs' = [reqs EXCEPT ![r].hops = @ + 1]
                      /\ needRefresh' = TRUE
                      /\ UNCHANGED <<store, ref>>
                 [] d[1] = "ask" ->     \* ASKING is enqueued now, the command by a second, separate send
                      /\ IF AtomicAsk
                           THEN /\ q' = Enq(Enq([q EXCEPT ![n] = Tail(@)], d[2], [t |-> "asking", r |-> r]), d[2], [t |-> "cmd", r |-> r])
                                /\ reqs' = [reqs EXCEPT ![r].hops = @ + 1]
                           ELSE /\ q' = Enq([q EXCEPT ![n] = Tail(@)], d[2], [t |-> "asking", r |-> r])
                                /\ reqs' = [reqs EXCEPT ![r].hops = @ + 1, ![r].st = "askpending", ![r].askTo = d[2]]
                      /\ needRefresh' = TRUE
                      /\ UNCHANGED <<store, ref>>
  /\ UNCHANGED <<owner, mig, table, migs, up, refreshes, failAt>>

(* the proxy cannot connect to node n (it is down): every request queued for it is answered with *)
(* an error; the repaired code also asks for a refresh of the routing table                      *)
DialError(n) ==
  /\ ~up[n] /\ q[n] # <<>>
  /\ LET h == Head(q[n]) IN
       /\ q' = [q EXCEPT ![n] = Tail(@)]
       /\ IF h.t = "cmd"
            THEN reqs' = [reqs EXCEPT ![h.r].st = "done", ![h.r].reply = ErrReply,
                                      \* legitimate only for a request routed before the table could know
                                      ![h.r].exp = IF reqs[h.r].at <= failAt THEN ErrReply ELSE NoReply]
            ELSE UNCHANGED reqs
  /\ needRefresh' = (needRefresh \/ FixRefreshOnDialError)
  /\ UNCHANGED <<owner, mig, store, table, asking, ref, migs, up, refreshes, failAt>>

(* failover: standby node m (owns nothing, holds nothing - it mirrors n) takes over the slots and *)
(* the data of master n, which dies                                                                *)
Failover(n, m) ==
  /\ WithFailover /\ n # m /\ up[n] /\ up[m] /\ \A x \in Nodes : up[x]
  /\ \E s \in Slots : owner[s] = n
  /\ \A s \in Slots : owner[s] # m /\ mig[s] = <<>>
  /\ owner' = [s \in Slots |-> IF owner[s] = n THEN m ELSE owner[s]]
  /\ store' = [store EXCEPT ![m] = store[n], ![n] = [k \in Keys |-> Absent]]
  /\ up' = [up EXCEPT ![n] = FALSE] /\ failAt' = refreshes
  /\ UNCHANGED <<mig, table, needRefresh, q, asking, reqs, ref, migs, refreshes>>

(* the second send of handleRedirection's ASK branch *)
AskSecond(r) ==
  /\ r \in R /\ reqs[r].st = "askpending"
  /\ q' = Enq(q, reqs[r].askTo, [t |-> "cmd", r |-> r])
  /\ reqs' = [reqs EXCEPT ![r].st = "inflight"]
  /\ UNCHANGED <<owner, mig, store, table, needRefresh, asking, ref, migs, up, refreshes, failAt>>

(* loopRefreshSlots: rebuild the table from CLUSTER NODES *)
Refresh ==
  /\ needRefresh /\ table' = owner /\ needRefresh' = FALSE
  /\ refreshes' = IF WithFailover THEN refreshes + 1 ELSE refreshes   \* only needed to date a failover
  /\ UNCHANGED <<owner, mig, store, q, asking, reqs, ref, migs, up, failAt>>

(* operator: migrate slot s to node dst *)
SetMigrating(s, dst) ==
  /\ WithMigration /\ migs = 0 /\ migs' = 1
  /\ dst # owner[s]
  /\ mig' = [mig EXCEPT ![s] = <<owner[s], dst>>]
  /\ UNCHANGED <<owner, store, table, needRefresh, q, asking, reqs, ref, up, refreshes, failAt>>

MigrateKey(k) ==
  /\ LET s == SlotOf[k] IN
       /\ mig[s] # <<>> /\ store[mig[s][1]][k] # Absent
       /\ store' = [store EXCEPT ![mig[s][1]][k] = Absent, ![mig[s][2]][k] = store[mig[s][1]][k]]
  /\ UNCHANGED <<owner, mig, table, needRefresh, q, asking, reqs, ref, migs, up, refreshes, failAt>>

Finalise(s) ==
  /\ mig[s] # <<>> /\ \A k \in Keys : SlotOf[k] = s => store[mig[s][1]][k] = Absent
  /\ owner' = [owner EXCEPT ![s] = mig[s][2]] /\ mig' = [mig EXCEPT ![s] = <<>>]
  /\ UNCHANGED <<store, table, needRefresh, q, asking, reqs, ref, migs, up, refreshes, failAt>>

ProxyNext == (\E r \in R : AskSecond(r)) \/ Refresh \/ (\E n \in Nodes : DialError(n))
NodeNext == \E n \in Nodes : NodeExec(n)
EnvNext == (\E op \in {"read", "write"}, k \in Keys : Issue(op, k))
           \/ (\E s \in Slots, d \in Nodes : SetMigrating(s, d)) \/ (\E k \in Keys : MigrateKey(k)) \/ (\E s \in Slots : Finalise(s))
           \/ (\E n, m \in Nodes : Failover(n, m))
Next == ProxyNext \/ NodeNext \/ EnvNext
Spec == Init /\ [][Next]_vars /\ WF_vars(ProxyNext) /\ WF_vars(NodeNext)

HopBound == \A r \in R : reqs[r].hops <= MaxHops

-----------------------------------------------------------------------------
\* every reply equals the reply of a single server (reads see the latest write; writes answer OK)
EqualsReference == \A r \in R : reqs[r].st = "done" => reqs[r].reply = reqs[r].exp
\* a command is executed exactly once when it is answered, never more than once
EffectOnce == \A r \in R : /\ reqs[r].applied <= 1
                            /\ (reqs[r].st = "done" /\ reqs[r].reply # ErrReply => reqs[r].applied = 1)
                            /\ (reqs[r].reply = ErrReply => reqs[r].applied = 0)
\* each key has at most one copy, and it is what a single server would hold
SingleCopy == \A k \in Keys : Cardinality({n \in Nodes : store[n][k] # Absent}) <= 1
CopyIsReference == \A k \in Keys : \A n \in Nodes : store[n][k] # Absent => store[n][k] = ref[k]
NoLostKey == \A k \in Keys : ref[k] # Absent => \E n \in Nodes : store[n][k] = ref[k]
\* with a loaded, current table and no migration the first hop is the owner: no redirection at all (C03)
FirstHopIsOwner == (~WithMigration /\ ~EmptyTableAtStart /\ ~WithFailover) => \A r \in R : reqs[r].hops = 0
\* an error reply only for a request that was routed by a table that did not yet know about the failover
\* (exp = ErrReply marks those); once the table is current again no request may fail
ErrorsOnlyWhileStale == \A r \in R : reqs[r].reply = ErrReply => reqs[r].exp = ErrReply
\* every command is eventually answered; after the layout settles the table converges (C07)
AllDone == <>[](\A r \in R : reqs[r].st = "done")
Converges == <>[](table = owner)
\* after a failover, the first request that fails against the dead master makes the table converge
ConvergesAfterDialError == (\E r \in R : reqs[r].reply = ErrReply) ~> (table = owner)
=============================================================================
