------------------------------- MODULE Cluster -------------------------------
(***************************************************************************)
(* Redis Cluster as the nodes implement it (slot ownership, MIGRATING /    *)
(* IMPORTING, per-key location, MOVED / ASK / ASKING) and the proxy's      *)
(* routing (proc/redis/upstream.go): a possibly stale or empty slot table, *)
(* one FIFO connection per node, interception of MOVED / ASK replies       *)
(* (handleRedirection: MOVED -> resend to the named node; ASK -> send      *)
(* ASKING and resend as TWO separate enqueues), refresh of the table.      *)
(* Properties C03 / C04: clients never see a redirection, every reply      *)
(* equals the reply of a single server holding all data, every command is  *)
(* executed exactly once, each key has at most one copy.                   *)
(*                                                                         *)
(* Three mechanisms of the proxy are explicit because regressions live in  *)
(* them:                                                                   *)
(*  - the refresher rewrites the routing table entry by entry while the    *)
(*    session goroutines read it without a lock (StepwiseRefresh; the      *)
(*    timer of loopRefreshSlots is Tick). ClearBeforeFill is the broken    *)
(*    variant that empties the table first: a loaded table on a stable     *)
(*    cluster then looks unloaded for a moment (FirstHopIsOwner fails).    *)
(*  - backend connections are made on first use (LazyConnect: hasConn).    *)
(*    The reader of the connection that received MOVED / ASK resends the   *)
(*    request itself, dialling the target if need be, so redirected        *)
(*    requests reach the target in the order the source answered them.     *)
(*    AsyncRedirectDial is the broken variant in which a redirection to a  *)
(*    node without a connection is resent from a goroutine of its own      *)
(*    (parked): RedirectKeepsOrder fails.                                  *)
(*  - a master replaced in a failover may stay alive as a replica of its   *)
(*    successor (WithDemotion). The code sends READONLY on every backend   *)
(*    connection (ReadonlyEverywhere), so the demoted node answers reads   *)
(*    itself while writes are redirected: a read overtakes the redirected  *)
(*    write issued before it (RedirectKeepsOrder fails; finding C04        *)
(*    stale-read/pipelined-read-served-by-demoted-master).                 *)
(*  - the replaced master is gone in one of two ways (DeathKinds): its     *)
(*    address refuses connections, or its machine vanished and the connect *)
(*    times out; either must make the proxy ask for the table              *)
(*    (RefreshOnTimeout = FALSE is the broken variant). The nodes carry a  *)
(*    flags column in CLUSTER NODES (flags); the code does not look at it  *)
(*    (ParserSkips = {}); a parser that drops the line of a node flagged   *)
(*    nofailover never learns the slots of a promoted replica that runs    *)
(*    with cluster-replica-no-failover (broken variant).                   *)
(***************************************************************************)
EXTENDS Naturals, Sequences, FiniteSets, TLC

CONSTANTS Nodes,        \* master nodes (naturals)
          Slots, Keys, SlotOf,   \* SlotOf[k] \in Slots
          MaxCmds,      \* client commands issued in total
          MaxHops,      \* bound on redirections per request (state constraint only)
          WithMigration,\* allow one slot to migrate
          EmptyTableAtStart, \* the proxy starts without routing information
          AtomicAsk,    \* TRUE: ASKING and the command are enqueued atomically (repaired design)
          WithFailover, \* allow one master to be replaced by a standby node (its replica) and to die
          FixRefreshOnDialError, \* TRUE: a failed connect to a backend triggers a table refresh (repaired code)
          StepwiseRefresh, \* TRUE: the table is rewritten slot by slot, commands are routed in between (as the code does)
          ClearBeforeFill, \* TRUE (broken variant): the refresher empties the whole table before it rewrites it
          MaxTicks,        \* how often the refresh timer fires although nothing asked for a refresh
          LazyConnect,     \* TRUE: at start the proxy has a backend connection to one seed node only
          AsyncRedirectDial, \* TRUE (broken variant): a redirection to a node without a connection is resent by its own goroutine
          TrackOrder,      \* TRUE: requests remember the nodes they were sent to (RedirectKeepsOrder)
          WithDemotion,    \* TRUE: the master replaced in a failover stays alive as a replica of its successor
          ReadonlyEverywhere, \* TRUE (the code): READONLY is sent on every backend connection, so a demoted master serves reads
          MaxMigs,         \* migrations of the run (one after the other)
          StaleTableAtStart, \* TRUE: the table was loaded before the last changes of ownership - any node per slot
          DeathKinds,      \* how the replaced master of a failover is gone: subset of {"refused", "timeout"} (connections
                           \* to it are refused / its machine vanished: SYNs are dropped, the connect times out)
          RefreshOnTimeout, \* TRUE (the code): a connect that times out asks for a refresh like one that is refused
          PromotedFlags,   \* flag sets the promoted node may carry in CLUSTER NODES, e.g. {"master"}, {"master", "nofailover"}
          ParserSkips,     \* flags for which parseClusterNodes drops the node's line ({} = the code: flags are not looked at)
          MaxFollowed      \* redirections the proxy follows for ONE request (0 = the code: no bound); with a bound the
                           \* MOVED / ASK error of the next redirection becomes the client's reply (broken variants)

Absent == 0            \* values are request ids (>= 1)
OKReply == 1000
NoReply == 999
NoNode == 0

VARIABLES
  owner,      \* owner[s]: node owning slot s
  mig,        \* mig[s]: <<>> or <<src, dst>>
  store,      \* store[n][k]: value or Absent
  table,      \* proxy: table[s] node or NoNode
  needRefresh,
  q,          \* q[n]: FIFO of the proxy's connection to node n: records [t, r]
  asking,     \* asking[n]: ASKING flag of that connection
  reqs,       \* sequence of requests: [op, k, val, st, reply, exp, hops, applied, askTo]
  ref,        \* ref[k]: value a single server would hold
  migs,       \* migrations started so far (one per model run: a redirection that is delayed across
              \* several migrations of the same slot misbehaves with any Redis Cluster client)
  up,         \* up[n]: node n is reachable
  refreshes,  \* number of table refreshes so far
  failAt,     \* value of `refreshes` when the failover happened (requests routed before the next refresh may fail)
  snap,       \* refresher: the layout it read from CLUSTER NODES and is writing into the table
  todo,       \* refresher: slots it has not rewritten yet ({} = no refresh in progress)
  ticks,      \* firings of the refresh timer so far
  hasConn,    \* hasConn[n]: the proxy has a backend connection to node n
  parked,     \* AsyncRedirectDial: redirected requests held by a goroutine of their own: [r, t, ask]
  replicaOf,  \* replicaOf[n]: the master node n replicates (NoNode for masters); reads are served from the master's data
  deadKind,   \* "none", or how the replaced master is gone ("refused" | "timeout")
  flags       \* flags[n]: the flags column of node n's line in CLUSTER NODES (as the answering nodes report it)

aux == <<snap, todo, ticks, hasConn, parked, replicaOf, deadKind, flags>>
vars == <<owner, mig, store, table, needRefresh, q, asking, reqs, ref, migs, up, refreshes, failAt, aux>>

ASSUME AsyncRedirectDial => AtomicAsk

ErrReply == 998
RedirReply == 997      \* a MOVED / ASK error handed to the client

R == 1..Len(reqs)

Init ==
  /\ owner \in [Slots -> Nodes]
  /\ mig = [s \in Slots |-> <<>>]
  /\ store = [n \in Nodes |-> [k \in Keys |-> Absent]]
  /\ IF EmptyTableAtStart THEN table = [s \in Slots |-> NoNode]
     ELSE IF StaleTableAtStart THEN table \in [Slots -> Nodes]
     ELSE table = owner
  /\ needRefresh = EmptyTableAtStart
  /\ q = [n \in Nodes |-> <<>>]
  /\ asking = [n \in Nodes |-> FALSE]
  /\ reqs = <<>>
  /\ ref = [k \in Keys |-> Absent]
  /\ migs = 0
  /\ up = [n \in Nodes |-> TRUE]
  /\ refreshes = 0 /\ failAt = 0
  /\ snap = [s \in Slots |-> NoNode] /\ todo = {} /\ ticks = 0
  /\ hasConn \in [Nodes -> BOOLEAN]
  /\ IF LazyConnect THEN Cardinality({n \in Nodes : hasConn[n]}) = 1 ELSE \A n \in Nodes : hasConn[n]
  /\ parked = {}
  /\ replicaOf = [n \in Nodes |-> NoNode]
  /\ deadKind = "none" /\ flags = [n \in Nodes |-> {"master"}]

Enq(qq, n, item) == [qq EXCEPT ![n] = Append(@, item)]

(* a client issues a command; the proxy routes it by its table (random seed host when empty) *)
Issue(op, k) ==
  /\ Len(reqs) < MaxCmds
  /\ LET r == Len(reqs) + 1
         s == SlotOf[k]
     IN \E n \in Nodes :
          /\ (table[s] # NoNode => n = table[s])
          /\ reqs' = Append(reqs, [op |-> op, k |-> k, val |-> r, st |-> "inflight", reply |-> NoReply,
                                   exp |-> NoReply, hops |-> 0, applied |-> 0, askTo |-> NoNode, at |-> refreshes,
                                   path |-> IF TrackOrder THEN <<n>> ELSE <<>>])
          /\ q' = Enq(q, n, [t |-> "cmd", r |-> r])
          /\ hasConn' = [hasConn EXCEPT ![n] = TRUE]
  /\ UNCHANGED <<owner, mig, store, table, needRefresh, asking, ref, migs, up, refreshes, failAt, snap, todo, ticks, parked, replicaOf, deadKind, flags>>

\* what node n answers to request r (asking flag af): "serve" | <<"moved", n2>> | <<"ask", n2>>
\* a replica answers reads for the slots of its master itself on a READONLY connection (data of the master: no lag)
DecideOp(n, k, af, op) ==
  LET s == SlotOf[k] IN
  IF replicaOf[n] # NoNode /\ replicaOf[n] = owner[s] /\ op = "read" /\ ReadonlyEverywhere
    THEN <<"serve", replicaOf[n]>>
  ELSE IF owner[s] = n
    THEN IF mig[s] # <<>> /\ mig[s][1] = n /\ store[n][k] = Absent
           THEN <<"ask", mig[s][2]>>
           ELSE <<"serve", n>>
    ELSE IF mig[s] # <<>> /\ mig[s][2] = n /\ af
           THEN <<"serve", n>>
           ELSE <<"moved", owner[s]>>
Decide(n, k, af) == DecideOp(n, k, af, "write")

(* node n processes the head of the proxy's connection *)
GivesUp(rq) == MaxFollowed > 0 /\ rq.hops >= MaxFollowed   \* this redirection would be number hops + 1
Path(rq, t) == IF TrackOrder THEN Append(rq.path, t) ELSE rq.path
NodeExec(n) ==
  /\ up[n] /\ q[n] # <<>>
  /\ LET h == Head(q[n]) IN
     IF h.t = "asking"
       THEN /\ asking' = [asking EXCEPT ![n] = TRUE]
            /\ q' = [q EXCEPT ![n] = Tail(@)]
            /\ UNCHANGED <<store, reqs, ref, needRefresh, hasConn, parked>>
       ELSE
         LET r == h.r
             rq == reqs[r]
             d == DecideOp(n, rq.k, asking[n], rq.op)
         IN /\ asking' = [asking EXCEPT ![n] = FALSE]
            /\ CASE d[1] = "serve" ->   \* d[2]: the node whose data is used (n itself, or the master n replicates)
                      /\ IF rq.op = "write"
                           THEN /\ store' = [store EXCEPT ![n][rq.k] = rq.val]
                                /\ ref' = [ref EXCEPT ![rq.k] = rq.val]
                                /\ reqs' = [reqs EXCEPT ![r].st = "done", ![r].reply = OKReply, ![r].exp = OKReply,
                                                         ![r].applied = @ + 1]
                           ELSE /\ reqs' = [reqs EXCEPT ![r].st = "done", ![r].reply = store[d[2]][rq.k],
                                                         ![r].exp = ref[rq.k], ![r].applied = @ + 1]
                                /\ UNCHANGED <<store, ref>>
                      /\ q' = [q EXCEPT ![n] = Tail(@)]
                      /\ UNCHANGED <<needRefresh, hasConn, parked>>
                 [] d[1] \in {"moved", "ask"} /\ GivesUp(rq) ->
                      \* broken variants: a bound on the redirections followed for one request - the redirection
                      \* error itself is the client's reply, the command is not executed
                      /\ reqs' = [reqs EXCEPT ![r].st = "done", ![r].reply = RedirReply, ![r].hops = @ + 1]
                      /\ q' = [q EXCEPT ![n] = Tail(@)]
                      /\ needRefresh' = TRUE
                      /\ UNCHANGED <<store, ref, hasConn, parked>>
                 [] d[1] \in {"moved", "ask"} /\ ~GivesUp(rq) /\ AsyncRedirectDial /\ ~hasConn[d[2]] ->
                      \* broken variant: no connection to the target yet - the resend (and the dial) is left to a
                      \* goroutine of its own, the reader of node n's connection goes on with the next reply
                      /\ parked' = parked \cup {[r |-> r, t |-> d[2], ask |-> (d[1] = "ask")]}
                      /\ q' = [q EXCEPT ![n] = Tail(@)]
                      /\ reqs' = [reqs EXCEPT ![r].hops = @ + 1, ![r].path = Path(rq, d[2])]
                      /\ needRefresh' = TRUE
                      /\ UNCHANGED <<store, ref, hasConn>>
                 [] d[1] = "moved" /\ ~GivesUp(rq) /\ ~(AsyncRedirectDial /\ ~hasConn[d[2]]) ->
                      \* handleRedirection: the reader of node n's connection resends to the named node itself
                      \* (it dials if there is no connection yet), then triggers a refresh
                      /\ q' = Enq([q EXCEPT ![n] = Tail(@)], d[2], [t |-> "cmd", r |-> r])
                      /\ reqs' = [reqs EXCEPT ![r].hops = @ + 1, ![r].path = Path(rq, d[2])]
                      /\ hasConn' = [hasConn EXCEPT ![d[2]] = TRUE]
                      /\ needRefresh' = TRUE
                      /\ UNCHANGED <<store, ref, parked>>
                 [] d[1] = "ask" /\ ~GivesUp(rq) /\ ~(AsyncRedirectDial /\ ~hasConn[d[2]]) ->
                      \* AtomicAsk: the backend writer emits ASKING and the command back to back;
                      \* pinned design: ASKING is enqueued now, the command by a second, separate send
                      /\ IF AtomicAsk
                           THEN /\ q' = Enq(Enq([q EXCEPT ![n] = Tail(@)], d[2], [t |-> "asking", r |-> r]), d[2], [t |-> "cmd", r |-> r])
                                /\ reqs' = [reqs EXCEPT ![r].hops = @ + 1, ![r].path = Path(rq, d[2])]
                           ELSE /\ q' = Enq([q EXCEPT ![n] = Tail(@)], d[2], [t |-> "asking", r |-> r])
                                /\ reqs' = [reqs EXCEPT ![r].hops = @ + 1, ![r].st = "askpending", ![r].askTo = d[2],
                                                         ![r].path = Path(rq, d[2])]
                      /\ hasConn' = [hasConn EXCEPT ![d[2]] = TRUE]
                      /\ needRefresh' = TRUE
                      /\ UNCHANGED <<store, ref, parked>>
  /\ UNCHANGED <<owner, mig, table, migs, up, refreshes, failAt, snap, todo, ticks, replicaOf, deadKind, flags>>

(* broken variant only: one of the goroutines holding a redirected request gets the connection to the *)
(* target (they all wait for the same dial) and sends - in whatever order the scheduler picks them     *)
ParkedResend(p) ==
  /\ p \in parked
  /\ parked' = parked \ {p}
  /\ hasConn' = [hasConn EXCEPT ![p.t] = TRUE]
  /\ q' = IF p.ask THEN Enq(Enq(q, p.t, [t |-> "asking", r |-> p.r]), p.t, [t |-> "cmd", r |-> p.r])
                   ELSE Enq(q, p.t, [t |-> "cmd", r |-> p.r])
  /\ UNCHANGED <<owner, mig, store, table, needRefresh, asking, reqs, ref, migs, up, refreshes, failAt, snap, todo, ticks, replicaOf, deadKind, flags>>

(* the proxy cannot connect to node n (it is down): every request queued for it is answered with *)
(* an error; the repaired code also asks for a refresh of the routing table                      *)
DialError(n) ==
  /\ ~up[n] /\ q[n] # <<>>
  /\ LET h == Head(q[n]) IN
       /\ q' = [q EXCEPT ![n] = Tail(@)]
       /\ IF h.t = "cmd"
            THEN reqs' = [reqs EXCEPT ![h.r].st = "done", ![h.r].reply = ErrReply,
                                      \* legitimate only for a request routed before the table could know
                                      ![h.r].exp = IF reqs[h.r].at <= failAt THEN ErrReply ELSE NoReply]
            ELSE UNCHANGED reqs
  /\ needRefresh' = (needRefresh \/ (FixRefreshOnDialError /\ (deadKind # "timeout" \/ RefreshOnTimeout)))
  /\ UNCHANGED <<owner, mig, store, table, asking, ref, migs, up, refreshes, failAt, aux>>

(* failover: standby node m (owns nothing, holds nothing - it mirrors n) takes over the slots and *)
(* the data of master n, which dies                                                                *)
Failover(n, m) ==
  /\ WithFailover /\ n # m /\ up[n] /\ up[m] /\ \A x \in Nodes : up[x] /\ replicaOf[x] = NoNode   \* one failover per run
  /\ \E s \in Slots : owner[s] = n
  /\ \A s \in Slots : owner[s] # m /\ mig[s] = <<>>
  /\ owner' = [s \in Slots |-> IF owner[s] = n THEN m ELSE owner[s]]
  /\ store' = [store EXCEPT ![m] = store[n], ![n] = [k \in Keys |-> Absent]]
  /\ failAt' = refreshes
  /\ IF WithDemotion
       THEN /\ replicaOf' = [replicaOf EXCEPT ![n] = m] /\ UNCHANGED <<up, deadKind>>    \* n stays alive, as a replica of m
            /\ \E pf \in PromotedFlags : flags' = [flags EXCEPT ![m] = pf, ![n] = {"slave"}]
       ELSE /\ up' = [up EXCEPT ![n] = FALSE] /\ UNCHANGED replicaOf
            /\ deadKind' \in DeathKinds
            \* the promoted node's flags; the dead one is reported failed (refused) or only suspected so far
            \* (vanished); a node that answers may also merely suspect a third, healthy one ("fail?")
            /\ \E pf \in PromotedFlags, sus \in SUBSET (Nodes \ {n, m}) :
                 flags' = [x \in Nodes |-> IF x = m THEN pf
                                           ELSE IF x = n THEN {"master", IF deadKind' = "timeout" THEN "fail?" ELSE "fail"}
                                           ELSE IF x \in sus THEN flags[x] \cup {"fail?"} ELSE flags[x]]
  /\ UNCHANGED <<mig, table, needRefresh, q, asking, reqs, ref, migs, refreshes, snap, todo, ticks, hasConn, parked>>

(* the second send of handleRedirection's ASK branch *)
AskSecond(r) ==
  /\ r \in R /\ reqs[r].st = "askpending"
  /\ q' = Enq(q, reqs[r].askTo, [t |-> "cmd", r |-> r])
  /\ reqs' = [reqs EXCEPT ![r].st = "inflight"]
  /\ UNCHANGED <<owner, mig, store, table, needRefresh, asking, ref, migs, up, refreshes, failAt, aux>>

(* loopRefreshSlots: rebuild the table from CLUSTER NODES (abstraction used where the interleaving of *)
(* the single writes with routing decisions is not the subject: the whole table changes at once)     *)
\* what parseClusterNodes makes of the answer: the owner of every slot whose owner's line is used; a slot whose owner's
\* line is dropped keeps its entry (the table is not cleared)
Parsed == [s \in Slots |-> IF flags[owner[s]] \cap ParserSkips = {} THEN owner[s] ELSE table[s]]
Refresh ==
  /\ ~StepwiseRefresh
  /\ needRefresh /\ table' = Parsed /\ needRefresh' = FALSE
  /\ refreshes' = IF WithFailover THEN refreshes + 1 ELSE refreshes   \* only needed to date a failover
  /\ UNCHANGED <<owner, mig, store, q, asking, reqs, ref, migs, up, failAt, aux>>

(* doSlotsRefresh as the code does it: the answer of CLUSTER NODES is parsed (snap), then the entries *)
(* are written one by one while the session goroutines keep reading the table without a lock          *)
RefreshBegin ==
  /\ StepwiseRefresh /\ needRefresh /\ todo = {}
  /\ snap' = Parsed /\ todo' = Slots /\ needRefresh' = FALSE
  /\ table' = IF ClearBeforeFill THEN [s \in Slots |-> NoNode] ELSE table
  /\ UNCHANGED <<owner, mig, store, q, asking, reqs, ref, migs, up, refreshes, failAt, ticks, hasConn, parked, replicaOf, deadKind, flags>>

RefreshWrite(s) ==
  /\ s \in todo
  /\ table' = [table EXCEPT ![s] = snap[s]]
  /\ todo' = todo \ {s}
  /\ IF todo' = {}
       THEN /\ snap' = [x \in Slots |-> NoNode]
            /\ refreshes' = IF WithFailover THEN refreshes + 1 ELSE refreshes
       ELSE UNCHANGED <<snap, refreshes>>
  /\ UNCHANGED <<owner, mig, store, needRefresh, q, asking, reqs, ref, migs, up, failAt, ticks, hasConn, parked, replicaOf, deadKind, flags>>

(* the refresh timer (slotsRefFreq) or a host event fires although no redirection asked for a refresh *)
Tick ==
  /\ ticks < MaxTicks /\ ~needRefresh
  /\ ticks' = ticks + 1 /\ needRefresh' = TRUE
  /\ UNCHANGED <<owner, mig, store, table, q, asking, reqs, ref, migs, up, refreshes, failAt, snap, todo, hasConn, parked, replicaOf, deadKind, flags>>

(* operator: migrate slot s to node dst *)
SetMigrating(s, dst) ==
  /\ WithMigration /\ migs < MaxMigs /\ migs' = migs + 1
  /\ \A x \in Slots : mig[x] = <<>>
  /\ dst # owner[s]
  /\ mig' = [mig EXCEPT ![s] = <<owner[s], dst>>]
  /\ UNCHANGED <<owner, store, table, needRefresh, q, asking, reqs, ref, up, refreshes, failAt, aux>>

MigrateKey(k) ==
  /\ LET s == SlotOf[k] IN
       /\ mig[s] # <<>> /\ store[mig[s][1]][k] # Absent
       /\ store' = [store EXCEPT ![mig[s][1]][k] = Absent, ![mig[s][2]][k] = store[mig[s][1]][k]]
  /\ UNCHANGED <<owner, mig, table, needRefresh, q, asking, reqs, ref, migs, up, refreshes, failAt, aux>>

Finalise(s) ==
  /\ mig[s] # <<>> /\ \A k \in Keys : SlotOf[k] = s => store[mig[s][1]][k] = Absent
  /\ owner' = [owner EXCEPT ![s] = mig[s][2]] /\ mig' = [mig EXCEPT ![s] = <<>>]
  /\ UNCHANGED <<store, table, needRefresh, q, asking, reqs, ref, migs, up, refreshes, failAt, aux>>

RefreshNext == Refresh \/ RefreshBegin \/ (\E s \in Slots : RefreshWrite(s)) \/ Tick
ProxyNext == (\E r \in R : AskSecond(r)) \/ RefreshNext \/ (\E n \in Nodes : DialError(n)) \/ (\E p \in parked : ParkedResend(p))
NodeNext == \E n \in Nodes : NodeExec(n)
EnvNext == (\E op \in {"read", "write"}, k \in Keys : Issue(op, k))
           \/ (\E s \in Slots, d \in Nodes : SetMigrating(s, d)) \/ (\E k \in Keys : MigrateKey(k)) \/ (\E s \in Slots : Finalise(s))
           \/ (\E n, m \in Nodes : Failover(n, m))
Next == ProxyNext \/ NodeNext \/ EnvNext
Spec == Init /\ [][Next]_vars /\ WF_vars(ProxyNext) /\ WF_vars(NodeNext)

HopBound == \A r \in R : reqs[r].hops <= MaxHops

-----------------------------------------------------------------------------
\* every reply equals the reply of a single server (reads see the latest write; writes answer OK)
EqualsReference == \A r \in R : reqs[r].st = "done" => reqs[r].reply = reqs[r].exp
\* a command is executed exactly once when it is answered, never more than once
EffectOnce == \A r \in R : /\ reqs[r].applied <= 1
                            /\ (reqs[r].st = "done" /\ reqs[r].reply # ErrReply => reqs[r].applied = 1)
                            /\ (reqs[r].reply = ErrReply => reqs[r].applied = 0)
\* each key has at most one copy, and it is what a single server would hold
SingleCopy == \A k \in Keys : Cardinality({n \in Nodes : store[n][k] # Absent}) <= 1
CopyIsReference == \A k \in Keys : \A n \in Nodes : store[n][k] # Absent => store[n][k] = ref[k]
NoLostKey == \A k \in Keys : ref[k] # Absent => \E n \in Nodes : store[n][k] = ref[k]
\* with a loaded, current table and no migration the first hop is the owner: no redirection at all (C03)
FirstHopIsOwner == (~WithMigration /\ ~EmptyTableAtStart /\ ~WithFailover) => \A r \in R : reqs[r].hops = 0
\* of two commands on the same key that the proxy sent to the same node first, the later one is never executed
\* first - whatever redirections either of them meets on its way (a client that pipelines SET k 1, SET k 2, GET k
\* must get the replies a single server gives, and the last write must win). Commands routed by different states
\* of the table (a refresh in between) are not constrained here.
RedirectKeepsOrder ==
  TrackOrder => \A r1, r2 \in R :
    (r1 < r2 /\ reqs[r1].k = reqs[r2].k /\ reqs[r1].path[1] = reqs[r2].path[1] /\ reqs[r2].applied = 1)
      => (reqs[r1].applied = 1 \/ reqs[r1].reply = ErrReply)
\* the client never sees a redirection
NoRedirectError == \A r \in R : reqs[r].reply # RedirReply
\* W_Chain2 / W_Chain3: one request is redirected twice / three times and is then executed (stale table + half-migrated
\* slot: MOVED then ASK; two changes of ownership between refreshes: MOVED then MOVED; ...)
NoChain2 == \A r \in R : ~(reqs[r].hops = 2 /\ reqs[r].applied = 1)
NoChain3 == \A r \in R : ~(reqs[r].hops = 3 /\ reqs[r].applied = 1)
\* window predicates (reachability is shown by a configuration that expects them to be violated)
\* W_RouteDuringRefresh: a command can be routed while the refresher is between two table writes
NoRouteDuringRefresh == ~(todo # {} /\ todo # Slots /\ Len(reqs) < MaxCmds)
\* W_RedirectToFreshNode: a node is about to answer MOVED / ASK naming a node the proxy has no connection to,
\* with a second command for the same key queued behind it
NoRedirectToFreshNode ==
  ~ \E n \in Nodes : /\ Len(q[n]) >= 2 /\ Head(q[n]).t = "cmd" /\ q[n][2].t = "cmd"
                      /\ reqs[Head(q[n]).r].k = reqs[q[n][2].r].k
                      /\ LET d == Decide(n, reqs[Head(q[n]).r].k, asking[n])
                         IN d[1] \in {"moved", "ask"} /\ ~hasConn[d[2]]
\* an error reply only for a request that was routed by a table that did not yet know about the failover
\* (exp = ErrReply marks those); once the table is current again no request may fail
ErrorsOnlyWhileStale == \A r \in R : reqs[r].reply = ErrReply => reqs[r].exp = ErrReply
\* every command is eventually answered; after the layout settles the table converges (C07)
AllDone == <>[](\A r \in R : reqs[r].st = "done")
Converges == <>[](table = owner)
\* after a failover, the first request that fails against the dead master makes the table converge
ConvergesAfterDialError == (\E r \in R : reqs[r].reply = ErrReply) ~> (table = owner)
=============================================================================
