---------------------------- MODULE HotKeyExtract ----------------------------
(***************************************************************************)
(* C19, the step before Counter.Incr: which bytes of a request written to  *)
(* a backend the filter chain counts as THE key (FilterChain.Do ->         *)
(* hotKeyFilter.extractKey), per command family and per letter case of the *)
(* command name as the client sent it.                                     *)
(*                                                                         *)
(* Families (layout of the request that reaches the backend client):       *)
(*   simple   <<name, key, ...>>            get, set, hset, lpush, ...     *)
(*   multi    <<name, key>> children of mget/mset (name written by the     *)
(*            proxy) and of del/exists/touch/unlink (name as the client    *)
(*            sent it)                                                     *)
(*   eval     <<name, script, numkeys, key, ...>>                          *)
(*   keyless  <<name, operand, ...>>        scan cursor, cluster nodes,    *)
(*            auth password                                                *)
(* Case patterns of the name: lower, UPPER, Capitalised, mIXED (lower      *)
(* first), MiXED (upper first).                                            *)
(*                                                                         *)
(* FilterChain.Do hands the name to the filters after normalisation        *)
(* (Normalise = "always": bytes.ToLower unconditionally, the code);        *)
(* extractKey compares it with "eval", "cluster", "auth", "scan": a        *)
(* recognised eval-like or key-less command counts nothing, every other    *)
(* request counts its first argument.  Variants: "never" (name compared    *)
(* as sent) and "first-byte" (lower-cased only when the first letter is    *)
(* upper case) must break OnlyAccessedKeysReported.                        *)
(***************************************************************************)
EXTENDS Naturals, Sequences, FiniteSets, Json, TLC

CONSTANTS Normalise

Families == {"simple", "multi", "eval", "keyless"}
Patterns == {"lower", "UPPER", "Capitalised", "mIXED", "MiXED"}

\* the case pattern of the name as the filters see it
Seen(p) ==
  CASE Normalise = "always" -> "lower"
    [] Normalise = "never" -> p
    [] Normalise = "first-byte" -> IF p \in {"lower", "mIXED"} THEN p ELSE "lower"

Recognised(p) == Seen(p) = "lower"

FirstArg(f) ==
  CASE f = "simple" -> "key"
    [] f = "multi" -> "key"
    [] f = "eval" -> "script"
    [] f = "keyless" -> "operand"

\* what hotKeyFilter.Do passes to Counter.Incr ("none": nothing)
Counted(f, p) == IF f \in {"eval", "keyless"} /\ Recognised(p) THEN "none" ELSE FirstArg(f)

VARIABLES counted,   \* kinds of argument that reached Counter.Incr so far (and so can reach the report)
          last       \* the last request: <<family, pattern>>

vars == <<counted, last>>

Init == counted = {} /\ last = <<"", "">>

Send(f, p) ==
  /\ counted' = counted \cup ({Counted(f, p)} \ {"none"})
  /\ last' = <<f, p>>

Next == \E f \in Families, p \in Patterns : Send(f, p)

Spec == Init /\ [][Next]_vars

\* the collector only reports names that were passed to Incr (HotKeyCollector!OnlyAccessed), hence:
OnlyAccessedKeysReported == counted \subseteq {"key"}

\* test vectors for the real filter chain
EmitVec == PrintT("@@VEC " \o ToJson([f |-> last'[1], p |-> last'[2], counts |-> Counted(last'[1], last'[2])]))
=============================================================================
