SPECIFICATION Spec
CONSTANTS
  MinNodes = 0
  MaxNodes = 2
  Base = 256
  MaxChain = 1
  IdxSpace = 8
  PastEndRule = "ge"
  CompletionOrder = "rewrite-publish"
  Withdrawals = FALSE
  ConcurrentWithdrawals = FALSE
  HostReads = "snapshot"
  Reannouncements = TRUE
  ReannounceRule = "remove-then-add"
CHECK_DEADLOCK FALSE
INVARIANTS ExactCalls EachNodeOnceInOrder
