SPECIFICATION Spec
CONSTANTS
  Nodes = {1, 2, 3}
  Slots = {"A", "B"}
  Keys = {"a1", "b1"}
  SlotOf <- MCSlotOf2
  MaxCmds = 3
  MaxHops = 3
  WithMigration = FALSE
  EmptyTableAtStart = FALSE
  AtomicAsk = TRUE
  WithFailover = TRUE
  FixRefreshOnDialError = TRUE
INVARIANTS EqualsReference EffectOnce SingleCopy CopyIsReference NoLostKey ErrorsOnlyWhileStale
PROPERTIES ConvergesAfterDialError
CHECK_DEADLOCK FALSE
