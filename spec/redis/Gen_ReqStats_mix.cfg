SPECIFICATION GenSpec
CONSTANTS
  Reqs = {1,2,3}
  MaxResends = 2
  MaxRefresh = 3
  HookBeforeQuitCheck = TRUE
  Locals = TRUE
  Triggers = FALSE
  QuitWhen = "dispatched"
CHECK_DEADLOCK FALSE
