SPECIFICATION GenSpec
CONSTANTS
  Reqs = {1,2,3}
  MaxResends = 2
  MaxRefresh = 3
  HookBeforeQuitCheck = TRUE
  Locals = FALSE
  Triggers = FALSE
  Decodes = TRUE
  QuitWhen = "dispatched"
CHECK_DEADLOCK FALSE
