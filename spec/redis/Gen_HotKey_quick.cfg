SPECIFICATION GenSpec
CONSTANTS
  Keys = {"a", "b", "c"}
  Caps = {1, 2, 3}
  MaxIncr = 7
  MaxCtl = 2
VIEW GenView
ACTION_CONSTRAINT Emit
CHECK_DEADLOCK FALSE
