SPECIFICATION Spec
CONSTANTS
  Nodes = {1, 2}
  Slots = {"A", "B"}
  Keys = {"a1", "b1"}
  SlotOf <- MCSlotOf2
  MaxCmds = 4
  MaxHops = 3
  WithMigration = TRUE
  EmptyTableAtStart = FALSE
  AtomicAsk = TRUE
  WithFailover = FALSE
  FixRefreshOnDialError = TRUE
  StepwiseRefresh = FALSE
  ClearBeforeFill = FALSE
  MaxTicks = 0
  LazyConnect = TRUE
  AsyncRedirectDial = FALSE
  TrackOrder = TRUE
  WithDemotion = FALSE
  ReadonlyEverywhere = TRUE
  MaxMigs = 1
  StaleTableAtStart = FALSE
  MaxFollowed = 0
  DeathKinds = {"refused"}
  RefreshOnTimeout = TRUE
  PromotedFlags = {{"master"}}
  ParserSkips = {}
INVARIANTS EqualsReference EffectOnce SingleCopy CopyIsReference NoLostKey RedirectKeepsOrder
CONSTRAINT HopBound
CHECK_DEADLOCK FALSE
