SPECIFICATION Spec
CONSTANTS
  Reqs = {"r1", "r2"}
  QCap = 1
  FixHandoff = FALSE
  FixSend = TRUE
  FixReader = TRUE
  Banned = {}
  Asking = {}
  AskAnswersInHand = TRUE
  DrainAfterStopped = TRUE
  FilteredFailAnswers = FALSE
  BufCap = 3
  FixFlushOnStop = TRUE
  MaxResets = 1
  WithStop = TRUE
  Det = FALSE
INVARIANTS TypeOK AtMostOnce NoLostRequest NoStuckSender PairingFIFO OwnReply
PROPERTIES QuitLeadsToDone
CHECK_DEADLOCK FALSE
