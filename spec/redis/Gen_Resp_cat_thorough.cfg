SPECIFICATION CatSpec
CONSTANTS
  K = 3
  N = 3
  NN = 2
  MaxCat = 3
  NMsgs = 20
  Caps = {32, 33, 64, 4096, 8192}
  MaxCuts = 1
  KI = 5
INVARIANTS CatHolds EmitCat
CHECK_DEADLOCK FALSE
