------------------------------- MODULE Route -------------------------------
(***************************************************************************)
(* Dispatch and routing decisions of CONCURRENT downstream sessions (C14): *)
(* every session's reader goroutine looks its command up and runs          *)
(* upstream.chooseHost on its own, at the same time as the readers of all   *)
(* other sessions of the processor.                                         *)
(*                                                                         *)
(* One decision is not atomic; the model has one action per code section    *)
(* (proc/redis/redis.go handleRequest, upstream.go chooseHost):             *)
(*   Issue    a command is decoded: its class (Commands.tla: unsupported,   *)
(*            local, forwarded read-only "read", forwarded "write") and the *)
(*            shard owning its key                                          *)
(*   Dispatch handler lookup by the lower-cased name: unsupported -> error  *)
(*            reply, local -> answered by the proxy, otherwise routed       *)
(*   Lookup   inst := slots[slot]; a request that may write is answered     *)
(*            here (inst.Addr), a read-only request goes on                 *)
(*   Store    one candidate is stored (master / replicas, as the read       *)
(*            strategy says; the master if nothing else was stored)         *)
(*   Pick     i := clock % len; the candidate at i is the destination       *)
(* Between the first Store and the Pick of one session any number of steps  *)
(* of other sessions may happen (window W_OverlapForeign: two sessions hold *)
(* half-built candidate lists for keys of DIFFERENT shards).                *)
(*                                                                         *)
(* SharedScratch selects where the candidates live: FALSE = a list owned by *)
(* the decision (the code as it is), TRUE = one backing array shared by all *)
(* decisions (each decision keeps only its own length, like a Go slice      *)
(* header over a shared array).  The TRUE variant must violate              *)
(* RoutedWithinOwnerFamily (anti-vacuity: the window is real).              *)
(*                                                                         *)
(* The read strategy is configuration of a RUNNING processor: ConfigUpdate  *)
(* (proc.OnSvcConfigUpdate) may change it between requests and while        *)
(* decisions of other sessions are in flight.  A decision reads the         *)
(* strategy once (Lookup of a read-only request); it is judged by the       *)
(* strategy that was in force at that moment.  StickyStrategy = TRUE models *)
(* decisions that keep reading the configuration object of start-up (the    *)
(* update is published to an object the upstream does not look at); it must *)
(* violate RoutedWithinOwnerFamily.                                         *)
(***************************************************************************)
EXTENDS Naturals, Sequences, FiniteSets, TLC

CONSTANTS Sessions,       \* downstream sessions of one processor
          Shards,         \* masters; each owns a part of the slot space
          NRep,           \* replicas per master (one number for all masters: simredis layouts)
          Strategies,     \* read strategies explored (chosen once per behaviour: it is configuration)
          Kinds,          \* subset of {"read", "write", "unsupported", "local"} the sessions issue
          MaxReq,         \* requests per session
          MaxUpdates,     \* run-time changes of the read strategy
          SharedScratch,  \* see above
          StickyStrategy  \* see above

ASSUME Kinds \subseteq {"read", "write", "unsupported", "local"}

None == [sh |-> "-", rep |-> 0]
M(m) == [sh |-> m, rep |-> 0]
R(m, k) == [sh |-> m, rep |-> k]
ReplicasOf(m) == {R(m, k) : k \in 1..NRep}
Nodes == {M(m) : m \in Shards} \cup UNION {ReplicasOf(m) : m \in Shards}
\* "read" = forwarded and flagged read-only by Redis (Commands!RedisReadOnly), "write" = every other forwarded command
Forwarded == {"read", "write"}

\* the candidate list chooseHost builds for a read-only request of shard m, in the order of the code
Cands(st, m) ==
  LET reps == [k \in 1..NRep |-> R(m, k)] IN
  CASE st = "MASTER"  -> <<M(m)>>
    [] st = "BOTH"    -> <<M(m)>> \o reps
    [] st = "REPLICA" -> IF NRep = 0 THEN <<M(m)>> ELSE reps

MaxC == 1 + NRep

\* the property: nodes a command may be delivered to.  Unsupported and locally answered commands: none.  A
\* command that may write: the owning master only.  A read-only command: the owning master (never forbidden by
\* the property), and replicas OF THE OWNING MASTER when the strategy permits replicas.
Allowed(st, m, kind) ==
  CASE kind \in {"unsupported", "local"} -> {}
    [] kind = "write" -> {M(m)}
    [] kind = "read" -> IF st = "MASTER" THEN {M(m)} ELSE {M(m)} \cup ReplicasOf(m)

VARIABLES strategy,   \* the read strategy in force (configuration of the running processor)
          strategy0,  \* the read strategy the processor was started with
          updates,    \* run-time changes so far
          used,       \* per session: the strategy its decision in hand read
          inforce,    \* per session (ghost): the strategy that was in force when it read
          updInFlight,\* ghost: the last ConfigUpdate happened while a decision was in flight
          pc,         \* per session: "idle" | "dispatch" | "lookup" | "build"
          req,        \* per session: [sh, kind] of the request in hand
          n,          \* per session: length of its candidate list (slice header)
          own,        \* per session: backing array owned by the decision
          scratch,    \* backing array shared by all decisions (used iff SharedScratch)
          dest,       \* per session: destination of the request in hand (None: not / not yet sent to a backend)
          reply,      \* per session: how the proxy itself answered the request in hand ("-", "error", "local")
          left        \* per session: requests still to issue

vars == <<strategy, strategy0, updates, used, inforce, updInFlight, pc, req, n, own, scratch, dest, reply, left>>

EmptyBuf == [i \in 1..MaxC |-> None]

Init ==
  /\ strategy \in Strategies
  /\ strategy0 = strategy
  /\ updates = 0
  /\ used = [s \in Sessions |-> strategy]
  /\ inforce = [s \in Sessions |-> strategy]
  /\ updInFlight = FALSE
  /\ pc = [s \in Sessions |-> "idle"]
  /\ req = [s \in Sessions |-> [sh |-> "-", kind |-> "-"]]
  /\ n = [s \in Sessions |-> 0]
  /\ own = [s \in Sessions |-> EmptyBuf]
  /\ scratch = EmptyBuf
  /\ dest = [s \in Sessions |-> None]
  /\ reply = [s \in Sessions |-> "-"]
  /\ left = [s \in Sessions |-> MaxReq]

Issue(s, m, k) ==
  /\ pc[s] = "idle" /\ left[s] > 0
  /\ left' = [left EXCEPT ![s] = @ - 1]
  /\ req' = [req EXCEPT ![s] = [sh |-> m, kind |-> k]]
  /\ dest' = [dest EXCEPT ![s] = None]
  /\ reply' = [reply EXCEPT ![s] = "-"]
  /\ pc' = [pc EXCEPT ![s] = "dispatch"]
  /\ UNCHANGED <<strategy, strategy0, updates, used, inforce, updInFlight, n, own, scratch>>

\* handler := handlers[lower(name)]; none -> "-ERR unsupported command"; ping, time, ... -> answered here
Dispatch(s) ==
  /\ pc[s] = "dispatch"
  /\ IF req[s].kind \in Forwarded
     THEN pc' = [pc EXCEPT ![s] = "lookup"] /\ UNCHANGED reply
     ELSE /\ pc' = [pc EXCEPT ![s] = "idle"]
          /\ reply' = [reply EXCEPT ![s] = IF req[s].kind = "unsupported" THEN "error" ELSE "local"]
  /\ UNCHANGED <<strategy, strategy0, updates, used, inforce, updInFlight, req, n, own, scratch, dest, left>>

\* inst := u.slots[slot]; if !req.IsReadOnly() { return inst.Addr }
Lookup(s) ==
  /\ pc[s] = "lookup"
  /\ IF req[s].kind = "write"
     THEN /\ dest' = [dest EXCEPT ![s] = M(req[s].sh)]
          /\ pc' = [pc EXCEPT ![s] = "idle"]
          /\ UNCHANGED <<n, own, used, inforce>>
     ELSE /\ pc' = [pc EXCEPT ![s] = "build"]
          \* readStrategy = u.cfg.GetRedisOption().ReadStrategy
          /\ used' = [used EXCEPT ![s] = IF StickyStrategy THEN strategy0 ELSE strategy]
          /\ inforce' = [inforce EXCEPT ![s] = strategy]
          /\ n' = [n EXCEPT ![s] = 0]                 \* candidates = nil  /  scratch[:0]
          /\ own' = [own EXCEPT ![s] = EmptyBuf]
          /\ UNCHANGED dest
  /\ UNCHANGED <<strategy, strategy0, updates, updInFlight, req, scratch, reply, left>>

\* candidates = append(candidates, ...)
Store(s) ==
  /\ pc[s] = "build"
  /\ n[s] < Len(Cands(used[s], req[s].sh))
  /\ LET c == Cands(used[s], req[s].sh)[n[s] + 1] IN
     IF SharedScratch
     THEN scratch' = [scratch EXCEPT ![n[s] + 1] = c] /\ UNCHANGED own
     ELSE own' = [own EXCEPT ![s][n[s] + 1] = c] /\ UNCHANGED scratch
  /\ n' = [n EXCEPT ![s] = @ + 1]
  /\ UNCHANGED <<strategy, strategy0, updates, used, inforce, updInFlight, pc, req, dest, reply, left>>

\* i = now % len(candidates); return candidates[i]
Pick(s, i) ==
  /\ pc[s] = "build"
  /\ n[s] = Len(Cands(used[s], req[s].sh))
  /\ i \in 1..n[s]
  /\ dest' = [dest EXCEPT ![s] = IF SharedScratch THEN scratch[i] ELSE own[s][i]]
  /\ pc' = [pc EXCEPT ![s] = "idle"]
  /\ UNCHANGED <<strategy, strategy0, updates, used, inforce, updInFlight, req, n, own, scratch, reply, left>>

\* proc.OnSvcConfigUpdate on the running processor: the read strategy changes
ConfigUpdate(st) ==
  /\ updates < MaxUpdates
  /\ st # strategy
  /\ \E s \in Sessions : left[s] > 0 \/ pc[s] # "idle"      \* (an update after the last decision changes nothing observable)
  /\ strategy' = st
  /\ updates' = updates + 1
  /\ updInFlight' = (\E s \in Sessions : pc[s] # "idle")
  /\ UNCHANGED <<strategy0, used, inforce, pc, req, n, own, scratch, dest, reply, left>>

Next ==
  \/ \E s \in Sessions :
        \/ \E m \in Shards, k \in Kinds : Issue(s, m, k)
        \/ Dispatch(s)
        \/ Lookup(s)
        \/ Store(s)
        \/ \E i \in 1..MaxC : Pick(s, i)
  \/ \E st \in Strategies : ConfigUpdate(st)

Spec == Init /\ [][Next]_vars

Done == \A s \in Sessions : pc[s] = "idle" /\ left[s] = 0

----------------------------------------------------------------------------
TypeOK ==
  /\ strategy \in Strategies /\ strategy0 \in Strategies /\ updates \in 0..MaxUpdates
  /\ \A s \in Sessions : /\ pc[s] \in {"idle", "dispatch", "lookup", "build"}
                         /\ n[s] \in 0..MaxC
                         /\ dest[s] \in Nodes \cup {None}
                         /\ reply[s] \in {"-", "error", "local"}

\* C14: "a command whose name is not in the supported set is answered with an error and nothing is sent to any
\* backend, while PING, ... are answered by the proxy itself"
OnlySupportedReachBackends ==
  \A s \in Sessions : /\ dest[s] # None => req[s].kind \in Forwarded
                      /\ (pc[s] = "idle" /\ req[s].kind = "unsupported") => reply[s] = "error"
                      /\ (pc[s] = "idle" /\ req[s].kind = "local") => reply[s] = "local"

\* C14: "every forwarded command that can modify data is sent to the master owning the key's slot under every
\* read strategy"
WritesToOwningMaster ==
  \A s \in Sessions : (dest[s] # None /\ req[s].kind = "write") => dest[s] = M(req[s].sh)

\* C14: "only read-only commands may go to replicas, and then only to replicas of the owning master and only
\* when the strategy permits it" - the strategy in force when the decision was taken
RoutedWithinOwnerFamily ==
  \A s \in Sessions : dest[s] # None => dest[s] \in Allowed(inforce[s], req[s].sh, req[s].kind)

----------------------------------------------------------------------------
\* windows (must be reachable; the behaviours run on the code are stratified over them)
Deciding(s) == pc[s] = "build" /\ n[s] > 0
InFlight(s) == pc[s] \in {"lookup", "build"}
W_OverlapForeign == \E s, t \in Sessions : s # t /\ Deciding(s) /\ Deciding(t) /\ req[s].sh # req[t].sh
W_OverlapSame    == \E s, t \in Sessions : s # t /\ Deciding(s) /\ Deciding(t) /\ req[s].sh = req[t].sh
W_WriteDuringRead == \E s, t \in Sessions : s # t /\ Deciding(s) /\ pc[t] = "lookup" /\ req[t].kind = "write"
                                            /\ req[s].sh # req[t].sh
W_UpdateDuringRouting == updInFlight /\ \E s \in Sessions : pc[s] = "build" /\ inforce[s] # strategy
W_RouteAfterUpdate == updates > 0 /\ \E s \in Sessions : pc[s] = "build" /\ inforce[s] = strategy /\ strategy # strategy0
W_RejectDuringRouting == \E s, t \in Sessions : s # t /\ InFlight(s) /\ pc[t] = "dispatch"
                                                /\ req[t].kind \in {"unsupported", "local"}
=============================================================================
