------------------------------ MODULE ReqStats ------------------------------
(***************************************************************************)
(* Request statistics of the Redis processor (C20): the downstream total   *)
(* is incremented at dispatch and a completion hook counts success or      *)
(* failure (redis.go:176-220); every send of a request to a backend -      *)
(* including each resend after a redirection - increments the upstream     *)
(* total and registers one more hook on the request (upstream.go:186-196); *)
(* per-command counters move with the downstream request when a handler    *)
(* exists; all hooks of a request run when it is completed.                *)
(***************************************************************************)
EXTENDS Naturals, FiniteSets, TLC

CONSTANTS Reqs, MaxResends

VARIABLES st,        \* st[r]: "new" | "rejected" | "inflight" | "done"
          known,     \* known[r]: a handler exists for the command (per-command counters are kept)
          hooks,     \* hooks[r]: upstream hooks registered on r so far (= number of sends)
          dTotal, dOK, dFail, uTotal, uOK, uFail, cTotal, cOK, cErr

vars == <<st, known, hooks, dTotal, dOK, dFail, uTotal, uOK, uFail, cTotal, cOK, cErr>>

Init ==
  /\ st = [r \in Reqs |-> "new"] /\ known \in [Reqs -> BOOLEAN] /\ hooks = [r \in Reqs |-> 0]
  /\ dTotal = 0 /\ dOK = 0 /\ dFail = 0 /\ uTotal = 0 /\ uOK = 0 /\ uFail = 0
  /\ cTotal = 0 /\ cOK = 0 /\ cErr = 0

\* handleRequest: invalid shape or unknown command -> error reply at once; local commands -> answered at once
DispatchLocal(r, ok) ==
  /\ st[r] = "new" /\ st' = [st EXCEPT ![r] = "done"]
  /\ dTotal' = dTotal + 1
  /\ IF ok THEN dOK' = dOK + 1 /\ UNCHANGED dFail ELSE dFail' = dFail + 1 /\ UNCHANGED dOK
  /\ IF known[r] THEN /\ cTotal' = cTotal + 1
                      /\ (IF ok THEN cOK' = cOK + 1 /\ UNCHANGED cErr ELSE cErr' = cErr + 1 /\ UNCHANGED cOK)
                 ELSE UNCHANGED <<cTotal, cOK, cErr>>
  /\ UNCHANGED <<known, hooks, uTotal, uOK, uFail>>

\* handleRequest -> MakeRequestToHost: first send
DispatchForward(r) ==
  /\ st[r] = "new" /\ known[r] /\ st' = [st EXCEPT ![r] = "inflight"]
  /\ dTotal' = dTotal + 1 /\ cTotal' = cTotal + 1
  /\ uTotal' = uTotal + 1 /\ hooks' = [hooks EXCEPT ![r] = 1]
  /\ UNCHANGED <<known, dOK, dFail, uOK, uFail, cOK, cErr>>

\* handleRedirection -> MakeRequestToHost again
Resend(r) ==
  /\ st[r] = "inflight" /\ hooks[r] <= MaxResends
  /\ uTotal' = uTotal + 1 /\ hooks' = [hooks EXCEPT ![r] = @ + 1]
  /\ UNCHANGED <<st, known, dTotal, dOK, dFail, uOK, uFail, cTotal, cOK, cErr>>

\* SetResponse: every registered hook runs
Complete(r, ok) ==
  /\ st[r] = "inflight" /\ st' = [st EXCEPT ![r] = "done"]
  /\ IF ok THEN /\ dOK' = dOK + 1 /\ uOK' = uOK + hooks[r] /\ cOK' = cOK + 1 /\ UNCHANGED <<dFail, uFail, cErr>>
           ELSE /\ dFail' = dFail + 1 /\ uFail' = uFail + hooks[r] /\ cErr' = cErr + 1 /\ UNCHANGED <<dOK, uOK, cOK>>
  /\ UNCHANGED <<known, hooks, dTotal, uTotal, cTotal>>

Next == \E r \in Reqs : (\E ok \in BOOLEAN : DispatchLocal(r, ok) \/ Complete(r, ok)) \/ DispatchForward(r) \/ Resend(r)
Spec == Init /\ [][Next]_vars

Quiescent == \A r \in Reqs : st[r] \in {"new", "done"}
Conserved == Quiescent => /\ dTotal = dOK + dFail
                          /\ uTotal = uOK + uFail
                          /\ cTotal = cOK + cErr
NeverAhead == dOK + dFail <= dTotal /\ uOK + uFail <= uTotal /\ cOK + cErr <= cTotal
=============================================================================
