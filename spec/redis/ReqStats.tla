------------------------------ MODULE ReqStats ------------------------------
(***************************************************************************)
(* Request statistics of the Redis processor (C20): the downstream total   *)
(* is incremented at dispatch and a completion hook counts success or      *)
(* failure (redis.go:176-220); every send of a request to a backend -      *)
(* including each resend after a redirection - increments the upstream     *)
(* total and registers one more hook on the request (upstream.go:186-196); *)
(* per-command counters move with the downstream request when a handler    *)
(* exists; all hooks of a request run when it is completed.                *)
(*                                                                         *)
(* Service stop (redis.go Stop, upstream.go Serve/Stop): the sessions end  *)
(* first WITHOUT waiting for their requests at the backends, then the      *)
(* upstream's quit latch is closed (phase "quit"), the slots refresher and *)
(* the hot key collector leave, and only then the backend clients are      *)
(* stopped (phase "stopped") and drain what they still hold.  While the    *)
(* latch is closed and the clients are alive a send is still possible:     *)
(*  - a redirection reply (MOVED/ASK) for a request that is still in       *)
(*    flight makes the client's reader call MakeRequestToHost again;       *)
(*  - the refresher (loopRefreshSlots) that took the pending refresh       *)
(*    trigger instead of the quit signal (Go's select picks at random when *)
(*    both are ready) issues its "cluster nodes" request.                  *)
(* Such a send is counted in the upstream total and answered at once with  *)
(* "upstream exited".  HookBeforeQuitCheck = TRUE (the code): the          *)
(* completion hook is registered before the latch is looked at, so the     *)
(* answer is counted as a failure.  FALSE: the hook is registered only     *)
(* once the latch was found open - the total stays one ahead for ever      *)
(* (must violate Conserved: anti-vacuity).                                 *)
(*                                                                         *)
(* The refresher's own requests ("cluster nodes") have no downstream and   *)
(* no per-command counters; at most one is outstanding.  A pick of the     *)
(* pending trigger after the latch was closed is the same behaviour as the *)
(* pick just before it, so RefreshPick is only modelled in phase           *)
(* "serving".                                                              *)
(***************************************************************************)
EXTENDS Naturals, FiniteSets, TLC

CONSTANTS Reqs, MaxResends,
          MaxRefresh,            \* bound on the refresh rounds of one behaviour
          HookBeforeQuitCheck    \* TRUE: the code; FALSE: hook registered after the fail-fast check of the quit latch

VARIABLES st,        \* st[r]: "new" | "rejected" | "inflight" | "done"
          known,     \* known[r]: a handler exists for the command (per-command counters are kept)
          hooks,     \* hooks[r]: upstream hooks registered on r so far (= number of sends while the latch was open)
          phase,     \* "serving" | "quit" (upstream.quit closed, backend clients alive) | "stopped" (clients stopped)
          rf,        \* refresher: "idle" (at its select) | "picked" (took the trigger) | "waiting" (for the reply) | "exited"
          tok,       \* slotsRefreshCh holds a trigger
          iout,      \* the refresher's "cluster nodes" request is outstanding at a backend client (one hook)
          nref,      \* refresh rounds so far
          dTotal, dOK, dFail, uTotal, uOK, uFail, cTotal, cOK, cErr

vars == <<st, known, hooks, phase, rf, tok, iout, nref, dTotal, dOK, dFail, uTotal, uOK, uFail, cTotal, cOK, cErr>>
refr == <<rf, tok, iout, nref>>
dcnt == <<dTotal, dOK, dFail>>
ccnt == <<cTotal, cOK, cErr>>

LateHook == IF HookBeforeQuitCheck THEN 1 ELSE 0

Init ==
  /\ st = [r \in Reqs |-> "new"] /\ known \in [Reqs -> BOOLEAN] /\ hooks = [r \in Reqs |-> 0]
  /\ phase = "serving" /\ rf = "idle" /\ tok = TRUE /\ iout = FALSE /\ nref = 0   \* loopRefreshSlots triggers at once
  /\ dTotal = 0 /\ dOK = 0 /\ dFail = 0 /\ uTotal = 0 /\ uOK = 0 /\ uFail = 0
  /\ cTotal = 0 /\ cOK = 0 /\ cErr = 0

\* handleRequest: invalid shape or unknown command -> error reply at once; local commands -> answered at once
DispatchLocal(r, ok) ==
  /\ phase = "serving" /\ (ok => known[r])
  /\ st[r] = "new" /\ st' = [st EXCEPT ![r] = "done"]
  /\ dTotal' = dTotal + 1
  /\ IF ok THEN dOK' = dOK + 1 /\ UNCHANGED dFail ELSE dFail' = dFail + 1 /\ UNCHANGED dOK
  /\ IF known[r] THEN /\ cTotal' = cTotal + 1
                      /\ (IF ok THEN cOK' = cOK + 1 /\ UNCHANGED cErr ELSE cErr' = cErr + 1 /\ UNCHANGED cOK)
                 ELSE UNCHANGED ccnt
  /\ UNCHANGED <<known, hooks, phase, refr, uTotal, uOK, uFail>>

\* handleRequest -> MakeRequestToHost: first send (sessions only exist while the service is serving)
DispatchForward(r) ==
  /\ phase = "serving"
  /\ st[r] = "new" /\ known[r] /\ st' = [st EXCEPT ![r] = "inflight"]
  /\ dTotal' = dTotal + 1 /\ cTotal' = cTotal + 1
  /\ uTotal' = uTotal + 1 /\ hooks' = [hooks EXCEPT ![r] = 1]
  /\ UNCHANGED <<known, phase, refr, dOK, dFail, uOK, uFail, cOK, cErr>>

\* handleRedirection -> MakeRequestToHost again, then triggerSlotsRefresh
Resend(r) ==
  /\ phase = "serving"
  /\ st[r] = "inflight" /\ hooks[r] <= MaxResends
  /\ uTotal' = uTotal + 1 /\ hooks' = [hooks EXCEPT ![r] = @ + 1]
  /\ tok' = TRUE
  /\ UNCHANGED <<st, known, phase, rf, iout, nref, dcnt, uOK, uFail, ccnt>>

\* the redirection reply arrives between the close of the quit latch and the stop of the backend clients:
\* counted, (hook,) fail-fast answer "upstream exited" -> every registered hook runs
ResendAfterQuit(r) ==
  /\ phase = "quit"
  /\ st[r] = "inflight" /\ hooks[r] <= MaxResends
  /\ st' = [st EXCEPT ![r] = "done"]
  /\ uTotal' = uTotal + 1 /\ hooks' = [hooks EXCEPT ![r] = @ + LateHook]
  /\ uFail' = uFail + hooks[r] + LateHook
  /\ dFail' = dFail + 1 /\ cErr' = cErr + 1
  /\ UNCHANGED <<known, phase, refr, dTotal, dOK, uOK, cTotal, cOK>>

Finished(r, ok) ==
  /\ st[r] = "inflight" /\ st' = [st EXCEPT ![r] = "done"]
  /\ IF ok THEN /\ dOK' = dOK + 1 /\ uOK' = uOK + hooks[r] /\ cOK' = cOK + 1 /\ UNCHANGED <<dFail, uFail, cErr>>
           ELSE /\ dFail' = dFail + 1 /\ uFail' = uFail + hooks[r] /\ cErr' = cErr + 1 /\ UNCHANGED <<dOK, uOK, cOK>>
  /\ UNCHANGED <<known, hooks, phase, refr, dTotal, uTotal, cTotal>>

\* SetResponse (backend reply / backend failure): every registered hook runs
Complete(r, ok) == phase = "serving" /\ Finished(r, ok)
\* ... the same while the quit latch is closed and the backend clients are still alive (nobody waits for it any more)
CompleteAfterQuit(r, ok) == phase = "quit" /\ Finished(r, ok)
\* client.Stop -> drainRequests: "backend exited"
Drain(r) == phase = "stopped" /\ Finished(r, FALSE)

\* ---- the slots refresher
\* host added / removed / replaced, CLUSTERDOWN, periodic timer
Trigger ==
  /\ phase = "serving" /\ ~tok /\ tok' = TRUE
  /\ UNCHANGED <<st, known, hooks, phase, rf, iout, nref, dcnt, uTotal, uOK, uFail, ccnt>>

RefreshPick ==
  /\ phase = "serving" /\ rf = "idle" /\ tok /\ nref < MaxRefresh
  /\ rf' = "picked" /\ tok' = FALSE /\ nref' = nref + 1
  /\ UNCHANGED <<st, known, hooks, phase, iout, dcnt, uTotal, uOK, uFail, ccnt>>

\* doSlotsRefresh -> MakeRequestToHost
RefreshSend ==
  /\ phase = "serving" /\ rf = "picked"
  /\ uTotal' = uTotal + 1 /\ iout' = TRUE /\ rf' = "waiting"
  /\ UNCHANGED <<st, known, hooks, phase, tok, nref, dcnt, uOK, uFail, ccnt>>

\* the refresher took the trigger, then the latch was closed: counted, (hook,) "upstream exited", refresher leaves
RefreshSendAfterQuit ==
  /\ phase = "quit" /\ rf = "picked"
  /\ uTotal' = uTotal + 1 /\ uFail' = uFail + LateHook /\ rf' = "exited"
  /\ UNCHANGED <<st, known, hooks, phase, tok, iout, nref, dcnt, uOK, ccnt>>

IFinished(ok) ==
  /\ iout /\ iout' = FALSE
  /\ IF ok THEN uOK' = uOK + 1 /\ UNCHANGED uFail ELSE uFail' = uFail + 1 /\ UNCHANGED uOK
  /\ UNCHANGED <<st, known, hooks, phase, nref, dcnt, uTotal, ccnt>>

\* reply to "cluster nodes"; a failed refresh asks for another one
RefreshDone(ok) ==
  /\ phase = "serving" /\ rf = "waiting" /\ IFinished(ok)
  /\ rf' = "idle" /\ tok' = (tok \/ ~ok)
\* the refresher has left (doSlotsRefresh returns on quit), its request is still at the backend client
RefreshDoneAfterQuit(ok) == phase = "quit" /\ IFinished(ok) /\ UNCHANGED <<rf, tok>>
RefreshDrain == phase = "stopped" /\ IFinished(FALSE) /\ UNCHANGED <<rf, tok>>

\* ---- stop
\* redisProc.Stop: sessions gone, upstream.Stop closes quit; a refresher at its select or waiting for a reply leaves
Quit ==
  /\ phase = "serving" /\ phase' = "quit"
  /\ rf' = IF rf = "picked" THEN "picked" ELSE "exited"
  /\ UNCHANGED <<st, known, hooks, tok, iout, nref, dcnt, uTotal, uOK, uFail, ccnt>>

\* upstream.Serve: wg.Wait (refresher, collector), then every backend client is stopped
ClientsStop ==
  /\ phase = "quit" /\ rf = "exited" /\ phase' = "stopped"
  /\ UNCHANGED <<st, known, hooks, refr, dcnt, uTotal, uOK, uFail, ccnt>>

ReqStep(r) ==
  \/ \E ok \in BOOLEAN : DispatchLocal(r, ok) \/ Complete(r, ok) \/ CompleteAfterQuit(r, ok)
  \/ DispatchForward(r) \/ Resend(r) \/ ResendAfterQuit(r) \/ Drain(r)

Next ==
  \/ \E r \in Reqs : ReqStep(r)
  \/ Trigger \/ RefreshPick \/ RefreshSend \/ RefreshSendAfterQuit
  \/ \E ok \in BOOLEAN : RefreshDone(ok) \/ RefreshDoneAfterQuit(ok)
  \/ RefreshDrain \/ Quit \/ ClientsStop
Spec == Init /\ [][Next]_vars

Quiescent == (\A r \in Reqs : st[r] \in {"new", "done"}) /\ ~iout
Conserved == Quiescent => /\ dTotal = dOK + dFail
                          /\ uTotal = uOK + uFail
                          /\ cTotal = cOK + cErr
NeverAhead == dOK + dFail <= dTotal /\ uOK + uFail <= uTotal /\ cOK + cErr <= cTotal
\* a stopped service becomes quiescent: nothing but drains is left, and they are enabled
StoppedDrains == phase = "stopped" => (Quiescent \/ ENABLED (RefreshDrain \/ \E r \in Reqs : Drain(r)))
=============================================================================
