------------------------------ MODULE ReqStats ------------------------------
(***************************************************************************)
(* Request statistics of the Redis processor (C20): the downstream total   *)
(* is incremented at dispatch and a completion hook counts success or      *)
(* failure (redis.go handleRequest); every send of a request to a backend  *)
(* - including each resend after a redirection - increments the upstream   *)
(* total and registers one more hook on the request (upstream.go           *)
(* MakeRequestToHost); per-command counters move with the downstream       *)
(* request when a handler exists; all hooks of a request run when it is    *)
(* completed.                                                              *)
(*                                                                         *)
(* Service stop (redis.go Stop, upstream.go Serve/signalQuit/Stop):        *)
(* redisProc.Stop closes the upstream's quit latch FIRST, then waits for   *)
(* the sessions, then for the upstream.  As soon as the latch is closed    *)
(* upstream.Serve tells every backend client to quit; their drains answer  *)
(* whatever they hold with "backend exited" (the refresher's outstanding   *)
(* "cluster nodes" included); then Serve waits for the refresher and the   *)
(* clients.  Phase "quit" = latch closed, Stop not yet returned; phase     *)
(* "stopped" = Stop has returned.  What can still happen in phase "quit":  *)
(*  (a) a send by a goroutine that was already on its way when the latch   *)
(*      closed: the refresher that had taken a trigger (Go's select picks  *)
(*      at random between the trigger and the quit signal), a backend      *)
(*      reader that holds a MOVED/ASK reply in hand, a session reader that *)
(*      has decoded a request.  It is counted in the upstream total and    *)
(*      answered at once with "upstream exited";                           *)
(*  (b) a reply that a backend reader already holds in hand is delivered;  *)
(*  (c) completions by the drains.                                         *)
(* (A send whose quit check came just before the latch closed is refused   *)
(* in createClient, or by the target client's Send, or drained by it: in   *)
(* every case its hook was registered - for the counters this is a send in *)
(* phase "serving" followed by Quit and Drain.)                            *)
(* HookBeforeQuitCheck = TRUE (the code): the completion hook is           *)
(* registered before the latch is looked at, so the answer of (a) is       *)
(* counted as a failure.  FALSE: the hook is registered only once the      *)
(* latch was found open - the total stays one ahead for ever (must violate *)
(* Conserved: anti-vacuity).                                               *)
(*                                                                         *)
(* The refresher's own requests ("cluster nodes") have no downstream and   *)
(* no per-command counters; at most one is outstanding.  A pick of the     *)
(* pending trigger after the latch was closed is the same behaviour as the *)
(* pick just before it, so RefreshPick is only modelled in phase           *)
(* "serving"; likewise a reader that takes a buffered reply after the      *)
(* latch was closed behaves like one that took it just before.             *)
(***************************************************************************)
EXTENDS Naturals, FiniteSets, TLC

CONSTANTS Reqs, MaxResends,
          MaxRefresh,            \* bound on the refresh rounds of one behaviour
          HookBeforeQuitCheck    \* TRUE: the code; FALSE: hook registered after the fail-fast check of the quit latch

VARIABLES st,        \* st[r]: "new" | "decoded" (session reader has it, not yet dispatched) | "inflight" (at a backend client)
                     \*        | "inhand" (a backend reader holds it together with its reply) | "done"
          known,     \* known[r]: a handler exists for the command (per-command counters are kept)
          hooks,     \* hooks[r]: upstream hooks registered on r so far (= number of sends that registered one)
          phase,     \* "serving" | "quit" (upstream.quit closed, Stop running) | "stopped" (Stop returned)
          rf,        \* refresher: "idle" (at its select) | "picked" (took the trigger) | "waiting" (for the reply) | "exited"
          tok,       \* slotsRefreshCh holds a trigger
          iout,      \* the refresher's "cluster nodes" request: "none" | "inflight" | "inhand" (one hook)
          nref,      \* refresh rounds so far
          dTotal, dOK, dFail, uTotal, uOK, uFail, cTotal, cOK, cErr

vars == <<st, known, hooks, phase, rf, tok, iout, nref, dTotal, dOK, dFail, uTotal, uOK, uFail, cTotal, cOK, cErr>>
refr == <<rf, tok, iout, nref>>
dcnt == <<dTotal, dOK, dFail>>
ucnt == <<uTotal, uOK, uFail>>
ccnt == <<cTotal, cOK, cErr>>

LateHook == IF HookBeforeQuitCheck THEN 1 ELSE 0

Init ==
  /\ st = [r \in Reqs |-> "new"] /\ known \in [Reqs -> BOOLEAN] /\ hooks = [r \in Reqs |-> 0]
  /\ phase = "serving" /\ rf = "idle" /\ tok = TRUE /\ iout = "none" /\ nref = 0   \* loopRefreshSlots triggers at once
  /\ dTotal = 0 /\ dOK = 0 /\ dFail = 0 /\ uTotal = 0 /\ uOK = 0 /\ uFail = 0
  /\ cTotal = 0 /\ cOK = 0 /\ cErr = 0

\* ---- the session reader
\* session.loopRead has decoded the request and is about to call handleRequest
SessionDecodes(r) ==
  /\ phase = "serving" /\ st[r] = "new" /\ st' = [st EXCEPT ![r] = "decoded"]
  /\ UNCHANGED <<known, hooks, phase, refr, dcnt, ucnt, ccnt>>

\* handleRequest: invalid shape or unknown command -> error reply at once; local commands -> answered at once
Local(r, ok) ==
  /\ ok => known[r]
  /\ st' = [st EXCEPT ![r] = "done"]
  /\ dTotal' = dTotal + 1
  /\ IF ok THEN dOK' = dOK + 1 /\ UNCHANGED dFail ELSE dFail' = dFail + 1 /\ UNCHANGED dOK
  /\ IF known[r] THEN /\ cTotal' = cTotal + 1
                      /\ (IF ok THEN cOK' = cOK + 1 /\ UNCHANGED cErr ELSE cErr' = cErr + 1 /\ UNCHANGED cOK)
                 ELSE UNCHANGED ccnt
  /\ UNCHANGED <<known, hooks, phase, refr, ucnt>>

DispatchLocal(r, ok) == phase = "serving" /\ st[r] \in {"new", "decoded"} /\ Local(r, ok)
\* the session reader had the request when Stop began: nothing of the upstream is involved
DispatchLocalAfterQuit(r, ok) == phase = "quit" /\ st[r] = "decoded" /\ Local(r, ok)

\* handleRequest -> MakeRequestToHost: first send
DispatchForward(r) ==
  /\ phase = "serving"
  /\ st[r] \in {"new", "decoded"} /\ known[r] /\ st' = [st EXCEPT ![r] = "inflight"]
  /\ dTotal' = dTotal + 1 /\ cTotal' = cTotal + 1
  /\ uTotal' = uTotal + 1 /\ hooks' = [hooks EXCEPT ![r] = 1]
  /\ UNCHANGED <<known, phase, refr, dOK, dFail, uOK, uFail, cOK, cErr>>

\* ... by a session reader that races with Stop: counted everywhere, (hook,) "upstream exited"
DispatchForwardAfterQuit(r) ==
  /\ phase = "quit"
  /\ st[r] = "decoded" /\ known[r] /\ st' = [st EXCEPT ![r] = "done"]
  /\ dTotal' = dTotal + 1 /\ cTotal' = cTotal + 1 /\ dFail' = dFail + 1 /\ cErr' = cErr + 1
  /\ uTotal' = uTotal + 1 /\ hooks' = [hooks EXCEPT ![r] = LateHook] /\ uFail' = uFail + LateHook
  /\ UNCHANGED <<known, phase, refr, dOK, uOK, cOK>>

\* ---- the backend reader
\* client.loopRead has decoded a reply and paired it with r
ReaderTakes(r) ==
  /\ phase = "serving" /\ st[r] = "inflight" /\ st' = [st EXCEPT ![r] = "inhand"]
  /\ UNCHANGED <<known, hooks, phase, refr, dcnt, ucnt, ccnt>>

\* the reply is MOVED/ASK: handleRedirection -> MakeRequestToHost again, then triggerSlotsRefresh
Resend(r) ==
  /\ phase = "serving"
  /\ st[r] = "inhand" /\ hooks[r] <= MaxResends /\ st' = [st EXCEPT ![r] = "inflight"]
  /\ uTotal' = uTotal + 1 /\ hooks' = [hooks EXCEPT ![r] = @ + 1]
  /\ tok' = TRUE
  /\ UNCHANGED <<known, phase, rf, iout, nref, dcnt, uOK, uFail, ccnt>>

\* the reader held the redirection when the latch was closed:
\* counted, (hook,) fail-fast answer "upstream exited" -> every registered hook runs
ResendAfterQuit(r) ==
  /\ phase = "quit"
  /\ st[r] = "inhand" /\ hooks[r] <= MaxResends
  /\ st' = [st EXCEPT ![r] = "done"]
  /\ uTotal' = uTotal + 1 /\ hooks' = [hooks EXCEPT ![r] = @ + LateHook]
  /\ uFail' = uFail + hooks[r] + LateHook
  /\ dFail' = dFail + 1 /\ cErr' = cErr + 1
  /\ UNCHANGED <<known, phase, refr, dTotal, dOK, uOK, cTotal, cOK>>

Finished(r, ok) ==
  /\ st' = [st EXCEPT ![r] = "done"]
  /\ IF ok THEN /\ dOK' = dOK + 1 /\ uOK' = uOK + hooks[r] /\ cOK' = cOK + 1 /\ UNCHANGED <<dFail, uFail, cErr>>
           ELSE /\ dFail' = dFail + 1 /\ uFail' = uFail + hooks[r] /\ cErr' = cErr + 1 /\ UNCHANGED <<dOK, uOK, cOK>>
  /\ UNCHANGED <<known, hooks, phase, refr, dTotal, uTotal, cTotal>>

\* SetResponse with the backend's reply (a value or an error): every registered hook runs
Complete(r, ok) == phase = "serving" /\ st[r] = "inhand" /\ Finished(r, ok)
\* ... by a reader that held the reply when the latch was closed (nobody waits for it any more)
CompleteAfterQuit(r, ok) == phase = "quit" /\ st[r] = "inhand" /\ Finished(r, ok)
\* client.signalQuit -> loops leave -> drainRequests: "backend exited"
Drain(r) == phase = "quit" /\ st[r] = "inflight" /\ Finished(r, FALSE)

\* ---- the slots refresher
\* host added / removed / replaced, CLUSTERDOWN, periodic timer
Trigger ==
  /\ phase = "serving" /\ ~tok /\ tok' = TRUE
  /\ UNCHANGED <<st, known, hooks, phase, rf, iout, nref, dcnt, ucnt, ccnt>>

RefreshPick ==
  /\ phase = "serving" /\ rf = "idle" /\ tok /\ nref < MaxRefresh
  /\ rf' = "picked" /\ tok' = FALSE /\ nref' = nref + 1
  /\ UNCHANGED <<st, known, hooks, phase, iout, dcnt, ucnt, ccnt>>

\* doSlotsRefresh -> MakeRequestToHost
RefreshSend ==
  /\ phase = "serving" /\ rf = "picked"
  /\ uTotal' = uTotal + 1 /\ iout' = "inflight" /\ rf' = "waiting"
  /\ UNCHANGED <<st, known, hooks, phase, tok, nref, dcnt, uOK, uFail, ccnt>>

\* the refresher took the trigger, then the latch was closed: counted, (hook,) "upstream exited", refresher leaves
RefreshSendAfterQuit ==
  /\ phase = "quit" /\ rf = "picked"
  /\ uTotal' = uTotal + 1 /\ uFail' = uFail + LateHook /\ rf' = "exited"
  /\ UNCHANGED <<st, known, hooks, phase, tok, iout, nref, dcnt, uOK, ccnt>>

\* the seed client's reader has paired the reply with the refresher's request
ReaderTakesRefresh ==
  /\ phase = "serving" /\ iout = "inflight" /\ iout' = "inhand"
  /\ UNCHANGED <<st, known, hooks, phase, rf, tok, nref, dcnt, ucnt, ccnt>>

IFinished(ok) ==
  /\ iout' = "none"
  /\ IF ok THEN uOK' = uOK + 1 /\ UNCHANGED uFail ELSE uFail' = uFail + 1 /\ UNCHANGED uOK
  /\ UNCHANGED <<st, known, hooks, phase, nref, dcnt, uTotal, ccnt>>

\* reply to "cluster nodes"; a failed refresh asks for another one
RefreshDone(ok) ==
  /\ phase = "serving" /\ rf = "waiting" /\ iout = "inhand" /\ IFinished(ok)
  /\ rf' = "idle" /\ tok' = (tok \/ ~ok)
\* the refresher has left (doSlotsRefresh returns on quit); the reader held the reply when the latch was closed
RefreshDoneAfterQuit(ok) == phase = "quit" /\ iout = "inhand" /\ IFinished(ok) /\ UNCHANGED <<rf, tok>>
\* ... or the seed client's drain answers it
RefreshDrain == phase = "quit" /\ iout = "inflight" /\ IFinished(FALSE) /\ UNCHANGED <<rf, tok>>

\* ---- stop
\* redisProc.Stop -> upstream.signalQuit; a refresher at its select or waiting for a reply leaves;
\* Serve tells every backend client to quit
Quit ==
  /\ phase = "serving" /\ phase' = "quit"
  /\ rf' = IF rf = "picked" THEN "picked" ELSE "exited"
  /\ UNCHANGED <<st, known, hooks, tok, iout, nref, dcnt, ucnt, ccnt>>

\* Stop returns: the sessions, the refresher and every backend client have finished
Stopped ==
  /\ phase = "quit" /\ rf = "exited" /\ iout = "none"
  /\ \A r \in Reqs : st[r] \in {"new", "done"}
  /\ phase' = "stopped"
  /\ UNCHANGED <<st, known, hooks, refr, dcnt, ucnt, ccnt>>

ReqStep(r) ==
  \/ \E ok \in BOOLEAN : \/ DispatchLocal(r, ok) \/ DispatchLocalAfterQuit(r, ok)
                         \/ Complete(r, ok) \/ CompleteAfterQuit(r, ok)
  \/ SessionDecodes(r) \/ DispatchForward(r) \/ DispatchForwardAfterQuit(r)
  \/ ReaderTakes(r) \/ Resend(r) \/ ResendAfterQuit(r) \/ Drain(r)

Next ==
  \/ \E r \in Reqs : ReqStep(r)
  \/ Trigger \/ RefreshPick \/ RefreshSend \/ RefreshSendAfterQuit \/ ReaderTakesRefresh
  \/ \E ok \in BOOLEAN : RefreshDone(ok) \/ RefreshDoneAfterQuit(ok)
  \/ RefreshDrain \/ Quit \/ Stopped
Spec == Init /\ [][Next]_vars

\* no request is counted and unanswered (a request a session reader has merely decoded is not counted anywhere yet)
Quiescent == (\A r \in Reqs : st[r] \in {"new", "decoded", "done"}) /\ iout = "none"
Conserved == Quiescent => /\ dTotal = dOK + dFail
                          /\ uTotal = uOK + uFail
                          /\ cTotal = cOK + cErr
NeverAhead == dOK + dFail <= dTotal /\ uOK + uFail <= uTotal /\ cOK + cErr <= cTotal
\* a stop always gets through: until Stop returns something is enabled, and then the service is quiescent
QuitProgress == phase = "quit" => ENABLED Next
StoppedQuiescent == phase = "stopped" => Quiescent
=============================================================================
