---------------------------- MODULE ConnTableGen ----------------------------
(* Behaviour emitter for ConnTable: histories of environment actions       *)
(* (requests, connection loss, backend down/up, reset of all clients) with  *)
(* what the model says about every request: whether it witnessed a fault    *)
(* (only then an error reply is allowed) and whether it was issued while    *)
(* the proxy was quiet (then the outcome is determined).                    *)
EXTENDS ConnTable, Json

VARIABLES hist, finished
gvars == <<vars, hist, finished>>

GenInit == Init /\ hist = <<>> /\ finished = FALSE

Log(rec) == hist' = Append(hist, rec)

Finish ==
  /\ ~finished /\ next > Cardinality(Reqs) /\ Quiet
  /\ PrintT("@@BEH " \o ToJson(hist))
  /\ finished' = TRUE /\ UNCHANGED <<vars, hist>>

GenNext ==
  /\ ~finished
  /\ \/ \E r \in Reqs : Issue(r) /\ Log([a |-> "Issue", r |-> r, up |-> up, quiet |-> Quiet])
     \/ \E r \in Reqs : (Lookup(r) \/ DialStart(r)) /\ UNCHANGED hist
     \/ \E r \in Reqs : WaitCall(r) /\ rq'[r] # "done" /\ UNCHANGED hist
     \/ \E r \in Reqs : Dial(r) /\ (IF rq'[r] = "done"
                                      THEN Log([a |-> "Done", r |-> r, out |-> outcome'[r], mayErr |-> sawDown'[r]])
                                      ELSE UNCHANGED hist)
     \/ \E r \in Reqs : WaitCall(r) /\ rq'[r] = "done" /\ Log([a |-> "Done", r |-> r, out |-> outcome'[r], mayErr |-> sawDown'[r]])
     \/ \E r \in Reqs : SendAndReply(r) /\ Log([a |-> "Done", r |-> r, out |-> outcome'[r], mayErr |-> sawDown'[r]])
     \/ \E c \in Clients : ConnLost(c) /\ Log([a |-> "ConnLost", r |-> 0])
     \/ BackendDown /\ Log([a |-> "BackendDown", r |-> 0])
     \/ BackendUp /\ Log([a |-> "BackendUp", r |-> 0])
     \/ ResetSnapshot /\ UNCHANGED hist
     \/ ResetSwap /\ Log([a |-> "ResetAll", r |-> 0])
     \/ \E c \in Clients : RemoveSelf(c) /\ UNCHANGED hist
  /\ UNCHANGED finished

GenSpec == GenInit /\ [][GenNext \/ Finish]_gvars
=============================================================================
