---------------------------- MODULE ConnTableGen ----------------------------
(* Behaviour emitter for ConnTable: histories of environment actions       *)
(* (requests, connection loss, backend down/up, reset of all clients) with  *)
(* what the model says about every request: whether it witnessed a fault    *)
(* (only then an error reply is allowed) and whether it was issued while    *)
(* the proxy was quiet (then the outcome is determined).                    *)
EXTENDS ConnTable, Json

VARIABLES hist, finished,
          held,     \* requests the writer of a stalled connection has held at a hand-over
          rdial,    \* redirected requests whose reader was about to create the client when all clients were reset
          cfgd,     \* requests that made the first connect after a run-time configuration update
          closs     \* the last loss of the connection since the configuration update ("" none)
gvars == <<vars, hist, finished, held, rdial, cfgd, closs>>
GenView == <<vars, finished, held, rdial, cfgd, closs>>

GenInit == Init /\ hist = <<>> /\ finished = FALSE /\ held = {} /\ rdial = {} /\ cfgd = {} /\ closs = ""

Log(rec) == hist' = Append(hist, rec)

Finish ==
  /\ ~finished /\ next > Cardinality(Reqs) /\ Quiet
  /\ PrintT("@@BEH " \o ToJson(hist))
  /\ finished' = TRUE /\ UNCHANGED <<vars, hist, held, rdial, cfgd, closs>>

GenNext ==
  /\ ~finished
  /\ \/ \E r \in Reqs : Issue(r) /\ Log([a |-> "Issue", r |-> r, up |-> up, quiet |-> Quiet, ask |-> asking'[r]])
     \/ \E r \in Reqs : (WriterTake(r) \/ HandOver(r)) /\ UNCHANGED hist
     \/ \E r \in Reqs : HandQuit(r) /\ Log([a |-> "Done", r |-> r, out |-> outcome'[r], mayErr |-> sawDown'[r]])
     \/ \E c \in Clients : Stall(c) /\ Log([a |-> "Stall", r |-> 0])
     \/ \E c \in Clients : Unstall(c) /\ Log([a |-> "Unstall", r |-> 0])
     \/ \E r \in Reqs : (Lookup(r) \/ DialStart(r)) /\ UNCHANGED hist
     \/ \E r \in Reqs : WaitCall(r) /\ rq'[r] # "done" /\ UNCHANGED hist
     \/ \E r \in Reqs : Dial(r) /\ (IF rq'[r] = "done"
                                      THEN Log([a |-> "Done", r |-> r, out |-> outcome'[r], mayErr |-> sawDown'[r]])
                                      ELSE UNCHANGED hist)
     \/ \E r \in Reqs : WaitCall(r) /\ rq'[r] = "done" /\ Log([a |-> "Done", r |-> r, out |-> outcome'[r], mayErr |-> sawDown'[r]])
     \/ \E r \in Reqs : SendAndReply(r) /\ Log([a |-> "Done", r |-> r, out |-> outcome'[r], mayErr |-> sawDown'[r]])
     \/ \E c \in Clients : ConnLost(c) /\ Log([a |-> "ConnLost", r |-> 0])
     \/ BackendDown /\ Log([a |-> "BackendDown", r |-> 0])
     \/ BackendUp /\ Log([a |-> "BackendUp", r |-> 0])
     \/ ResetSnapshot /\ UNCHANGED hist
     \/ ResetSwap /\ Log([a |-> "ResetAll", r |-> 0])
     \/ ResetDone /\ UNCHANGED hist
     \/ ConfigUpdate /\ Log([a |-> "ConfigUpdate", r |-> 0])
     \/ (\E c \in Clients : StopFreeA(c) \/ StopFreeB(c)) /\ UNCHANGED hist
     \/ (CollectStart \/ CollectLatch \/ CollectEnd) /\ UNCHANGED hist
     \/ \E c \in Clients : RemoveSelf(c) /\ UNCHANGED hist
  /\ held' = held \cup {r \in Reqs : rq'[r] = "inhand"}
  /\ closs' = IF cfgs > 0 /\ cfgd = {} /\ Len(hist') > Len(hist) /\ hist'[Len(hist')].a \in {"ConnLost", "BackendDown", "ResetAll"}
                THEN hist'[Len(hist')].a ELSE closs
  /\ cfgd' = IF cfgs > 0 /\ created' > created /\ cfgd = {} THEN {r \in Reqs : rq[r] = "dialing" /\ rq'[r] # "dialing"} ELSE cfgd
  /\ rdial' = IF Len(hist') > Len(hist) /\ hist'[Len(hist')].a = "ResetAll"
                THEN rdial \cup {r \in Reqs : asking[r] /\ rq[r] \in {"dial", "dialing"}} ELSE rdial
  /\ UNCHANGED finished

GenSpec == GenInit /\ [][GenNext \/ Finish]_gvars

\* mandatory strata (exhaustive run, VIEW GenView, ACTION_CONSTRAINT StrataEmit): every way a request that the writer
\* held at a hand-over of a stalled connection gets its reply - the path is printed when that request is done; the
\* check takes the shortest path per (command / ASKING hand-over, how the stall ended); and: a redirected request whose
\* reader (of the redirecting backend's client) was about to create the client of this address when all clients were reset;
\* and: the first connect after a run-time configuration update (kind "cfg": by what made the new connection necessary)
StratumHit == \E r \in Reqs : r \in (held' \cup rdial' \cup cfgd') /\ rq[r] # "done" /\ rq'[r] = "done"
HitReq == CHOOSE r \in Reqs : r \in (held' \cup rdial' \cup cfgd') /\ rq[r] # "done" /\ rq'[r] = "done"
StrataEmit == StratumHit => PrintT("@@STRATUM " \o ToJson([kind |-> IF HitReq \in rdial' THEN "rdial" ELSE IF HitReq \in cfgd' THEN "cfg" ELSE "pipe",
                                                            hist |-> hist']))
=============================================================================
