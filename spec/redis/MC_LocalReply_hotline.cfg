SPECIFICATION Spec
CONSTANTS
  ErrText = "neutralise"
  Echo = "const"
  HotAs = "line"
  PreSet = {1}
  Forms = {"array"}
  Tier = "quick"
  Classes = {"stored"}
  Emit = FALSE
INVARIANTS OneReplyEach AllDelivered
CHECK_DEADLOCK FALSE
