SPECIFICATION TraceSpec
CONSTANTS
  Svcs = {"s1", "s2"}
  NAddr = 3
  Static = {}
  H = 100000
  Cap = 2
  Perms = FALSE
  FixRemovalsOnly = FALSE
  FixSameAddr = FALSE
  FixInvalidCorrected = FALSE
  FixValidToInvalid = FALSE
  AvoidWindows = FALSE
  ProcRewritesName = FALSE
INVARIANTS TypeOK NoDupStore ViewsReadable
POSTCONDITION TraceAccepted
CHECK_DEADLOCK FALSE
