SPECIFICATION Spec
CONSTANTS
  Svcs = {"a", "b", "c"}
  Cap = 2
  MaxOps = 3
  MaxFails = 1
  FixEnqueue = TRUE
  FixBatch = TRUE
  LossySend = TRUE
  HasKeepalive = TRUE
  DirectCalls = TRUE
  MaxMsgLen = 1
  AsyncApply = FALSE
  MaxPerRequest = 99
  RecursiveRLock = FALSE
  Kinds = {"Canceled", "DeadlineExceeded", "Unavailable", "Internal", "ResourceExhausted", "EOF"}
  CanceledStops = TRUE
  StartUnreachable = FALSE
  DialOnce = FALSE
INVARIANTS TypeOK
PROPERTIES KeepsRetrying
CHECK_DEADLOCK FALSE
