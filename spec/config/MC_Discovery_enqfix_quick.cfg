SPECIFICATION Spec
CONSTANTS
  Svcs = {"a", "b", "c"}
  Cap = 2
  MaxOps = 4
  MaxFails = 1
  FixEnqueue = TRUE
  FixBatch = FALSE
  LossySend = TRUE
  HasKeepalive = TRUE
  DirectCalls = TRUE
  MaxMsgLen = 1
  AsyncApply = FALSE
  MaxPerRequest = 99
  RecursiveRLock = FALSE
  Kinds = {"Unavailable"}
  CanceledStops = FALSE
  StartUnreachable = FALSE
  DialOnce = FALSE
INVARIANTS TypeOK InSyncUnlessAmbiguous SetTracksDeps NoDeadlock

CHECK_DEADLOCK FALSE
