SPECIFICATION Spec
CONSTANTS
  Svcs = {"a", "b", "c"}
  Cap = 2
  MaxOps = 6
  MaxFails = 2
  FixEnqueue = TRUE
  FixBatch = FALSE
  LossySend = TRUE
  HasKeepalive = TRUE
INVARIANTS TypeOK InSyncUnlessAmbiguous SetTracksDeps NoDeadlock

CHECK_DEADLOCK FALSE
