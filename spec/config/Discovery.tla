------------------------------ MODULE Discovery ------------------------------
(***************************************************************************)
(* The subscription client of the discovery streams                        *)
(* (`svcDiscoveryClient`, config/discovery.go) and the goroutines that     *)
(* touch it:                                                               *)
(*   caller  - the dependency hook calling Subscribe / Unsubscribe         *)
(*             (one goroutine: the receive loop of the dependency stream)  *)
(*   run     - Run -> run -> resubscribe -> loopSend, and the retry timer  *)
(*   recv    - loopRecv (one goroutine per established stream)             *)
(* and the environment: the discovery server (stream creation succeeds or  *)
(* fails, an established stream breaks at any moment, the server applies   *)
(* every request it receives: srv = (srv \cup subscribe) \ unsubscribe).   *)
(*                                                                         *)
(* One action = one critical section or one channel / stream operation of  *)
(* one goroutine, in the order of the code (line numbers of                *)
(* config/discovery.go in the comments).                                   *)
(*                                                                         *)
(* Two boolean constants select the pinned or the repaired behaviour:      *)
(*   FixEnqueue - FALSE: Subscribe/Unsubscribe enqueue while holding the   *)
(*                write lock (discovery.go:283-303);                       *)
(*                TRUE: the lock is released before the (blocking) enqueue *)
(*   FixBatch   - FALSE: loopSend sends the batch as collected, a service  *)
(*                may be in both lists (discovery.go:401-434);             *)
(*                TRUE: a service that is in both lists of a batch is kept *)
(*                only in the list that agrees with the subscribed set     *)
(*                (read under the read lock just before the send)          *)
(*   HasKeepalive - TRUE (the code: grpc.WithKeepaliveParams(30 s, 10 s) in *)
(*                config/dynamic.go initDiscoveryClient): the transport    *)
(*                turns a silent failure of the connection (it stops       *)
(*                delivering, no FIN/RST, nothing ever errors) into an     *)
(*                error of Recv/Send; FALSE: a silent failure stays silent *)
(*   LossySend  - TRUE: a Send on a broken stream may also return nil with *)
(*                the message lost (what a real gRPC stream does); the     *)
(*                scripted stream of the harness always returns an error   *)
(***************************************************************************)
EXTENDS Naturals, Sequences, FiniteSets, TLC

CONSTANTS Svcs,        \* service names
          Cap,         \* capacity of subCh / unsubCh (code: 16)
          MaxOps,      \* caller operations per behaviour
          MaxFails,    \* stream failures (creation failures + breaks) per behaviour
          FixEnqueue, FixBatch, LossySend, HasKeepalive,
          DirectCalls, \* TRUE: every dependency message carries one change and its call starts at once
                       \* (CallStart); FALSE: dependency messages with several changes (DepMsg, ApplyNext)
          MaxMsgLen,   \* services named by one dependency message (DirectCalls = FALSE)
          MaxPerRequest, \* services one request may name; the code has no bound (a value >= |Svcs|).  A finite bound
                       \* stands for a size limit on a message (grpc.MaxCallSendMsgSize) or a cap on names per
                       \* request: such a request is rejected on the client side and the stream is finished
          RecursiveRLock, \* FALSE (the code): resubscribe takes the read lock once around flush + snapshot;
                       \* TRUE: the snapshot takes the read lock again (a helper that locks for itself)
          Kinds,       \* what a signalled failure looks like to the client: gRPC status codes ("Canceled",
                       \* "DeadlineExceeded", "Unavailable", "Internal", "ResourceExhausted") and "EOF" (the server ended
                       \* the stream with OK).  The code retries regardless of the kind.
          CanceledStops, \* FALSE (the code: Run polls its own context); TRUE: Run returns when the error that ended the
                       \* stream has status Canceled
          StartUnreachable, \* TRUE: the discovery server cannot be reached until the environment's ServerUp step
          DialOnce,    \* FALSE (the code: grpc.Dial does not block, every stream creation tries again); TRUE: the
                       \* connection is attempted once, at start, and the dynamic source is given up if that fails
          AsyncApply   \* FALSE (the code, discovery.go:46-60): the dependency receive loop applies a message
                       \* (Subscribe for every added, Unsubscribe for every removed service) before it takes the
                       \* next one; TRUE: every message is applied by a goroutine of its own

VARIABLES
  subscribed,          \* c.subscribed
  subCh, unsubCh,      \* c.subCh, c.unsubCh (FIFO)
  lock,                \* c.RWMutex: "free" | "W" (read sections are single actions)
  caller,              \* per applier: pc of the call in progress: idle | wantLock | enqueue | unlock
  cop,                 \* per applier: operation in progress <<kind, service>>
  aq,                  \* per applier: the calls of its dependency message still to be made
  ops,                 \* operations started so far
  deps,                \* the dependency set the caller is tracking (ghost)
  run,                 \* pc of the run loop, see RunPCs
  rcv,                 \* pc of loopRecv: off | recv | done (recvDone closed)
  snap,                \* snapshot taken by resubscribe
  batchS, batchU,      \* the sender's batch in hand
  up,                  \* the current stream has not reported an error to the client
  silent,              \* the current stream no longer reaches the server, and nothing has told the client
  srv,                 \* services subscribed on the current stream, as the server sees it
  fails,               \* failures injected so far
  why,                 \* kind of the failure that ended the last stream / stream creation ("none" on a new stream)
  reach,               \* the discovery server can be reached
  amb                  \* ghost: services whose last request on this stream named them in both lists

vars == <<subscribed, subCh, unsubCh, lock, caller, cop, aq, ops, deps, run, rcv, snap, batchS, batchU,
          up, silent, srv, fails, why, reach, amb>>

\* appliers: the dependency receive loop itself (1), or - AsyncApply - goroutines started per message
\* (two in flight are enough for the counterexample)
Ap == IF AsyncApply THEN {1, 2} ELSE {1}

RunPCs == {"stopped", "newStream", "backoff", "resubLock", "resubSnap", "resubSend", "sendSelect", "sendBatch",
           "sendResolve", "sendSend", "waitRecv"}

TypeOK ==
  /\ subscribed \subseteq Svcs /\ deps \subseteq Svcs /\ srv \subseteq Svcs /\ snap \subseteq Svcs
  /\ batchS \subseteq Svcs /\ batchU \subseteq Svcs /\ amb \subseteq Svcs
  /\ subCh \in Seq(Svcs) /\ unsubCh \in Seq(Svcs) /\ Len(subCh) <= Cap /\ Len(unsubCh) <= Cap
  /\ lock \in {"free", "W"}
  /\ caller \in [Ap -> {"idle", "wantLock", "waitLock", "enqueue", "unlock"}]
  /\ \A i \in Ap : Len(aq[i]) <= MaxMsgLen
  /\ run \in RunPCs /\ rcv \in {"off", "recv", "done"}
  /\ up \in BOOLEAN /\ silent \in BOOLEAN /\ (silent => up) /\ ops \in 0..MaxOps /\ fails \in 0..MaxFails

Init ==
  /\ subscribed = {} /\ subCh = <<>> /\ unsubCh = <<>> /\ lock = "free"
  /\ caller = [i \in Ap |-> "idle"] /\ cop = [i \in Ap |-> <<"none", "none">>] /\ aq = [i \in Ap |-> <<>>]
  /\ ops = 0 /\ deps = {}
  /\ run = "newStream" /\ rcv = "off" /\ snap = {} /\ batchS = {} /\ batchU = {}
  /\ up = FALSE /\ silent = FALSE /\ srv = {} /\ fails = 0 /\ amb = {}
  /\ why = "none" /\ reach = ~StartUnreachable

\* where run() / Run go when the stream or its creation has failed: the retry timer - or, in the variant,
\* nowhere when the failure carried status Canceled
AfterFailure(k) == IF CanceledStops /\ k = "Canceled" THEN "stopped" ELSE "backoff"

Range(q) == {q[i] : i \in 1..Len(q)}

-----------------------------------------------------------------------------
AllIdle == \A i \in Ap : caller[i] = "idle" /\ aq[i] = <<>>

RECURSIVE SetToSeq(_)
SetToSeq(S) == IF S = {} THEN <<>> ELSE LET x == CHOOSE y \in S : TRUE IN <<x>> \o SetToSeq(S \ {x})

(* Environment: the dependency stream reports s as added / removed; the hook *)
(* calls Subscribe(s) / Unsubscribe(s) (discovery.go:46-60).  Calls for a    *)
(* service that is already in the requested state are allowed (early return).*)
CallStart(s, kind) ==
  /\ DirectCalls /\ AllIdle /\ ops < MaxOps
  /\ deps' = IF kind = "sub" THEN deps \cup {s} ELSE deps \ {s}
  /\ cop' = [cop EXCEPT ![1] = <<kind, s>>] /\ caller' = [caller EXCEPT ![1] = "wantLock"] /\ ops' = ops + 1
  /\ UNCHANGED <<subscribed, subCh, unsubCh, lock, aq, run, rcv, snap, batchS, batchU, up, silent, srv, fails, why, reach, amb>>

(* Environment: the dependency stream delivers a message (added A, removed R).  *)
(* The user's hook sees it at once, in order (deps).  The calls it stands for -  *)
(* Subscribe for every added, then Unsubscribe for every removed service - are   *)
(* handed to an applier: the receive loop itself, which takes the next message    *)
(* only when it is done (the code), or a goroutine per message (AsyncApply).      *)
DepMsg(A, R) ==
  /\ ~DirectCalls /\ A \cap R = {} /\ A \cup R # {}
  /\ Cardinality(A \cup R) <= MaxMsgLen /\ ops + Cardinality(A \cup R) <= MaxOps
  /\ LET free == {i \in Ap : caller[i] = "idle" /\ aq[i] = <<>>} IN
       /\ free # {}
       /\ LET i == CHOOSE j \in free : \A k \in free : j <= k IN
            aq' = [aq EXCEPT ![i] = [n \in 1..Cardinality(A) |-> <<"sub", SetToSeq(A)[n]>>]
                                      \o [n \in 1..Cardinality(R) |-> <<"unsub", SetToSeq(R)[n]>>]]
  /\ deps' = (deps \cup A) \ R
  /\ ops' = ops + Cardinality(A \cup R)
  /\ UNCHANGED <<subscribed, subCh, unsubCh, lock, caller, cop, run, rcv, snap, batchS, batchU, up, silent, srv, fails, why, reach, amb>>

(* the applier makes the next call of its message                                  *)
ApplyNext(i) ==
  /\ caller[i] = "idle" /\ aq[i] # <<>>
  /\ cop' = [cop EXCEPT ![i] = Head(aq[i])] /\ aq' = [aq EXCEPT ![i] = Tail(aq[i])]
  /\ caller' = [caller EXCEPT ![i] = "wantLock"]
  /\ UNCHANGED <<subscribed, subCh, unsubCh, lock, ops, deps, run, rcv, snap, batchS, batchU, up, silent, srv, fails, why, reach, amb>>

\* sync.RWMutex: resubscribe is inside its read section (between ResubLock and ResubSnap)
ReaderInside == run = "resubSnap"
\* a writer that has called Lock() while a reader is inside: it waits, and new readers wait behind it
WriterWaiting == \E j \in Ap : caller[j] = "waitLock"

(* c.Lock() while resubscribe holds the read lock: the writer announces itself and  *)
(* waits for the reader to leave; from now on RLock() blocks (sync.RWMutex).        *)
CallLockWait(i) ==
  /\ caller[i] = "wantLock" /\ lock = "free" /\ ReaderInside
  /\ caller' = [caller EXCEPT ![i] = "waitLock"]
  /\ UNCHANGED <<subscribed, subCh, unsubCh, lock, cop, aq, ops, deps, run, rcv, snap, batchS, batchU, up, silent, srv, fails, why, reach, amb>>

(* c.Lock(); membership test; update of the set (discovery.go:284-290 / 295-301). *)
(* Early return releases the lock at once.  Repaired code: the lock is released   *)
(* here, before the enqueue.                                                      *)
CallLock(i) ==
  /\ caller[i] \in {"wantLock", "waitLock"} /\ lock = "free" /\ ~ReaderInside
  /\ LET s == cop[i][2]
         noop == IF cop[i][1] = "sub" THEN s \in subscribed ELSE s \notin subscribed
     IN IF noop
          THEN /\ caller' = [caller EXCEPT ![i] = "idle"] /\ UNCHANGED <<subscribed, lock>>
          ELSE /\ subscribed' = IF cop[i][1] = "sub" THEN subscribed \cup {s} ELSE subscribed \ {s}
               /\ caller' = [caller EXCEPT ![i] = "enqueue"]
               /\ lock' = IF FixEnqueue THEN "free" ELSE "W"
  /\ UNCHANGED <<subCh, unsubCh, cop, aq, ops, deps, run, rcv, snap, batchS, batchU, up, silent, srv, fails, why, reach, amb>>

(* c.subCh <- svcName / c.unsubCh <- svcName: blocks while the channel is full    *)
(* (discovery.go:291 / 302).                                                      *)
CallEnqueue(i) ==
  /\ caller[i] = "enqueue"
  /\ IF cop[i][1] = "sub"
       THEN /\ Len(subCh) < Cap /\ subCh' = Append(subCh, cop[i][2]) /\ UNCHANGED unsubCh
       ELSE /\ Len(unsubCh) < Cap /\ unsubCh' = Append(unsubCh, cop[i][2]) /\ UNCHANGED subCh
  /\ caller' = [caller EXCEPT ![i] = IF FixEnqueue THEN "idle" ELSE "unlock"]
  /\ UNCHANGED <<subscribed, lock, cop, aq, ops, deps, run, rcv, snap, batchS, batchU, up, silent, srv, fails, why, reach, amb>>

(* deferred c.Unlock() (pinned code) *)
CallUnlock(i) ==
  /\ caller[i] = "unlock" /\ lock' = "free" /\ caller' = [caller EXCEPT ![i] = "idle"]
  /\ UNCHANGED <<subscribed, subCh, unsubCh, cop, aq, ops, deps, run, rcv, snap, batchS, batchU, up, silent, srv, fails, why, reach, amb>>

\* blocked in the channel send on a full queue
BlockedOnFull(i) ==
  caller[i] = "enqueue" /\ (IF cop[i][1] = "sub" THEN Len(subCh) ELSE Len(unsubCh)) = Cap

-----------------------------------------------------------------------------
(* c.newStream(ctx) returns a stream (discovery.go:328).  The server starts with  *)
(* no subscription on a new stream.                                                *)
NewStreamOK ==
  /\ run = "newStream" /\ reach
  /\ why' = "none" /\ UNCHANGED reach
  /\ up' = TRUE /\ silent' = FALSE /\ srv' = {} /\ amb' = {} /\ run' = "resubLock"
  /\ UNCHANGED <<subscribed, subCh, unsubCh, lock, caller, cop, aq, ops, deps, rcv, snap, batchS, batchU, fails>>

(* c.newStream(ctx) fails (discovery.go:329-332): back to Run, retry timer.       *)
NewStreamFail(k) ==
  /\ run = "newStream" /\ fails < MaxFails
  /\ fails' = fails + 1 /\ why' = k /\ run' = AfterFailure(k)
  /\ UNCHANGED <<subscribed, subCh, unsubCh, lock, caller, cop, aq, ops, deps, rcv, snap, batchS, batchU, up, silent, srv, reach, amb>>

(* the discovery server cannot be reached (nothing listens yet): the creation fails; *)
(* this is not one of the counted failures, it lasts until ServerUp.  DialOnce: the   *)
(* single connection attempt was made at start and the client has given up.           *)
NewStreamUnreachable ==
  /\ run = "newStream" /\ ~reach
  /\ why' = "Unavailable" /\ run' = IF DialOnce THEN "stopped" ELSE "backoff"
  /\ UNCHANGED <<subscribed, subCh, unsubCh, lock, caller, cop, aq, ops, deps, rcv, snap, batchS, batchU, up, silent, srv, fails, reach, amb>>

(* Environment: the discovery server starts listening *)
ServerUp ==
  /\ ~reach /\ reach' = TRUE
  /\ UNCHANGED <<subscribed, subCh, unsubCh, lock, caller, cop, aq, ops, deps, run, rcv, snap, batchS, batchU, up, silent, srv, fails, why, amb>>

(* the jittered retry timer fires (discovery.go:316-323)                          *)
Backoff ==
  /\ run = "backoff" /\ run' = "newStream"
  /\ UNCHANGED <<subscribed, subCh, unsubCh, lock, caller, cop, aq, ops, deps, rcv, snap, batchS, batchU, up, silent, srv, fails, why, reach, amb>>

(* resubscribe (discovery.go:353-370): RLock; snapshot of the set and flush of     *)
(* both channels; RUnlock; then Send of the snapshot.  Two steps: ResubLock takes  *)
(* the read lock and flushes, ResubSnap takes the snapshot and releases the lock   *)
(* (the order of snapshot and flush inside the lock makes no difference: writers   *)
(* are excluded).  With an empty snapshot nothing is sent (364-367) and run() goes *)
(* on to start loopRecv and loopSend (340-349).                                    *)
(* A caller that is blocked in its channel send when the flush starts (possible    *)
(* only when it does not hold the lock, i.e. in the repaired code) completes the   *)
(* send as soon as the flush frees a slot, and the flush - which loops until the   *)
(* channel is empty - removes that entry as well.  (Found by trace validation on   *)
(* the patched client.)  A caller that has not yet reached the send keeps its      *)
(* entry for after the flush.  The released caller may go on to its next call and  *)
(* reach Lock() while resubscribe is still inside: CallLockWait.                   *)
ResubLock ==
  /\ run = "resubLock" /\ lock = "free" /\ ~WriterWaiting
  /\ subCh' = <<>> /\ unsubCh' = <<>>
  /\ \E B \in SUBSET {i \in Ap : BlockedOnFull(i)} :
       caller' = [i \in Ap |-> IF i \in B THEN "idle" ELSE caller[i]]
  /\ run' = "resubSnap"
  /\ UNCHANGED <<subscribed, lock, cop, aq, ops, deps, rcv, snap, batchS, batchU, up, silent, srv, fails, why, reach, amb>>

(* RecursiveRLock: the snapshot calls RLock() again, which waits behind a waiting  *)
(* writer, which waits for this reader.                                            *)
ResubSnap ==
  /\ run = "resubSnap"
  /\ RecursiveRLock => ~WriterWaiting
  /\ snap' = subscribed
  /\ IF subscribed = {}
       THEN run' = "sendSelect" /\ rcv' = "recv"
       ELSE run' = "resubSend" /\ UNCHANGED rcv
  /\ UNCHANGED <<subscribed, subCh, unsubCh, lock, caller, cop, aq, ops, deps, batchS, batchU, up, silent, srv, fails, why, reach, amb>>

(* stream.Send(snapshot, nil) (discovery.go:369); an error ends run() before the  *)
(* loops are started (335-338).  On a silently dead stream the Send succeeds into *)
(* the socket buffer.  A request over the bound is rejected on the client side    *)
(* and finishes the stream.                                                       *)
ResubSend ==
  /\ run = "resubSend"
  /\ \/ /\ up /\ ~silent /\ Cardinality(snap) <= MaxPerRequest
        /\ srv' = srv \cup snap /\ amb' = amb \ snap
        /\ run' = "sendSelect" /\ rcv' = "recv" /\ UNCHANGED <<up, silent>>
     \/ /\ up /\ silent /\ Cardinality(snap) <= MaxPerRequest
        /\ run' = "sendSelect" /\ rcv' = "recv" /\ UNCHANGED <<srv, amb, up, silent>>
     \/ /\ up /\ Cardinality(snap) > MaxPerRequest
        /\ up' = FALSE /\ silent' = FALSE /\ run' = "backoff" /\ UNCHANGED <<srv, amb, rcv>>
     \/ /\ ~up /\ run' = AfterFailure(why) /\ UNCHANGED <<srv, amb, rcv, up, silent>>
     \/ /\ ~up /\ LossySend /\ run' = "sendSelect" /\ rcv' = "recv" /\ UNCHANGED <<srv, amb, up, silent>>
  /\ snap' = {}
  /\ UNCHANGED <<subscribed, subCh, unsubCh, lock, caller, cop, aq, ops, deps, batchS, batchU, fails, why, reach>>

(* loopSend: the first select (discovery.go:404-411) and every iteration of the   *)
(* batch loop (414-425) take one entry of one channel ...                         *)
SenderTakeSub ==
  /\ run \in {"sendSelect", "sendBatch"} /\ subCh # <<>>
  /\ batchS' = batchS \cup {Head(subCh)} /\ subCh' = Tail(subCh) /\ run' = "sendBatch"
  /\ UNCHANGED <<subscribed, unsubCh, lock, caller, cop, aq, ops, deps, rcv, snap, batchU, up, silent, srv, fails, why, reach, amb>>

SenderTakeUnsub ==
  /\ run \in {"sendSelect", "sendBatch"} /\ unsubCh # <<>>
  /\ batchU' = batchU \cup {Head(unsubCh)} /\ unsubCh' = Tail(unsubCh) /\ run' = "sendBatch"
  /\ UNCHANGED <<subscribed, subCh, lock, caller, cop, aq, ops, deps, rcv, snap, batchS, up, silent, srv, fails, why, reach, amb>>

(* ... or see recvDone closed and return, dropping the batch in hand (409, 420);  *)
(* run() then passes <-recvDone at once (341-343) and Run arms the retry timer.   *)
SenderStop ==
  /\ run \in {"sendSelect", "sendBatch"} /\ rcv = "done"
  /\ run' = AfterFailure(why) /\ rcv' = "off" /\ batchS' = {} /\ batchU' = {}
  /\ UNCHANGED <<subscribed, subCh, unsubCh, lock, caller, cop, aq, ops, deps, snap, up, silent, srv, fails, why, reach, amb>>

(* ... or, in the batch loop only, find nothing ready: goto SEND (422-423)        *)
SenderDefault ==
  /\ run = "sendBatch" /\ subCh = <<>> /\ unsubCh = <<>> /\ rcv # "done"
  /\ run' = IF FixBatch THEN "sendResolve" ELSE "sendSend"
  /\ UNCHANGED <<subscribed, subCh, unsubCh, lock, caller, cop, aq, ops, deps, rcv, snap, batchS, batchU, up, silent, srv, fails, why, reach, amb>>

(* repaired code only: a service in both lists is kept in the list that agrees    *)
(* with the subscribed set, read under the read lock (taken only when needed)     *)
SenderResolve ==
  /\ run = "sendResolve"
  /\ LET both == batchS \cap batchU IN
       /\ (both # {} => lock = "free" /\ ~WriterWaiting)
       /\ batchS' = batchS \ (both \ subscribed)
       /\ batchU' = batchU \ (both \cap subscribed)
  /\ run' = "sendSend"
  /\ UNCHANGED <<subscribed, subCh, unsubCh, lock, caller, cop, aq, ops, deps, rcv, snap, up, silent, srv, fails, why, reach, amb>>

(* stream.Send(subscribed, unsubscribed) (discovery.go:428); an error ends        *)
(* loopSend, run() then waits for loopRecv (341-343).  On a silently dead stream  *)
(* the Send succeeds into the socket buffer.                                      *)
SenderSend ==
  /\ run = "sendSend"
  /\ \/ /\ up /\ ~silent /\ Cardinality(batchS \cup batchU) <= MaxPerRequest
        /\ srv' = (srv \cup batchS) \ batchU
        /\ amb' = (amb \ (batchS \cup batchU)) \cup (batchS \cap batchU)
        /\ run' = "sendSelect" /\ UNCHANGED <<up, silent>>
     \/ /\ up /\ silent /\ Cardinality(batchS \cup batchU) <= MaxPerRequest
        /\ run' = "sendSelect" /\ UNCHANGED <<srv, amb, up, silent>>
     \/ /\ up /\ Cardinality(batchS \cup batchU) > MaxPerRequest
        /\ up' = FALSE /\ silent' = FALSE /\ run' = "waitRecv" /\ UNCHANGED <<srv, amb>>
     \/ /\ ~up /\ run' = "waitRecv" /\ UNCHANGED <<srv, amb, up, silent>>
     \/ /\ ~up /\ LossySend /\ run' = "sendSelect" /\ UNCHANGED <<srv, amb, up, silent>>
  /\ batchS' = {} /\ batchU' = {}
  /\ UNCHANGED <<subscribed, subCh, unsubCh, lock, caller, cop, aq, ops, deps, rcv, snap, fails, why, reach>>

(* <-recvDone after loopSend returned because of a send error                     *)
WaitRecv ==
  /\ run = "waitRecv" /\ rcv = "done"
  /\ run' = AfterFailure(why) /\ rcv' = "off"
  /\ UNCHANGED <<subscribed, subCh, unsubCh, lock, caller, cop, aq, ops, deps, snap, batchS, batchU, up, silent, srv, fails, why, reach, amb>>

(* loopRecv: stream.Recv() fails on a broken stream; close(recvDone) (392-399,    *)
(* 345-348).  Messages pushed by the server only reach the hook and are not       *)
(* modelled.  On a silently dead stream Recv keeps blocking.                      *)
RecvFail ==
  /\ rcv = "recv" /\ ~up /\ rcv' = "done"
  /\ UNCHANGED <<subscribed, subCh, unsubCh, lock, caller, cop, aq, ops, deps, run, snap, batchS, batchU, up, silent, srv, fails, why, reach, amb>>

(* Environment: the established stream breaks with an error the client sees       *)
(* (server restart, RST), at any point of the client's progress.                  *)
StreamFail(k) ==
  /\ up /\ fails < MaxFails
  /\ up' = FALSE /\ silent' = FALSE /\ fails' = fails + 1 /\ why' = k
  /\ UNCHANGED <<subscribed, subCh, unsubCh, lock, caller, cop, aq, ops, deps, run, rcv, snap, batchS, batchU, srv, reach, amb>>

(* Environment: the connection carrying the stream dies without FIN/RST (host     *)
(* powered off, NAT/LB entry dropped, partition): nothing reaches the server any   *)
(* more, Recv keeps blocking, Send keeps succeeding into the socket buffer.        *)
SilentFail ==
  /\ up /\ ~silent /\ fails < MaxFails
  /\ silent' = TRUE /\ fails' = fails + 1
  /\ UNCHANGED <<subscribed, subCh, unsubCh, lock, caller, cop, aq, ops, deps, run, rcv, snap, batchS, batchU, up, srv, why, reach, amb>>

(* Transport: the client keepalive (ping after 30 s without traffic, 10 s for the  *)
(* answer; config/dynamic.go:90-93) closes the dead connection: from now on Recv    *)
(* and Send of the stream fail.  Without the dial option this never happens.        *)
KeepaliveDetect ==
  /\ HasKeepalive /\ up /\ silent
  /\ up' = FALSE /\ silent' = FALSE /\ why' = "Unavailable"
  /\ UNCHANGED <<subscribed, subCh, unsubCh, lock, caller, cop, aq, ops, deps, run, rcv, snap, batchS, batchU, srv, fails, reach, amb>>

-----------------------------------------------------------------------------
ApplierNext(i) == ApplyNext(i) \/ CallLockWait(i) \/ CallLock(i) \/ CallEnqueue(i) \/ CallUnlock(i)
CallerNext == \E i \in Ap : ApplierNext(i)
RunNext == NewStreamOK \/ NewStreamUnreachable \/ Backoff \/ ResubLock \/ ResubSnap \/ ResubSend \/ SenderTakeSub \/ SenderTakeUnsub
             \/ SenderStop \/ SenderDefault \/ SenderResolve \/ SenderSend \/ WaitRecv
RecvNext == RecvFail
TransportNext == KeepaliveDetect
ProxyNext == CallerNext \/ RunNext \/ RecvNext \/ TransportNext
EnvNext == (\E s \in Svcs, k \in {"sub", "unsub"} : CallStart(s, k))
             \/ (\E A, R \in SUBSET Svcs : DepMsg(A, R)) \/ (\E k \in Kinds : NewStreamFail(k) \/ StreamFail(k)) \/ SilentFail \/ ServerUp
Next == ProxyNext \/ EnvNext

Fairness == (\A i \in Ap : WF_vars(ApplierNext(i))) /\ WF_vars(RunNext) /\ WF_vars(RecvNext) /\ WF_vars(TransportNext) /\ WF_vars(ServerUp)
Spec == Init /\ [][Next]_vars /\ Fairness

-----------------------------------------------------------------------------
(* Properties (C16)                                                          *)

\* stream up, both loops running, sender idle in its first select, queues empty, caller idle
Quiescent ==
  /\ up /\ ~silent /\ run = "sendSelect" /\ rcv = "recv" /\ AllIdle
  /\ subCh = <<>> /\ unsubCh = <<>>

\* EventuallyInSync, safety half: whenever the client has nothing left to send on an
\* established stream, the server's view of that stream is the dependency set
InSync == Quiescent => srv = deps

\* the same, restricted to services whose last request was not ambiguous
InSyncUnlessAmbiguous == Quiescent => (srv \ amb) = (deps \ amb)

\* the subscribed set is the dependency set whenever every dependency message has been applied
SetTracksDeps == AllIdle => subscribed = deps

\* NoDeadlock: the client's goroutines can all be blocked only in the quiescent state
NoDeadlock == (~ENABLED ProxyNext) => Quiescent

\* EventuallyInSync, liveness half: the quiescent, in-sync state is reached and kept
\* (caller operations and failures are finite in every behaviour)
Converges == <>[](Quiescent /\ srv = deps)
ConvergesUnlessAmbiguous == <>[](Quiescent /\ (srv \ amb) = (deps \ amb))

\* every Subscribe / Unsubscribe call returns
CallerReturns == \A i \in Ap : (caller[i] # "idle") ~> (caller[i] = "idle")

\* after a failure - signalled or silent - a new stream is requested
KeepsRetrying == (~up \/ silent) ~> (run = "newStream")

\* named windows (anti-vacuity: ~W must be violated)
W_EnqueueBlockedHoldingLock ==
  /\ lock = "W" /\ run = "resubLock" /\ \E i \in Ap : BlockedOnFull(i)
W_BothListsOneBatch == run = "sendSend" /\ up /\ batchS \cap batchU # {}
W_BatchDroppedOnStop == run \in {"sendBatch"} /\ rcv = "done" /\ (batchS \cup batchU) # {}
W_SendOnBrokenStream == run \in {"sendSend", "resubSend"} /\ ~up
W_EnqueueBlockedNoLock == (\E i \in Ap : caller[i] = "enqueue") /\ lock = "free" /\ ~up /\ Len(subCh) = Cap
W_IdleOnSilentStream == silent /\ run = "sendSelect" /\ rcv = "recv" /\ AllIdle /\ deps # {}
W_MessageParkedOnFullQueue == \E i \in Ap : BlockedOnFull(i) /\ aq[i] # <<>>
NotW8 == ~W_MessageParkedOnFullQueue
W_WriterWaitsForResubscribe == WriterWaiting
NotW9 == ~W_WriterWaitsForResubscribe
W_SendIntoSilentStream == silent /\ run = "sendSend"
NotW6 == ~W_IdleOnSilentStream
NotW7 == ~W_SendIntoSilentStream
NotW1 == ~W_EnqueueBlockedHoldingLock
NotW2 == ~W_BothListsOneBatch
NotW3 == ~W_BatchDroppedOnStop
NotW4 == ~W_SendOnBrokenStream
NotW5 == ~W_EnqueueBlockedNoLock
=============================================================================
