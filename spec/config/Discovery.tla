------------------------------ MODULE Discovery ------------------------------
(***************************************************************************)
(* The subscription client of the discovery streams                        *)
(* (`svcDiscoveryClient`, config/discovery.go) and the goroutines that     *)
(* touch it:                                                               *)
(*   caller  - the dependency hook calling Subscribe / Unsubscribe         *)
(*             (one goroutine: the receive loop of the dependency stream)  *)
(*   run     - Run -> run -> resubscribe -> loopSend, and the retry timer  *)
(*   recv    - loopRecv (one goroutine per established stream)             *)
(* and the environment: the discovery server (stream creation succeeds or  *)
(* fails, an established stream breaks at any moment, the server applies   *)
(* every request it receives: srv = (srv \cup subscribe) \ unsubscribe).   *)
(*                                                                         *)
(* One action = one critical section or one channel / stream operation of  *)
(* one goroutine, in the order of the code (line numbers of                *)
(* config/discovery.go in the comments).                                   *)
(*                                                                         *)
(* Two boolean constants select the pinned or the repaired behaviour:      *)
(*   FixEnqueue - FALSE: Subscribe/Unsubscribe enqueue while holding the   *)
(*                write lock (discovery.go:283-303);                       *)
(*                TRUE: the lock is released before the (blocking) enqueue *)
(*   FixBatch   - FALSE: loopSend sends the batch as collected, a service  *)
(*                may be in both lists (discovery.go:401-434);             *)
(*                TRUE: a service that is in both lists of a batch is kept *)
(*                only in the list that agrees with the subscribed set     *)
(*                (read under the read lock just before the send)          *)
(*   HasKeepalive - TRUE (the code: grpc.WithKeepaliveParams(30 s, 10 s) in *)
(*                config/dynamic.go initDiscoveryClient): the transport    *)
(*                turns a silent failure of the connection (it stops       *)
(*                delivering, no FIN/RST, nothing ever errors) into an     *)
(*                error of Recv/Send; FALSE: a silent failure stays silent *)
(*   LossySend  - TRUE: a Send on a broken stream may also return nil with *)
(*                the message lost (what a real gRPC stream does); the     *)
(*                scripted stream of the harness always returns an error   *)
(***************************************************************************)
EXTENDS Naturals, Sequences, FiniteSets, TLC

CONSTANTS Svcs,        \* service names
          Cap,         \* capacity of subCh / unsubCh (code: 16)
          MaxOps,      \* caller operations per behaviour
          MaxFails,    \* stream failures (creation failures + breaks) per behaviour
          FixEnqueue, FixBatch, LossySend, HasKeepalive

VARIABLES
  subscribed,          \* c.subscribed
  subCh, unsubCh,      \* c.subCh, c.unsubCh (FIFO)
  lock,                \* c.RWMutex: "free" | "W" (read sections are single actions)
  caller,              \* pc of the caller: idle | wantLock | enqueue | unlock
  cop,                 \* operation in progress <<kind, service>>
  ops,                 \* operations started so far
  deps,                \* the dependency set the caller is tracking (ghost)
  run,                 \* pc of the run loop, see RunPCs
  rcv,                 \* pc of loopRecv: off | recv | done (recvDone closed)
  snap,                \* snapshot taken by resubscribe
  batchS, batchU,      \* the sender's batch in hand
  up,                  \* the current stream has not reported an error to the client
  silent,              \* the current stream no longer reaches the server, and nothing has told the client
  srv,                 \* services subscribed on the current stream, as the server sees it
  fails,               \* failures injected so far
  amb                  \* ghost: services whose last request on this stream named them in both lists

vars == <<subscribed, subCh, unsubCh, lock, caller, cop, ops, deps, run, rcv, snap, batchS, batchU,
          up, silent, srv, fails, amb>>

RunPCs == {"newStream", "backoff", "resubLock", "resubSend", "sendSelect", "sendBatch",
           "sendResolve", "sendSend", "waitRecv"}

TypeOK ==
  /\ subscribed \subseteq Svcs /\ deps \subseteq Svcs /\ srv \subseteq Svcs /\ snap \subseteq Svcs
  /\ batchS \subseteq Svcs /\ batchU \subseteq Svcs /\ amb \subseteq Svcs
  /\ subCh \in Seq(Svcs) /\ unsubCh \in Seq(Svcs) /\ Len(subCh) <= Cap /\ Len(unsubCh) <= Cap
  /\ lock \in {"free", "W"}
  /\ caller \in {"idle", "wantLock", "enqueue", "unlock"}
  /\ run \in RunPCs /\ rcv \in {"off", "recv", "done"}
  /\ up \in BOOLEAN /\ silent \in BOOLEAN /\ (silent => up) /\ ops \in 0..MaxOps /\ fails \in 0..MaxFails

Init ==
  /\ subscribed = {} /\ subCh = <<>> /\ unsubCh = <<>> /\ lock = "free"
  /\ caller = "idle" /\ cop = <<"none", "none">> /\ ops = 0 /\ deps = {}
  /\ run = "newStream" /\ rcv = "off" /\ snap = {} /\ batchS = {} /\ batchU = {}
  /\ up = FALSE /\ silent = FALSE /\ srv = {} /\ fails = 0 /\ amb = {}

Range(q) == {q[i] : i \in 1..Len(q)}

-----------------------------------------------------------------------------
(* Environment: the dependency stream reports s as added / removed; the hook *)
(* calls Subscribe(s) / Unsubscribe(s) (discovery.go:46-60).  Calls for a    *)
(* service that is already in the requested state are allowed (early return).*)
CallStart(s, kind) ==
  /\ caller = "idle" /\ ops < MaxOps
  /\ deps' = IF kind = "sub" THEN deps \cup {s} ELSE deps \ {s}
  /\ cop' = <<kind, s>> /\ caller' = "wantLock" /\ ops' = ops + 1
  /\ UNCHANGED <<subscribed, subCh, unsubCh, lock, run, rcv, snap, batchS, batchU, up, silent, srv, fails, amb>>

(* c.Lock(); membership test; update of the set (discovery.go:284-290 / 295-301). *)
(* Early return releases the lock at once.  Repaired code: the lock is released   *)
(* here, before the enqueue.                                                      *)
CallLock ==
  /\ caller = "wantLock" /\ lock = "free"
  /\ LET s == cop[2]
         noop == IF cop[1] = "sub" THEN s \in subscribed ELSE s \notin subscribed
     IN IF noop
          THEN /\ caller' = "idle" /\ UNCHANGED <<subscribed, lock>>
          ELSE /\ subscribed' = IF cop[1] = "sub" THEN subscribed \cup {s} ELSE subscribed \ {s}
               /\ caller' = "enqueue"
               /\ lock' = IF FixEnqueue THEN "free" ELSE "W"
  /\ UNCHANGED <<subCh, unsubCh, cop, ops, deps, run, rcv, snap, batchS, batchU, up, silent, srv, fails, amb>>

(* c.subCh <- svcName / c.unsubCh <- svcName: blocks while the channel is full    *)
(* (discovery.go:291 / 302).                                                      *)
CallEnqueue ==
  /\ caller = "enqueue"
  /\ IF cop[1] = "sub"
       THEN /\ Len(subCh) < Cap /\ subCh' = Append(subCh, cop[2]) /\ UNCHANGED unsubCh
       ELSE /\ Len(unsubCh) < Cap /\ unsubCh' = Append(unsubCh, cop[2]) /\ UNCHANGED subCh
  /\ caller' = IF FixEnqueue THEN "idle" ELSE "unlock"
  /\ UNCHANGED <<subscribed, lock, cop, ops, deps, run, rcv, snap, batchS, batchU, up, silent, srv, fails, amb>>

(* deferred c.Unlock() (pinned code) *)
CallUnlock ==
  /\ caller = "unlock" /\ lock' = "free" /\ caller' = "idle"
  /\ UNCHANGED <<subscribed, subCh, unsubCh, cop, ops, deps, run, rcv, snap, batchS, batchU, up, silent, srv, fails, amb>>

-----------------------------------------------------------------------------
(* c.newStream(ctx) returns a stream (discovery.go:328).  The server starts with  *)
(* no subscription on a new stream.                                                *)
NewStreamOK ==
  /\ run = "newStream"
  /\ up' = TRUE /\ silent' = FALSE /\ srv' = {} /\ amb' = {} /\ run' = "resubLock"
  /\ UNCHANGED <<subscribed, subCh, unsubCh, lock, caller, cop, ops, deps, rcv, snap, batchS, batchU, fails>>

(* c.newStream(ctx) fails (discovery.go:329-332): back to Run, retry timer.       *)
NewStreamFail ==
  /\ run = "newStream" /\ fails < MaxFails
  /\ fails' = fails + 1 /\ run' = "backoff"
  /\ UNCHANGED <<subscribed, subCh, unsubCh, lock, caller, cop, ops, deps, rcv, snap, batchS, batchU, up, silent, srv, amb>>

(* the jittered retry timer fires (discovery.go:316-323)                          *)
Backoff ==
  /\ run = "backoff" /\ run' = "newStream"
  /\ UNCHANGED <<subscribed, subCh, unsubCh, lock, caller, cop, ops, deps, rcv, snap, batchS, batchU, up, silent, srv, fails, amb>>

(* resubscribe: RLock; snapshot of the set; flush of both channels; RUnlock       *)
(* (discovery.go:353-362).  With an empty snapshot nothing is sent (364-367) and  *)
(* run() goes on to start loopRecv and loopSend (340-349).                        *)
(* A caller that is blocked in its channel send when the flush starts (possible   *)
(* only when it does not hold the lock, i.e. in the repaired code) completes the  *)
(* send as soon as the flush frees a slot, and the flush - which loops until the  *)
(* channel is empty - removes that entry as well.  (Found by trace validation on  *)
(* the patched client.)  A caller that has not yet reached the send keeps its     *)
(* entry for after the flush.                                                     *)
ResubLock ==
  /\ run = "resubLock" /\ lock = "free"
  /\ snap' = subscribed /\ subCh' = <<>> /\ unsubCh' = <<>>
  /\ \/ UNCHANGED caller
     \/ /\ caller = "enqueue" /\ caller' = "idle"
        /\ (IF cop[1] = "sub" THEN Len(subCh) ELSE Len(unsubCh)) = Cap
  /\ IF subscribed = {}
       THEN run' = "sendSelect" /\ rcv' = "recv"
       ELSE run' = "resubSend" /\ UNCHANGED rcv
  /\ UNCHANGED <<subscribed, lock, cop, ops, deps, batchS, batchU, up, silent, srv, fails, amb>>

(* stream.Send(snapshot, nil) (discovery.go:369); an error ends run() before the  *)
(* loops are started (335-338).  On a silently dead stream the Send succeeds into *)
(* the socket buffer.                                                             *)
ResubSend ==
  /\ run = "resubSend"
  /\ \/ /\ up /\ ~silent /\ srv' = srv \cup snap /\ amb' = amb \ snap
        /\ run' = "sendSelect" /\ rcv' = "recv"
     \/ /\ up /\ silent /\ run' = "sendSelect" /\ rcv' = "recv" /\ UNCHANGED <<srv, amb>>
     \/ /\ ~up /\ run' = "backoff" /\ UNCHANGED <<srv, amb, rcv>>
     \/ /\ ~up /\ LossySend /\ run' = "sendSelect" /\ rcv' = "recv" /\ UNCHANGED <<srv, amb>>
  /\ snap' = {}
  /\ UNCHANGED <<subscribed, subCh, unsubCh, lock, caller, cop, ops, deps, batchS, batchU, up, silent, fails>>

(* loopSend: the first select (discovery.go:404-411) and every iteration of the   *)
(* batch loop (414-425) take one entry of one channel ...                         *)
SenderTakeSub ==
  /\ run \in {"sendSelect", "sendBatch"} /\ subCh # <<>>
  /\ batchS' = batchS \cup {Head(subCh)} /\ subCh' = Tail(subCh) /\ run' = "sendBatch"
  /\ UNCHANGED <<subscribed, unsubCh, lock, caller, cop, ops, deps, rcv, snap, batchU, up, silent, srv, fails, amb>>

SenderTakeUnsub ==
  /\ run \in {"sendSelect", "sendBatch"} /\ unsubCh # <<>>
  /\ batchU' = batchU \cup {Head(unsubCh)} /\ unsubCh' = Tail(unsubCh) /\ run' = "sendBatch"
  /\ UNCHANGED <<subscribed, subCh, lock, caller, cop, ops, deps, rcv, snap, batchS, up, silent, srv, fails, amb>>

(* ... or see recvDone closed and return, dropping the batch in hand (409, 420);  *)
(* run() then passes <-recvDone at once (341-343) and Run arms the retry timer.   *)
SenderStop ==
  /\ run \in {"sendSelect", "sendBatch"} /\ rcv = "done"
  /\ run' = "backoff" /\ rcv' = "off" /\ batchS' = {} /\ batchU' = {}
  /\ UNCHANGED <<subscribed, subCh, unsubCh, lock, caller, cop, ops, deps, snap, up, silent, srv, fails, amb>>

(* ... or, in the batch loop only, find nothing ready: goto SEND (422-423)        *)
SenderDefault ==
  /\ run = "sendBatch" /\ subCh = <<>> /\ unsubCh = <<>> /\ rcv # "done"
  /\ run' = IF FixBatch THEN "sendResolve" ELSE "sendSend"
  /\ UNCHANGED <<subscribed, subCh, unsubCh, lock, caller, cop, ops, deps, rcv, snap, batchS, batchU, up, silent, srv, fails, amb>>

(* repaired code only: a service in both lists is kept in the list that agrees    *)
(* with the subscribed set, read under the read lock (taken only when needed)     *)
SenderResolve ==
  /\ run = "sendResolve"
  /\ LET both == batchS \cap batchU IN
       /\ (both # {} => lock = "free")
       /\ batchS' = batchS \ (both \ subscribed)
       /\ batchU' = batchU \ (both \cap subscribed)
  /\ run' = "sendSend"
  /\ UNCHANGED <<subscribed, subCh, unsubCh, lock, caller, cop, ops, deps, rcv, snap, up, silent, srv, fails, amb>>

(* stream.Send(subscribed, unsubscribed) (discovery.go:428); an error ends        *)
(* loopSend, run() then waits for loopRecv (341-343).  On a silently dead stream  *)
(* the Send succeeds into the socket buffer.                                      *)
SenderSend ==
  /\ run = "sendSend"
  /\ \/ /\ up /\ ~silent /\ srv' = (srv \cup batchS) \ batchU
        /\ amb' = (amb \ (batchS \cup batchU)) \cup (batchS \cap batchU)
        /\ run' = "sendSelect"
     \/ /\ up /\ silent /\ run' = "sendSelect" /\ UNCHANGED <<srv, amb>>
     \/ /\ ~up /\ run' = "waitRecv" /\ UNCHANGED <<srv, amb>>
     \/ /\ ~up /\ LossySend /\ run' = "sendSelect" /\ UNCHANGED <<srv, amb>>
  /\ batchS' = {} /\ batchU' = {}
  /\ UNCHANGED <<subscribed, subCh, unsubCh, lock, caller, cop, ops, deps, rcv, snap, up, silent, fails>>

(* <-recvDone after loopSend returned because of a send error                     *)
WaitRecv ==
  /\ run = "waitRecv" /\ rcv = "done"
  /\ run' = "backoff" /\ rcv' = "off"
  /\ UNCHANGED <<subscribed, subCh, unsubCh, lock, caller, cop, ops, deps, snap, batchS, batchU, up, silent, srv, fails, amb>>

(* loopRecv: stream.Recv() fails on a broken stream; close(recvDone) (392-399,    *)
(* 345-348).  Messages pushed by the server only reach the hook and are not       *)
(* modelled.  On a silently dead stream Recv keeps blocking.                      *)
RecvFail ==
  /\ rcv = "recv" /\ ~up /\ rcv' = "done"
  /\ UNCHANGED <<subscribed, subCh, unsubCh, lock, caller, cop, ops, deps, run, snap, batchS, batchU, up, silent, srv, fails, amb>>

(* Environment: the established stream breaks with an error the client sees       *)
(* (server restart, RST), at any point of the client's progress.                  *)
StreamFail ==
  /\ up /\ fails < MaxFails
  /\ up' = FALSE /\ silent' = FALSE /\ fails' = fails + 1
  /\ UNCHANGED <<subscribed, subCh, unsubCh, lock, caller, cop, ops, deps, run, rcv, snap, batchS, batchU, srv, amb>>

(* Environment: the connection carrying the stream dies without FIN/RST (host     *)
(* powered off, NAT/LB entry dropped, partition): nothing reaches the server any   *)
(* more, Recv keeps blocking, Send keeps succeeding into the socket buffer.        *)
SilentFail ==
  /\ up /\ ~silent /\ fails < MaxFails
  /\ silent' = TRUE /\ fails' = fails + 1
  /\ UNCHANGED <<subscribed, subCh, unsubCh, lock, caller, cop, ops, deps, run, rcv, snap, batchS, batchU, up, srv, amb>>

(* Transport: the client keepalive (ping after 30 s without traffic, 10 s for the  *)
(* answer; config/dynamic.go:90-93) closes the dead connection: from now on Recv    *)
(* and Send of the stream fail.  Without the dial option this never happens.        *)
KeepaliveDetect ==
  /\ HasKeepalive /\ up /\ silent
  /\ up' = FALSE /\ silent' = FALSE
  /\ UNCHANGED <<subscribed, subCh, unsubCh, lock, caller, cop, ops, deps, run, rcv, snap, batchS, batchU, srv, fails, amb>>

-----------------------------------------------------------------------------
CallerNext == CallLock \/ CallEnqueue \/ CallUnlock
RunNext == NewStreamOK \/ Backoff \/ ResubLock \/ ResubSend \/ SenderTakeSub \/ SenderTakeUnsub
             \/ SenderStop \/ SenderDefault \/ SenderResolve \/ SenderSend \/ WaitRecv
RecvNext == RecvFail
TransportNext == KeepaliveDetect
ProxyNext == CallerNext \/ RunNext \/ RecvNext \/ TransportNext
EnvNext == (\E s \in Svcs, k \in {"sub", "unsub"} : CallStart(s, k)) \/ NewStreamFail \/ StreamFail \/ SilentFail
Next == ProxyNext \/ EnvNext

Fairness == WF_vars(CallerNext) /\ WF_vars(RunNext) /\ WF_vars(RecvNext) /\ WF_vars(TransportNext)
Spec == Init /\ [][Next]_vars /\ Fairness

-----------------------------------------------------------------------------
(* Properties (C16)                                                          *)

\* stream up, both loops running, sender idle in its first select, queues empty, caller idle
Quiescent ==
  /\ up /\ ~silent /\ run = "sendSelect" /\ rcv = "recv" /\ caller = "idle"
  /\ subCh = <<>> /\ unsubCh = <<>>

\* EventuallyInSync, safety half: whenever the client has nothing left to send on an
\* established stream, the server's view of that stream is the dependency set
InSync == Quiescent => srv = deps

\* the same, restricted to services whose last request was not ambiguous
InSyncUnlessAmbiguous == Quiescent => (srv \ amb) = (deps \ amb)

\* the subscribed set is the dependency set whenever the caller is idle
SetTracksDeps == caller = "idle" => subscribed = deps

\* NoDeadlock: the client's goroutines can all be blocked only in the quiescent state
NoDeadlock == (~ENABLED ProxyNext) => Quiescent

\* EventuallyInSync, liveness half: the quiescent, in-sync state is reached and kept
\* (caller operations and failures are finite in every behaviour)
Converges == <>[](Quiescent /\ srv = deps)
ConvergesUnlessAmbiguous == <>[](Quiescent /\ (srv \ amb) = (deps \ amb))

\* every Subscribe / Unsubscribe call returns
CallerReturns == (caller # "idle") ~> (caller = "idle")

\* after a failure - signalled or silent - a new stream is requested
KeepsRetrying == (~up \/ silent) ~> (run = "newStream")

\* named windows (anti-vacuity: ~W must be violated)
W_EnqueueBlockedHoldingLock ==
  /\ caller = "enqueue" /\ lock = "W" /\ run = "resubLock"
  /\ (IF cop[1] = "sub" THEN Len(subCh) ELSE Len(unsubCh)) = Cap
W_BothListsOneBatch == run = "sendSend" /\ up /\ batchS \cap batchU # {}
W_BatchDroppedOnStop == run \in {"sendBatch"} /\ rcv = "done" /\ (batchS \cup batchU) # {}
W_SendOnBrokenStream == run \in {"sendSend", "resubSend"} /\ ~up
W_EnqueueBlockedNoLock == caller = "enqueue" /\ lock = "free" /\ ~up /\ Len(subCh) = Cap
W_IdleOnSilentStream == silent /\ run = "sendSelect" /\ rcv = "recv" /\ caller = "idle" /\ deps # {}
W_SendIntoSilentStream == silent /\ run = "sendSend"
NotW6 == ~W_IdleOnSilentStream
NotW7 == ~W_SendIntoSilentStream
NotW1 == ~W_EnqueueBlockedHoldingLock
NotW2 == ~W_BothListsOneBatch
NotW3 == ~W_BatchDroppedOnStop
NotW4 == ~W_SendOnBrokenStream
NotW5 == ~W_EnqueueBlockedNoLock
=============================================================================
