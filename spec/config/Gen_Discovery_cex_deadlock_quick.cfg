SPECIFICATION GenSpec
CONSTANTS
  Svcs = {"a", "b", "c"}
  Cap = 2
  MaxOps = 4
  MaxFails = 0
  FixEnqueue = FALSE
  FixBatch = FALSE
  LossySend = FALSE
  HasKeepalive = TRUE
  DirectCalls = TRUE
  MaxMsgLen = 1
  AsyncApply = FALSE
  MaxPerRequest = 99
  RecursiveRLock = FALSE
  Kinds = {"Unavailable"}
  CanceledStops = FALSE
  StartUnreachable = FALSE
  DialOnce = FALSE
  Eager = TRUE
VIEW GenView
INVARIANTS TrapDeadlock
CHECK_DEADLOCK FALSE
