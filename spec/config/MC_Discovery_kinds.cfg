SPECIFICATION Spec
CONSTANTS
  Svcs = {"a", "b", "c"}
  Cap = 2
  MaxOps = 3
  MaxFails = 2
  FixEnqueue = TRUE
  FixBatch = TRUE
  LossySend = TRUE
  HasKeepalive = TRUE
  DirectCalls = TRUE
  MaxMsgLen = 1
  AsyncApply = FALSE
  MaxPerRequest = 99
  RecursiveRLock = FALSE
  Kinds = {"Canceled", "DeadlineExceeded", "Unavailable", "Internal", "ResourceExhausted", "EOF"}
  CanceledStops = FALSE
  StartUnreachable = TRUE
  DialOnce = FALSE
INVARIANTS TypeOK InSync NoDeadlock
PROPERTIES Converges CallerReturns KeepsRetrying
CHECK_DEADLOCK FALSE
