--------------------------- MODULE ConfigFlowTrace ---------------------------
(***************************************************************************)
(* Trace specification: traces recorded from the real configuration store  *)
(* and the real controller (harness/cases/c08, seeded random histories)    *)
(* must be behaviours of ConfigFlow.  trace.json is one JSON array holding *)
(* several histories, each introduced by a "reset" event:                  *)
(*   {ev:"reset", static:[names]}                                          *)
(*   {ev:"upd", a, s, cfg, add:[..], rem:[..],        the update delivered *)
(*       tab:{s:{in,cfg,nil,eps}}, chanlen, blocked}  store after the call *)
(*   {ev:"ctl", evt:{t,s,cfg,eps,add,rem},            event the controller *)
(*       procs:{s:{on,cfg,hosts}}, chanlen, blocked}  read; table after it *)
(*   {ev:"quiet", conv}           the harness saw an empty channel and     *)
(*                                judged Converged on the real objects     *)
(* Every observation must equal the model's state after the same action,   *)
(* including the verdict of Converged: a rejected trace means the module   *)
(* no longer describes the code (MODEL-DRIFT), not a property violation.   *)
(* The added/removed lists come in any order and may repeat addresses.     *)
(***************************************************************************)
EXTENDS ConfigFlow, Json, TLCExt

TraceLog == TLCEval(JsonDeserialize("trace.json"))   \* evaluated once and cached

VARIABLE l
tvars == <<vars, l>>

SeqToSet(q) == {q[i] : i \in 1..Len(q)}

\* a history only reports the names it uses; every other service / key must be absent in the model as well
TabMatches(o, t) == \A s \in Svcs : IF s \in DOMAIN o
                                    THEN /\ o[s].in = t[s].in /\ o[s].cfg = t[s].cfg /\ o[s].nil = t[s].nil
                                         /\ o[s].eps = Live(t[s])
                                    ELSE ~t[s].in
ProcsMatch(o, p) == /\ \A s \in Keys : IF s \in DOMAIN o
                                        THEN /\ o[s].on = p[s].on /\ o[s].cfg = p[s].cfg
                                             /\ SeqToSet(o[s].hosts) = p[s].hosts
                                        ELSE ~p[s].on
                    /\ \A s \in DOMAIN o : s \in Keys \/ ~o[s].on
EvtMatches(o, e, t) == /\ o.t = e.t /\ o.s = e.s /\ o.cfg = e.cfg
                       /\ o.eps = View(e, t)
                       /\ SeqToSet(o.add) = e.add /\ SeqToSet(o.rem) = e.rem

TraceInit == l = 1 /\ InitWith(<<>>)

Upd(e) ==
  /\ e.ev = "upd"
  /\ \/ e.a = "DepAdd" /\ DependencyAdd(e.s)
     \/ e.a = "DepRemove" /\ DependencyRemove(e.s)
     \/ e.a = "Config" /\ ConfigUpdate(e.s, e.cfg)
     \/ e.a = "Endpoint" /\ EndpointUpdate(e.s, e.add, e.rem)
  /\ TabMatches(e.tab, tab')
  /\ e.chanlen = Len(chan')
  /\ e.blocked = (pend' # <<>>)

CtlStep(e) ==
  /\ e.ev = "ctl"
  /\ chan # <<>>
  /\ EvtMatches(e.evt, Head(chan), tab)
  /\ Ctl
  /\ ProcsMatch(e.procs, procs')
  /\ e.chanlen = Len(chan')
  /\ e.blocked = (pend' # <<>>)

Quiet(e) ==
  /\ e.ev = "quiet"
  /\ Quiescent
  /\ e.conv = (\A s \in Keys : ConvergedSvc(s))
  /\ UNCHANGED vars

Reset(e) ==
  /\ e.ev = "reset"
  /\ tab' = [s \in Svcs |-> IF s \in SeqToSet(e.static) THEN StaticSw ELSE NoSw]
  /\ chan' = [i \in 1..Len(e.static) |-> AddEvtOf(e.static[i], StaticSw)]
  /\ pend' = <<>>
  /\ procs' = [k \in Keys |-> NoProc]
  /\ nupd' = 0

TraceNext ==
  /\ l <= Len(TraceLog)
  /\ LET e == TraceLog[l] IN Reset(e) \/ Upd(e) \/ CtlStep(e) \/ Quiet(e)
  /\ l' = l + 1

TraceSpec == TraceInit /\ [][TraceNext]_tvars

TraceAccepted ==
  LET d == TLCGet("stats").diameter IN
  IF d - 1 = Len(TraceLog) THEN TRUE
  ELSE Print(<<"@@REJECT", d, IF d <= Len(TraceLog) THEN TraceLog[d] ELSE "end">>, FALSE)
=============================================================================
