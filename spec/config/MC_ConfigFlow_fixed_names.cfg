SPECIFICATION Spec
CONSTANTS
  Svcs = {"a.b", "a_b"}
  NAddr = 2
  Static = {}
  H = 5
  Cap = 2
  Perms = FALSE
  FixRemovalsOnly = TRUE
  FixSameAddr = TRUE
  FixInvalidCorrected = TRUE
  FixValidToInvalid = TRUE
  AvoidWindows = FALSE
  ProcRewritesName = FALSE
INVARIANTS TypeOK NoDupStore ViewsReadable Converged
PROPERTIES UnknownIgnored
CHECK_DEADLOCK FALSE
