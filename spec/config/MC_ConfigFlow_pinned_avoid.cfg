SPECIFICATION Spec
CONSTANTS
  Svcs = {"s1", "s2"}
  NAddr = 2
  Static = {}
  H = 6
  Cap = 2
  Perms = FALSE
  FixRemovalsOnly = FALSE
  FixSameAddr = FALSE
  FixInvalidCorrected = FALSE
  FixValidToInvalid = FALSE
  AvoidWindows = TRUE
  ProcRewritesName = FALSE
INVARIANTS TypeOK NoDupStore ViewsReadable Converged
PROPERTIES UnknownIgnored
CHECK_DEADLOCK FALSE
