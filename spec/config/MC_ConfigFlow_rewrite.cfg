SPECIFICATION Spec
CONSTANTS
  Svcs = {"a.b", "a_b"}
  NAddr = 2
  Static = {}
  H = 4
  Cap = 2
  Perms = FALSE
  FixRemovalsOnly = TRUE
  FixSameAddr = TRUE
  FixInvalidCorrected = TRUE
  FixValidToInvalid = TRUE
  AvoidWindows = FALSE
  ProcRewritesName = TRUE
INVARIANTS TypeOK NoDupStore ViewsReadable Converged
PROPERTIES UnknownIgnored
CHECK_DEADLOCK FALSE
