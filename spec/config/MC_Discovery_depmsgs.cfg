SPECIFICATION Spec
CONSTANTS
  Svcs = {"a", "b", "c"}
  Cap = 2
  MaxOps = 4
  MaxFails = 1
  FixEnqueue = TRUE
  FixBatch = TRUE
  LossySend = TRUE
  HasKeepalive = TRUE
  DirectCalls = FALSE
  MaxMsgLen = 3
  AsyncApply = FALSE
  MaxPerRequest = 99
  RecursiveRLock = FALSE
  Kinds = {"Unavailable"}
  CanceledStops = FALSE
  StartUnreachable = FALSE
  DialOnce = FALSE
INVARIANTS TypeOK InSync SetTracksDeps NoDeadlock
PROPERTIES Converges CallerReturns KeepsRetrying
CHECK_DEADLOCK FALSE
