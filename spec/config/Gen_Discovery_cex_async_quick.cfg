SPECIFICATION GenSpec
CONSTANTS
  Svcs = {"a", "b", "c"}
  Cap = 1
  MaxOps = 4
  MaxFails = 0
  FixEnqueue = TRUE
  FixBatch = TRUE
  LossySend = FALSE
  HasKeepalive = TRUE
  DirectCalls = FALSE
  MaxMsgLen = 3
  AsyncApply = TRUE
  MaxPerRequest = 99
  RecursiveRLock = FALSE
  Kinds = {"Unavailable"}
  CanceledStops = FALSE
  StartUnreachable = FALSE
  DialOnce = FALSE
  Eager = TRUE
VIEW GenView
INVARIANTS TrapSetDiffers
CHECK_DEADLOCK FALSE
