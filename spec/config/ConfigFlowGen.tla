---------------------------- MODULE ConfigFlowGen ----------------------------
(***************************************************************************)
(* Behaviour emitter for ConfigFlow: the same actions plus a history       *)
(* variable recording, per step, the update delivered to the store (or     *)
(* "Ctl": the controller takes one event) and the observable state after   *)
(* the step: the store's table, the number of queued events, whether the   *)
(* handler is blocked on the full channel, the event the controller read   *)
(* (with the endpoint list as the controller sees it at that moment), the  *)
(* processor table and whether the system is quiescent.                    *)
(*                                                                         *)
(* Two uses:                                                               *)
(*  - transition cover: exhaustive run of CoverSpec with VIEW = vars and   *)
(*    ACTION_CONSTRAINT EmitEdge: one "@@EDGE" line (BFS path + transition)    *)
(*    per transition of the state graph;                                   *)
(*  - seeded simulation of GenSpec: Finish prints the behaviour ("@@BEH")  *)
(*    once all H updates are delivered and the channel is drained.         *)
(***************************************************************************)
EXTENDS ConfigFlow, Json

VARIABLES hist, finished, coin

gvars == <<vars, hist, finished, coin>>

\* TLC's simulator picks uniformly among the successor states: an endpoint update has hundreds of successors, a
\* dependency addition or the controller one.  In simulation coin (0..9) therefore fixes the *kind* of the next step
\* one step ahead, so that every kind is taken with a fixed probability whatever its number of successors; the lists
\* of an endpoint update are drawn with RandomElement (TLC's seeded generator) instead of being enumerated.
ObsSw(sw) == [in |-> sw.in, cfg |-> sw.cfg, nil |-> sw.nil, eps |-> Live(sw)]
ObsTab(t) == [s \in Svcs |-> ObsSw(t[s])]
ObsProcs(p) == [s \in Keys |-> [on |-> p[s].on, cfg |-> p[s].cfg, hosts |-> p[s].hosts]]
ObsEvt(e, t) == [t |-> e.t, s |-> e.s, cfg |-> e.cfg, eps |-> View(e, t), add |-> e.add, rem |-> e.rem]
NoEvt == [t |-> "", s |-> "", cfg |-> "", eps |-> <<>>, add |-> {}, rem |-> {}]

Log(a, s, c, addL, remL, ev, win) ==
  hist' = Append(hist, [a |-> a, s |-> s, cfg |-> c, add |-> addL, rem |-> remL, ev |-> ev, win |-> win,
                        tab |-> ObsTab(tab'), chanlen |-> Len(chan'), blocked |-> pend' # <<>>,
                        procs |-> ObsProcs(procs'), q |-> Quiescent'])

EpWin(s, addL, remL) == IF W_FirstUpdateRemovalsOnly(s, addL, remL) THEN "first-update-removals-only"
                        ELSE IF W_AddrInRemovedAndAdded(s, addL, remL) THEN "addr-in-removed-and-added" ELSE ""
CfgWin(s, c) == IF W_InvalidCorrected(s, c) THEN "invalid-config-corrected"
                ELSE IF W_ValidToInvalid(s, c) THEN "valid-to-invalid-config" ELSE ""

GenInit == Init /\ hist = <<>> /\ finished = FALSE /\ coin = 0

GenUpdate ==
  \E s \in Svcs :
     \/ DependencyAdd(s) /\ Log("DepAdd", s, "", <<>>, <<>>, NoEvt, "")
     \/ DependencyRemove(s) /\ Log("DepRemove", s, "", <<>>, <<>>, NoEvt, "")
     \/ \E c \in Cfgs : ConfigUpdate(s, c) /\ Log("Config", s, c, <<>>, <<>>, NoEvt, CfgWin(s, c))
     \/ \E addL \in Lists : \E remL \in Lists :
          EndpointUpdate(s, addL, remL) /\ Log("Endpoint", s, "", addL, remL, NoEvt, EpWin(s, addL, remL))

GenCtl == Ctl /\ Log("Ctl", "", "", <<>>, <<>>, ObsEvt(Head(chan), tab), "")

CoverNext == (GenUpdate \/ GenCtl) /\ UNCHANGED <<finished, coin>>
CoverSpec == GenInit /\ [][CoverNext]_gvars

EmitEdge == PrintT("@@EDGE " \o ToJson(hist'))

\* simulation: a behaviour ends when every update has been delivered and the controller has caught up
Finish ==
  /\ ~finished /\ nupd = H /\ Quiescent
  /\ PrintT("@@BEH " \o ToJson(hist))
  /\ finished' = TRUE
  /\ UNCHANGED <<vars, hist, coin>>

SimUpdate(k) ==
  \E s \in Svcs :
     \/ k = 0 /\ DependencyAdd(s) /\ Log("DepAdd", s, "", <<>>, <<>>, NoEvt, "")
     \/ k = 1 /\ DependencyRemove(s) /\ Log("DepRemove", s, "", <<>>, <<>>, NoEvt, "")
     \/ k \in {2, 3} /\ \E c \in Cfgs : ConfigUpdate(s, c) /\ Log("Config", s, c, <<>>, <<>>, NoEvt, CfgWin(s, c))
     \/ k \in {4, 5, 6} /\ \E addL \in {RandomElement(Lists)} : \E remL \in {RandomElement(Lists \ {IF addL = <<>> THEN <<>> ELSE <<"-">>})} :
          EndpointUpdate(s, addL, remL) /\ Log("Endpoint", s, "", addL, remL, NoEvt, EpWin(s, addL, remL))

SimNext ==
  /\ coin' = RandomElement(0..9)
  /\ UNCHANGED finished
  /\ IF coin >= 7 /\ chan # <<>> THEN GenCtl
     ELSE IF CanDeliver THEN SimUpdate(IF coin >= 7 THEN coin - 3 ELSE coin)
     ELSE GenCtl
GenNext == ~finished /\ (SimNext \/ Finish)
GenSpec == GenInit /\ [][GenNext]_gvars
=============================================================================
