SPECIFICATION Spec
CONSTANTS
  Svcs = {"a", "b", "c"}
  Cap = 2
  MaxOps = 6
  MaxFails = 2
  FixEnqueue = FALSE
  FixBatch = TRUE
  LossySend = TRUE
  HasKeepalive = TRUE
INVARIANTS TypeOK NoDeadlock

CHECK_DEADLOCK FALSE
