SPECIFICATION TraceSpec
CONSTANTS
  Svcs <- TraceSvcs
  Cap = 16
  MaxOps = 1000000
  MaxFails = 1000000
  FixEnqueue = TRUE
  FixBatch = FALSE
  LossySend = FALSE
  HasKeepalive = TRUE
  DirectCalls = TRUE
  MaxMsgLen = 1
  AsyncApply = FALSE
  MaxPerRequest = 99
  RecursiveRLock = FALSE
  Kinds = {"Unavailable"}
  CanceledStops = FALSE
  StartUnreachable = FALSE
  DialOnce = FALSE
POSTCONDITION TraceReport
CHECK_DEADLOCK FALSE
