---------------------------- MODULE DiscoveryGen ----------------------------
(***************************************************************************)
(* Behaviour emitter for Discovery: the same actions plus a history        *)
(* variable.  Every step is recorded with what the replayer needs:         *)
(*   call   - the caller starts Subscribe / Unsubscribe of a service       *)
(*   dep    - the dependency stream delivers a message (added, removed)    *)
(*   nsOK / nsFail - the answer to the pending stream creation             *)
(*   fail   - the established stream breaks                                *)
(*   silent - the established stream goes silent (no error)                *)
(*   detect - the transport's keepalive turns the silent failure into an   *)
(*            error                                                        *)
(*   send   - a stream.Send completes (resubscription or batch) with the   *)
(*            message as the model has it and the outcome (ok, err, lost)  *)
(*   int    - an internal step of the client (not controlled, kept for     *)
(*            diagnostics)                                                 *)
(* and the observable state after the step.                                *)
(*                                                                         *)
(* Two ways of emission:                                                   *)
(*  - simulation (Gen_Discovery.cfg): Finish prints the behaviour once the *)
(*    caller has done all its operations and the client is quiescent;      *)
(*  - exhaustive search with VIEW = the base variables and the Trap*       *)
(*    invariants (Gen_Discovery_cex_*.cfg): every reachable state that     *)
(*    violates NoDeadlock / InSync prints the first (shortest) behaviour   *)
(*    that reaches it: TLC's counterexamples as replayable scripts.        *)
(***************************************************************************)
EXTENDS Discovery, Json

CONSTANT Eager   \* TRUE: the environment only moves when no internal step of the client is enabled
                 \* (run to completion).  These are the behaviours a replayer that controls only the
                 \* environment (caller, stream creation, Send completion, stream failure) can force
                 \* on the real client, whose goroutines run as soon as they can.

VARIABLES hist, finished

gvars == <<vars, hist, finished>>

Obs == [srv |-> srv, deps |-> deps, idle |-> AllIdle, up |-> up, silent |-> silent,
        subq |-> Len(subCh), unsubq |-> Len(unsubCh), run |-> run, lock |-> lock]

Log(rec) == hist' = Append(hist, [e |-> rec, obs |-> Obs'])

Int(name) == Log([a |-> "int", name |-> name])

SendRes == IF up /\ ~silent THEN "ok" ELSE IF up \/ run' = "sendSelect" THEN "lost" ELSE "err"

IntEnabled ==
  ENABLED ((\E i \in Ap : ApplierNext(i)) \/ Backoff \/ ResubLock \/ ResubSnap \/ SenderTakeSub
           \/ SenderTakeUnsub \/ SenderStop \/ SenderDefault \/ SenderResolve \/ WaitRecv \/ RecvFail)
EnvMay == Eager => ~IntEnabled

GenInit == Init /\ hist = <<>> /\ finished = FALSE

Finish ==
  /\ ~finished /\ Quiescent /\ ops = MaxOps
  /\ PrintT("@@BEH " \o ToJson(hist))
  /\ finished' = TRUE
  /\ UNCHANGED <<vars, hist>>

GenNext ==
  /\ ~finished
  /\ \/ \E s \in Svcs, k \in {"sub", "unsub"} :
          EnvMay /\ CallStart(s, k) /\ Log([a |-> "call", kind |-> k, s |-> s])
     \/ \E A, R \in SUBSET Svcs : EnvMay /\ DepMsg(A, R) /\ Log([a |-> "dep", added |-> A, removed |-> R])
     \/ \E i \in Ap : ApplyNext(i) /\ Int("ApplyNext")
     \/ \E i \in Ap : CallLock(i) /\ Int("CallLock")
     \/ \E i \in Ap : CallEnqueue(i) /\ Int("CallEnqueue")
     \/ \E i \in Ap : CallUnlock(i) /\ Int("CallUnlock")
     \/ EnvMay /\ NewStreamOK /\ Log([a |-> "nsOK"])
     \/ \E k \in Kinds : EnvMay /\ NewStreamFail(k) /\ Log([a |-> "nsFail", code |-> k])
     \/ NewStreamUnreachable /\ Int("NewStreamUnreachable")
     \/ EnvMay /\ ServerUp /\ Log([a |-> "serverUp"])
     \/ Backoff /\ Int("Backoff")
     \/ ResubLock /\ Int("ResubLock")
     \/ ResubSnap /\ Int("ResubSnap")
     \/ \E i \in Ap : CallLockWait(i) /\ Int("CallLockWait")
     \/ EnvMay /\ ResubSend /\ Log([a |-> "send", what |-> "resub", S |-> snap, U |-> {}, res |-> SendRes])
     \/ SenderTakeSub /\ Int("SenderTakeSub")
     \/ SenderTakeUnsub /\ Int("SenderTakeUnsub")
     \/ SenderStop /\ Int("SenderStop")
     \/ SenderDefault /\ Int("SenderDefault")
     \/ SenderResolve /\ Int("SenderResolve")
     \/ EnvMay /\ SenderSend /\ Log([a |-> "send", what |-> "batch", S |-> batchS, U |-> batchU, res |-> SendRes])
     \/ WaitRecv /\ Int("WaitRecv")
     \/ RecvFail /\ Int("RecvFail")
     \/ \E k \in Kinds : EnvMay /\ StreamFail(k) /\ Log([a |-> "fail", code |-> k])
     \/ EnvMay /\ SilentFail /\ Log([a |-> "silent"])
     \/ EnvMay /\ KeepaliveDetect /\ Log([a |-> "detect"])
  /\ UNCHANGED finished

GenSpec == GenInit /\ [][GenNext \/ Finish]_gvars

GenView == vars

\* counterexample emission (the invariants always hold; they print)
TrapDeadlock ==
  (~ENABLED ProxyNext /\ ~Quiescent) =>
     PrintT("@@CEX " \o ToJson([kind |-> "deadlock", hist |-> hist]))
TrapSetDiffers ==
  (AllIdle /\ subscribed # deps) =>
     PrintT("@@CEX " \o ToJson([kind |-> "setdiffers", hist |-> hist]))
TrapOutOfSync ==
  (Quiescent /\ srv # deps) =>
     PrintT("@@CEX " \o ToJson([kind |-> "outofsync", hist |-> hist]))
=============================================================================
