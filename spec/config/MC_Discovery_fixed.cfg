SPECIFICATION Spec
CONSTANTS
  Svcs = {"a", "b", "c"}
  Cap = 2
  MaxOps = 6
  MaxFails = 2
  FixEnqueue = TRUE
  FixBatch = TRUE
  LossySend = TRUE
  HasKeepalive = TRUE
  DirectCalls = TRUE
  MaxMsgLen = 1
  AsyncApply = FALSE
  MaxPerRequest = 99
  RecursiveRLock = FALSE
  Kinds = {"Unavailable"}
  CanceledStops = FALSE
  StartUnreachable = FALSE
  DialOnce = FALSE
INVARIANTS TypeOK InSync InSyncUnlessAmbiguous SetTracksDeps NoDeadlock

CHECK_DEADLOCK FALSE
