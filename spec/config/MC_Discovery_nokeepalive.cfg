SPECIFICATION Spec
CONSTANTS
  Svcs = {"a", "b", "c"}
  Cap = 2
  MaxOps = 3
  MaxFails = 1
  FixEnqueue = TRUE
  FixBatch = TRUE
  LossySend = TRUE
  HasKeepalive = FALSE
  DirectCalls = TRUE
  MaxMsgLen = 1
  AsyncApply = FALSE
  MaxPerRequest = 99
  RecursiveRLock = FALSE
  Kinds = {"Unavailable"}
  CanceledStops = FALSE
  StartUnreachable = FALSE
  DialOnce = FALSE
INVARIANTS TypeOK NoDeadlock

CHECK_DEADLOCK FALSE
