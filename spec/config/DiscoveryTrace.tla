--------------------------- MODULE DiscoveryTrace ---------------------------
(***************************************************************************)
(* Trace specification: histories recorded from the real subscription      *)
(* client (trace.json, one array holding several histories separated by    *)
(* "reset") must be behaviours of Discovery.tla with the real queue         *)
(* capacity.  Only the environment-visible steps are in the trace:          *)
(*   call / ret     caller starts / has returned from Subscribe|Unsubscribe *)
(*   nsReq          the client asked for a new stream                       *)
(*   nsOK / nsFail  the (scripted) server's answer                          *)
(*   sendReq        the client has called Send with this request (it is     *)
(*                  held there until the server lets the Send complete)     *)
(*   msg            a request received by the server on the current stream  *)
(*   sendErr        a Send that failed because the stream is broken         *)
(*   fail           the server breaks the current stream                    *)
(*   silent         the current stream goes silent (nothing errors)         *)
(*   sendLost       a Send that completed without reaching the server       *)
(*   detect         the transport reports the silent stream as broken       *)
(*   settled        the harness found the client at rest on an established  *)
(*                  stream                                                  *)
(*   stuck          the harness gave up waiting for the client              *)
(* The client's internal steps (lock, enqueue, batch, timer, ...) are       *)
(* hidden: TLC searches for an interleaving of them that explains the       *)
(* trace.  "ret", "nsReq" and "sendReq" are observations that may lag behind the       *)
(* client's step.                                                           *)
(*                                                                          *)
(* Acceptance (conformance): every event of the trace can be consumed.      *)
(* Verdict (the property's predicate, evaluated by TLC in the model state   *)
(* reached by the trace): "settled" is only possible in a Quiescent state   *)
(* and records srv = deps for that history; "stuck" records a failure.      *)
(***************************************************************************)
EXTENDS Discovery, Json, TLCExt

TraceLog == TLCEval(JsonDeserialize("trace.json"))

ToSet(q) == {q[i] : i \in 1..Len(q)}

TraceSvcs ==
  TLCEval(UNION {IF TraceLog[i].ev \in {"call"} THEN {TraceLog[i].s}
                 ELSE IF TraceLog[i].ev \in {"msg", "sendErr", "sendReq", "sendLost"}
                        THEN ToSet(TraceLog[i].sub) \cup ToSet(TraceLog[i].unsub)
                        ELSE {} : i \in 1..Len(TraceLog)})

VARIABLES l,          \* index of the next event
          inCall,     \* a "call" has been consumed, its "ret" not yet
          nsSeen,     \* "nsReq" consumed, answer not yet
          verdicts    \* one record per finished history

tvars == <<vars, l, inCall, nsSeen, verdicts>>

TraceInit == Init /\ l = 1 /\ inCall = FALSE /\ nsSeen = FALSE /\ verdicts = <<>> /\ TLCSet(1, 0)

Hidden ==
  /\ \/ (\E i \in Ap : ApplierNext(i)) \/ Backoff \/ ResubLock \/ ResubSnap
     \/ SenderTakeSub \/ SenderTakeUnsub \/ SenderStop \/ SenderDefault \/ SenderResolve
     \/ WaitRecv \/ RecvFail
  /\ UNCHANGED <<l, inCall, nsSeen, verdicts>>

Reset ==
  /\ subscribed' = {} /\ subCh' = <<>> /\ unsubCh' = <<>> /\ lock' = "free"
  /\ caller' = [i \in Ap |-> "idle"] /\ cop' = [i \in Ap |-> <<"none", "none">>] /\ aq' = [i \in Ap |-> <<>>]
  /\ ops' = 0 /\ deps' = {}
  /\ run' = "newStream" /\ rcv' = "off" /\ snap' = {} /\ batchS' = {} /\ batchU' = {}
  /\ up' = FALSE /\ silent' = FALSE /\ srv' = {} /\ fails' = 0 /\ amb' = {}
  /\ why' = "none" /\ reach' = TRUE
  /\ inCall' = FALSE /\ nsSeen' = FALSE

Event(e) ==
  \/ /\ e.ev = "reset" /\ Reset /\ UNCHANGED verdicts
  \/ /\ e.ev = "call" /\ ~inCall /\ CallStart(e.s, e.kind) /\ inCall' = TRUE
     /\ UNCHANGED <<nsSeen, verdicts>>
  \/ /\ e.ev = "ret" /\ inCall /\ AllIdle /\ inCall' = FALSE
     /\ UNCHANGED <<vars, nsSeen, verdicts>>
  \/ /\ e.ev = "nsReq" /\ ~nsSeen /\ run = "newStream" /\ nsSeen' = TRUE
     /\ UNCHANGED <<vars, inCall, verdicts>>
  \/ /\ e.ev = "nsOK" /\ nsSeen /\ NewStreamOK /\ nsSeen' = FALSE /\ UNCHANGED <<inCall, verdicts>>
  \/ /\ e.ev = "nsFail" /\ nsSeen /\ (\E k \in Kinds : NewStreamFail(k)) /\ nsSeen' = FALSE /\ UNCHANGED <<inCall, verdicts>>
  \/ /\ e.ev = "sendReq"
     /\ \/ run = "resubSend" /\ snap = ToSet(e.sub) /\ e.unsub = <<>>
        \/ run = "sendSend" /\ batchS = ToSet(e.sub) /\ batchU = ToSet(e.unsub)
     /\ UNCHANGED <<vars, inCall, nsSeen, verdicts>>
  \/ /\ e.ev = "msg" /\ up /\ ~silent
     /\ \/ ResubSend /\ snap = ToSet(e.sub) /\ e.unsub = <<>>
        \/ SenderSend /\ batchS = ToSet(e.sub) /\ batchU = ToSet(e.unsub)
     /\ UNCHANGED <<inCall, nsSeen, verdicts>>
  \/ /\ e.ev = "sendErr" /\ ~up
     /\ \/ ResubSend /\ snap = ToSet(e.sub) /\ e.unsub = <<>>
        \/ SenderSend /\ batchS = ToSet(e.sub) /\ batchU = ToSet(e.unsub)
     /\ UNCHANGED <<inCall, nsSeen, verdicts>>
  \/ /\ e.ev = "sendLost" /\ up /\ silent
     /\ \/ ResubSend /\ snap = ToSet(e.sub) /\ e.unsub = <<>>
        \/ SenderSend /\ batchS = ToSet(e.sub) /\ batchU = ToSet(e.unsub)
     /\ UNCHANGED <<inCall, nsSeen, verdicts>>
  \/ /\ e.ev = "fail" /\ (\E k \in Kinds : StreamFail(k)) /\ UNCHANGED <<inCall, nsSeen, verdicts>>
  \/ /\ e.ev = "silent" /\ SilentFail /\ UNCHANGED <<inCall, nsSeen, verdicts>>
  \/ /\ e.ev = "detect" /\ KeepaliveDetect /\ UNCHANGED <<inCall, nsSeen, verdicts>>
  \/ /\ e.ev = "settled" /\ Quiescent /\ ~inCall
     /\ verdicts' = Append(verdicts, [h |-> e.h, ok |-> (srv = deps),
                                      missing |-> deps \ srv, extra |-> srv \ deps, amb |-> amb])
     /\ UNCHANGED <<vars, inCall, nsSeen>>
  \/ /\ e.ev = "stuck"
     /\ verdicts' = Append(verdicts, [h |-> e.h, ok |-> FALSE, missing |-> {}, extra |-> {}, amb |-> {},
                                      stuck |-> TRUE])
     /\ UNCHANGED <<vars, inCall, nsSeen>>

Consume ==
  /\ l <= Len(TraceLog)
  /\ Event(TraceLog[l])
  /\ l' = l + 1
  /\ TLCSet(1, IF TLCGet(1) < l THEN l ELSE TLCGet(1))
  /\ (l' = Len(TraceLog) + 1) => PrintT("@@ACCEPT " \o ToJson(verdicts'))

TraceNext == Consume \/ Hidden

TraceSpec == TraceInit /\ [][TraceNext]_tvars

\* furthest event consumed (run with one worker)
TraceReport ==
  LET d == TLCGet(1) IN
  IF d = Len(TraceLog) THEN TRUE
  ELSE PrintT("@@REJECT " \o ToJson([index |-> d + 1, event |-> TraceLog[d + 1]]))
=============================================================================
