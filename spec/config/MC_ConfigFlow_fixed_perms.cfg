SPECIFICATION Spec
CONSTANTS
  Svcs = {"s1"}
  NAddr = 3
  Static = {}
  H = 5
  Cap = 2
  Perms = TRUE
  FixRemovalsOnly = TRUE
  FixSameAddr = TRUE
  FixInvalidCorrected = TRUE
  FixValidToInvalid = TRUE
  AvoidWindows = FALSE
  ProcRewritesName = FALSE
INVARIANTS TypeOK NoDupStore ViewsReadable Converged
PROPERTIES UnknownIgnored
CHECK_DEADLOCK FALSE
