SPECIFICATION Spec
CONSTANTS
  Svcs = {"s1", "s2"}
  NAddr = 2
  Static = {"s1"}
  H = 6
  Cap = 1
  Perms = FALSE
  FixRemovalsOnly = TRUE
  FixSameAddr = TRUE
  FixInvalidCorrected = TRUE
  FixValidToInvalid = TRUE
  AvoidWindows = FALSE
  ProcRewritesName = FALSE
INVARIANTS TypeOK NoDupStore ViewsReadable Converged
PROPERTIES UnknownIgnored
CHECK_DEADLOCK FALSE
