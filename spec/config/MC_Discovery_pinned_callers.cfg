SPECIFICATION Spec
CONSTANTS
  Svcs = {"a", "b", "c"}
  Cap = 2
  MaxOps = 3
  MaxFails = 2
  FixEnqueue = FALSE
  FixBatch = FALSE
  LossySend = TRUE
  HasKeepalive = TRUE
INVARIANTS TypeOK
PROPERTIES CallerReturns
CHECK_DEADLOCK FALSE
