SPECIFICATION CoverSpec
CONSTANTS
  Svcs = {"s1", "s2"}
  NAddr = 2
  Static = {}
  H = 4
  Cap = 2
  Perms = FALSE
  FixRemovalsOnly = FALSE
  FixSameAddr = FALSE
  FixInvalidCorrected = FALSE
  FixValidToInvalid = FALSE
  AvoidWindows = FALSE
  ProcRewritesName = FALSE
VIEW vars
ACTION_CONSTRAINT EmitEdge
CHECK_DEADLOCK FALSE
