------------------------------ MODULE ConfigFlow ------------------------------
(***************************************************************************)
(* The configuration flow of samaritan: the configuration store            *)
(* (config/config.go), its event channel and the controller's event loop   *)
(* (controller/controller.go) with the processors it runs.                 *)
(*                                                                         *)
(* Implementation shaped: the variables are the code's maps, slices and    *)
(* channel; one action is one handler call (executed under the store's     *)
(* lock) or one iteration of the controller loop.                          *)
(*                                                                         *)
(*   tab[s]   config.Config.sws[name] : *serviceWrapper                    *)
(*              in   - the entry exists                                    *)
(*              cfg  - sw.Config: "none" (nil) | "invalid" | "v1" | "v2"   *)
(*              nil  - sw.Endpoints == nil (no endpoint list yet)          *)
(*              arr  - the backing array of sw.Endpoints (Len = capacity;  *)
(*                     slots beyond n hold stale pointers or "-")          *)
(*              n    - len(sw.Endpoints)                                   *)
(*   chan     config.Config.evtCh (capacity Cap; code: 32)                 *)
(*   pend     events a handler still has to send: it is blocked in         *)
(*            `c.evtCh <- evt` holding the store's lock (no other handler  *)
(*            can run, the store has already been mutated)                 *)
(*   procs[s] controller.Controller.procs[name]: (on, cfg, hosts)          *)
(*   nupd     number of updates delivered so far (history length bound)    *)
(*                                                                         *)
(* SvcAddEvent.Endpoints is the slice header of sw.Endpoints               *)
(* (config.go:253-260): it shares the backing array with the store.  An    *)
(* add-event in the channel is therefore modelled as a *view*              *)
(* (live, n): as long as the store has not reallocated the array (append   *)
(* beyond the capacity) or dropped the wrapper (dependency removal) the    *)
(* controller reads the first n slots of the *current* array, i.e. it sees *)
(* the in-place shifts of later removals and the in-place appends of later *)
(* additions.  When the array is abandoned the view is frozen (seq).       *)
(* Go's growth rule for a slice of pointers: capacity 0 -> 1 -> 2 -> 4 ->  *)
(* 8 (runtime.growslice, doubling below 256 elements).                     *)
(*                                                                         *)
(* Boolean constants select, per defect of the pinned tree, the pinned     *)
(* behaviour (FALSE) or the proposed repair (TRUE):                        *)
(*   FixRemovalsOnly      config.go:232-240: an endpoint update that       *)
(*                        leaves sw.Endpoints nil (first update, only      *)
(*                        removals) still emits an add-event; the repair   *)
(*                        returns while the list is still unknown          *)
(*   FixSameAddr          controller.go:82-83: additions are applied       *)
(*                        before removals, the store does removals first;  *)
(*                        the repair swaps the two calls                   *)
(*   FixInvalidCorrected  config.go:189-194: invalid -> valid config only  *)
(*                        emits a config event, which the controller drops *)
(*                        (no processor); the repair announces the service *)
(*                        again (add-event, then the config event)         *)
(*   FixValidToInvalid    config.go:189-194: valid -> invalid config emits *)
(*                        a config event and the processor keeps running;  *)
(*                        the repair emits a remove event instead          *)
(*                                                                         *)
(* Identity of a service across the layers: the store keys its table by    *)
(* the discovery name, the events carry that name, proc.New hands it to    *)
(* the builder (BuildParams.Name), and the controller keys its table by    *)
(* what the PROCESSOR reports (addProc/removeProc use proc.Name(),          *)
(* controller.go:119-137) while it looks entries up by the event's name    *)
(* (getProc(svcName)).  Names may contain characters a lower layer treats  *)
(* specially ('.' is the stats scope separator, proc.go:102).              *)
(*   ProcRewritesName     FALSE: the processor reports the name it was     *)
(*                        given (the code); TRUE: the processor layer      *)
(*                        normalises it ('.' -> '_'), a variant that must  *)
(*                        violate Converged                                *)
(***************************************************************************)
EXTENDS Naturals, Sequences, FiniteSets, TLC

CONSTANTS Svcs,        \* service names (strings)
          NAddr,       \* number of addresses "a1" .. "aN" (their order is the canonical list order)
          Static,      \* subset of Svcs: static services of the bootstrap file (cfg v1, endpoints <<"a1">>)
          H,           \* maximal number of updates delivered
          Cap,         \* capacity of the event channel
          Perms,       \* TRUE: added/removed lists in every order; FALSE: canonical order only
          FixRemovalsOnly, FixSameAddr, FixInvalidCorrected, FixValidToInvalid,
          ProcRewritesName,
          AvoidWindows \* TRUE: the environment never delivers an update of an input class (W_* below) whose defect
                       \* is not repaired - "the rest of the property" when a defect is recorded instead of repaired

VARIABLES tab, chan, pend, procs, nupd

vars == <<tab, chan, pend, procs, nupd>>

AddrSeq == [i \in 1..NAddr |-> "a" \o ToString(i)]
Addrs == {AddrSeq[i] : i \in 1..Len(AddrSeq)}
Cfgs == {"invalid", "v1", "v2"}
Valid(c) == c \in {"v1", "v2"}
Blank == "-"

Range(f) == {f[x] : x \in DOMAIN f}

\* what the stats layer does to a name (strings.Replace(name, ".", "_", -1)), for the names of the alphabet used
Rewrite(s) == CASE s = "a.b" -> "a_b" [] s = "A.b" -> "A_b" [] OTHER -> s
\* the name the processor built for service s reports
PName(s) == IF ProcRewritesName THEN Rewrite(s) ELSE s
\* keys the controller's table can ever hold
Keys == Svcs \cup {Rewrite(s) : s \in Svcs}
Max(S) == CHOOSE x \in S : \A y \in S : y <= x

\* duplicate-free lists over the addresses; canonical = increasing position in AddrSeq
Pos(a) == CHOOSE i \in 1..Len(AddrSeq) : AddrSeq[i] = a
IsCanon(L) == \A i \in 1..Len(L) : \A j \in 1..Len(L) : i < j => Pos(L[i]) < Pos(L[j])
AllLists == UNION {{L \in [1..k -> Addrs] : \A i \in 1..k : \A j \in 1..k : i # j => L[i] # L[j]} : k \in 0..Len(AddrSeq)}
Lists == IF Perms THEN AllLists ELSE {L \in AllLists : IsCanon(L)}

---------------------------------------------------------------------------
(* records *)

NoSw == [in |-> FALSE, cfg |-> "none", nil |-> TRUE, arr |-> <<>>, n |-> 0]
NoProc == [on |-> FALSE, cfg |-> "none", hosts |-> {}]

\* events; every field present in every event so that sequences are homogeneous
AddEvt(s, c, live, n, sq) == [t |-> "add", s |-> s, cfg |-> c, live |-> live, n |-> n, seq |-> sq, add |-> {}, rem |-> {}]
RemoveEvt(s) == [t |-> "remove", s |-> s, cfg |-> "none", live |-> FALSE, n |-> 0, seq |-> <<>>, add |-> {}, rem |-> {}]
ConfigEvt(s, c) == [t |-> "config", s |-> s, cfg |-> c, live |-> FALSE, n |-> 0, seq |-> <<>>, add |-> {}, rem |-> {}]
EndpointEvt(s, a, r) == [t |-> "endpoint", s |-> s, cfg |-> "none", live |-> FALSE, n |-> 0, seq |-> <<>>, add |-> a, rem |-> r]

\* the add-event for the wrapper sw of service s (emitSvcAddEvent, config.go:253-260):
\* Endpoints aliases sw.Endpoints; an empty or nil slice aliases nothing observable
AddEvtOf(s, sw) == IF sw.n = 0 THEN AddEvt(s, sw.cfg, FALSE, 0, <<>>) ELSE AddEvt(s, sw.cfg, TRUE, sw.n, <<>>)

\* what the controller reads from an add-event now
View(e, t) == IF e.live THEN SubSeq(t[e.s].arr, 1, e.n) ELSE e.seq

\* the current endpoint list of the store
Live(sw) == SubSeq(sw.arr, 1, sw.n)

---------------------------------------------------------------------------
(* slice operations of handleSvcEndpointUpdate, config.go:211-230 *)

IndexOf(arr, n, a) == IF \E i \in 1..n : arr[i] = a THEN CHOOSE i \in 1..n : arr[i] = a /\ \A j \in 1..(i - 1) : arr[j] # a ELSE 0

\* sw.Endpoints = append(sw.Endpoints[:i], sw.Endpoints[i+1:]...): shift in place, the last live slot keeps its old value
RemoveAt(arr, n, i) == [j \in 1..Len(arr) |-> IF j >= i /\ j < n THEN arr[j + 1] ELSE arr[j]]

RECURSIVE RemList(_, _, _, _)
RemList(arr, n, L, acc) ==
  IF L = <<>> THEN [arr |-> arr, n |-> n, rem |-> acc]
  ELSE LET i == IndexOf(arr, n, Head(L)) IN
       IF i = 0 THEN RemList(arr, n, Tail(L), acc)
       ELSE RemList(RemoveAt(arr, n, i), n - 1, Tail(L), acc \cup {Head(L)})

NewCap(c) == IF c = 0 THEN 1 ELSE 2 * c

\* st = [arr, n, re, snap, add]: re = the array the handler started with has been abandoned (reallocation),
\* snap = its contents at that moment
RECURSIVE AddList(_, _)
AddList(st, L) ==
  IF L = <<>> THEN st
  ELSE LET a == Head(L) IN
       IF IndexOf(st.arr, st.n, a) # 0 THEN AddList(st, Tail(L))
       ELSE IF st.n < Len(st.arr)
            THEN AddList([st EXCEPT !.arr = [st.arr EXCEPT ![st.n + 1] = a], !.n = st.n + 1, !.add = st.add \cup {a}], Tail(L))
            ELSE LET nc == NewCap(Len(st.arr))
                     na == [j \in 1..nc |-> IF j <= st.n THEN st.arr[j] ELSE IF j = st.n + 1 THEN a ELSE Blank]
                 IN AddList([arr |-> na, n |-> st.n + 1, re |-> TRUE,
                             snap |-> IF st.re THEN st.snap ELSE st.arr, add |-> st.add \cup {a}], Tail(L))

\* freeze the views of the add-events of service s that alias the array whose final contents are `old`
FreezeSeq(q, s, old) == [i \in 1..Len(q) |-> IF q[i].t = "add" /\ q[i].s = s /\ q[i].live
                                              THEN [q[i] EXCEPT !.live = FALSE, !.n = 0, !.seq = SubSeq(old, 1, q[i].n)]
                                              ELSE q[i]]

\* slots that neither the store nor a live view can read are blanked (state canonicalisation only)
MaxView(q, s) == Max({0} \cup {q[i].n : i \in {j \in 1..Len(q) : q[j].t = "add" /\ q[j].s = s /\ q[j].live}})
CleanSw(sw, s, q) == LET m == Max({sw.n, MaxView(q, s)}) IN
                     [sw EXCEPT !.arr = [j \in 1..Len(sw.arr) |-> IF j <= m THEN sw.arr[j] ELSE Blank]]
CleanTab(t, q) == [s \in Svcs |-> CleanSw(t[s], s, q)]

---------------------------------------------------------------------------
(* sending: `c.evtCh <- evt` blocks, holding the lock, while the channel is full *)

\* state after the handler has produced the events evs (in order), t = the mutated table, q0/p0 the (possibly frozen) channel
Emit(t, q0, evs) ==
  LET room == Cap - Len(q0)
      k == IF Len(evs) <= room THEN Len(evs) ELSE room
      q1 == q0 \o SubSeq(evs, 1, k)
      p1 == SubSeq(evs, k + 1, Len(evs))
  IN /\ chan' = q1
     /\ pend' = p1
     /\ tab' = CleanTab(t, q1 \o p1)

CanDeliver == pend = <<>> /\ nupd < H

---------------------------------------------------------------------------
(* the store's handlers (each runs under c.Lock) *)

\* handleDependencyUpdate(added = [s], removed = []), config.go:151-161
DependencyAdd(s) ==
  /\ CanDeliver
  /\ nupd' = nupd + 1
  /\ tab' = IF tab[s].in THEN tab ELSE [tab EXCEPT ![s] = [NoSw EXCEPT !.in = TRUE]]
  /\ UNCHANGED <<chan, pend, procs>>

\* handleDependencyUpdate(added = [], removed = [s]), config.go:163-170: the wrapper is dropped
\* (its array is never written again: views freeze), a remove event is sent
DependencyRemove(s) ==
  /\ CanDeliver
  /\ nupd' = nupd + 1
  /\ IF ~tab[s].in THEN UNCHANGED <<tab, chan, pend>>
     ELSE Emit([tab EXCEPT ![s] = NoSw], FreezeSeq(chan, s, tab[s].arr), <<RemoveEvt(s)>>)
  /\ UNCHANGED procs

\* handleSvcConfigUpdate, config.go:173-195
ConfigEvents(s, old, new, sw) ==
  IF old = "none" THEN <<AddEvtOf(s, sw)>>
  ELSE (IF FixInvalidCorrected /\ old = "invalid" /\ Valid(new) THEN <<AddEvtOf(s, sw)>> ELSE <<>>)
       \o (IF FixValidToInvalid /\ Valid(old) /\ ~Valid(new) THEN <<RemoveEvt(s)>> ELSE <<ConfigEvt(s, new)>>)

ConfigUpdate(s, c) ==
  /\ CanDeliver
  /\ nupd' = nupd + 1
  /\ IF ~tab[s].in THEN UNCHANGED <<tab, chan, pend>>                   \* "service is already removed, ignore"
     ELSE LET sw == [tab[s] EXCEPT !.cfg = c] IN
          IF sw.nil THEN /\ tab' = [tab EXCEPT ![s] = sw]               \* no endpoint list yet: nothing to announce
                         /\ UNCHANGED <<chan, pend>>
          ELSE Emit([tab EXCEPT ![s] = sw], chan, ConfigEvents(s, tab[s].cfg, c, sw))
  /\ UNCHANGED procs

\* handleSvcEndpointUpdate, config.go:197-241: removals, then additions, by address
EndpointUpdate(s, addL, remL) ==
  /\ CanDeliver
  /\ addL # <<>> \/ remL # <<>>                                          \* config.go:201-203 returns at once otherwise
  /\ nupd' = nupd + 1
  /\ IF ~tab[s].in THEN UNCHANGED <<tab, chan, pend>>                   \* "service is already removed, ignore"
     ELSE LET old == tab[s]
              r == RemList(old.arr, old.n, remL, {})
              a == AddList([arr |-> r.arr, n |-> r.n, re |-> FALSE, snap |-> <<>>, add |-> {}], addL)
              sw == [old EXCEPT !.arr = a.arr, !.n = a.n, !.nil = old.nil /\ a.add = {}]
              q == IF a.re THEN FreezeSeq(chan, s, a.snap) ELSE chan
              evs == IF sw.cfg = "none" THEN <<>>                        \* config.go:232-234
                     ELSE IF old.nil                                      \* switch oldEndpoints { case nil:
                          THEN (IF FixRemovalsOnly /\ sw.nil THEN <<>> ELSE <<AddEvtOf(s, sw)>>)
                          ELSE IF a.add = {} /\ r.rem = {} THEN <<>>      \* config.go:276-278
                               ELSE <<EndpointEvt(s, a.add, r.rem)>>
          IN Emit([tab EXCEPT ![s] = sw], q, evs)
  /\ UNCHANGED procs

---------------------------------------------------------------------------
(* the controller: one iteration of the loop in Start, controller.go:59-66 *)

Handle(e, p, t) ==
  CASE e.t = "add" ->                                                    \* handleSvcAdd + tryEnsureProc
         IF p[e.s].on \/ ~Valid(e.cfg) THEN p                            \* looked up by the event's name ...
         ELSE [p EXCEPT ![PName(e.s)] = [on |-> TRUE, cfg |-> e.cfg, hosts |-> Range(View(e, t))]]  \* ... stored by proc.Name()
    [] e.t = "remove" -> [p EXCEPT ![e.s] = NoProc]                      \* handleSvcDel: getProc(name), Stop, removeProc
    [] e.t = "config" ->                                                 \* handleSvcConfigUpdate; the processor
         IF p[e.s].on /\ Valid(e.cfg) THEN [p EXCEPT ![e.s].cfg = e.cfg] \* rejects an invalid config (redis.go:144-150)
         ELSE p
    [] e.t = "endpoint" ->                                               \* controller.go:81-83, host.Set semantics
         IF ~p[e.s].on THEN p
         ELSE IF FixSameAddr THEN [p EXCEPT ![e.s].hosts = (@ \ e.rem) \cup e.add]
              ELSE [p EXCEPT ![e.s].hosts = (@ \cup e.add) \ e.rem]

\* receiving from a full channel lets the blocked sender put its next event in at once
Ctl ==
  /\ chan # <<>>
  /\ procs' = Handle(Head(chan), procs, tab)
  /\ LET q == Tail(chan) IN
       IF pend # <<>> THEN /\ chan' = Append(q, Head(pend))
                           /\ pend' = Tail(pend)
                           /\ tab' = CleanTab(tab, Append(q, Head(pend)) \o Tail(pend))
       ELSE /\ chan' = q
            /\ pend' = pend
            /\ tab' = CleanTab(tab, q)
  /\ UNCHANGED nupd

---------------------------------------------------------------------------
(* named windows = input classes through which the pinned tree loses convergence (signatures of findings);  *)
(* all are evaluated in the state before the update                                                         *)

\* first endpoint update of a configured service carries no effective addition
W_FirstUpdateRemovalsOnly(s, addL, remL) == tab[s].in /\ tab[s].nil /\ tab[s].cfg # "none" /\ addL = <<>> /\ remL # <<>>
\* an address of the store is named in both lists of one update
W_AddrInRemovedAndAdded(s, addL, remL) == tab[s].in /\ tab[s].cfg # "none" /\ ~tab[s].nil
                                          /\ \E a \in Range(addL) \cap Range(remL) : a \in Range(Live(tab[s]))
\* an invalid configuration is replaced by a valid one while the endpoint list is known
W_InvalidCorrected(s, c) == tab[s].in /\ tab[s].cfg = "invalid" /\ Valid(c) /\ ~tab[s].nil
\* a valid configuration is replaced by an invalid one while the endpoint list is known
W_ValidToInvalid(s, c) == tab[s].in /\ Valid(tab[s].cfg) /\ ~Valid(c) /\ ~tab[s].nil

EpAllowed(s, addL, remL) == AvoidWindows => /\ FixRemovalsOnly \/ ~W_FirstUpdateRemovalsOnly(s, addL, remL)
                                            /\ FixSameAddr \/ ~W_AddrInRemovedAndAdded(s, addL, remL)
CfgAllowed(s, c) == AvoidWindows => /\ FixInvalidCorrected \/ ~W_InvalidCorrected(s, c)
                                    /\ FixValidToInvalid \/ ~W_ValidToInvalid(s, c)

---------------------------------------------------------------------------

StaticSw == [in |-> TRUE, cfg |-> "v1", nil |-> FALSE, arr |-> <<AddrSeq[1]>>, n |-> 1]

\* initStaticSvcs, config.go:82-96 (St = the static services in bootstrap order; Len(St) <= Cap assumed: the code
\* sizes the channel so that all static add-events fit)
InitWith(St) ==
  /\ tab = [s \in Svcs |-> IF s \in Range(St) THEN StaticSw ELSE NoSw]
  /\ chan = [i \in 1..Len(St) |-> AddEvtOf(St[i], StaticSw)]
  /\ pend = <<>>
  /\ procs = [k \in Keys |-> NoProc]
  /\ nupd = 0

\* bootstrap order of the static services (the configurations use at most one)
StaticSeq == CHOOSE q \in [1..Cardinality(Static) -> Static] : {q[i] : i \in 1..Cardinality(Static)} = Static

Init == InitWith(StaticSeq)

Update ==
  \E s \in Svcs :
     \/ DependencyAdd(s)
     \/ DependencyRemove(s)
     \/ \E c \in Cfgs : CfgAllowed(s, c) /\ ConfigUpdate(s, c)
     \/ \E addL \in Lists : \E remL \in Lists : EpAllowed(s, addL, remL) /\ EndpointUpdate(s, addL, remL)

Next == Update \/ Ctl

Spec == Init /\ [][Next]_vars

---------------------------------------------------------------------------
(* properties *)

TypeOK ==
  /\ \A s \in Svcs :
       /\ tab[s].in \in BOOLEAN /\ tab[s].nil \in BOOLEAN
       /\ tab[s].cfg \in Cfgs \cup {"none"}
       /\ tab[s].n \in 0..Len(tab[s].arr)
       /\ \A i \in 1..tab[s].n : tab[s].arr[i] \in Addrs
       /\ tab[s].nil => tab[s].n = 0
  /\ \A k \in Keys :
       /\ procs[k].on \in BOOLEAN /\ procs[k].hosts \subseteq Addrs
       /\ procs[k].on => Valid(procs[k].cfg)
  /\ Len(chan) <= Cap
  /\ pend # <<>> => Len(chan) = Cap
  /\ nupd \in 0..H

\* the store never holds an address twice
NoDupStore == \A s \in Svcs : \A i \in 1..tab[s].n : \A j \in 1..tab[s].n : i # j => tab[s].arr[i] # tab[s].arr[j]

\* a live view never reaches beyond what has been written
ViewsReadable == \A i \in 1..Len(chan) : chan[i].t = "add" /\ chan[i].live =>
                     /\ chan[i].n <= Len(tab[chan[i].s].arr)
                     /\ \A j \in 1..chan[i].n : tab[chan[i].s].arr[j] \in Addrs

Quiescent == chan = <<>> /\ pend = <<>>

Wanted(s) == s \in Svcs /\ tab[s].in /\ Valid(tab[s].cfg) /\ ~tab[s].nil

\* s ranges over the keys of the controller's table: a processor registered under a name that is no service is not wanted
ConvergedSvc(s) ==
  /\ procs[s].on <=> Wanted(s)
  /\ Wanted(s) => /\ procs[s].cfg = tab[s].cfg
                  /\ procs[s].hosts = Range(Live(tab[s]))

\* C08: once pending events are processed there is exactly one processor for each service with a valid
\* configuration and an endpoint list, none for any other, each with the latest configuration and endpoint set
Converged == Quiescent => \A s \in Keys : ConvergedSvc(s)

\* C08, second sentence: an update for a service that is not (or no longer) in the table changes nothing
UnknownStep ==
  \E s \in Svcs : /\ ~tab[s].in
                  /\ \/ \E c \in Cfgs : ConfigUpdate(s, c)
                     \/ \E addL \in Lists : \E remL \in Lists : EndpointUpdate(s, addL, remL)
                     \/ DependencyRemove(s)
UnknownIgnored == [][UnknownStep => UNCHANGED <<tab, chan, pend, procs>>]_vars

=============================================================================
