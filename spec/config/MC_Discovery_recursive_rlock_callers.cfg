SPECIFICATION Spec
CONSTANTS
  Svcs = {"a", "b", "c"}
  Cap = 2
  MaxOps = 4
  MaxFails = 1
  FixEnqueue = TRUE
  FixBatch = TRUE
  LossySend = TRUE
  HasKeepalive = TRUE
  DirectCalls = TRUE
  MaxMsgLen = 1
  AsyncApply = FALSE
  MaxPerRequest = 99
  RecursiveRLock = TRUE
  Kinds = {"Unavailable"}
  CanceledStops = FALSE
  StartUnreachable = FALSE
  DialOnce = FALSE
INVARIANTS TypeOK
PROPERTIES CallerReturns
CHECK_DEADLOCK FALSE
