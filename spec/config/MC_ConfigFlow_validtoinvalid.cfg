SPECIFICATION Spec
CONSTANTS
  Svcs = {"s1", "s2"}
  NAddr = 2
  Static = {}
  H = 5
  Cap = 2
  Perms = FALSE
  FixRemovalsOnly = TRUE
  FixSameAddr = TRUE
  FixInvalidCorrected = TRUE
  FixValidToInvalid = FALSE
  AvoidWindows = FALSE
  ProcRewritesName = FALSE
INVARIANTS TypeOK NoDupStore ViewsReadable Converged
PROPERTIES UnknownIgnored
CHECK_DEADLOCK FALSE
