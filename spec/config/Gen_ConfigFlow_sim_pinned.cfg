SPECIFICATION GenSpec
CONSTANTS
  Svcs = {"s1", "s2"}
  NAddr = 3
  Static = {}
  H = 12
  Cap = 2
  Perms = TRUE
  FixRemovalsOnly = FALSE
  FixSameAddr = FALSE
  FixInvalidCorrected = FALSE
  FixValidToInvalid = FALSE
  AvoidWindows = FALSE
  ProcRewritesName = FALSE
CHECK_DEADLOCK FALSE
