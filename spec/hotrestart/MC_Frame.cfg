\* exhaustive over the boundary partition: documented format + exact repair of readMessage
SPECIFICATION Spec
CONSTANTS
  ReadSize = 4096
  TypeSet = {0, 1, 2, 3, 4, 5, 6, 7, 8, 9, 10, 255}
  LenSet = {0, 1, 2, 3, 255, 256, 258, 513, 4092, 4093, 4094, 4095, 65535}
  TrailingOK = FALSE
  ImplLenCheck = "exact"
INVARIANTS TypeOK HeaderRoundTrip RoundTrip RejectMalformed ImplConforms ImplNeverPanics
CHECK_DEADLOCK FALSE
