\* vector emission (FrameGen): every unit of the boundary partition with its expected outcome
SPECIFICATION GenSpec
CONSTANTS
  ReadSize = 4096
  TypeSet = {0, 1, 2, 3, 4, 5, 6, 7, 8, 9, 10, 255}
  LenSet = {0, 1, 2, 3, 255, 256, 258, 513, 4092, 4093, 4094, 4095, 65535}
  TrailingOK = FALSE
  ImplLenCheck = "pinned"
CHECK_DEADLOCK FALSE
