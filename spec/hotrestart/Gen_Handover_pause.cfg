\* one child, <= 3 requests, with long pauses between requests (replayed with real pauses of more than 10 s, few of them)
SPECIFICATION GenSpec
CONSTANTS
  Children = {1}
  MaxReq = 3
  Overlap = FALSE
  ReturnOnEOF = TRUE
  MaxPause = 1
  IdleLimit = 0
  MaxFaults = 0
  AcceptSurvives = TRUE
  PipelinedChild = FALSE
  AsyncDrain = FALSE
  Drops = FALSE
  Exits = FALSE
  Pauses = TRUE
  Faults = FALSE
  Pipelines = FALSE
CHECK_DEADLOCK FALSE
