\* exhaustive, every interleaving: two children, <= 4 requests in total (incl. malformed), overlap, safety + liveness
SPECIFICATION Spec
CONSTANTS
  Children = {1, 2}
  MaxReq = 4
  Overlap = TRUE
  ReturnOnEOF = TRUE
INVARIANTS TypeOK StepOncePerRequestInOrder AckMatches UnknownGetsUnknown AckAfterStep StateIsEffect NoStuckChild
PROPERTIES LaterChildCompletes
CHECK_DEADLOCK FALSE
