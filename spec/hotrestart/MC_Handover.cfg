\* exhaustive, every interleaving: two children, <= 4 requests in total (incl. malformed), overlap, safety + liveness
SPECIFICATION Spec
CONSTANTS
  Children = {1, 2}
  MaxReq = 4
  Overlap = TRUE
  ReturnOnEOF = TRUE
  MaxPause = 0
  IdleLimit = 0
  MaxFaults = 0
  AcceptSurvives = TRUE
  PipelinedChild = FALSE
  AsyncDrain = FALSE
INVARIANTS TypeOK StepOncePerRequestInOrder AckMatches UnknownGetsUnknown AckAfterStep StateIsEffect NoStuckChild
PROPERTIES LaterChildCompletes
CHECK_DEADLOCK FALSE
