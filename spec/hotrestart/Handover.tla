------------------------------ MODULE Handover ------------------------------
(***************************************************************************)
(* Hot-restart hand-over over the control socket                           *)
(* (cmd/samaritan/hotrestart/hotrestart.go:54-192, samaritan.go:110-132).  *)
(*                                                                         *)
(* The old process ("parent") listens on an abstract unix socket; ONE      *)
(* goroutine accepts a child connection and serves it inline (a later      *)
(* child waits in the accept queue until the earlier connection ends):     *)
(*    accept -> { read request -> perform step -> send reply }*            *)
(* steps: admin   = stop the admin API          (Instance.ShutdownAdmin)   *)
(*        conf    = stop the local config store (Instance.ShutdownLocalConf)*)
(*        drain   = stop accepting connections  (Instance.DrainListeners)  *)
(*        term    = reply first, then signal the own process (SIGTERM)     *)
(*        unknown = any other type byte: reply "unknown", no step          *)
(* The process that got SIGTERM exits at some later moment (ParentExit).   *)
(*                                                                         *)
(* Children send requests and (the real child does, hotrestart.go:194-233) *)
(* wait for the reply before the next one.  A child may also send a        *)
(* malformed frame (anything Frame.tla rejects): the parent must reject it  *)
(* - no step, no reply - and keep serving.  A child connection can be      *)
(* dropped at any point.  Data written before a drop / exit stays readable *)
(* for the peer (unix stream socket).                                      *)
(*                                                                         *)
(* Environment                                                             *)
(*  - time: between two requests a child may stay silent on its open       *)
(*    connection for any length of time (ChildPause; the real child sends  *)
(*    terminate minutes after drain, samaritan.go:121-131).  The code has  *)
(*    NO idle limit (IdleLimit = 0); with a finite IdleLimit the parent    *)
(*    closes a silent connection and the request after the pause is lost.  *)
(*  - pipelining: the package's own child waits for each reply, but the  *)
(*    protocol does not force it: a child may write its next request while *)
(*    the previous step is still being performed (PipelinedChild).  The    *)
(*    parent performs strictly in order; a step that is moved off the      *)
(*    serving loop (AsyncDrain) lets a later request overtake it.          *)
(*  - faults: accept on the control socket may fail transiently while a    *)
(*    child is connecting (descriptor shortage, EMFILE); the code retries  *)
(*    after a delay (AcceptSurvives, hotrestart.go:86-98); a loop that     *)
(*    exits instead leaves every child unanswered.                         *)
(***************************************************************************)
EXTENDS Integers, Sequences, FiniteSets, TLC

CONSTANTS Children,     \* 1..N, connect in this order
          MaxReq,       \* bound on the total number of requests sent
          Overlap,      \* TRUE: a later child may connect while an earlier one is still connected
          ReturnOnEOF,  \* TRUE: the serving loop returns when the child connection ends (hotrestart.go:138-140)
          MaxPause,     \* bound on the abstract pause units a child accumulates between two requests (0: no pauses)
          IdleLimit,    \* 0: the parent never gives up on a silent child (the code); n > 0: it closes after n pause units
          MaxFaults,    \* bound on the number of transient accept failures (0: none)
          AcceptSurvives, \* TRUE: the accept loop retries after a transient failure (the code); FALSE: it exits
          PipelinedChild, \* TRUE: a child may send its next request before it has read the reply to the previous one
          AsyncDrain      \* FALSE: every step is performed inline, strictly in order (the code); TRUE: the drain step and
                          \* its reply run beside the serving loop, which goes on reading

Requests  == {"admin", "conf", "drain", "term", "unknown"}
CallSteps == {"admin", "conf", "drain"}          \* steps that are Instance calls made BEFORE the reply
Reply(t)  == CASE t = "admin" -> "adminReply" [] t = "conf"  -> "confReply"
               [] t = "drain" -> "drainReply" [] t = "term"  -> "termReply"
               [] OTHER       -> "unknownReply"

VARIABLES
  par,      \* abstract state of the old process: [admin, conf, accepting: up?, terminated]
  exited,   \* the old process is gone
  pc,       \* serving goroutine: "accept" | "read" | "step" | "reply" | "kill"
  serving,  \* child being served (0 = none)
  inhand,   \* request being handled ("" = none)
  queue,    \* connected children not accepted yet
  st,       \* child state: "init" | "conn" | "wait" | "gone" | "eof"
  c2p, p2c, \* bytes in flight per child connection: requests / replies
  sent, got,\* per child: requests sent / replies received
  reqlog,   \* requests in the order the parent read them: <<child, request>>
  calls,    \* steps performed by the parent, in order
  idle,     \* per child: pause units since its last request while it is connected and silent
  pclosed,  \* per child: the parent closed the connection (only with a finite IdleLimit)
  faults,   \* transient accept failures so far
  bg        \* only with AsyncDrain: <<child, phase>> of the drain running beside the serving loop ("step" | "reply"), or <<>>

vars == <<par, exited, pc, serving, inhand, queue, st, c2p, p2c, sent, got, reqlog, calls, idle, pclosed, faults, bg>>

Sum(f) == LET RECURSIVE S(_)
              S(D) == IF D = {} THEN 0 ELSE LET x == CHOOSE x \in D : TRUE IN f[x] + S(D \ {x})
          IN S(DOMAIN f)
NSent == Sum([c \in Children |-> Len(sent[c])])

Ended(c) == st[c] \in {"gone", "eof"}

Init ==
  /\ par = [admin |-> TRUE, conf |-> TRUE, accepting |-> TRUE, terminated |-> FALSE]
  /\ exited = FALSE /\ pc = "accept" /\ serving = 0 /\ inhand = "" /\ queue = <<>>
  /\ st = [c \in Children |-> "init"]
  /\ c2p = [c \in Children |-> <<>>] /\ p2c = [c \in Children |-> <<>>]
  /\ sent = [c \in Children |-> <<>>] /\ got = [c \in Children |-> <<>>]
  /\ reqlog = <<>> /\ calls = <<>>
  /\ idle = [c \in Children |-> 0] /\ pclosed = [c \in Children |-> FALSE] /\ faults = 0 /\ bg = <<>>

(* ------------------------------------------------------------------ children *)
MayConnect(c) ==
  /\ st[c] = "init"
  /\ \A d \in Children : d < c => (IF Overlap THEN st[d] # "init" ELSE Ended(d))

ChildConnect(c) ==
  /\ MayConnect(c) /\ ~exited
  /\ st' = [st EXCEPT ![c] = "conn"]
  /\ queue' = Append(queue, c)
  /\ UNCHANGED <<par, exited, pc, serving, inhand, c2p, p2c, sent, got, reqlog, calls, idle, pclosed, faults, bg>>

ChildRefused(c) ==                       \* nobody listens any more
  /\ MayConnect(c) /\ exited
  /\ st' = [st EXCEPT ![c] = "eof"]
  /\ UNCHANGED <<par, exited, pc, serving, inhand, queue, c2p, p2c, sent, got, reqlog, calls, idle, pclosed, faults, bg>>

Unanswered(c) == Len(SelectSeq(sent[c], LAMBDA t : t # "bad")) - Len(got[c])

ChildSend(c, t) ==
  /\ NSent < MaxReq
  /\ \/ st[c] = "conn"
     \/ PipelinedChild /\ st[c] = "wait" /\ Unanswered(c) < 2
  /\ c2p' = [c2p EXCEPT ![c] = Append(@, t)]
  /\ sent' = [sent EXCEPT ![c] = Append(@, t)]
  /\ st' = [st EXCEPT ![c] = "wait"]
  /\ idle' = [idle EXCEPT ![c] = 0]
  /\ UNCHANGED <<par, exited, pc, serving, inhand, queue, p2c, got, reqlog, calls, pclosed, faults, bg>>

ChildSendBad(c) ==                       \* a frame the documented format rejects; nothing to wait for
  /\ st[c] = "conn" /\ NSent < MaxReq
  /\ c2p' = [c2p EXCEPT ![c] = Append(@, "bad")]
  /\ sent' = [sent EXCEPT ![c] = Append(@, "bad")]
  /\ idle' = [idle EXCEPT ![c] = 0]
  /\ UNCHANGED <<par, exited, pc, serving, inhand, queue, st, p2c, got, reqlog, calls, pclosed, faults, bg>>

ChildRecv(c) ==
  /\ st[c] = "wait" /\ p2c[c] # <<>>
  /\ got' = [got EXCEPT ![c] = Append(@, Head(p2c[c]))]
  /\ p2c' = [p2c EXCEPT ![c] = Tail(@)]
  /\ st' = [st EXCEPT ![c] = IF Unanswered(c) = 1 THEN "conn" ELSE "wait"]
  /\ UNCHANGED <<par, exited, pc, serving, inhand, queue, c2p, sent, reqlog, calls, idle, pclosed, faults, bg>>

ChildDrop(c) ==                          \* close / crash of the child at any point
  /\ st[c] \in {"conn", "wait"}
  /\ st' = [st EXCEPT ![c] = "gone"]
  /\ p2c' = [p2c EXCEPT ![c] = <<>>]
  /\ UNCHANGED <<par, exited, pc, serving, inhand, queue, c2p, sent, got, reqlog, calls, idle, pclosed, faults, bg>>

ChildPause(c) ==                         \* time passes: the child stays connected and silent
  /\ st[c] = "conn" /\ ~exited /\ idle[c] < MaxPause
  /\ idle' = [idle EXCEPT ![c] = @ + 1]
  /\ UNCHANGED <<par, exited, pc, serving, inhand, queue, st, c2p, p2c, sent, got, reqlog, calls, pclosed, faults, bg>>

ChildSeesEOF(c) ==                       \* the old process is gone (or closed this connection) and nothing is left to read
  /\ st[c] \in {"conn", "wait"} /\ (exited \/ pclosed[c]) /\ p2c[c] = <<>>
  /\ st' = [st EXCEPT ![c] = "eof"]
  /\ UNCHANGED <<par, exited, pc, serving, inhand, queue, c2p, p2c, sent, got, reqlog, calls, idle, pclosed, faults, bg>>

(* ------------------------------------------------------------------ parent *)
ParentAccept ==
  /\ ~exited /\ pc = "accept" /\ queue # <<>>
  /\ serving' = Head(queue) /\ queue' = Tail(queue) /\ pc' = "read"
  /\ UNCHANGED <<par, exited, inhand, st, c2p, p2c, sent, got, reqlog, calls, idle, pclosed, faults, bg>>

ParentRejectFrame ==                     \* readMessage fails: logged, loop continues (hotrestart.go:133-143)
  /\ ~exited /\ pc = "read" /\ c2p[serving] # <<>> /\ Head(c2p[serving]) = "bad"
  /\ c2p' = [c2p EXCEPT ![serving] = Tail(@)]
  /\ UNCHANGED <<par, exited, pc, serving, inhand, queue, st, p2c, sent, got, reqlog, calls, idle, pclosed, faults, bg>>

ParentRead ==
  /\ ~exited /\ pc = "read" /\ c2p[serving] # <<>> /\ Head(c2p[serving]) # "bad"
  /\ LET t == Head(c2p[serving]) IN
       /\ inhand' = t
       /\ reqlog' = Append(reqlog, <<serving, t>>)
       /\ IF AsyncDrain /\ t = "drain" /\ bg = <<>>
            THEN pc' = "read" /\ bg' = <<serving, "step">>
            ELSE pc' = (IF t \in CallSteps THEN "step" ELSE "reply") /\ bg' = bg
  /\ c2p' = [c2p EXCEPT ![serving] = Tail(@)]
  /\ UNCHANGED <<par, exited, serving, queue, st, p2c, sent, got, calls, idle, pclosed, faults>>

ParentEOF ==                             \* read returns end-of-stream: back to accept
  /\ ReturnOnEOF
  /\ ~exited /\ pc = "read" /\ c2p[serving] = <<>> /\ st[serving] = "gone"
  /\ pc' = "accept" /\ serving' = 0 /\ inhand' = ""
  /\ UNCHANGED <<par, exited, queue, st, c2p, p2c, sent, got, reqlog, calls, idle, pclosed, faults, bg>>

ParentIdleClose ==                       \* only with a finite IdleLimit: give up on a silent child
  /\ IdleLimit > 0
  /\ ~exited /\ pc = "read" /\ c2p[serving] = <<>> /\ st[serving] = "conn" /\ idle[serving] >= IdleLimit
  /\ pclosed' = [pclosed EXCEPT ![serving] = TRUE]
  /\ pc' = "accept" /\ serving' = 0 /\ inhand' = ""
  /\ UNCHANGED <<par, exited, queue, st, c2p, p2c, sent, got, reqlog, calls, idle, faults, bg>>

AcceptFault ==                           \* environment: accept fails transiently while a child is connecting
  /\ ~exited /\ pc = "accept" /\ queue # <<>> /\ faults < MaxFaults
  /\ faults' = faults + 1
  /\ pc' = IF AcceptSurvives THEN "accept" ELSE "stopped"
  /\ UNCHANGED <<par, exited, serving, inhand, queue, st, c2p, p2c, sent, got, reqlog, calls, idle, pclosed, bg>>

BgStep ==                                \* only with AsyncDrain: the drain, beside the serving loop
  /\ ~exited /\ bg # <<>> /\ bg[2] = "step"
  /\ calls' = Append(calls, "drain")
  /\ par' = [par EXCEPT !.accepting = FALSE]
  /\ bg' = <<bg[1], "reply">>
  /\ UNCHANGED <<exited, pc, serving, inhand, queue, st, c2p, p2c, sent, got, reqlog, idle, pclosed, faults>>

BgReply ==
  /\ ~exited /\ bg # <<>> /\ bg[2] = "reply"
  /\ p2c' = IF st[bg[1]] = "gone" THEN p2c ELSE [p2c EXCEPT ![bg[1]] = Append(@, "drainReply")]
  /\ bg' = <<>>
  /\ UNCHANGED <<par, exited, pc, serving, inhand, queue, st, c2p, sent, got, reqlog, calls, idle, pclosed, faults>>

ParentStep ==
  /\ ~exited /\ pc = "step"
  /\ calls' = Append(calls, inhand)
  /\ par' = CASE inhand = "admin" -> [par EXCEPT !.admin = FALSE]
              [] inhand = "conf"  -> [par EXCEPT !.conf = FALSE]
              [] OTHER            -> [par EXCEPT !.accepting = FALSE]
  /\ pc' = "reply"
  /\ UNCHANGED <<exited, serving, inhand, queue, st, c2p, p2c, sent, got, reqlog, idle, pclosed, faults, bg>>

ParentReply ==                           \* a reply to a vanished child is lost (EPIPE ignored)
  /\ ~exited /\ pc = "reply"
  /\ p2c' = IF st[serving] = "gone" THEN p2c ELSE [p2c EXCEPT ![serving] = Append(@, Reply(inhand))]
  /\ pc' = IF inhand = "term" THEN "kill" ELSE "read"
  /\ UNCHANGED <<par, exited, serving, inhand, queue, st, c2p, sent, got, reqlog, calls, idle, pclosed, faults, bg>>

ParentKill ==                            \* kill(getpid(), SIGTERM) after the reply
  /\ ~exited /\ pc = "kill"
  /\ calls' = Append(calls, "term")
  /\ par' = [par EXCEPT !.terminated = TRUE]
  /\ pc' = "read"
  /\ UNCHANGED <<exited, serving, inhand, queue, st, c2p, p2c, sent, got, reqlog, idle, pclosed, faults, bg>>

ParentExit ==                            \* the signalled process shuts down, at any later moment
  /\ ~exited /\ par.terminated
  /\ exited' = TRUE
  /\ UNCHANGED <<par, pc, serving, inhand, queue, st, c2p, p2c, sent, got, reqlog, calls, idle, pclosed, faults, bg>>

ParentNext == ParentAccept \/ ParentRejectFrame \/ ParentRead \/ ParentEOF \/ ParentIdleClose
              \/ ParentStep \/ ParentReply \/ ParentKill \/ BgStep \/ BgReply
ParentCanMove == ENABLED ParentNext

ChildNext(c) ==
  \/ ChildConnect(c) \/ ChildRefused(c) \/ (\E t \in Requests : ChildSend(c, t)) \/ ChildSendBad(c)
  \/ ChildRecv(c) \/ ChildDrop(c) \/ ChildSeesEOF(c) \/ ChildPause(c)

Next == ParentNext \/ ParentExit \/ AcceptFault \/ (\E c \in Children : ChildNext(c))

Fairness ==
  /\ WF_vars(ParentNext)
  /\ \A c \in Children : WF_vars(ChildRecv(c)) /\ WF_vars(ChildSeesEOF(c))

Spec == Init /\ [][Next]_vars /\ Fairness

(* ------------------------------------------------------------------ properties *)
RECURSIVE StepsOf(_)
StepsOf(s) == IF s = <<>> THEN <<>>
              ELSE (IF Head(s)[2] = "unknown" THEN <<>> ELSE <<Head(s)[2]>>) \o StepsOf(Tail(s))

RECURSIVE Proj(_, _)
Proj(s, c) == IF s = <<>> THEN <<>>
              ELSE (IF Head(s)[1] = c THEN <<Head(s)[2]>> ELSE <<>>) \o Proj(Tail(s), c)

IsPrefix(a, b) == Len(a) <= Len(b) /\ SubSeq(b, 1, Len(a)) = a
Good(s) == SelectSeq(s, LAMBDA t : t # "bad")      \* the well-formed requests of a child, in order

\* step of the request in hand that has not been performed yet
\* (with AsyncDrain: the drain running beside the loop was requested before whatever the loop has in hand)
Pending == (IF bg # <<>> /\ bg[2] = "step" THEN <<"drain">> ELSE <<>>)
           \o (IF pc = "step" \/ (pc \in {"reply", "kill"} /\ inhand = "term") THEN <<inhand>> ELSE <<>>)

TypeOK ==
  /\ pc \in {"accept", "read", "step", "reply", "kill", "stopped"}
  /\ \A c \in Children : idle[c] \in 0..MaxPause
  /\ faults \in 0..MaxFaults
  /\ serving \in Children \cup {0} /\ inhand \in Requests \cup {""}
  /\ \A i \in 1..Len(reqlog) : reqlog[i][2] \in Requests        \* a malformed frame is never taken for a request
  /\ \A c \in Children : st[c] \in {"init", "conn", "wait", "gone", "eof"}
  /\ NSent <= MaxReq

\* each requested step is performed once per request, in the order the requests arrived,
\* and the requests arrive in the order each child sent them
StepOncePerRequestInOrder ==
  /\ calls \o Pending = StepsOf(reqlog)
  /\ \A c \in Children : IsPrefix(Proj(reqlog, c), Good(sent[c]))

\* the i-th reply a child gets is the reply to its i-th well-formed request (malformed frames get none);
\* a child that keeps its connection loses it - and with it the acknowledgement of what it sends next - only
\* because the old process exited, however long it was silent in between
AckMatches ==
  \A c \in Children :
     /\ Len(got[c]) + Len(p2c[c]) <= Len(Good(sent[c]))
     /\ \A i \in 1..Len(got[c]) : got[c][i] = Reply(Good(sent[c])[i])
     /\ (st[c] = "eof" => exited)

UnknownGetsUnknown ==
  \A c \in Children : \A i \in 1..Len(got[c]) :
     (Good(sent[c])[i] = "unknown") <=> (got[c][i] = "unknownReply")

\* an acknowledged call-step has been performed before its reply was sent
AckAfterStep ==
  \A c \in Children :
     LET acked == SubSeq(Good(sent[c]), 1, Len(got[c]) + Len(p2c[c]))
         n(s)  == Cardinality({i \in 1..Len(acked) : acked[i] = s})
         m(s)  == Cardinality({i \in 1..Len(calls) : calls[i] = s})
     IN \A s \in CallSteps : n(s) <= m(s)

\* the abstract state of the old process is the effect of the performed steps
StateIsEffect ==
  LET did(s) == \E i \in 1..Len(calls) : calls[i] = s IN
  /\ par.admin = ~did("admin") /\ par.conf = ~did("conf")
  /\ par.accepting = ~did("drain") /\ par.terminated = did("term")
  /\ (exited => par.terminated)

\* a child whose predecessors are all gone gets every request answered (or sees the old process exit)
LaterChildCompletes ==
  \A c \in Children :
     (st[c] = "wait" /\ \A d \in Children : d < c => Ended(d)) ~> (st[c] # "wait")

\* and without liveness: in such a state something can always move
NoStuckChild ==
  \A c \in Children :
     (st[c] = "wait" /\ \A d \in Children : d < c => Ended(d)) =>
        (ParentCanMove \/ ENABLED ChildRecv(c) \/ ENABLED ChildSeesEOF(c))
=============================================================================
