\* defect variant: the serving loop does not return at end-of-stream; NoStuckChild / LaterChildCompletes must be violated
SPECIFICATION Spec
CONSTANTS
  Children = {1, 2}
  MaxReq = 3
  Overlap = TRUE
  ReturnOnEOF = FALSE
  MaxPause = 0
  IdleLimit = 0
  MaxFaults = 0
  AcceptSurvives = TRUE
  PipelinedChild = FALSE
  AsyncDrain = FALSE
INVARIANTS TypeOK StepOncePerRequestInOrder AckMatches UnknownGetsUnknown AckAfterStep StateIsEffect NoStuckChild
PROPERTIES LaterChildCompletes
CHECK_DEADLOCK FALSE
