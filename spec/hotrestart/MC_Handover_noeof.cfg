SPECIFICATION Spec
CONSTANTS
  Children = {1, 2}
  MaxReq = 3
  Overlap = TRUE
  ReturnOnEOF = FALSE
INVARIANTS TypeOK StepOncePerRequestInOrder AckMatches UnknownGetsUnknown AckAfterStep StateIsEffect NoStuckChild
PROPERTIES LaterChildCompletes
CHECK_DEADLOCK FALSE
