------------------------------ MODULE FrameSeq ------------------------------
(***************************************************************************)
(* The receive side as a SEQUENCE of reads (rpc.go:154-173).               *)
(*                                                                         *)
(* Every read takes one frame off some control connection into a receive   *)
(* buffer and hands a message to the caller.  The caller keeps messages    *)
(* (the serving loop passes msg.Data to a handler; the child side may look *)
(* at a reply later).  "Every frame round-trips exactly (type, length,     *)
(* payload)" is a statement about the message the caller holds, for as     *)
(* long as it holds it: at the END of any sequence of reads every message  *)
(* received so far must still equal the frame that was sent.               *)
(*                                                                         *)
(* The code allocates a fresh buffer per read (Alias = FALSE).  A receive  *)
(* buffer that is reused while a message still points into it              *)
(* (Alias = TRUE: buffers come from a pool of PoolSize) must violate       *)
(* ResultsStable.                                                          *)
(***************************************************************************)
EXTENDS Integers, Sequences, FiniteSets

CONSTANTS Frames,     \* identities of the frames sent (type, length, payload stand behind an identity)
          Conns,      \* control connections the frames arrive on
          MaxReads,   \* length of the sequence of reads
          Alias,      \* TRUE: the message handed out points into the receive buffer it was read into
          PoolSize    \* number of receive buffers that are reused (only with Alias)

VARIABLES buffers,   \* content of each pooled receive buffer: a frame identity or 0
          results,   \* messages held by the callers: [conn, sent (frame that was sent), val (frame content) or buf (buffer index)]
          next       \* which pooled buffer the next read takes (round robin: a Put followed by a Get)

vars == <<buffers, results, next>>

Init == buffers = [i \in 1..PoolSize |-> 0] /\ results = <<>> /\ next = 1

Read(c, f) ==
  /\ Len(results) < MaxReads
  /\ IF Alias
       THEN /\ buffers' = [buffers EXCEPT ![next] = f]
            /\ results' = Append(results, [conn |-> c, sent |-> f, val |-> 0, buf |-> next])
            /\ next' = (next % PoolSize) + 1
       ELSE /\ results' = Append(results, [conn |-> c, sent |-> f, val |-> f, buf |-> 0])
            /\ UNCHANGED <<buffers, next>>

Next == \E c \in Conns, f \in Frames : Read(c, f)
Spec == Init /\ [][Next]_vars

\* what the caller sees when it looks at message i NOW
Seen(i) == IF results[i].buf = 0 THEN results[i].val ELSE buffers[results[i].buf]

\* at the end of every sequence of reads, every message still equals the frame that was sent
ResultsStable == \A i \in 1..Len(results) : Seen(i) = results[i].sent
=============================================================================
