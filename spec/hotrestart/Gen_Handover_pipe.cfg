\* one child, <= 3 requests, the next request written while the parent is inside a step (pipelined child)
SPECIFICATION GenSpec
CONSTANTS
  Children = {1}
  MaxReq = 3
  Overlap = FALSE
  ReturnOnEOF = TRUE
  MaxPause = 0
  IdleLimit = 0
  MaxFaults = 0
  AcceptSurvives = TRUE
  PipelinedChild = TRUE
  AsyncDrain = FALSE
  Drops = FALSE
  Exits = FALSE
  Pauses = FALSE
  Faults = FALSE
  Pipelines = TRUE
CHECK_DEADLOCK FALSE
