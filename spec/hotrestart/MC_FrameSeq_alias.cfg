\* defect variant: the message points into a pooled receive buffer that the next read reuses; ResultsStable must be violated
SPECIFICATION Spec
CONSTANTS
  Frames = {1, 2, 3}
  Conns = {1, 2}
  MaxReads = 4
  Alias = TRUE
  PoolSize = 2
INVARIANTS ResultsStable
CHECK_DEADLOCK FALSE
