\* defect variant: the drain step and its reply run beside the serving loop; with a pipelined child StepOncePerRequestInOrder / AckMatches must be violated (a later request is performed and acknowledged first)
SPECIFICATION Spec
CONSTANTS
  Children = {1, 2}
  MaxReq = 2
  Overlap = TRUE
  ReturnOnEOF = TRUE
  MaxPause = 1
  IdleLimit = 0
  MaxFaults = 1
  AcceptSurvives = TRUE
  PipelinedChild = TRUE
  AsyncDrain = TRUE
INVARIANTS TypeOK StepOncePerRequestInOrder AckMatches UnknownGetsUnknown AckAfterStep StateIsEffect NoStuckChild
PROPERTIES LaterChildCompletes
CHECK_DEADLOCK FALSE
