\* two children, <= 2 requests, drops, one transient accept failure at the moment a child connects
SPECIFICATION GenSpec
CONSTANTS
  Children = {1, 2}
  MaxReq = 2
  Overlap = FALSE
  ReturnOnEOF = TRUE
  MaxPause = 0
  IdleLimit = 0
  MaxFaults = 1
  AcceptSurvives = TRUE
  PipelinedChild = FALSE
  AsyncDrain = FALSE
  Drops = TRUE
  Exits = FALSE
  Pauses = FALSE
  Faults = TRUE
  Pipelines = FALSE
CHECK_DEADLOCK FALSE
