\* defect variant: the accept loop exits on a transient accept failure; NoStuckChild / LaterChildCompletes must be violated
SPECIFICATION Spec
CONSTANTS
  Children = {1, 2}
  MaxReq = 2
  Overlap = TRUE
  ReturnOnEOF = TRUE
  MaxPause = 1
  IdleLimit = 0
  MaxFaults = 1
  AcceptSurvives = FALSE
  PipelinedChild = TRUE
  AsyncDrain = FALSE
INVARIANTS TypeOK StepOncePerRequestInOrder AckMatches UnknownGetsUnknown AckAfterStep StateIsEffect NoStuckChild
PROPERTIES LaterChildCompletes
CHECK_DEADLOCK FALSE
