\* two children, <= 2 requests in total, drop at every point, exit of the signalled parent, second child afterwards
SPECIFICATION GenSpec
CONSTANTS
  Children = {1, 2}
  MaxReq = 2
  Overlap = FALSE
  ReturnOnEOF = TRUE
  MaxPause = 0
  IdleLimit = 0
  MaxFaults = 0
  AcceptSurvives = TRUE
  PipelinedChild = FALSE
  AsyncDrain = FALSE
  Drops = TRUE
  Exits = TRUE
  Pauses = FALSE
  Faults = FALSE
  Pipelines = FALSE
CHECK_DEADLOCK FALSE
