\* defect variant: the parent closes a connection that was silent for one pause unit; AckMatches must be violated (the request after the pause is never acknowledged: the child sees the end of the stream although the old process lives)
SPECIFICATION Spec
CONSTANTS
  Children = {1, 2}
  MaxReq = 2
  Overlap = TRUE
  ReturnOnEOF = TRUE
  MaxPause = 1
  IdleLimit = 1
  MaxFaults = 1
  AcceptSurvives = TRUE
  PipelinedChild = TRUE
  AsyncDrain = FALSE
INVARIANTS TypeOK StepOncePerRequestInOrder AckMatches UnknownGetsUnknown AckAfterStep StateIsEffect NoStuckChild
PROPERTIES LaterChildCompletes
CHECK_DEADLOCK FALSE
