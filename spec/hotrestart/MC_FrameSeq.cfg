\* the code: a fresh receive buffer per read; all sequences of 4 reads of 3 frames on 2 connections
SPECIFICATION Spec
CONSTANTS
  Frames = {1, 2, 3}
  Conns = {1, 2}
  MaxReads = 4
  Alias = FALSE
  PoolSize = 2
INVARIANTS ResultsStable
CHECK_DEADLOCK FALSE
