\* one-character repair (b[3:n], comparison still "<") judged under the lenient policy TrailingOK = TRUE:
\* conforms and never panics; under TrailingOK = FALSE it still accepts units with trailing bytes
SPECIFICATION Spec
CONSTANTS
  ReadSize = 4096
  TypeSet = {0, 1, 2, 3, 4, 5, 6, 7, 8, 9, 10, 255}
  LenSet = {0, 1, 2, 3, 255, 256, 258, 513, 4092, 4093, 4094, 4095, 65535}
  TrailingOK = TRUE
  ImplLenCheck = "onechar"
INVARIANTS TypeOK HeaderRoundTrip RoundTrip RejectMalformed ImplConforms ImplNeverPanics
CHECK_DEADLOCK FALSE
