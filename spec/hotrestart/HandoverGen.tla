----------------------------- MODULE HandoverGen -----------------------------
(***************************************************************************)
(* Behaviour emitter for Handover.  Same actions plus a history of events; *)
(* run exhaustively: every maximal behaviour (all children ended, parent   *)
(* idle) is printed once as a JSON line by Finish.                         *)
(*                                                                         *)
(* Partial-order reduction for emission only (the exhaustive check of the  *)
(* properties uses Handover.tla with every interleaving): the parent's     *)
(* deterministic internal steps run eagerly; the only thing allowed to     *)
(* interleave with them is the drop of the connection being served, which  *)
(* is exactly "child connection drop at any point":                        *)
(*    before the request is read / after read, before the step /           *)
(*    after the step, before the reply / reply sent but unread / idle.     *)
(* Events: a = connect|refused|send|sendbad|recv|drop|eof (child c, x =     *)
(* request or reply) and accept|read|reject|peof|step|reply|kill|exit;     *)
(* environment: pause (child c silent for a long time), acceptfault.       *)
(***************************************************************************)
EXTENDS Handover, Json

CONSTANTS Drops,   \* TRUE: drop at any point; FALSE: a child only closes when idle (all request sequences, no faults)
          Exits,   \* TRUE: the signalled parent may exit while a child is still there
          Pauses,  \* TRUE: the served child may stay silent for a long time between two requests (event "pause")
          Faults,  \* TRUE: accept may fail transiently while a child is connecting (event "acceptfault")
          Pipelines \* TRUE: the served child may write its next request while the parent is inside a step (needs PipelinedChild)

VARIABLES hist, finished
gvars == <<vars, hist, finished>>

Ev(a, c, x) == [a |-> a, c |-> c, x |-> x]
Log(a, c, x) == hist' = Append(hist, Ev(a, c, x))
\* steps also carry the abstract state of the old process after the step (compared with the real binary's
\* observable state in the end-to-end replay: admin port, listening socket, process alive)
LogP(a, c, x) == hist' = Append(hist, [a |-> a, c |-> c, x |-> x, p |-> par'])

GenInit == Init /\ hist = <<>> /\ finished = FALSE

Quiet == ~ParentCanMove

AllEnded == \A c \in Children : Ended(c)

Finish ==
  /\ ~finished /\ AllEnded /\ Quiet
  /\ PrintT("@@BEH " \o ToJson(hist))
  /\ finished' = TRUE
  /\ UNCHANGED <<vars, hist>>

GenNext ==
  /\ ~finished
  /\ \/ ParentAccept /\ Log("accept", Head(queue), "")
     \/ ParentRejectFrame /\ Log("reject", serving, "")
     \/ ParentRead /\ Log("read", serving, Head(c2p[serving]))
     \/ ParentEOF /\ Log("peof", serving, "")
     \/ ParentStep /\ LogP("step", serving, inhand)
     \/ ParentReply /\ Log("reply", serving, Reply(inhand))
     \/ ParentKill /\ LogP("kill", serving, "term")
     \/ Faults /\ AcceptFault /\ Log("acceptfault", Head(queue), "")
     \/ Exits /\ Quiet /\ (\E c \in Children : ~Ended(c)) /\ ParentExit /\ Log("exit", 0, "")
     \/ \E c \in Children :
          \/ Quiet /\ ChildConnect(c) /\ Log("connect", c, "")
          \/ Quiet /\ ChildRefused(c) /\ Log("refused", c, "")
          \/ Quiet /\ st[c] = "conn" /\ (\E t \in Requests : ChildSend(c, t) /\ Log("send", c, t))
          \* pipelined: written while the parent is inside the step of the previous request (the replayer holds it there)
          \/ Pipelines /\ pc = "step" /\ c = serving /\ st[c] = "wait"
               /\ (\E t \in Requests : ChildSend(c, t) /\ Log("send", c, t))
          \* only on the connection being served: a malformed unit gets no reply, so the replayer can only
          \* tell that it was read (one frame = one read unit) when the parent is reading this connection
          \/ Quiet /\ c = serving /\ ChildSendBad(c) /\ Log("sendbad", c, "")
          \/ Quiet /\ ChildRecv(c) /\ Log("recv", c, Head(p2c[c]))
          \/ Quiet /\ ChildSeesEOF(c) /\ Log("eof", c, "")
          \/ Pauses /\ Quiet /\ c = serving /\ ChildPause(c) /\ Log("pause", c, "")
          \/ (IF Drops THEN (Quiet \/ c = serving) ELSE (Quiet /\ st[c] = "conn")) /\ ChildDrop(c) /\ Log("drop", c, "")
  /\ UNCHANGED finished

GenSpec == GenInit /\ [][GenNext \/ Finish]_gvars
=============================================================================
