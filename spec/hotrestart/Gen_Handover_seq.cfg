\* all request sequences of length <= 5 by one child, no faults
SPECIFICATION GenSpec
CONSTANTS
  Children = {1}
  MaxReq = 5
  Overlap = FALSE
  ReturnOnEOF = TRUE
  MaxPause = 0
  IdleLimit = 0
  MaxFaults = 0
  AcceptSurvives = TRUE
  PipelinedChild = FALSE
  AsyncDrain = FALSE
  Drops = FALSE
  Exits = FALSE
  Pauses = FALSE
  Faults = FALSE
  Pipelines = FALSE
CHECK_DEADLOCK FALSE
