\* all request sequences of length <= 5 by one child, no faults
SPECIFICATION GenSpec
CONSTANTS
  Children = {1}
  MaxReq = 5
  Overlap = FALSE
  ReturnOnEOF = TRUE
  Drops = FALSE
  Exits = FALSE
CHECK_DEADLOCK FALSE
