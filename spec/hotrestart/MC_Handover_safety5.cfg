\* exhaustive, every interleaving: two children, <= 5 requests in total (incl. malformed), overlap, safety only (2.7 M states)
SPECIFICATION Spec
CONSTANTS
  Children = {1, 2}
  MaxReq = 5
  Overlap = TRUE
  ReturnOnEOF = TRUE
  MaxPause = 0
  IdleLimit = 0
  MaxFaults = 0
  AcceptSurvives = TRUE
  PipelinedChild = FALSE
  AsyncDrain = FALSE
INVARIANTS TypeOK StepOncePerRequestInOrder AckMatches UnknownGetsUnknown AckAfterStep StateIsEffect NoStuckChild
CHECK_DEADLOCK FALSE
