SPECIFICATION Spec
CONSTANTS
  Children = {1, 2}
  MaxReq = 5
  Overlap = TRUE
  ReturnOnEOF = TRUE
INVARIANTS TypeOK StepOncePerRequestInOrder AckMatches UnknownGetsUnknown AckAfterStep StateIsEffect NoStuckChild
CHECK_DEADLOCK FALSE
