\* exhaustive, every interleaving: two children, <= 5 requests in total (incl. malformed), overlap, safety only (2.7 M states)
SPECIFICATION Spec
CONSTANTS
  Children = {1, 2}
  MaxReq = 5
  Overlap = TRUE
  ReturnOnEOF = TRUE
INVARIANTS TypeOK StepOncePerRequestInOrder AckMatches UnknownGetsUnknown AckAfterStep StateIsEffect NoStuckChild
CHECK_DEADLOCK FALSE
