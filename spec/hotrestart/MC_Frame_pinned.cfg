\* the pinned readMessage (length check against b[2:n]) even under the lenient policy: ImplConforms must be violated
\* (a unit declaring one byte more than it carries is accepted) and, run with -continue, ImplNeverPanics too
\* (a full read unit declaring 4094 bytes)
SPECIFICATION Spec
CONSTANTS
  ReadSize = 4096
  TypeSet = {0, 1, 2, 3, 4, 5, 6, 7, 8, 9, 10, 255}
  LenSet = {0, 1, 2, 3, 255, 256, 258, 513, 4092, 4093, 4094, 4095, 65535}
  TrailingOK = TRUE
  ImplLenCheck = "pinned"
INVARIANTS TypeOK HeaderRoundTrip RoundTrip RejectMalformed ImplConforms ImplNeverPanics
CHECK_DEADLOCK FALSE
