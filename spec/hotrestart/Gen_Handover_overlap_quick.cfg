\* second child connects while the first is still connected (waits in the accept queue)
SPECIFICATION GenSpec
CONSTANTS
  Children = {1, 2}
  MaxReq = 1
  Overlap = TRUE
  ReturnOnEOF = TRUE
  Drops = TRUE
  Exits = FALSE
CHECK_DEADLOCK FALSE
