\* second child connects while the first is still connected (waits in the accept queue)
SPECIFICATION GenSpec
CONSTANTS
  Children = {1, 2}
  MaxReq = 1
  Overlap = TRUE
  ReturnOnEOF = TRUE
  MaxPause = 0
  IdleLimit = 0
  MaxFaults = 0
  AcceptSurvives = TRUE
  PipelinedChild = FALSE
  AsyncDrain = FALSE
  Drops = TRUE
  Exits = FALSE
  Pauses = FALSE
  Faults = FALSE
  Pipelines = FALSE
CHECK_DEADLOCK FALSE
