\* code -> spec: recorded runs of the real Restarter must be behaviours of Handover
SPECIFICATION TraceSpec
CONSTANTS
  Children = {1, 2, 3}
  MaxReq = 1000000
  Overlap = TRUE
  ReturnOnEOF = TRUE
  MaxPause = 1000000
  IdleLimit = 0
  MaxFaults = 1000000
  AcceptSurvives = TRUE
  PipelinedChild = TRUE
  AsyncDrain = FALSE
INVARIANTS Track StepOncePerRequestInOrder AckMatches UnknownGetsUnknown AckAfterStep StateIsEffect
POSTCONDITION TraceAccepted
CHECK_DEADLOCK FALSE
