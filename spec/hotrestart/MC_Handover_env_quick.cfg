\* exhaustive with the environment: pauses between requests and one transient accept failure, <= 2 requests, safety + liveness
SPECIFICATION Spec
CONSTANTS
  Children = {1, 2}
  MaxReq = 2
  Overlap = TRUE
  ReturnOnEOF = TRUE
  MaxPause = 1
  IdleLimit = 0
  MaxFaults = 1
  AcceptSurvives = TRUE
  PipelinedChild = TRUE
  AsyncDrain = FALSE
INVARIANTS TypeOK StepOncePerRequestInOrder AckMatches UnknownGetsUnknown AckAfterStep StateIsEffect NoStuckChild
PROPERTIES LaterChildCompletes
CHECK_DEADLOCK FALSE
