---------------------------- MODULE HandoverTrace ----------------------------
(***************************************************************************)
(* Trace specification (code -> spec): the events recorded while the real  *)
(* hotrestart.Restarter served scripted children (trace.json, an array)    *)
(* must be a behaviour of Handover.                                        *)
(*                                                                         *)
(* Observable events                                                       *)
(*   connect/refused/send/sendbad/recv/drop/eof  child c (x = request/reply)*)
(*   call   x = admin|conf|drain : the recording Instance was called       *)
(*          x = term             : the process got SIGTERM / kill was called*)
(*   exit   the driver made the parent shut down (what main does on SIGTERM)*)
(*   pause  child c stayed silent on its connection for a long time         *)
(*   acceptfault  the driver made accept fail transiently (no descriptors)  *)
(*   reset  a fresh parent (next recorded run)                             *)
(* The parent's accept / read / end-of-stream / reply steps are not        *)
(* observable; they may happen between events (l unchanged).               *)
(***************************************************************************)
EXTENDS Handover, Json, TLCExt

TraceLog == TLCEval(JsonDeserialize("trace.json"))

\* Children is given in the configuration ({1, 2, 3}: two scripted children and the later child of the
\* replayer's epilogue).  Deriving it from TraceLog through a CONSTANT <- substitution re-reads the file for every
\* reference (minutes for 30 k events).

VARIABLE l
tvars == <<vars, l>>

TraceInit == Init /\ l = 1

Reset ==
  /\ par' = [admin |-> TRUE, conf |-> TRUE, accepting |-> TRUE, terminated |-> FALSE]
  /\ exited' = FALSE /\ pc' = "accept" /\ serving' = 0 /\ inhand' = "" /\ queue' = <<>>
  /\ st' = [c \in Children |-> "init"]
  /\ c2p' = [c \in Children |-> <<>>] /\ p2c' = [c \in Children |-> <<>>]
  /\ sent' = [c \in Children |-> <<>>] /\ got' = [c \in Children |-> <<>>]
  /\ reqlog' = <<>> /\ calls' = <<>>
  /\ idle' = [c \in Children |-> 0] /\ pclosed' = [c \in Children |-> FALSE] /\ faults' = 0 /\ bg' = <<>>

Hidden == ParentAccept \/ ParentRejectFrame \/ ParentRead \/ ParentEOF \/ ParentReply

Visible(e) ==
  \/ e.a = "connect" /\ ChildConnect(e.c)
  \/ e.a = "refused" /\ ChildRefused(e.c)
  \/ e.a = "send"    /\ ChildSend(e.c, e.x)
  \/ e.a = "sendbad" /\ ChildSendBad(e.c)
  \/ e.a = "recv"    /\ ChildRecv(e.c) /\ Head(p2c[e.c]) = e.x
  \/ e.a = "drop"    /\ ChildDrop(e.c)
  \/ e.a = "eof"     /\ ChildSeesEOF(e.c)
  \/ e.a = "call"    /\ e.x \in CallSteps /\ ParentStep /\ inhand = e.x
  \/ e.a = "call"    /\ e.x = "term" /\ ParentKill
  \/ e.a = "exit"    /\ ParentExit
  \/ e.a = "pause"   /\ ChildPause(e.c)
  \/ e.a = "acceptfault" /\ AcceptFault
  \/ e.a = "reset"   /\ Reset

TraceNext ==
  /\ l <= Len(TraceLog)
  /\ \/ Hidden /\ l' = l
     \/ /\ Visible(TraceLog[l])
        /\ l' = l + 1
        /\ (l' = Len(TraceLog) + 1 => PrintT("@@ACCEPTED"))

TraceSpec == TraceInit /\ [][TraceNext]_tvars

\* remembers the furthest event reached (register 1 of the single worker)
ASSUME TLCSet(1, 0)
Track == IF l > TLCGet(1) THEN TLCSet(1, l) ELSE TRUE

TraceAccepted ==
  LET d == TLCGet(1) IN
  IF d = Len(TraceLog) + 1 THEN TRUE
  ELSE Print(<<"@@REJECT", d, IF d >= 1 /\ d <= Len(TraceLog) THEN TraceLog[d] ELSE "end">>, FALSE)
=============================================================================
