------------------------------ MODULE FrameGen ------------------------------
(***************************************************************************)
(* Vector emitter for Frame: one line per wire unit with the outcome the   *)
(* documented format demands, one line with the defined messages (round    *)
(* trip through the package's own constructors) and one line with the      *)
(* sender-side messages (round trip through sendMessage/readMessage).      *)
(***************************************************************************)
EXTENDS Frame, Json

VecOut(w) ==
  [type |-> w.type, hdr |-> w.hdr, hi |-> Hi(w), lo |-> Lo(w),
   declared |-> w.declared, carried |-> w.carried, fill |-> w.fill,
   size |-> Size(w), seen |-> Seen(w), cls |-> Class(w), expect |-> Expected(w),
   pinned |-> ImplDecode(w).res]

\* sender-side messages: struct (type, Len = len(Data) = l, fill) sent by sendMessage
RTOut(t, l) ==
  LET m == [type |-> t, len |-> l, fill |-> PatternOf(t, l, l)] IN
  [type |-> t, len |-> l, fill |-> m.fill, hi |-> Hi(Encode(m)), lo |-> Lo(Encode(m)),
   expect |-> Expected(Encode(m))]

RTLens == {l \in LenSet : l <= MaxLen}

GenInit ==
  /\ v \in Vectors
  /\ PrintT("@@VEC " \o ToJson(VecOut(v)))

GenSpec == GenInit /\ [][Next]_v

DefinedOut(i) ==
  LET m == [type |-> Defined[i].type, len |-> PayloadLen(Defined[i].payload), fill |-> 0] IN
  [name |-> Defined[i].name, type |-> m.type, payload |-> Defined[i].payload, len |-> m.len,
   hi |-> Hi(Encode(m)), lo |-> Lo(Encode(m)), expect |-> Expected(Encode(m))]

ASSUME PrintT("@@DEFINED " \o ToJson([i \in 1..Len(Defined) |-> DefinedOut(i)]))
ASSUME PrintT("@@RT " \o ToJson({RTOut(t, l) : t \in {1, 9, 10, 255}, l \in RTLens}))
=============================================================================
