------------------------------ MODULE FrameGen ------------------------------
(***************************************************************************)
(* Vector emitter for Frame: one line per wire unit with the outcome the   *)
(* documented format demands, one line with the defined messages (round    *)
(* trip through the package's own constructors) and one line with the      *)
(* sender-side messages (round trip through sendMessage/readMessage).      *)
(***************************************************************************)
EXTENDS Frame, Json

VecOut(w) ==
  [type |-> w.type, hdr |-> w.hdr, hi |-> Hi(w), lo |-> Lo(w),
   declared |-> w.declared, carried |-> w.carried, fill |-> w.fill,
   size |-> Size(w), seen |-> Seen(w), cls |-> Class(w), expect |-> Expected(w),
   pinned |-> ImplDecode(w).res]

\* sender-side messages: struct (type, Len = len(Data) = l, fill) sent by sendMessage
RTOut(t, l) ==
  LET m == [type |-> t, len |-> l, fill |-> PatternOf(t, l, l)] IN
  [type |-> t, len |-> l, fill |-> m.fill, hi |-> Hi(Encode(m)), lo |-> Lo(Encode(m)),
   expect |-> Expected(Encode(m))]

RTLens == {l \in LenSet : l <= MaxLen}

GenInit ==
  /\ v \in Vectors
  /\ PrintT("@@VEC " \o ToJson(VecOut(v)))

GenSpec == GenInit /\ [][Next]_v

DefinedOut(i) ==
  LET m == [type |-> Defined[i].type, len |-> PayloadLen(Defined[i].payload), fill |-> 0] IN
  [name |-> Defined[i].name, type |-> m.type, payload |-> Defined[i].payload, len |-> m.len,
   hi |-> Hi(Encode(m)), lo |-> Lo(Encode(m)), expect |-> Expected(Encode(m))]

ASSUME PrintT("@@DEFINED " \o ToJson([i \in 1..Len(Defined) |-> DefinedOut(i)]))
\* Outside the model's "one frame = one read unit": on a STREAM socket the bytes of an oversized frame beyond the
\* read size are what the next read returns.  One probe: an oversized frame whose payload carries, exactly at
\* the read boundary, a chunk that is by itself a well-formed full-size unit of type inner.  Emitted for the
\* replayer to OBSERVE what the second read makes of it (reported, not judged).
TailProbe(t, inner) ==
  [type |-> t, hi |-> 255, lo |-> 255, declared |-> MaxLen, carried |-> MaxLen, fill |-> 7,
   at |-> ReadSize - HeaderSize,                                   \* payload offset of the inner chunk
   inner |-> [type |-> inner, hi |-> (ReadSize - HeaderSize) \div 256, lo |-> (ReadSize - HeaderSize) % 256],
   first |-> Expected([type |-> t, hdr |-> HeaderSize, declared |-> MaxLen, carried |-> MaxLen, fill |-> 7])]

ASSUME PrintT("@@TAIL " \o ToJson({TailProbe(1, i) : i \in {7, 9}}))
ASSUME PrintT("@@RT " \o ToJson({RTOut(t, l) : t \in {1, 9, 10, 255}, l \in RTLens}))
=============================================================================
