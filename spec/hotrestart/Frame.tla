-------------------------------- MODULE Frame --------------------------------
(***************************************************************************)
(* Frame format of the hot-restart control channel                         *)
(* (cmd/samaritan/hotrestart/rpc.go:143-173).                              *)
(*                                                                         *)
(*   frame on the wire = type byte, 16 bit big-endian length, payload      *)
(*                                                                         *)
(* The receiver reads ONE unit of at most ReadSize (4096) bytes per call   *)
(* (rpc.go:155-156) and must decide from that unit alone.  A wire unit is  *)
(* described symbolically:                                                 *)
(*   type      the type byte (0..255)                                      *)
(*   hdr       how many of the three header bytes are present (0..3)       *)
(*   declared  the value of the length field (0..65535)                    *)
(*   carried   the number of payload bytes that follow the header          *)
(*   fill      payload byte i (0-based) is Fill(fill, i), never 0, so a    *)
(*             payload is (length, fill) and ToJson stays small            *)
(*                                                                         *)
(* Accept is the DOCUMENTED format: the whole header is there and the      *)
(* length field equals the number of payload bytes in the unit read.       *)
(* ImplDecode is a transcription of readMessage with the length check as a *)
(* parameter (pinned tree / one-character repair / exact repair); it is    *)
(* only used to show that the model exposes the defects (anti-vacuity) and *)
(* that the proposed repair conforms.  Verdicts about the real code come   *)
(* from replaying the vectors (FrameGen) through the real functions.       *)
(***************************************************************************)
EXTENDS Integers, Sequences, FiniteSets, TLC

CONSTANTS ReadSize,      \* 4096, receive buffer of readMessage
          TypeSet,       \* type bytes enumerated (0..10: 0 and 10 are unknown; 255)
          LenSet,        \* boundary partition for the declared length
          TrailingOK,    \* policy switch: FALSE = a unit carrying more than it declares is malformed
          ImplLenCheck   \* "pinned" | "onechar" | "exact"

HeaderSize == 3
MaxLen     == 65535
Min(a, b)  == IF a < b THEN a ELSE b

Fill(f, i) == 1 + ((f + i) % 255)          \* payload byte i of pattern f: 1..255, never 0

(* ------------------------------------------------------------------ messages *)
\* the messages the package defines (rpc.go:26-141): name, type, JSON payload
Defined == <<
  [name |-> "shutdownAdminReq",       type |-> 1, payload |-> "{}"],
  [name |-> "shutdownAdminReply",     type |-> 2, payload |-> "{}"],
  [name |-> "shutdownLocalConfReq",   type |-> 3, payload |-> "{}"],
  [name |-> "shutdownLocalConfReply", type |-> 4, payload |-> "{}"],
  [name |-> "drainListenersReq",      type |-> 5, payload |-> "{}"],
  [name |-> "drainListenersReply",    type |-> 6, payload |-> "{}"],
  [name |-> "terminateReq",           type |-> 7, payload |-> "{}"],
  [name |-> "terminateReply",         type |-> 8, payload |-> "{}"],
  [name |-> "unknownReply",           type |-> 9, payload |-> ""] >>

PayloadLen(s) == IF s = "" THEN 0 ELSE 2       \* "{}" or nothing

(* ------------------------------------------------------------------ wire units *)
\* header bytes of a unit, as the documented format lays them out (big endian)
Hi(w) == w.declared \div 256
Lo(w) == w.declared % 256
HeaderBytes(w) == SubSeq(<<w.type, Hi(w), Lo(w)>>, 1, w.hdr)

Size(w)        == w.hdr + w.carried                 \* bytes put on the wire
Seen(w)        == Min(Size(w), ReadSize)            \* bytes one read returns
SeenPayload(w) == IF Seen(w) < HeaderSize THEN 0 ELSE Seen(w) - HeaderSize

\* reading the header back (what a receiver computes from the three bytes)
DeclaredFrom(hi, lo) == hi * 256 + lo

WellTyped(w) ==
  /\ w.type \in 0..255 /\ w.hdr \in 0..HeaderSize
  /\ w.declared \in 0..MaxLen /\ w.carried \in 0..(MaxLen + 1)
  /\ (w.hdr < HeaderSize => w.carried = 0)

(* ------------------------------------------------------------------ the format *)
Accept(w) ==
  /\ w.hdr = HeaderSize
  /\ Seen(w) >= HeaderSize
  /\ IF TrailingOK THEN w.declared <= SeenPayload(w) ELSE w.declared = SeenPayload(w)

Reject == [res |-> "reject"]

\* expected outcome: accepted with exactly this type / length / payload, or rejected
Expected(w) ==
  IF Accept(w)
    THEN [res |-> "accept", type |-> w.type, len |-> DeclaredFrom(Hi(w), Lo(w)), fill |-> w.fill]
    ELSE Reject

\* encoder of the format: message (type, len, fill) -> wire unit
Encode(m) == [type |-> m.type, hdr |-> HeaderSize, declared |-> m.len, carried |-> m.len, fill |-> m.fill]
Fits(m)   == HeaderSize + m.len <= ReadSize

\* partition class of a unit (names the input class in reports)
Class(w) ==
  CASE w.hdr < HeaderSize                                  -> "no-header"
    [] Size(w) > ReadSize /\ w.declared = w.carried        -> "oversized"
    [] Size(w) > ReadSize                                  -> "oversized-mismatch"
    [] w.declared = w.carried                              -> "well-formed"
    [] w.declared = w.carried + 1                          -> "declared-plus-one"
    [] w.declared > w.carried                              -> "truncated"
    [] OTHER                                               -> "trailing-bytes"

(* ------------------------------------------------------------------ readMessage, transcribed *)
\* rpc.go:154-173.  b = make([]byte, 4096); n = bytes read;
\*   n < 3                          -> "invalid header"
\*   uint16(len(b[2:n])) < msg.Len  -> "incomplete data"     (pinned: b[2:n] has n-2 bytes)
\*   msg.Data = b[3 : 3+msg.Len]    -> panics when 3+Len > 4096; bytes beyond n are zero
ImplDecode(w) ==
  LET n == Seen(w) IN
  IF n < HeaderSize THEN Reject
  ELSE
    LET avail == IF ImplLenCheck = "pinned" THEN n - 2 ELSE n - HeaderSize
        short == IF ImplLenCheck = "exact" THEN avail # w.declared ELSE avail < w.declared
    IN IF short THEN Reject
       ELSE IF HeaderSize + w.declared > ReadSize THEN [res |-> "panic"]
       ELSE [res |-> "accept", type |-> w.type, len |-> w.declared, fill |-> w.fill,
             fromWire |-> Min(w.declared, n - HeaderSize),           \* payload bytes really received
             zeros    |-> w.declared - Min(w.declared, n - HeaderSize)] \* bytes never received

ImplMatches(w) ==
  LET e == Expected(w)
      i == ImplDecode(w)
  IN IF e.res = "reject" THEN i.res = "reject"
     ELSE /\ i.res = "accept" /\ i.type = e.type /\ i.len = e.len /\ i.fill = e.fill
          /\ i.zeros = 0 /\ i.fromWire = e.len

(* ------------------------------------------------------------------ enumeration *)
Carried(d) == {c \in LenSet \cup {d - 1, d, d + 1} : c >= 0 /\ c <= MaxLen + 1}

PatternOf(t, d, c) == (t * 17 + d + 3 * c) % 200

Units ==
  {[type |-> t, hdr |-> HeaderSize, declared |-> d, carried |-> c, fill |-> PatternOf(t, d, c)] :
      t \in TypeSet, d \in LenSet, c \in UNION {Carried(x) : x \in LenSet}}

FullUnits == {w \in Units : w.carried \in Carried(w.declared)}

\* units whose header is cut: 0, 1 or 2 bytes on the wire
ShortUnits ==
  {[type |-> t, hdr |-> h, declared |-> d, carried |-> 0, fill |-> 0] :
      t \in TypeSet, h \in 0..(HeaderSize - 1), d \in {0, 2, 258, MaxLen}}

Vectors == FullUnits \cup ShortUnits

VARIABLE v
Init == v \in Vectors
Next == UNCHANGED v
Spec == Init /\ [][Next]_v

(* ------------------------------------------------------------------ properties of the format *)
TypeOK == WellTyped(v)

\* the header round-trips through its byte representation
HeaderRoundTrip ==
  /\ Hi(v) \in 0..255 /\ Lo(v) \in 0..255
  /\ DeclaredFrom(Hi(v), Lo(v)) = v.declared

\* every message that fits the read size decodes to itself; one that does not fit is rejected
RoundTrip ==
  LET m == [type |-> v.type, len |-> v.declared, fill |-> v.fill] IN
  IF Fits(m) THEN Expected(Encode(m)) = [res |-> "accept", type |-> m.type, len |-> m.len, fill |-> m.fill]
             ELSE Expected(Encode(m)) = Reject

\* a unit is never accepted with other content: what is accepted re-encodes to the bytes that were read
RejectMalformed ==
  LET e == Expected(v) IN
  e.res = "accept" =>
     LET w2 == Encode([type |-> e.type, len |-> e.len, fill |-> e.fill]) IN
     /\ HeaderBytes(w2) = HeaderBytes(v)
     /\ w2.fill = v.fill
     /\ (IF TrailingOK THEN w2.carried <= SeenPayload(v) ELSE w2.carried = SeenPayload(v))

\* the nine defined messages are accepted by the format (constant-level: checked as an assumption)
ASSUME DefinedAccepted ==
  \A i \in 1..Len(Defined) :
     LET m == [type |-> Defined[i].type, len |-> PayloadLen(Defined[i].payload), fill |-> 0] IN
     Accept(Encode(m)) /\ Defined[i].type = i

\* the transcribed implementation agrees with the format (violated for "pinned" and "onechar")
ImplConforms == ImplMatches(v)
ImplNeverPanics == ImplDecode(v).res # "panic"
=============================================================================
