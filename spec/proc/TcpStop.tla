------------------------------- MODULE TcpStop -------------------------------
(***************************************************************************)
(* Composition model for C09: stopping a TCP processor (proc/tcp/proc.go   *)
(* Stop: health monitor, listener, wait) with one relayed connection       *)
(* (HandleConn): two copy loops, the watcher goroutine, and a backend that *)
(* is responsive (closes when it sees our FIN), silent (never reacts) or   *)
(* closed (refuses the dial / drops the connection).                       *)
(* The listener is abstracted to what Listener.tla proves about it: Stop   *)
(* closes the downstream connection and returns once the handler finished. *)
(*                                                                         *)
(*   FixQuit - Stop closes a quit latch first and the watcher of every     *)
(*             relay, which lives until the relay ends, closes both        *)
(*             connections on it (pinned: the watcher only knows about     *)
(*             host removal and exits when the client->backend copy ends;  *)
(*             the backend->client copy then waits for the backend or for  *)
(*             the idle timeout, 10 minutes by default)                    *)
(***************************************************************************)
EXTENDS Naturals, TLC

CONSTANTS Backends,   \* initial behaviours: subset of {"responsive", "silent", "closed"}
          MayClose,   \* the backend may go away later
          FixQuit

VARIABLES backend,
          xp,      \* pc of tcpProc.Stop: idle | x0 | x1 | ret
          quit,    \* quit latch (repaired code)
          cconn,   \* downstream connection: open | closed (locally or by the peer)
          sconn,   \* upstream connection: none | open | finSent | peerClosed | closed
          hd,      \* HandleConn: dial | relay | waitUp | fin
          upc,     \* copy client -> backend (goroutine): idle | copy | done
          dnc,     \* copy backend -> client (HandleConn itself): idle | copy | done
          wt       \* watcher goroutine: idle | wait | exited

vars == <<backend, xp, quit, cconn, sconn, hd, upc, dnc, wt>>

TypeOK ==
  /\ backend \in {"responsive", "silent", "closed"}
  /\ xp \in {"idle", "x0", "x1", "ret"} /\ quit \in BOOLEAN
  /\ cconn \in {"open", "closed"} /\ sconn \in {"none", "open", "finSent", "peerClosed", "closed"}
  /\ hd \in {"dial", "relay", "waitUp", "fin"}
  /\ upc \in {"idle", "copy", "done"} /\ dnc \in {"idle", "copy", "done"} /\ wt \in {"idle", "wait", "exited"}

Init ==
  /\ backend \in Backends /\ xp = "idle" /\ quit = FALSE
  /\ cconn = "open" /\ sconn = "none" /\ hd = "dial" /\ upc = "idle" /\ dnc = "idle" /\ wt = "idle"

\* ---- HandleConn (proc.go:96-145)
\* p.dial(host): a closed backend refuses, the handler returns and the listener closes the connection
HDial ==
  /\ hd = "dial"
  /\ IF backend = "closed"
       THEN hd' = "fin" /\ cconn' = "closed" /\ UNCHANGED <<sconn, upc, dnc, wt>>
       ELSE hd' = "relay" /\ sconn' = "open" /\ upc' = "copy" /\ dnc' = "copy" /\ wt' = "wait" /\ UNCHANGED cconn
  /\ UNCHANGED <<backend, xp, quit>>

\* pipeConn(cconn -> sconn): the read fails once the downstream connection is closed; then
\* closeWrite(sconn) (our FIN), closeRead(cconn), close(done)
UpCopyEnds ==
  /\ upc = "copy" /\ cconn = "closed" /\ upc' = "done"
  /\ sconn' = IF sconn = "open" THEN "finSent" ELSE sconn
  /\ UNCHANGED <<backend, xp, quit, cconn, hd, dnc, wt>>

\* pipeConn(sconn -> cconn): the read returns when the backend closed or the connection was closed locally
DnCopyEnds ==
  /\ dnc = "copy" /\ sconn \in {"peerClosed", "closed"} /\ dnc' = "done"
  /\ cconn' = "closed" /\ hd' = "waitUp"
  /\ UNCHANGED <<backend, xp, quit, sconn, upc, wt>>

\* <-done; the deferred sconn.Close(); (repaired: close(finished))
HFinish ==
  /\ hd = "waitUp" /\ upc = "done" /\ hd' = "fin" /\ sconn' = "closed"
  /\ UNCHANGED <<backend, xp, quit, cconn, upc, dnc, wt>>

\* watcher: select {host removed | quit (repaired) -> close both | done (pinned) / finished (repaired) -> return}
Watcher ==
  /\ wt = "wait"
  /\ \/ /\ FixQuit /\ quit /\ sconn' = "closed" /\ cconn' = "closed" /\ wt' = "exited"
     \/ /\ (IF FixQuit THEN hd = "fin" ELSE upc = "done") /\ wt' = "exited" /\ UNCHANGED <<sconn, cconn>>
  /\ UNCHANGED <<backend, xp, quit, hd, upc, dnc>>

\* ---- tcpProc.Stop (proc.go:299-304)
CallStop == xp = "idle" /\ xp' = "x0" /\ UNCHANGED <<backend, quit, cconn, sconn, hd, upc, dnc, wt>>
\* (repaired: close(quit)); hm.Stop(); ln.Stop() closes the downstream connection ...
X0 == /\ xp = "x0" /\ quit' = FixQuit /\ cconn' = "closed" /\ xp' = "x1"
      /\ UNCHANGED <<backend, sconn, hd, upc, dnc, wt>>
\* ... and waits for the handler; wg.Wait()
X1 == /\ xp = "x1" /\ hd = "fin" /\ xp' = "ret"
      /\ UNCHANGED <<backend, quit, cconn, sconn, hd, upc, dnc, wt>>

\* ---- environment
PeerCloses == cconn = "open" /\ cconn' = "closed" /\ UNCHANGED <<backend, xp, quit, sconn, hd, upc, dnc, wt>>
\* a responsive backend closes its side when it sees our FIN
BackendReacts ==
  /\ backend = "responsive" /\ sconn = "finSent" /\ sconn' = "peerClosed"
  /\ UNCHANGED <<backend, xp, quit, cconn, hd, upc, dnc, wt>>
BackendCloses ==
  /\ MayClose /\ backend # "closed" /\ backend' = "closed"
  /\ sconn' = IF sconn \in {"open", "finSent"} THEN "peerClosed" ELSE sconn
  /\ UNCHANGED <<xp, quit, cconn, hd, upc, dnc, wt>>

ProxyNext == HDial \/ UpCopyEnds \/ DnCopyEnds \/ HFinish \/ Watcher \/ X0 \/ X1
EnvNext == CallStop \/ PeerCloses \/ BackendReacts \/ BackendCloses
Next == ProxyNext \/ EnvNext

Spec == Init /\ [][Next]_vars
          /\ WF_vars(HDial) /\ WF_vars(UpCopyEnds) /\ WF_vars(DnCopyEnds) /\ WF_vars(HFinish)
          /\ WF_vars(Watcher) /\ WF_vars(X0 \/ X1) /\ WF_vars(BackendReacts)

StopReturns == (xp = "x0") ~> (xp = "ret")
StopStuck == xp \in {"x0", "x1"} /\ ~ENABLED ProxyNext /\ ~ENABLED BackendReacts
NoStuckStop == ~StopStuck
AfterStopAllReleased ==
  xp = "ret" => hd = "fin" /\ cconn = "closed" /\ sconn \in {"none", "closed"} /\ upc # "copy" /\ dnc # "copy"
\* the watcher goroutine does not outlive the relay for ever
WatcherEnds == (xp = "ret") ~> (wt \in {"idle", "exited"})
=============================================================================
