SPECIFICATION Spec
CONSTANTS
  Backends = {"responsive", "silent", "closed"}
  HelperLeaksOnTimeout = FALSE
  ReconfigStartsSecondMonitor = FALSE
  MaxTicks = 3
  MaxReconf = 2
CONSTRAINT RecordWindows
POSTCONDITION AllWindowsReached
CHECK_DEADLOCK FALSE
