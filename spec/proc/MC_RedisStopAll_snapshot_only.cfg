SPECIFICATION Spec
CONSTANTS
  StopAllLock = "snapshot"
  StopAllSignalsFirst = FALSE
  BExists = {TRUE, FALSE}
  BFull = {TRUE, FALSE}
INVARIANTS TypeOK NoStuckStop AfterStopAllReleased NoLiveClientAfterStop
PROPERTIES StopReturns
CHECK_DEADLOCK FALSE
