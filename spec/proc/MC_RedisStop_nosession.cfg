SPECIFICATION Spec
CONSTANTS
  Backends = {"responsive", "silent", "closed"}
  MayClose = TRUE
  WithSession = TRUE
  WithRefresh = TRUE
  FixSessionWait = FALSE
  FixRefreshWait = TRUE
  MaxRounds = 2
INVARIANTS TypeOK NoStuckStop AfterStopAllReleased
PROPERTIES StopReturns
CHECK_DEADLOCK FALSE
