SPECIFICATION Spec
CONSTANTS
  Backends = {"responsive", "silent", "closed"}
  MayClose = TRUE
  WithSession = TRUE
  WithRefresh = TRUE
  FixSessionWait = FALSE
  FixRefreshWait = TRUE
  FixProcQuit = FALSE
  FixUpstreamQuitFirst = FALSE
  FixSignalBeforeWait = FALSE
  ClientQCap = 4
  NReq = 3
  SessQCap = 1
  MaxRounds = 2
INVARIANTS TypeOK NoStuckStop AfterStopAllReleased
PROPERTIES StopReturns
CHECK_DEADLOCK FALSE
