SPECIFICATION Spec
CONSTANTS
  Backends = {"responsive", "silent", "closed"}
  MayClose = TRUE
  WithSession = TRUE
  WithRefresh = TRUE
  FixSessionWait = TRUE
  FixRefreshWait = TRUE
  FixProcQuit = TRUE
  FixUpstreamQuitFirst = TRUE
  FixSignalBeforeWait = FALSE
  ClientQCap = 2
  NReq = 3
  SessQCap = 1
  MaxRounds = 2
INVARIANTS TypeOK NoStuckStop AfterStopAllReleased
PROPERTIES StopReturns
CHECK_DEADLOCK FALSE
