----------------------------- MODULE ListenerWin -----------------------------
(* Anti-vacuity run for Listener: one exhaustive pass (single worker) records *)
(* in TLC registers which named windows were reached; the post-condition     *)
(* fails and prints the windows that no reachable state lies in.             *)
EXTENDS Listener

ASSUME \A i \in 1..Len(WindowNames) : TLCSet(100 + i, FALSE)

RecordWindows ==
  \A i \in 1..Len(WindowNames) : WindowHolds(WindowNames[i]) => TLCSet(100 + i, TRUE)

AllWindowsReached ==
  LET missing == {WindowNames[i] : i \in {j \in 1..Len(WindowNames) : ~TLCGet(100 + j)}} IN
  IF missing = {} THEN TRUE ELSE Print(<<"@@UNREACHED", missing>>, FALSE)
=============================================================================
