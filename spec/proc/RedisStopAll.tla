---------------------------- MODULE RedisStopAll ----------------------------
(***************************************************************************)
(* Composition model for C09: the last part of stopping a Redis processor, *)
(* which RedisStop.tla abstracts to one step (UpStopClients): after quit,  *)
(* upstream.Serve stops every backend client (proc/redis/upstream.go       *)
(* Serve: clientsMu.Lock; for each client: c.Stop(); Unlock; close(done)), *)
(* while a backend reader may still be handling a MOVED/ASK redirection    *)
(* (client.loopRead -> handleRedirection -> MakeRequestToHost: quit check; *)
(* getClient; createClient: clientsMu.Lock, quit check, dial, register;    *)
(* client.Send: select {target quit | enqueue into its bounded queue}).    *)
(*                                                                         *)
(* Two backend clients: A (exists, its reader handles one redirection to   *)
(* B) and B (exists already, possibly with a full pending queue because    *)
(* its backend is silent, or does not exist yet and has to be created).    *)
(*                                                                         *)
(*   StopAllLock        - "hold": the lock is held while the clients are   *)
(*                        stopped; "snapshot": it is held only while the   *)
(*                        table is read; "none": it is not taken at all    *)
(*   StopAllSignalsFirst- TRUE: quit is signalled to every client before   *)
(*                        any of them is waited for; FALSE: client by      *)
(*                        client (signal, wait, next)                      *)
(* The code as it is: "hold" / FALSE.  Proposed: "snapshot" / TRUE.        *)
(***************************************************************************)
EXTENDS Naturals, FiniteSets, TLC

CONSTANTS StopAllLock, StopAllSignalsFirst,
          BExists,      \* subset of BOOLEAN: does client B exist when the redirection arrives
          BFull         \* subset of BOOLEAN: is B's pending queue full (silent backend)

C == {"A", "B"}

VARIABLES
  uquit, udone,   \* upstream latches
  mu,             \* clientsMu: "free" | "serve" | "rd"
  tbl,            \* the client table (addresses with a registered client)
  cquit, cdone,   \* per client: quit latch, done latch
  bfull,          \* B's pending queue is full
  rd,             \* pc of A's reader
  rdB,            \* B's loops: "none" | "run" | "exited"
  rm,             \* per client: the goroutine that ran Start() removes the client from the table
  sv,             \* pc of upstream.Serve
  snap,           \* Serve's snapshot of the table
  cur,            \* the client Serve is waiting for ("" none)
  signalled       \* clients Serve has signalled / stopped so far

vars == <<uquit, udone, mu, tbl, cquit, cdone, bfull, rd, rdB, rm, sv, snap, cur, signalled>>

TypeOK ==
  /\ uquit \in BOOLEAN /\ udone \in BOOLEAN /\ mu \in {"free", "serve", "rd"}
  /\ tbl \subseteq C /\ cquit \in [C -> BOOLEAN] /\ cdone \in [C -> BOOLEAN] /\ bfull \in BOOLEAN
  /\ rd \in {"decode", "redirect", "checked", "locked", "dial", "send", "exited"}
  /\ rdB \in {"none", "run", "exited"}
  /\ rm \in [C -> {"idle", "want", "fin"}]
  /\ sv \in {"run", "lock", "signal", "stop", "wait", "unlock", "done"}
  /\ snap \subseteq C /\ cur \in C \cup {""} /\ signalled \subseteq C

Init ==
  /\ uquit = FALSE /\ udone = FALSE /\ mu = "free"
  /\ \E b \in BExists :
       /\ tbl = (IF b THEN {"A", "B"} ELSE {"A"}) /\ rdB = (IF b THEN "run" ELSE "none")
       /\ bfull \in (IF b THEN BFull ELSE {FALSE})      \* a client created now has an empty queue
  /\ cquit = [c \in C |-> FALSE] /\ cdone = [c \in C |-> FALSE]
  /\ rd = "decode" /\ rm = [c \in C |-> "idle"]
  /\ sv = "run" /\ snap = {} /\ cur = "" /\ signalled = {}

-----------------------------------------------------------------------------
(* A's backend reader (upstream.go loopRead and the redirection path)      *)

\* Decode(): a MOVED/ASK reply arrives (environment), or the connection was closed (client.Stop)
RdDecode ==
  /\ rd = "decode"
  /\ \/ ~cquit["A"] /\ rd' = "redirect"
     \/ cquit["A"] /\ rd' = "exited"
  /\ UNCHANGED <<uquit, udone, mu, tbl, cquit, cdone, bfull, rdB, rm, sv, snap, cur, signalled>>

\* MakeRequestToHost: select {<-u.quit -> answer with an error | default}
RdQuitCheck ==
  /\ rd = "redirect" /\ rd' = IF uquit THEN "decode" ELSE "checked"
  /\ UNCHANGED <<uquit, udone, mu, tbl, cquit, cdone, bfull, rdB, rm, sv, snap, cur, signalled>>

\* getClient: the table has the target -> Send; otherwise createClient: clientsMu.Lock()
RdGetClient ==
  /\ rd = "checked"
  /\ \/ "B" \in tbl /\ rd' = "send" /\ UNCHANGED mu
     \/ "B" \notin tbl /\ mu = "free" /\ mu' = "rd" /\ rd' = "locked"
  /\ UNCHANGED <<uquit, udone, tbl, cquit, cdone, bfull, rdB, rm, sv, snap, cur, signalled>>

\* createClient under the lock: quit check again; the table again; then the dial
RdLocked ==
  /\ rd = "locked"
  /\ IF uquit THEN rd' = "decode" /\ mu' = "free"            \* refuses: "upstream exited"
     ELSE IF "B" \in tbl THEN rd' = "send" /\ mu' = "free"
     ELSE rd' = "dial" /\ UNCHANGED mu
  /\ UNCHANGED <<uquit, udone, tbl, cquit, cdone, bfull, rdB, rm, sv, snap, cur, signalled>>

\* the dial completes (it may take long), the client is started and registered, Unlock
RdDial ==
  /\ rd = "dial" /\ tbl' = tbl \cup {"B"} /\ rdB' = "run" /\ mu' = "free" /\ rd' = "send"
  /\ UNCHANGED <<uquit, udone, cquit, cdone, bfull, rm, sv, snap, cur, signalled>>

\* B.Send(req): select {<-B.quit -> answer with an error | B.pendingReqs <- req}
RdSend ==
  /\ rd = "send" /\ (cquit["B"] \/ ~bfull) /\ rd' = "decode"
  /\ UNCHANGED <<uquit, udone, mu, tbl, cquit, cdone, bfull, rdB, rm, sv, snap, cur, signalled>>

ReaderNext == RdDecode \/ RdQuitCheck \/ RdGetClient \/ RdLocked \/ RdDial \/ RdSend

\* B's loops end when B is told to quit (its connection is closed)
BExit ==
  /\ rdB = "run" /\ cquit["B"] /\ rdB' = "exited"
  /\ UNCHANGED <<uquit, udone, mu, tbl, cquit, cdone, bfull, rd, rm, sv, snap, cur, signalled>>

\* client.Start's tail: both loops have ended -> drain, close(done)
LoopsEnded(c) == IF c = "A" THEN rd = "exited" ELSE rdB = "exited"
ClientDone(c) ==
  /\ ~cdone[c] /\ LoopsEnded(c) /\ cdone' = [cdone EXCEPT ![c] = TRUE] /\ rm' = [rm EXCEPT ![c] = "want"]
  /\ UNCHANGED <<uquit, udone, mu, tbl, cquit, bfull, rd, rdB, sv, snap, cur, signalled>>

\* ... then removeExitedClient: Lock; delete; Unlock
ClientRemove(c) ==
  /\ rm[c] = "want" /\ mu = "free" /\ tbl' = tbl \ {c} /\ rm' = [rm EXCEPT ![c] = "fin"]
  /\ UNCHANGED <<uquit, udone, mu, cquit, cdone, bfull, rd, rdB, sv, snap, cur, signalled>>

ClientNext == BExit \/ (\E c \in C : ClientDone(c) \/ ClientRemove(c))

-----------------------------------------------------------------------------
(* upstream.Stop / upstream.Serve                                          *)
CallStop ==
  /\ ~uquit /\ uquit' = TRUE
  /\ UNCHANGED <<udone, mu, tbl, cquit, cdone, bfull, rd, rdB, rm, sv, snap, cur, signalled>>

\* the refresher and the hot-key collector have returned
SvQuit ==
  /\ sv = "run" /\ uquit /\ sv' = "lock"
  /\ UNCHANGED <<uquit, udone, mu, tbl, cquit, cdone, bfull, rd, rdB, rm, snap, cur, signalled>>

\* (clientsMu.Lock();) clients := u.loadClients() (; Unlock)
SvSnapshot ==
  /\ sv = "lock" /\ (StopAllLock # "none" => mu = "free")
  /\ snap' = tbl /\ mu' = IF StopAllLock = "hold" THEN "serve" ELSE mu
  /\ sv' = IF StopAllSignalsFirst THEN "signal" ELSE "stop"
  /\ UNCHANGED <<uquit, udone, tbl, cquit, cdone, bfull, rd, rdB, rm, cur, signalled>>

\* (proposed) quit is signalled to every client of the snapshot first
SvSignalAll ==
  /\ sv = "signal" /\ cquit' = [c \in C |-> cquit[c] \/ c \in snap] /\ signalled' = {} /\ sv' = "stop"
  /\ UNCHANGED <<uquit, udone, mu, tbl, cdone, bfull, rd, rdB, rm, snap, cur>>

\* c.Stop() for the next client of the snapshot (map order: any): close(quit), conn.Close() ...
SvStop(c) ==
  /\ sv = "stop" /\ c \in snap \ signalled
  /\ cquit' = [cquit EXCEPT ![c] = TRUE] /\ cur' = c /\ sv' = "wait"
  /\ UNCHANGED <<uquit, udone, mu, tbl, cdone, bfull, rd, rdB, rm, snap, signalled>>

\* ... <-c.done
SvWait ==
  /\ sv = "wait" /\ cdone[cur] /\ signalled' = signalled \cup {cur} /\ cur' = "" /\ sv' = "stop"
  /\ UNCHANGED <<uquit, udone, mu, tbl, cquit, cdone, bfull, rd, rdB, rm, snap>>

\* every client stopped: (Unlock;) close(done)
SvFinish ==
  /\ sv = "stop" /\ snap \subseteq signalled
  /\ mu' = IF StopAllLock = "hold" THEN "free" ELSE mu
  /\ udone' = TRUE /\ sv' = "done"
  /\ UNCHANGED <<uquit, tbl, cquit, cdone, bfull, rd, rdB, rm, snap, cur, signalled>>

ServeNext == SvQuit \/ SvSnapshot \/ SvSignalAll \/ (\E c \in C : SvStop(c)) \/ SvWait \/ SvFinish

\* environment: the silent backend of B answers after all (never required)
BDrains ==
  /\ bfull /\ bfull' = FALSE
  /\ UNCHANGED <<uquit, udone, mu, tbl, cquit, cdone, rd, rdB, rm, sv, snap, cur, signalled>>

ProxyNext == ReaderNext \/ ClientNext \/ ServeNext
Next == ProxyNext \/ CallStop \/ BDrains

Spec == Init /\ [][Next]_vars /\ WF_vars(ReaderNext) /\ WF_vars(ClientNext) /\ WF_vars(ServeNext)

-----------------------------------------------------------------------------
\* Stop returns whatever the redirection in flight does
StopReturns == uquit ~> udone
StopStuck == uquit /\ ~udone /\ ~ENABLED ProxyNext
NoStuckStop == ~StopStuck

\* afterwards no backend client is left: no loop, no registered client, nobody waiting for the lock
Quiescent == ~ENABLED ProxyNext
AfterStopAllReleased ==
  (udone /\ Quiescent) =>
    /\ rd = "exited" /\ rdB \in {"none", "exited"} /\ tbl = {} /\ mu = "free"
    /\ \A c \in C : cquit[c] => cdone[c]
\* ... at any time after Stop: a client that is running has been told to quit
NoLiveClientAfterStop == udone => (rdB = "run" => cquit["B"]) /\ (rd # "exited" => cquit["A"])

\* the two windows (reachability: RedisStopAllWin.tla)
W_RedirectLockVsStopAll == sv = "wait" /\ cur = "A" /\ mu = "serve" /\ rd = "checked" /\ "B" \notin tbl
W_RedirectSendVsStopAll == sv = "wait" /\ cur = "A" /\ rd = "send" /\ bfull /\ ~cquit["B"]
W_ConnectPendingAtStop == uquit /\ rd = "dial"
=============================================================================
