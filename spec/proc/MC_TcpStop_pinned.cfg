SPECIFICATION Spec
CONSTANTS
  Backends = {"responsive", "silent", "closed"}
  MayClose = TRUE
  FixQuit = FALSE
INVARIANTS TypeOK NoStuckStop AfterStopAllReleased
PROPERTIES StopReturns WatcherEnds
CHECK_DEADLOCK FALSE
