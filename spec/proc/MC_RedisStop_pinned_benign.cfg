SPECIFICATION Spec
CONSTANTS
  Backends = {"responsive", "closed"}
  MayClose = TRUE
  WithSession = TRUE
  WithRefresh = TRUE
  FixSessionWait = FALSE
  FixRefreshWait = FALSE
  MaxRounds = 2
INVARIANTS TypeOK NoStuckStop AfterStopAllReleased
PROPERTIES StopReturns
CHECK_DEADLOCK FALSE
