----------------------------- MODULE ListenerGen -----------------------------
(***************************************************************************)
(* Behaviour emitter for Listener: the same actions plus a history         *)
(* variable recording, per step, the action, the goroutine role performing *)
(* it, the verifhook point at which EVERY role is parked afterwards, the   *)
(* observable state of the real listener after the step and the named      *)
(* windows the state lies in.  Run with -simulate: when nothing can happen *)
(* any more, Finish prints the behaviour as one JSON line.                 *)
(*                                                                         *)
(* Replay-only restrictions (state predicates, not part of the design):    *)
(*   - the retry timer (500 ms of real time) fires at most MaxRetry times  *)
(*   - the re-check after publishing l.ln (repaired code) has no hook      *)
(*     point, so it directly follows SrvPublish; likewise the third step   *)
(*     of Drain (closing the socket it found) directly follows the second  *)
(***************************************************************************)
EXTENDS Listener, Json

CONSTANTS MaxRetry,   \* how often the 500 ms retry timer may fire in one behaviour
          LateCalls   \* TRUE: Stop / Drain are only called once Serve has reached its accept loop

VARIABLES hist, finished, nretry, busy0

gvars == <<vars, hist, finished, nretry, busy0>>

Gates == [serve |-> ServeGate, stop |-> StopGate, drain |-> DrainGate, h |-> [c \in H |-> HGate(c)]]

Obs == [quit |-> quit, drain |-> drain, done |-> done, lnPub |-> lnPub, sockOpen |-> sockOpen,
        connsNil |-> connsNil, nconns |-> Cardinality(conns), serving |-> Cardinality(Serving),
        closed |-> [c \in H |-> hconn[c] = "closed"], hs |-> hs,
        srv |-> srv, stp |-> stp, drn |-> drn,
        cxTotal |-> cxTotal, cxActive |-> cxActive, cxDestroy |-> cxDestroy, cxRestricted |-> cxRestricted]

Log(a, role, c) ==
  hist' = Append(hist, [a |-> a, role |-> role, h |-> c, gates |-> Gates', obs |-> Obs', win |-> Windows'])

GenInit == Init /\ hist = <<>> /\ finished = FALSE /\ nretry = 0 /\ busy0 = portBusy

TimerAllowed == nretry < MaxRetry \/ quit \/ drain
CallsAllowed == ~LateCalls \/ srv \in {"accept", "waitConns", "closeDone", "returned"}
GenEnv == (\E c \in H : PeerConnect(c) \/ PeerClose(c)) \/ PortFreed \/ (CallsAllowed /\ (CallStop \/ CallDrain))

\* the base actions that may happen in a generated behaviour (used for ENABLED)
GenBase ==
  IF srv = "recheck" THEN SrvRecheck
  ELSE IF drn = "d2" THEN Drain2
  ELSE \/ SrvStart \/ SrvCheck \/ SrvBind \/ (TimerAllowed /\ SrvRetry) \/ SrvPublish
       \/ SrvAccept \/ SrvAcceptErr \/ SrvWait \/ SrvCloseDone
       \/ (\E c \in H : HandlerNext(c)) \/ StopNext \/ DrainNext \/ GenEnv

GenStuck == ~ENABLED GenBase

Finish ==
  /\ ~finished /\ GenStuck
  /\ PrintT("@@BEH " \o ToJson([limit |-> Limit, busy |-> busy0, steps |-> hist]))
  /\ finished' = TRUE
  /\ UNCHANGED <<vars, hist, nretry, busy0>>

GenNext ==
  /\ ~finished
  /\ IF srv = "recheck" THEN SrvRecheck /\ Log("SrvRecheck", "serve", "") /\ UNCHANGED nretry
     ELSE IF drn = "d2" THEN Drain2 /\ Log("Drain2", "drain", "") /\ UNCHANGED nretry
     ELSE
       \/ SrvStart /\ Log("SrvStart", "serve", "") /\ UNCHANGED nretry
       \/ SrvCheck /\ Log("SrvCheck", "serve", "") /\ UNCHANGED nretry
       \/ SrvBind /\ Log("SrvBind", "serve", "") /\ UNCHANGED nretry
       \/ TimerAllowed /\ SrvRetry /\ Log("SrvRetry", "serve", "") /\ nretry' = nretry + 1
       \/ SrvPublish /\ Log("SrvPublish", "serve", "") /\ UNCHANGED nretry
       \/ SrvAccept /\ Log("SrvAccept", "serve", Head(backlog)) /\ UNCHANGED nretry
       \/ SrvAcceptErr /\ Log("SrvAcceptErr", "serve", "") /\ UNCHANGED nretry
       \/ SrvWait /\ Log("SrvWait", "serve", "") /\ UNCHANGED nretry
       \/ SrvCloseDone /\ Log("SrvCloseDone", "serve", "") /\ UNCHANGED nretry
       \/ \E c \in H :
            \/ HAdd(c) /\ Log("HAdd", "h", c) /\ UNCHANGED nretry
            \/ HExit(c) /\ Log("HExit", "h", c) /\ UNCHANGED nretry
            \/ HRemove(c) /\ Log("HRemove", "h", c) /\ UNCHANGED nretry
            \/ PeerConnect(c) /\ Log("PeerConnect", "env", c) /\ UNCHANGED nretry
            \/ PeerClose(c) /\ Log("PeerClose", "env", c) /\ UNCHANGED nretry
       \/ CallsAllowed /\ CallStop /\ Log("CallStop", "env", "") /\ UNCHANGED nretry
       \/ Stop0 /\ Log("Stop0", "stop", "") /\ UNCHANGED nretry
       \/ Stop1 /\ Log("Stop1", "stop", "") /\ UNCHANGED nretry
       \/ Stop2 /\ Log("Stop2", "stop", "") /\ UNCHANGED nretry
       \/ Stop3 /\ Log("Stop3", "stop", "") /\ UNCHANGED nretry
       \/ Stop4 /\ Log("Stop4", "stop", "") /\ UNCHANGED nretry
       \/ CallsAllowed /\ CallDrain /\ Log("CallDrain", "env", "") /\ UNCHANGED nretry
       \/ Drain0 /\ Log("Drain0", "drain", "") /\ UNCHANGED nretry
       \/ Drain1 /\ Log("Drain1", "drain", "") /\ UNCHANGED nretry
       \/ PortFreed /\ Log("PortFreed", "env", "") /\ UNCHANGED nretry
  /\ UNCHANGED <<finished, busy0>>

GenSpec == GenInit /\ [][GenNext \/ Finish]_gvars
=============================================================================
