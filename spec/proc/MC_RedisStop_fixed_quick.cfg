SPECIFICATION Spec
CONSTANTS
  Backends = {"responsive", "silent"}
  MayClose = TRUE
  WithSession = TRUE
  WithRefresh = TRUE
  FixSessionWait = TRUE
  FixRefreshWait = TRUE
  FixProcQuit = TRUE
  FixUpstreamQuitFirst = TRUE
  FixSignalBeforeWait = TRUE
  ClientQCap = 2
  NReq = 2
  SessQCap = 1
  MaxRounds = 1
INVARIANTS TypeOK NoStuckStop AfterStopAllReleased
PROPERTIES StopReturns
CHECK_DEADLOCK FALSE
