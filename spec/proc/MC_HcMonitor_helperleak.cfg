SPECIFICATION Spec
CONSTANTS
  Backends = {"responsive", "silent", "closed"}
  HelperLeaksOnTimeout = TRUE
  ReconfigStartsSecondMonitor = FALSE
  MaxTicks = 3
  MaxReconf = 2
INVARIANTS TypeOK AfterStopAllReleased
PROPERTIES StopReturns NoProbeAfterStop
CHECK_DEADLOCK FALSE
