SPECIFICATION Spec
CONSTANTS
  H = {"c1", "c2"}
  Limit = 1
  PortMayBeBusy = TRUE
  WithStop = TRUE
  WithDrain = TRUE
  FixDone = TRUE
  FixPublish = TRUE
  FixStats = TRUE
  AtomicAdd = TRUE
  TakeRegistry = TRUE
  DrainLatchFirst = TRUE
  Det = FALSE
CONSTRAINT RecordWindows
POSTCONDITION AllWindowsReached

CHECK_DEADLOCK FALSE
