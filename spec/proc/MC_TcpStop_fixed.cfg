SPECIFICATION Spec
CONSTANTS
  Backends = {"responsive", "silent", "closed"}
  MayClose = TRUE
  FixQuit = TRUE
INVARIANTS TypeOK NoStuckStop AfterStopAllReleased
PROPERTIES StopReturns WatcherEnds
CHECK_DEADLOCK FALSE
