------------------------------ MODULE RedisStop ------------------------------
(***************************************************************************)
(* Composition model for C09: stopping a whole Redis processor             *)
(* (proc/redis/redis.go:164-169: listener first, then upstream) with       *)
(*   - one downstream session (proc/redis/session.go) with NReq pipelined  *)
(*     requests and a reply queue (processingReqs, capacity 32 in the      *)
(*     code, SessQCap here) between its reader and its writer: the head    *)
(*     request may be waiting for the backend while the reader is blocked  *)
(*     handing a later request to the writer,                              *)
(*   - the slot refresher (proc/redis/upstream.go loopRefreshSlots /       *)
(*     doSlotsRefresh) whose CLUSTER NODES request may be waiting for the  *)
(*     backend,                                                            *)
(*   - one backend connection (client) abstracted to its set of requests   *)
(*     in flight: a responsive backend answers them, a silent one never    *)
(*     does, a closed one refuses the dial / drops the connection; when    *)
(*     the client terminates (Stop, connection lost) it answers every      *)
(*     request in flight with an error (property C02).                     *)
(* The listener is abstracted to what Listener.tla proves about it: Stop   *)
(* closes the session's connection and returns once the session handler    *)
(* has finished.                                                           *)
(*                                                                         *)
(*   FixSessionWait - the session writer waits for its head request with   *)
(*                    select {request done | session quit} (pinned: plain  *)
(*                    req.Wait(), session.go loopWrite)                    *)
(*   FixRefreshWait - doSlotsRefresh waits with select {request done |     *)
(*                    upstream quit} (pinned: plain req.Wait())            *)
(*   FixProcQuit    - redisProc.Stop first closes a quit latch of the      *)
(*                    processor, and the three selects of a session        *)
(*                    (reader enqueue, writer dequeue, writer wait) have   *)
(*                    it as an alternative (without it: a reader blocked   *)
(*                    on the full reply queue and a writer waiting for a   *)
(*                    silent backend never notice that the listener closed *)
(*                    the connection - neither of them reads it)           *)
(*   FixUpstreamQuitFirst - redisProc.Stop closes the upstream's quit      *)
(*                    latch before it waits for the listener (without it a *)
(*                    session reader blocked in the Send of a backend      *)
(*                    whose queues are full - ClientQCap requests in       *)
(*                    flight, silent backend - keeps the listener waiting, *)
(*                    and the backend is only told to quit afterwards)     *)
(*   FixSignalBeforeWait  - upstream.Serve tells the backend clients to    *)
(*                    quit before it waits for the slot refresher (the     *)
(*                    refresher, too, can be blocked in such a Send)       *)
(* The stop-all itself (lock, per-client signal/wait, redirections in      *)
(* flight) is refined in RedisStopAll.tla.                                 *)
(***************************************************************************)
EXTENDS Naturals, Sequences, FiniteSets, TLC

CONSTANTS Backends,          \* initial behaviours of the backend: subset of {"responsive", "silent", "closed"}
          MayClose,          \* the backend may go away later (connection dropped)
          WithSession, WithRefresh,
          FixSessionWait, FixRefreshWait, FixProcQuit, FixUpstreamQuitFirst, FixSignalBeforeWait,
          ClientQCap,        \* requests a backend connection takes before Send blocks (code: 2049)
          NReq,              \* requests the downstream client pipelines (session requests 1..NReq)
          SessQCap,          \* capacity of session.processingReqs (code: 32)
          MaxRounds          \* refresh rounds

RReq == 0                    \* the refresher's CLUSTER NODES request
SReqs == 1..NReq             \* the session's requests, in the order the client sent them
Reqs == SReqs \cup {RReq}

VARIABLES
  backend,   \* "responsive" | "silent" | "closed"
  xp,        \* pc of redisProc.Stop
  dconn,     \* the session's downstream connection: "open" | "closed"
  pquit,     \* the processor's quit latch (repaired code)
  squit,     \* session quit latch
  rd,        \* session reader pc
  nread,     \* requests the reader has handed to the writer so far (it works on nread + 1)
  wr,        \* session writer pc
  wcur,      \* the request the writer has taken from the queue (0: none)
  sessQ,     \* session.processingReqs (FIFO)
  sent,      \* number of requests the downstream client has sent
  req,       \* per request: "none" | "pending" | "ok" | "err"
  client,    \* backend connection: "none" | "alive" | "dead"
  inflight,  \* requests handed to the backend connection and not yet completed
  uquit, udone,   \* upstream latches
  up,        \* pc of upstream.Serve
  rf,        \* pc of the slot refresher
  rounds

vars == <<backend, xp, dconn, pquit, squit, rd, nread, wr, wcur, sessQ, sent, req, client, inflight, uquit, udone, up, rf, rounds>>

TypeOK ==
  /\ backend \in {"responsive", "silent", "closed"}
  /\ xp \in {"idle", "x0", "x0b", "x1", "x2", "x3", "ret"}
  /\ dconn \in {"open", "closed"} /\ squit \in BOOLEAN /\ pquit \in BOOLEAN
  /\ rd \in {"read", "handle", "send", "enqueue", "rexit", "rwait", "done", "absent"}
  /\ wr \in {"select", "wait", "encode", "exited", "absent"}
  /\ sessQ \in Seq(SReqs) /\ Len(sessQ) <= SessQCap /\ sent \in 0..NReq /\ nread \in 0..NReq /\ wcur \in 0..NReq
  /\ req \in [Reqs -> {"none", "pending", "ok", "err"}]
  /\ client \in {"none", "alive", "dead"} /\ inflight \subseteq Reqs
  /\ uquit \in BOOLEAN /\ udone \in BOOLEAN
  /\ up \in {"run", "signalled", "stopClients", "done"}
  /\ rf \in {"sel", "refresh", "rsend", "rwait", "timer", "exited", "absent"}
  /\ rounds \in 0..MaxRounds

Init ==
  /\ backend \in Backends /\ xp = "idle"
  /\ dconn = (IF WithSession THEN "open" ELSE "closed") /\ squit = FALSE /\ pquit = FALSE
  /\ rd = (IF WithSession THEN "read" ELSE "absent") /\ wr = (IF WithSession THEN "select" ELSE "absent")
  /\ sessQ = <<>> /\ sent = 0 /\ nread = 0 /\ wcur = 0
  /\ req = [r \in Reqs |-> "none"] /\ client = "none" /\ inflight = {}
  /\ uquit = FALSE /\ udone = FALSE /\ up = "run"
  /\ rf = (IF WithRefresh THEN "sel" ELSE "absent") /\ rounds = 0

SessionDone == rd \in {"done", "absent"}

\* upstream.MakeRequestToHost(r), first part: quit check and getClient (dial).  TRUE: the request
\* is answered with an error at once; FALSE: the caller goes on to client.Send
Refused == uquit \/ backend = "closed" \/ client = "dead"
AnswerErr(r) == req' = [req EXCEPT ![r] = "err"] /\ UNCHANGED <<client, inflight>>
Connect == client' = "alive" /\ UNCHANGED <<req, inflight>>

\* client.Send(r): select {<-c.quit -> answer with an error | c.pendingReqs <- r}; the second branch
\* needs room in the connection's queues (a silent backend never makes any)
Send(r) ==
  \/ client = "dead" /\ AnswerErr(r)
  \/ /\ client = "alive" /\ Cardinality(inflight) < ClientQCap
     /\ req' = [req EXCEPT ![r] = "pending"] /\ inflight' = inflight \cup {r} /\ UNCHANGED client

\* the client terminates: every request in flight is answered with an error
FailInflight == req' = [r \in Reqs |-> IF r \in inflight THEN "err" ELSE req[r]] /\ inflight' = {}

-----------------------------------------------------------------------------
(* environment                                                             *)
SessVars == <<rd, nread, wr, wcur, sessQ>>
UpVars == <<uquit, udone, up, rf, rounds>>

\* the downstream client pipelines its next request
ClientSend ==
  /\ WithSession /\ sent < NReq /\ dconn = "open" /\ sent' = sent + 1
  /\ UNCHANGED <<backend, xp, dconn, pquit, squit, SessVars, req, client, inflight, UpVars>>

ClientClose ==
  /\ dconn = "open" /\ dconn' = "closed"
  /\ UNCHANGED <<backend, xp, pquit, squit, SessVars, sent, req, client, inflight, UpVars>>

BackendReply(r) ==
  /\ backend = "responsive" /\ client = "alive" /\ r \in inflight
  /\ req' = [req EXCEPT ![r] = "ok"] /\ inflight' = inflight \ {r}
  /\ UNCHANGED <<backend, xp, dconn, pquit, squit, SessVars, sent, client, UpVars>>

\* the backend goes away: the established connection is dropped, the client exits and drains
BackendCloses ==
  /\ MayClose /\ backend # "closed" /\ backend' = "closed"
  /\ IF client = "alive" THEN client' = "dead" /\ FailInflight ELSE UNCHANGED <<client, req, inflight>>
  /\ UNCHANGED <<xp, dconn, pquit, squit, SessVars, sent, UpVars>>

CallStop ==
  /\ xp = "idle" /\ xp' = "x0"
  /\ UNCHANGED <<backend, dconn, pquit, squit, SessVars, sent, req, client, inflight, UpVars>>

-----------------------------------------------------------------------------
(* redisProc.Stop (redis.go:170-176)                                       *)
\* (repaired: close(p.quit))
X0 == /\ xp = "x0" /\ pquit' = FixProcQuit /\ xp' = "x0b"
      /\ uquit' = (uquit \/ FixUpstreamQuitFirst)     \* (repaired: p.u.signalQuit())
      /\ UNCHANGED <<backend, dconn, squit, SessVars, sent, req, client, inflight, udone, up, rf, rounds>>
\* p.l.Stop(): close(quit), close the socket and the session's connection
X0b == /\ xp = "x0b" /\ dconn' = "closed" /\ xp' = "x1"
       /\ UNCHANGED <<backend, pquit, squit, SessVars, sent, req, client, inflight, UpVars>>
\* ... <-l.done: the listener's Serve has seen every handler finish
X1 == /\ xp = "x1" /\ SessionDone /\ xp' = "x2"
      /\ UNCHANGED <<backend, dconn, pquit, squit, SessVars, sent, req, client, inflight, UpVars>>
\* p.u.Stop(): close(u.quit)
X2 == /\ xp = "x2" /\ uquit' = TRUE /\ xp' = "x3"
      /\ UNCHANGED <<backend, dconn, pquit, squit, SessVars, sent, req, client, inflight, udone, up, rf, rounds>>
\* ... <-u.done; p.wg.Wait()
X3 == /\ xp = "x3" /\ udone /\ xp' = "ret"
      /\ UNCHANGED <<backend, dconn, pquit, squit, SessVars, sent, req, client, inflight, UpVars>>
StopNext == X0 \/ X0b \/ X1 \/ X2 \/ X3

-----------------------------------------------------------------------------
(* session reader (session.go loopRead and the tail of Serve)              *)
ProcQuit == FixProcQuit /\ pquit

\* dec.Decode(): the next pipelined request, or an error once the connection is closed
RdRead ==
  /\ rd = "read"
  /\ \/ dconn = "closed" /\ rd' = "rexit"
     \/ dconn = "open" /\ nread < sent /\ rd' = "handle"
  /\ UNCHANGED <<backend, xp, dconn, pquit, squit, nread, wr, wcur, sessQ, sent, req, client, inflight, UpVars>>
\* p.handleRequest(req)
RdHandle ==
  /\ rd = "handle"
  /\ IF Refused THEN AnswerErr(nread + 1) /\ rd' = "enqueue" ELSE Connect /\ rd' = "send"
  /\ UNCHANGED <<backend, xp, dconn, pquit, squit, nread, wr, wcur, sessQ, sent, UpVars>>
\* ... client.Send: nothing but the backend connection's quit gets a blocked Send going again
RdSend ==
  /\ rd = "send" /\ Send(nread + 1) /\ rd' = "enqueue"
  /\ UNCHANGED <<backend, xp, dconn, pquit, squit, nread, wr, wcur, sessQ, sent, UpVars>>
\* select {processingReqs <- req | <-s.quit -> return | (repaired) <-s.p.quit -> return}
RdEnqueue ==
  /\ rd = "enqueue"
  /\ \/ Len(sessQ) < SessQCap /\ sessQ' = Append(sessQ, nread + 1) /\ nread' = nread + 1 /\ rd' = "read"
     \/ (squit \/ ProcQuit) /\ rd' = "rexit" /\ UNCHANGED <<sessQ, nread>>
  /\ UNCHANGED <<backend, xp, dconn, pquit, squit, wr, wcur, sent, req, client, inflight, UpVars>>
\* conn.Close(); doQuit()
RdExit ==
  /\ rd = "rexit" /\ dconn' = "closed" /\ squit' = TRUE /\ rd' = "rwait"
  /\ UNCHANGED <<backend, xp, pquit, nread, wr, wcur, sessQ, sent, req, client, inflight, UpVars>>
\* <-writeDone; close(s.done); the listener's handler returns
RdWait ==
  /\ rd = "rwait" /\ wr = "exited" /\ rd' = "done"
  /\ UNCHANGED <<backend, xp, dconn, pquit, squit, nread, wr, wcur, sessQ, sent, req, client, inflight, UpVars>>
ReaderNext == RdRead \/ RdHandle \/ RdSend \/ RdEnqueue \/ RdExit \/ RdWait

(* session writer (session.go loopWrite)                                   *)
WrExit == wr' = "exited" /\ dconn' = "closed" /\ squit' = TRUE
\* select {<-s.quit -> return | (repaired) <-s.p.quit -> return | req = <-processingReqs}
WrSelect ==
  /\ wr = "select"
  /\ \/ (squit \/ ProcQuit) /\ WrExit /\ UNCHANGED <<sessQ, wcur>>
     \/ sessQ # <<>> /\ wcur' = Head(sessQ) /\ sessQ' = Tail(sessQ) /\ wr' = "wait" /\ UNCHANGED <<dconn, squit>>
  /\ UNCHANGED <<backend, xp, pquit, rd, nread, sent, req, client, inflight, UpVars>>
\* req.Wait()  (repaired: select {<-req.done | <-s.quit -> return | <-s.p.quit -> return})
WrWait ==
  /\ wr = "wait"
  /\ \/ req[wcur] \in {"ok", "err"} /\ wr' = "encode" /\ UNCHANGED <<dconn, squit>>
     \/ ((FixSessionWait /\ squit) \/ ProcQuit) /\ WrExit
  /\ UNCHANGED <<backend, xp, pquit, rd, nread, wcur, sessQ, sent, req, client, inflight, UpVars>>
\* encode + flush: fails on a closed connection
WrEncode ==
  /\ wr = "encode"
  /\ IF dconn = "closed" THEN WrExit /\ UNCHANGED wcur ELSE wr' = "select" /\ wcur' = 0 /\ UNCHANGED <<dconn, squit>>
  /\ UNCHANGED <<backend, xp, pquit, rd, nread, sessQ, sent, req, client, inflight, UpVars>>
WriterNext == WrSelect \/ WrWait \/ WrEncode

-----------------------------------------------------------------------------
(* upstream.Serve (upstream.go:92-114): wait for the refresher (and the    *)
(* hot-key collector, which returns on quit), stop every client, close done *)
\* (repaired) after quit every client is told to quit at once: whoever is blocked in a Send gets away
UpSignal ==
  /\ FixSignalBeforeWait /\ up = "run" /\ uquit /\ up' = "signalled"
  /\ IF client = "alive" THEN client' = "dead" /\ FailInflight ELSE UNCHANGED <<client, req, inflight>>
  /\ UNCHANGED <<backend, xp, dconn, pquit, squit, SessVars, sent, uquit, udone, rf, rounds>>
UpWait ==
  /\ up = (IF FixSignalBeforeWait THEN "signalled" ELSE "run") /\ uquit /\ rf \in {"exited", "absent"} /\ up' = "stopClients"
  /\ UNCHANGED <<backend, xp, dconn, pquit, squit, SessVars, sent, req, client, inflight, uquit, udone, rf, rounds>>
UpStopClients ==
  /\ up = "stopClients" /\ up' = "done" /\ udone' = TRUE
  /\ IF client = "alive" THEN client' = "dead" /\ FailInflight ELSE UNCHANGED <<client, req, inflight>>
  /\ UNCHANGED <<backend, xp, dconn, pquit, squit, SessVars, sent, uquit, rf, rounds>>
UpstreamNext == UpSignal \/ UpWait \/ UpStopClients

(* slot refresher (upstream.go loopRefreshSlots / doSlotsRefresh)          *)
RfSelect ==
  /\ rf = "sel"
  /\ \/ uquit /\ rf' = "exited" /\ UNCHANGED <<req, rounds>>
     \/ rounds < MaxRounds /\ rf' = "refresh" /\ rounds' = rounds + 1 /\ req' = [req EXCEPT ![RReq] = "none"]
  /\ UNCHANGED <<backend, xp, dconn, pquit, squit, SessVars, sent, client, inflight, uquit, udone, up>>
RfRefresh ==
  /\ rf = "refresh" /\ req[RReq] = "none" /\ RReq \notin inflight
  /\ IF Refused THEN AnswerErr(RReq) /\ rf' = "rwait" ELSE Connect /\ rf' = "rsend"
  /\ UNCHANGED <<backend, xp, dconn, pquit, squit, SessVars, sent, uquit, udone, up, rounds>>
RfSend ==
  /\ rf = "rsend" /\ Send(RReq) /\ rf' = "rwait"
  /\ UNCHANGED <<backend, xp, dconn, pquit, squit, SessVars, sent, uquit, udone, up, rounds>>
\* req.Wait()  (repaired: select {<-req.done | <-u.quit -> return an error})
RfWait ==
  /\ rf = "rwait"
  /\ \/ req[RReq] \in {"ok", "err"}
     \/ FixRefreshWait /\ uquit
  /\ rf' = "timer"
  /\ UNCHANGED <<backend, xp, dconn, pquit, squit, SessVars, sent, req, client, inflight, uquit, udone, up, rounds>>
\* select {minimum-rate timer | quit -> return}
RfTimer ==
  /\ rf = "timer"
  /\ \/ uquit /\ rf' = "exited"
     \/ ~uquit /\ rf' = "sel"
  /\ UNCHANGED <<backend, xp, dconn, pquit, squit, SessVars, sent, req, client, inflight, uquit, udone, up, rounds>>
RefreshNext == RfSelect \/ RfRefresh \/ RfSend \/ RfWait \/ RfTimer

-----------------------------------------------------------------------------
ProxyNext == StopNext \/ ReaderNext \/ WriterNext \/ UpstreamNext \/ RefreshNext
EnvNext == ClientSend \/ ClientClose \/ BackendCloses \/ CallStop \/ (\E r \in Reqs : BackendReply(r))
Next == ProxyNext \/ EnvNext

Fairness ==
  /\ WF_vars(StopNext) /\ WF_vars(ReaderNext) /\ WF_vars(WriterNext)
  /\ WF_vars(UpstreamNext) /\ WF_vars(RefreshNext)
  /\ \A r \in Reqs : WF_vars(BackendReply(r))

Spec == Init /\ [][Next]_vars /\ Fairness

-----------------------------------------------------------------------------
\* Stop returns whatever the backend does
StopReturns == (xp = "x0") ~> (xp = "ret")

\* safety form: Stop waits and nothing the proxy or a responsive backend can do lets it return
StopStuck == xp \in {"x0", "x0b", "x1", "x2", "x3"} /\ ~ENABLED ProxyNext /\ ~ENABLED (\E r \in Reqs : BackendReply(r))
NoStuckStop == ~StopStuck

\* afterwards nothing is left: session goroutines, refresher, backend connection
AfterStopAllReleased ==
  xp = "ret" =>
    /\ SessionDone /\ wr \in {"exited", "absent"} /\ dconn = "closed"
    /\ rf \in {"exited", "absent"} /\ up = "done" /\ client # "alive" /\ inflight = {}

\* the windows of the two waits (reachability checked by RedisStopWin.tla)
W_StopWithSilentBackend == xp = "x1" /\ wr = "wait" /\ req[wcur] = "pending" /\ backend = "silent"
\* the reader is blocked on the full reply queue while the writer waits for the silent backend:
\* nobody reads the connection the listener has just closed
W_StopWithFullSessionQueue ==
  /\ xp = "x1" /\ rd = "enqueue" /\ Len(sessQ) = SessQCap /\ ~squit
  /\ wr = "wait" /\ req[wcur] = "pending" /\ backend = "silent"
BackendQueueFull == client = "alive" /\ Cardinality(inflight) >= ClientQCap /\ backend = "silent"
W_StopWithFullBackendQueue == xp = "x1" /\ rd = "send" /\ BackendQueueFull
W_StopWhileRefreshBlockedInSend == xp = "x3" /\ rf = "rsend" /\ BackendQueueFull
W_StopWhileRefreshWaits == xp = "x3" /\ rf = "rwait" /\ req[RReq] = "pending" /\ backend = "silent"
=============================================================================
