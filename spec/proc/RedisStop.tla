------------------------------ MODULE RedisStop ------------------------------
(***************************************************************************)
(* Composition model for C09: stopping a whole Redis processor             *)
(* (proc/redis/redis.go:164-169: listener first, then upstream) with       *)
(*   - one downstream session (proc/redis/session.go) whose head request   *)
(*     may be waiting for the backend,                                     *)
(*   - the slot refresher (proc/redis/upstream.go loopRefreshSlots /       *)
(*     doSlotsRefresh) whose CLUSTER NODES request may be waiting for the  *)
(*     backend,                                                            *)
(*   - one backend connection (client) abstracted to its set of requests   *)
(*     in flight: a responsive backend answers them, a silent one never    *)
(*     does, a closed one refuses the dial / drops the connection; when    *)
(*     the client terminates (Stop, connection lost) it answers every      *)
(*     request in flight with an error (property C02).                     *)
(* The listener is abstracted to what Listener.tla proves about it: Stop   *)
(* closes the session's connection and returns once the session handler    *)
(* has finished.                                                           *)
(*                                                                         *)
(*   FixSessionWait - the session writer waits for its head request with   *)
(*                    select {request done | session quit} (pinned: plain  *)
(*                    req.Wait(), session.go loopWrite)                    *)
(*   FixRefreshWait - doSlotsRefresh waits with select {request done |     *)
(*                    upstream quit} (pinned: plain req.Wait())            *)
(***************************************************************************)
EXTENDS Naturals, FiniteSets, TLC

CONSTANTS Backends,          \* initial behaviours of the backend: subset of {"responsive", "silent", "closed"}
          MayClose,          \* the backend may go away later (connection dropped)
          WithSession, WithRefresh,
          FixSessionWait, FixRefreshWait,
          MaxRounds          \* refresh rounds

Reqs == {"sreq", "rreq"}

VARIABLES
  backend,   \* "responsive" | "silent" | "closed"
  xp,        \* pc of redisProc.Stop
  dconn,     \* the session's downstream connection: "open" | "closed"
  squit,     \* session quit latch
  rd,        \* session reader pc
  wr,        \* session writer pc
  sessQ,     \* session.processingReqs holds sreq
  sent,      \* the downstream client has sent its request
  req,       \* per request: "none" | "pending" | "ok" | "err"
  client,    \* backend connection: "none" | "alive" | "dead"
  inflight,  \* requests handed to the backend connection and not yet completed
  uquit, udone,   \* upstream latches
  up,        \* pc of upstream.Serve
  rf,        \* pc of the slot refresher
  rounds

vars == <<backend, xp, dconn, squit, rd, wr, sessQ, sent, req, client, inflight, uquit, udone, up, rf, rounds>>

TypeOK ==
  /\ backend \in {"responsive", "silent", "closed"}
  /\ xp \in {"idle", "x0", "x1", "x2", "x3", "x4", "ret"}
  /\ dconn \in {"open", "closed"} /\ squit \in BOOLEAN
  /\ rd \in {"read", "handle", "enqueue", "rexit", "rwait", "done", "absent"}
  /\ wr \in {"select", "wait", "encode", "exited", "absent"}
  /\ sessQ \in BOOLEAN /\ sent \in BOOLEAN
  /\ req \in [Reqs -> {"none", "pending", "ok", "err"}]
  /\ client \in {"none", "alive", "dead"} /\ inflight \subseteq Reqs
  /\ uquit \in BOOLEAN /\ udone \in BOOLEAN
  /\ up \in {"run", "stopClients", "done"}
  /\ rf \in {"sel", "refresh", "rwait", "timer", "exited", "absent"}
  /\ rounds \in 0..MaxRounds

Init ==
  /\ backend \in Backends /\ xp = "idle"
  /\ dconn = (IF WithSession THEN "open" ELSE "closed") /\ squit = FALSE
  /\ rd = (IF WithSession THEN "read" ELSE "absent") /\ wr = (IF WithSession THEN "select" ELSE "absent")
  /\ sessQ = FALSE /\ sent = FALSE
  /\ req = [r \in Reqs |-> "none"] /\ client = "none" /\ inflight = {}
  /\ uquit = FALSE /\ udone = FALSE /\ up = "run"
  /\ rf = (IF WithRefresh THEN "sel" ELSE "absent") /\ rounds = 0

SessionDone == rd \in {"done", "absent"}

\* upstream.MakeRequestToHost(r): quit check, getClient (dial), client.Send
MakeRequest(r) ==
  IF uquit \/ backend = "closed" \/ client = "dead"
    THEN /\ req' = [req EXCEPT ![r] = "err"] /\ UNCHANGED <<client, inflight>>
    ELSE /\ req' = [req EXCEPT ![r] = "pending"] /\ client' = "alive" /\ inflight' = inflight \cup {r}

\* the client terminates: every request in flight is answered with an error
FailInflight == req' = [r \in Reqs |-> IF r \in inflight THEN "err" ELSE req[r]] /\ inflight' = {}

-----------------------------------------------------------------------------
(* environment                                                             *)
ClientSend ==
  /\ WithSession /\ ~sent /\ dconn = "open" /\ sent' = TRUE
  /\ UNCHANGED <<backend, xp, dconn, squit, rd, wr, sessQ, req, client, inflight, uquit, udone, up, rf, rounds>>

ClientClose ==
  /\ dconn = "open" /\ dconn' = "closed"
  /\ UNCHANGED <<backend, xp, squit, rd, wr, sessQ, sent, req, client, inflight, uquit, udone, up, rf, rounds>>

BackendReply(r) ==
  /\ backend = "responsive" /\ client = "alive" /\ r \in inflight
  /\ req' = [req EXCEPT ![r] = "ok"] /\ inflight' = inflight \ {r}
  /\ UNCHANGED <<backend, xp, dconn, squit, rd, wr, sessQ, sent, client, uquit, udone, up, rf, rounds>>

\* the backend goes away: the established connection is dropped, the client exits and drains
BackendCloses ==
  /\ MayClose /\ backend # "closed" /\ backend' = "closed"
  /\ IF client = "alive" THEN client' = "dead" /\ FailInflight ELSE UNCHANGED <<client, req, inflight>>
  /\ UNCHANGED <<xp, dconn, squit, rd, wr, sessQ, sent, uquit, udone, up, rf, rounds>>

CallStop ==
  /\ xp = "idle" /\ xp' = "x0"
  /\ UNCHANGED <<backend, dconn, squit, rd, wr, sessQ, sent, req, client, inflight, uquit, udone, up, rf, rounds>>

-----------------------------------------------------------------------------
(* redisProc.Stop (redis.go:164-169)                                       *)
\* p.l.Stop(): close(quit), close the socket and the session's connection
X0 == /\ xp = "x0" /\ dconn' = "closed" /\ xp' = "x1"
      /\ UNCHANGED <<backend, squit, rd, wr, sessQ, sent, req, client, inflight, uquit, udone, up, rf, rounds>>
\* ... <-l.done: the listener's Serve has seen every handler finish
X1 == /\ xp = "x1" /\ SessionDone /\ xp' = "x2"
      /\ UNCHANGED <<backend, dconn, squit, rd, wr, sessQ, sent, req, client, inflight, uquit, udone, up, rf, rounds>>
\* p.u.Stop(): close(u.quit)
X2 == /\ xp = "x2" /\ uquit' = TRUE /\ xp' = "x3"
      /\ UNCHANGED <<backend, dconn, squit, rd, wr, sessQ, sent, req, client, inflight, udone, up, rf, rounds>>
\* ... <-u.done; p.wg.Wait()
X3 == /\ xp = "x3" /\ udone /\ xp' = "ret"
      /\ UNCHANGED <<backend, dconn, squit, rd, wr, sessQ, sent, req, client, inflight, uquit, udone, up, rf, rounds>>
StopNext == X0 \/ X1 \/ X2 \/ X3

-----------------------------------------------------------------------------
(* session reader (session.go loopRead and the tail of Serve)              *)
RdRead ==
  /\ rd = "read"
  /\ \/ dconn = "closed" /\ rd' = "rexit"
     \/ dconn = "open" /\ sent /\ req["sreq"] = "none" /\ rd' = "handle"
  /\ UNCHANGED <<backend, xp, dconn, squit, wr, sessQ, sent, req, client, inflight, uquit, udone, up, rf, rounds>>
RdHandle ==
  /\ rd = "handle" /\ MakeRequest("sreq") /\ rd' = "enqueue"
  /\ UNCHANGED <<backend, xp, dconn, squit, wr, sessQ, sent, uquit, udone, up, rf, rounds>>
RdEnqueue ==
  /\ rd = "enqueue"
  /\ \/ sessQ' = TRUE /\ rd' = "read"
     \/ squit /\ rd' = "rexit" /\ UNCHANGED sessQ
  /\ UNCHANGED <<backend, xp, dconn, squit, wr, sent, req, client, inflight, uquit, udone, up, rf, rounds>>
\* conn.Close(); doQuit()
RdExit ==
  /\ rd = "rexit" /\ dconn' = "closed" /\ squit' = TRUE /\ rd' = "rwait"
  /\ UNCHANGED <<backend, xp, wr, sessQ, sent, req, client, inflight, uquit, udone, up, rf, rounds>>
\* <-writeDone; close(s.done); the listener's handler returns
RdWait ==
  /\ rd = "rwait" /\ wr = "exited" /\ rd' = "done"
  /\ UNCHANGED <<backend, xp, dconn, squit, wr, sessQ, sent, req, client, inflight, uquit, udone, up, rf, rounds>>
ReaderNext == RdRead \/ RdHandle \/ RdEnqueue \/ RdExit \/ RdWait

(* session writer (session.go loopWrite)                                   *)
WrExit == wr' = "exited" /\ dconn' = "closed" /\ squit' = TRUE
WrSelect ==
  /\ wr = "select"
  /\ \/ squit /\ WrExit /\ UNCHANGED sessQ
     \/ sessQ /\ sessQ' = FALSE /\ wr' = "wait" /\ UNCHANGED <<dconn, squit>>
  /\ UNCHANGED <<backend, xp, rd, sent, req, client, inflight, uquit, udone, up, rf, rounds>>
\* req.Wait()  (repaired: select {<-req.done | <-s.quit -> return})
WrWait ==
  /\ wr = "wait"
  /\ \/ req["sreq"] \in {"ok", "err"} /\ wr' = "encode" /\ UNCHANGED <<dconn, squit>>
     \/ FixSessionWait /\ squit /\ WrExit
  /\ UNCHANGED <<backend, xp, rd, sessQ, sent, req, client, inflight, uquit, udone, up, rf, rounds>>
\* encode + flush: fails on a closed connection
WrEncode ==
  /\ wr = "encode"
  /\ IF dconn = "closed" THEN WrExit ELSE wr' = "select" /\ UNCHANGED <<dconn, squit>>
  /\ UNCHANGED <<backend, xp, rd, sessQ, sent, req, client, inflight, uquit, udone, up, rf, rounds>>
WriterNext == WrSelect \/ WrWait \/ WrEncode

-----------------------------------------------------------------------------
(* upstream.Serve (upstream.go:92-114): wait for the refresher (and the    *)
(* hot-key collector, which returns on quit), stop every client, close done *)
UpWait ==
  /\ up = "run" /\ uquit /\ rf \in {"exited", "absent"} /\ up' = "stopClients"
  /\ UNCHANGED <<backend, xp, dconn, squit, rd, wr, sessQ, sent, req, client, inflight, uquit, udone, rf, rounds>>
UpStopClients ==
  /\ up = "stopClients" /\ up' = "done" /\ udone' = TRUE
  /\ IF client = "alive" THEN client' = "dead" /\ FailInflight ELSE UNCHANGED <<client, req, inflight>>
  /\ UNCHANGED <<backend, xp, dconn, squit, rd, wr, sessQ, sent, uquit, rf, rounds>>
UpstreamNext == UpWait \/ UpStopClients

(* slot refresher (upstream.go loopRefreshSlots / doSlotsRefresh)          *)
RfSelect ==
  /\ rf = "sel"
  /\ \/ uquit /\ rf' = "exited" /\ UNCHANGED <<req, rounds>>
     \/ rounds < MaxRounds /\ rf' = "refresh" /\ rounds' = rounds + 1 /\ req' = [req EXCEPT !["rreq"] = "none"]
  /\ UNCHANGED <<backend, xp, dconn, squit, rd, wr, sessQ, sent, client, inflight, uquit, udone, up>>
RfRefresh ==
  /\ rf = "refresh" /\ req["rreq"] = "none" /\ "rreq" \notin inflight
  /\ MakeRequest("rreq") /\ rf' = "rwait"
  /\ UNCHANGED <<backend, xp, dconn, squit, rd, wr, sessQ, sent, uquit, udone, up, rounds>>
\* req.Wait()  (repaired: select {<-req.done | <-u.quit -> return an error})
RfWait ==
  /\ rf = "rwait"
  /\ \/ req["rreq"] \in {"ok", "err"}
     \/ FixRefreshWait /\ uquit
  /\ rf' = "timer"
  /\ UNCHANGED <<backend, xp, dconn, squit, rd, wr, sessQ, sent, req, client, inflight, uquit, udone, up, rounds>>
\* select {minimum-rate timer | quit -> return}
RfTimer ==
  /\ rf = "timer"
  /\ \/ uquit /\ rf' = "exited"
     \/ ~uquit /\ rf' = "sel"
  /\ UNCHANGED <<backend, xp, dconn, squit, rd, wr, sessQ, sent, req, client, inflight, uquit, udone, up, rounds>>
RefreshNext == RfSelect \/ RfRefresh \/ RfWait \/ RfTimer

-----------------------------------------------------------------------------
ProxyNext == StopNext \/ ReaderNext \/ WriterNext \/ UpstreamNext \/ RefreshNext
EnvNext == ClientSend \/ ClientClose \/ BackendCloses \/ CallStop \/ (\E r \in Reqs : BackendReply(r))
Next == ProxyNext \/ EnvNext

Fairness ==
  /\ WF_vars(StopNext) /\ WF_vars(ReaderNext) /\ WF_vars(WriterNext)
  /\ WF_vars(UpstreamNext) /\ WF_vars(RefreshNext)
  /\ \A r \in Reqs : WF_vars(BackendReply(r))

Spec == Init /\ [][Next]_vars /\ Fairness

-----------------------------------------------------------------------------
\* Stop returns whatever the backend does
StopReturns == (xp = "x0") ~> (xp = "ret")

\* safety form: Stop waits and nothing the proxy or a responsive backend can do lets it return
StopStuck == xp \in {"x0", "x1", "x2", "x3"} /\ ~ENABLED ProxyNext /\ ~ENABLED (\E r \in Reqs : BackendReply(r))
NoStuckStop == ~StopStuck

\* afterwards nothing is left: session goroutines, refresher, backend connection
AfterStopAllReleased ==
  xp = "ret" =>
    /\ SessionDone /\ wr \in {"exited", "absent"} /\ dconn = "closed"
    /\ rf \in {"exited", "absent"} /\ up = "done" /\ client # "alive" /\ inflight = {}

\* the windows of the two waits (reachability checked by RedisStopWin.tla)
W_StopWithSilentBackend == xp = "x1" /\ wr = "wait" /\ req["sreq"] = "pending" /\ backend = "silent"
W_StopWhileRefreshWaits == xp = "x3" /\ rf = "rwait" /\ req["rreq"] = "pending" /\ backend = "silent"
=============================================================================
