SPECIFICATION Spec
CONSTANTS
  StopAllLock = "hold"
  StopAllSignalsFirst = FALSE
  BExists = {TRUE, FALSE}
  BFull = {TRUE, FALSE}
CONSTRAINT RecordWindows
POSTCONDITION AllWindowsReached
CHECK_DEADLOCK FALSE
