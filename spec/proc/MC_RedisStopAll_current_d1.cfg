SPECIFICATION Spec
CONSTANTS
  StopAllLock = "hold"
  StopAllSignalsFirst = FALSE
  BExists = {FALSE}
  BFull = {FALSE}
INVARIANTS TypeOK NoStuckStop AfterStopAllReleased NoLiveClientAfterStop
PROPERTIES StopReturns
CHECK_DEADLOCK FALSE
