SPECIFICATION TraceSpec
CONSTANTS
  H <- TraceH
  Limit <- TraceLimit
  PortMayBeBusy = FALSE
  WithStop = TRUE
  WithDrain = TRUE
  FixDone = FALSE
  FixPublish = FALSE
  FixStats = FALSE
  AtomicAdd = TRUE
  TakeRegistry = TRUE
  DrainLatchFirst = TRUE
  Det = FALSE
POSTCONDITION TraceReport
CHECK_DEADLOCK FALSE
