SPECIFICATION Spec
CONSTANTS
  StopAllLock = "hold"
  StopAllSignalsFirst = FALSE
  BExists = {TRUE}
  BFull = {TRUE}
INVARIANTS TypeOK NoStuckStop AfterStopAllReleased NoLiveClientAfterStop
PROPERTIES StopReturns
CHECK_DEADLOCK FALSE
