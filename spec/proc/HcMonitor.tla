------------------------------ MODULE HcMonitor ------------------------------
(***************************************************************************)
(* Composition model for C09: the health monitor of a TCP processor        *)
(* (proc/internal/hc/monitor.go, proc/internal/hc/atcp/checker.go) and     *)
(* tcpProc.Stop / OnSvcConfigUpdate (proc/tcp/proc.go).  TcpStop.tla       *)
(* abstracts it to "hm.Stop()"; this module refines that step.             *)
(*                                                                         *)
(*   monitor m   - loop: select {ctx.Done -> close(done), return |         *)
(*                 strategyUpdateCh -> new ticker | ticker -> checkHosts}  *)
(*   probe       - checkHosts -> checker.Check(addr, timeout): dial, then  *)
(*                 (atcp / redis checker) doWithDeadline: a helper         *)
(*                 goroutine runs the blocking read/write and hands its    *)
(*                 result over a channel; the prober selects on that       *)
(*                 channel and on the deadline, then closes the connection *)
(*   reconfigure - OnSvcConfigUpdate with another health check:            *)
(*                 ResetHealthCheck patches the running monitor            *)
(*   stop        - tcpProc.Stop: p.hm.Stop() = cancel, <-done              *)
(*                                                                         *)
(*   HelperLeaksOnTimeout    - the result channel has no buffer: after the *)
(*                 deadline has won nobody receives, the helper blocks in  *)
(*                 its send for ever (code as it is: buffer of one, FALSE) *)
(*   ReconfigStartsSecondMonitor - a changed health check builds and       *)
(*                 starts a NEW monitor and stores it in p.hm; the old one *)
(*                 is never stopped (code as it is: FALSE)                 *)
(* Both mutants must violate AfterStopAllReleased (anti-vacuity).          *)
(***************************************************************************)
EXTENDS Naturals, FiniteSets, TLC

CONSTANTS Backends,      \* subset of {"responsive", "silent", "closed"}: answers the probe / accepts and
                         \* never answers / refuses the connection
          HelperLeaksOnTimeout, ReconfigStartsSecondMonitor,
          MaxTicks, MaxReconf

M == {1, 2}              \* monitors that may ever exist

VARIABLES
  backend,
  hm,        \* the monitor p.hm points to
  mpc,       \* per monitor: "none" | "loop" | "probe" | "exited"
  cancelled, \* per monitor: ctx cancelled
  helper,    \* per monitor, the helper goroutine of its probe: "none" | "run" | "orphan" (the prober
             \* has given up and closed the connection) | "stuck" (blocked in its send for ever)
  stuck,     \* number of helper goroutines blocked for ever
  ticks, reconf,
  xp         \* tcpProc.Stop: "idle" | "x0" (cancel) | "x1" (wait done) | "ret"

vars == <<backend, hm, mpc, cancelled, helper, stuck, ticks, reconf, xp>>

TypeOK ==
  /\ backend \in {"responsive", "silent", "closed"} /\ hm \in M
  /\ mpc \in [M -> {"none", "loop", "probe", "exited"}] /\ cancelled \in [M -> BOOLEAN]
  /\ helper \in [M -> {"none", "run", "orphan"}] /\ stuck \in 0..(2 * MaxTicks)
  /\ ticks \in 0..MaxTicks /\ reconf \in 0..MaxReconf /\ xp \in {"idle", "x0", "x1", "ret"}

Init ==
  /\ backend \in Backends /\ hm = 1
  /\ mpc = [m \in M |-> IF m = 1 THEN "loop" ELSE "none"] /\ cancelled = [m \in M |-> FALSE]
  /\ helper = [m \in M |-> "none"] /\ stuck = 0 /\ ticks = 0 /\ reconf = 0 /\ xp = "idle"

-----------------------------------------------------------------------------
\* ticker fires: checkHosts -> Check: dial; a refused dial fails the check at once
Tick(m) ==
  /\ mpc[m] = "loop" /\ ticks < MaxTicks /\ ticks' = ticks + 1
  /\ IF backend = "closed" THEN UNCHANGED <<mpc, helper>>
     ELSE mpc' = [mpc EXCEPT ![m] = "probe"] /\ helper' = [helper EXCEPT ![m] = "run"]
  /\ UNCHANGED <<backend, hm, cancelled, stuck, reconf, xp>>

\* the backend answers: the helper hands the result over and ends, the prober closes and goes on
ProbeAnswered(m) ==
  /\ mpc[m] = "probe" /\ helper[m] = "run" /\ backend = "responsive"
  /\ mpc' = [mpc EXCEPT ![m] = "loop"] /\ helper' = [helper EXCEPT ![m] = "none"]
  /\ UNCHANGED <<backend, hm, cancelled, stuck, ticks, reconf, xp>>

\* the deadline wins: ErrTimeout, the deferred conn.Close(); the helper is on its own
ProbeTimeout(m) ==
  /\ mpc[m] = "probe" /\ helper[m] = "run" /\ backend # "responsive"
  /\ mpc' = [mpc EXCEPT ![m] = "loop"] /\ helper' = [helper EXCEPT ![m] = "orphan"]
  /\ UNCHANGED <<backend, hm, cancelled, stuck, ticks, reconf, xp>>

\* the orphaned helper's read fails on the closed connection; `ret <- err`: with the buffer it ends,
\* without it blocks for ever (the next probe of the monitor uses a new helper)
HelperEnds(m) ==
  /\ helper[m] = "orphan" /\ helper' = [helper EXCEPT ![m] = "none"]
  /\ stuck' = IF HelperLeaksOnTimeout THEN stuck + 1 ELSE stuck
  /\ UNCHANGED <<backend, hm, mpc, cancelled, ticks, reconf, xp>>

\* select { <-ctx.Done(): close(done); return }
MonitorExits(m) ==
  /\ mpc[m] = "loop" /\ cancelled[m] /\ mpc' = [mpc EXCEPT ![m] = "exited"]
  /\ UNCHANGED <<backend, hm, cancelled, helper, stuck, ticks, reconf, xp>>

\* environment: a configuration event changes the health check (interval / thresholds / checker)
Reconfigure ==
  /\ reconf < MaxReconf /\ xp = "idle" /\ reconf' = reconf + 1
  /\ IF ReconfigStartsSecondMonitor /\ \E m \in M : mpc[m] = "none"
       THEN LET n == CHOOSE m \in M : mpc[m] = "none" IN
              /\ mpc' = [mpc EXCEPT ![n] = "loop"] /\ hm' = n
       ELSE UNCHANGED <<mpc, hm>>             \* ResetHealthCheck: the running loop takes a new ticker
  /\ UNCHANGED <<backend, cancelled, helper, stuck, ticks, xp>>

CallStop == xp = "idle" /\ xp' = "x0" /\ UNCHANGED <<backend, hm, mpc, cancelled, helper, stuck, ticks, reconf>>
\* p.hm.Stop(): m.cancel() ...
X0 == /\ xp = "x0" /\ cancelled' = [cancelled EXCEPT ![hm] = TRUE] /\ xp' = "x1"
      /\ UNCHANGED <<backend, hm, mpc, helper, stuck, ticks, reconf>>
\* ... <-m.done (then the listener is stopped: TcpStop.tla)
X1 == /\ xp = "x1" /\ mpc[hm] = "exited" /\ xp' = "ret"
      /\ UNCHANGED <<backend, hm, mpc, cancelled, helper, stuck, ticks, reconf>>

MonitorNext(m) == Tick(m) \/ ProbeAnswered(m) \/ ProbeTimeout(m) \/ HelperEnds(m) \/ MonitorExits(m)
ProxyNext == (\E m \in M : MonitorNext(m)) \/ X0 \/ X1
Next == ProxyNext \/ Reconfigure \/ CallStop

Spec == Init /\ [][Next]_vars /\ (\A m \in M : WF_vars(ProbeAnswered(m) \/ ProbeTimeout(m) \/ HelperEnds(m) \/ MonitorExits(m)))
             /\ WF_vars(X0 \/ X1)

-----------------------------------------------------------------------------
StopReturns == (xp = "x0") ~> (xp = "ret")

\* the goroutines that are there for good (a prober or a helper that is still finishing is not)
Settled == \A m \in M : mpc[m] # "probe" /\ helper[m] = "none"
AfterStopAllReleased ==
  (xp = "ret" /\ Settled) => /\ \A m \in M : mpc[m] \in {"none", "exited"}
                             /\ stuck = 0
\* after Stop has returned no probe connection is opened any more
NoProbeAfterStop == [][xp = "ret" => ticks' = ticks]_vars

W_StopWhileProbing == xp = "x1" /\ mpc[hm] = "probe"
W_ProbeTimedOut == \E m \in M : helper[m] = "orphan"
W_Reconfigured == reconf > 0 /\ xp = "x0"
=============================================================================
