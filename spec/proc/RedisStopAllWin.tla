-------------------------- MODULE RedisStopAllWin --------------------------
(* Anti-vacuity run for RedisStopAll (see ListenerWin). *)
EXTENDS RedisStopAll

ASSUME TLCSet(101, FALSE) /\ TLCSet(102, FALSE) /\ TLCSet(103, FALSE)

RecordWindows ==
  /\ W_RedirectLockVsStopAll => TLCSet(101, TRUE)
  /\ W_RedirectSendVsStopAll => TLCSet(102, TRUE)
  /\ W_ConnectPendingAtStop => TLCSet(103, TRUE)

AllWindowsReached ==
  IF TLCGet(101) /\ TLCGet(102) /\ TLCGet(103) THEN TRUE
  ELSE Print(<<"@@UNREACHED", TLCGet(101), TLCGet(102), TLCGet(103)>>, FALSE)
=============================================================================
