---------------------------- MODULE ListenerTrace ----------------------------
(***************************************************************************)
(* Trace specification (code -> spec): the ordered log of a free-running   *)
(* real listener (harness/cases/c09/free.go) must be explainable by        *)
(* Listener.                                                               *)
(*                                                                         *)
(* The log holds ARRIVALS of the listener's goroutines at verifhook points *)
(* and the driver's calls / returns.  A hook point marks the beginning of  *)
(* a code section = one action of Listener; its effect takes place at some *)
(* moment before the same goroutine's next arrival.  So an arrival "arms"  *)
(* the role, an armed role may fire its action at any later point of the   *)
(* log (TLC searches the linearisation), and the role's next arrival is    *)
(* only accepted if the model's program counter of that role is at that    *)
(* point again.  Environment operations (connect, close, port freed) are   *)
(* logged when they start and when they return and take effect in between. *)
(* Several runs are concatenated, separated by "reset" events; every event *)
(* carries the number t of its run and the index nx of the next reset.     *)
(* A run that cannot be explained may be skipped as a whole (Skip), and    *)
(* TLC registers record which runs were consumed without skipping and how  *)
(* far each run got; the post-condition prints both.                       *)
(***************************************************************************)
EXTENDS Listener, Json, TLCExt

TraceLog == TLCEval(JsonDeserialize("trace.json"))   \* TLCEval: evaluated once and cached
TraceLimit == TraceLog[1].limit
TraceH == TLCEval({TraceLog[i].h : i \in {j \in 1..Len(TraceLog) : TraceLog[j].h # ""}})

VARIABLES l,           \* next log entry
          clean,       \* the current run has been consumed so far (not skipped)
          armed,       \* roles whose current code section has begun and not yet taken effect
          connecting, closing, freeing   \* environment operations in progress

tvars == <<vars, l, clean, armed, connecting, closing, freeing>>

Roles == {"serve", "stop", "drain"} \cup H
NoneArmed == [r \in Roles |-> FALSE]

TraceInit == Init /\ l = 1 /\ clean = TRUE /\ armed = NoneArmed /\ connecting = {} /\ closing = {} /\ freeing = FALSE

GateOfRole(r) ==
  CASE r = "serve" -> ServeGate [] r = "stop" -> StopGate [] r = "drain" -> DrainGate [] OTHER -> HGate(r)

Base == UNCHANGED vars
EnvOps == <<connecting, closing, freeing>>

\* ---- a role fires the code section it has begun
FireServe ==
  /\ armed["serve"]
  /\ SrvCheck \/ SrvBind \/ SrvRetry \/ SrvPublish \/ SrvRecheck \/ SrvAccept \/ SrvAcceptErr \/ SrvWait \/ SrvCloseDone
  /\ armed' = [armed EXCEPT !["serve"] = (srv' = "recheck")]
  /\ UNCHANGED <<l, clean, EnvOps>>
FireStop == armed["stop"] /\ StopNext /\ armed' = [armed EXCEPT !["stop"] = FALSE] /\ UNCHANGED <<l, clean, EnvOps>>
\* (the step of Drain that no hook point precedes follows without a new arrival)
FireDrain ==
  /\ armed["drain"] /\ DrainNext
  /\ armed' = [armed EXCEPT !["drain"] = (drn' \in {"d1", "d2"} /\ DrainGate' = "")]
  /\ UNCHANGED <<l, clean, EnvOps>>
FireHandler(h) == armed[h] /\ HandlerNext(h) /\ armed' = [armed EXCEPT ![h] = (hs'[h] = "add2")] /\ UNCHANGED <<l, clean, EnvOps>>
FireConnect(h) == h \in connecting /\ PeerConnect(h) /\ UNCHANGED <<l, clean, armed, EnvOps>>
FireClose(h) == h \in closing /\ PeerClose(h) /\ closing' = closing \ {h} /\ UNCHANGED <<l, clean, armed, connecting, freeing>>
FireFreed == freeing /\ PortFreed /\ freeing' = FALSE /\ UNCHANGED <<l, clean, armed, connecting, closing>>

Fire == FireServe \/ FireStop \/ FireDrain \/ FireFreed \/ (\E h \in H : FireHandler(h) \/ FireConnect(h) \/ FireClose(h))

\* ---- the next log entry is consumed
Arrive(r, p) ==
  /\ ~armed[r] /\ GateOfRole(r) = p
  /\ armed' = [armed EXCEPT ![r] = TRUE] /\ Base /\ UNCHANGED EnvOps

ResetAll(b) ==
  /\ srv' = "notStarted" /\ retried' = FALSE
  /\ quit' = FALSE /\ drain' = FALSE /\ done' = FALSE
  /\ sockOpen' = FALSE /\ lnPub' = FALSE /\ portBusy' = b
  /\ backlog' = <<>> /\ conns' = {} /\ connsNil' = FALSE
  /\ hs' = [h \in H |-> "none"] /\ hconn' = [h \in H |-> "none"]
  /\ stp' = "idle" /\ taken' = {} /\ sln' = "unread"
  /\ drn' = "idle" /\ dln' = "unread"
  /\ cxTotal' = 0 /\ cxActive' = 0 /\ cxDestroy' = 0 /\ cxRestricted' = 0
  /\ armed' = NoneArmed /\ connecting' = {} /\ closing' = {} /\ freeing' = FALSE

Consume(e) ==
  CASE e.r = "ctl" /\ e.p = "reset" -> ResetAll(e.busy)
    [] e.r = "ctl" /\ e.p = "stats" ->
         /\ cxTotal = e.total /\ cxActive = e.active /\ cxDestroy = e.destroy /\ cxRestricted = e.restricted
         /\ Base /\ UNCHANGED <<armed, EnvOps>>
    [] e.r = "env" /\ e.p = "callServe" -> SrvStart /\ UNCHANGED <<armed, EnvOps>>
    [] e.r = "env" /\ e.p = "callStop" -> CallStop /\ UNCHANGED <<armed, EnvOps>>
    [] e.r = "env" /\ e.p = "callDrain" -> CallDrain /\ UNCHANGED <<armed, EnvOps>>
    [] e.r = "env" /\ e.p = "connect" ->
         hconn[e.h] = "none" /\ connecting' = connecting \cup {e.h} /\ Base /\ UNCHANGED <<armed, closing, freeing>>
    [] e.r = "env" /\ e.p = "connected" ->
         hconn[e.h] # "none" /\ connecting' = connecting \ {e.h} /\ Base /\ UNCHANGED <<armed, closing, freeing>>
    [] e.r = "env" /\ e.p = "connectFailed" ->
         hconn[e.h] = "none" /\ connecting' = connecting \ {e.h} /\ Base /\ UNCHANGED <<armed, closing, freeing>>
    [] e.r = "env" /\ e.p = "peerClose" ->
         /\ closing' = IF hconn[e.h] \in {"open", "backlog"} \/ e.h \in connecting THEN closing \cup {e.h} ELSE closing
         /\ Base /\ UNCHANGED <<armed, connecting, freeing>>
    [] e.r = "env" /\ e.p = "peerClosed" ->
         e.h \notin closing /\ Base /\ UNCHANGED <<armed, EnvOps>>
    [] e.r = "env" /\ e.p = "portFree" -> freeing' = TRUE /\ Base /\ UNCHANGED <<armed, connecting, closing>>
    [] e.r = "env" /\ e.p = "portFreed" -> ~freeing /\ Base /\ UNCHANGED <<armed, EnvOps>>
    [] e.r = "serve" /\ e.p = "returned" -> srv = "returned" /\ Base /\ UNCHANGED <<armed, EnvOps>>
    [] e.r = "stop" /\ e.p = "returned" -> stp = "ret" /\ Base /\ UNCHANGED <<armed, EnvOps>>
    [] e.r = "drain" /\ e.p = "returned" -> drn = "ret" /\ Base /\ UNCHANGED <<armed, EnvOps>>
    [] e.r = "h" /\ e.p = "handler.enter" -> hs[e.h] = "serve" /\ Base /\ UNCHANGED <<armed, EnvOps>>
    [] e.r = "h" -> Arrive(e.h, e.p)
    [] e.r \in {"serve", "stop", "drain"} -> Arrive(e.r, e.p)
    [] OTHER -> FALSE

NTraces == TLCEval(TraceLog[Len(TraceLog)].t)
Max(a, b) == IF a > b THEN a ELSE b

\* registers: 1000 + t = run t was consumed completely without Skip; 2000 + t = furthest entry of run t reached
ASSUME \A t \in 1..NTraces : TLCSet(1000 + t, FALSE) /\ TLCSet(2000 + t, 0)

\* the run that ends before entry i (a reset, or the end of the log) is complete
Completed(i) == (i > 1 /\ clean) => TLCSet(1000 + TraceLog[i - 1].t, TRUE)

Step ==
  /\ l <= Len(TraceLog)
  /\ LET e == TraceLog[l] IN
       /\ Consume(e)
       /\ IF e.p = "reset" THEN Completed(l) /\ clean' = TRUE ELSE UNCHANGED clean
       /\ (clean' => TLCSet(2000 + e.t, Max(TLCGet(2000 + e.t), l)))
  /\ l' = l + 1

\* give up on the current run: jump to the next reset
Skip ==
  /\ l <= Len(TraceLog) /\ TraceLog[l].p # "reset" /\ clean
  /\ l' = TraceLog[l].nx /\ clean' = FALSE
  /\ UNCHANGED <<vars, armed, EnvOps>>

Finish ==
  /\ l = Len(TraceLog) + 1 /\ Completed(l)
  /\ l' = l + 1 /\ UNCHANGED <<vars, clean, armed, EnvOps>>

TraceNext == Step \/ Fire \/ Skip \/ Finish

TraceSpec == TraceInit /\ [][TraceNext]_tvars

\* always TRUE: prints the verdict per run
TraceReport ==
  /\ PrintT("@@ACCEPTED " \o ToJson([t \in 1..NTraces |-> TLCGet(1000 + t)]))
  /\ PrintT("@@REACHED " \o ToJson([t \in 1..NTraces |-> TLCGet(2000 + t)]))
=============================================================================
