SPECIFICATION GenSpec
CONSTANTS
  H = {"c1", "c2", "c3"}
  Limit = 2
  PortMayBeBusy = TRUE
  WithStop = TRUE
  WithDrain = TRUE
  FixDone = TRUE
  FixPublish = TRUE
  FixStats = TRUE
  AtomicAdd = TRUE
  TakeRegistry = TRUE
  DrainLatchFirst = TRUE
  Det = TRUE
  MaxRetry = 1
  LateCalls = TRUE
CHECK_DEADLOCK FALSE
