SPECIFICATION TraceSpec
CONSTANTS
  H <- TraceH
  Limit <- TraceLimit
  PortMayBeBusy = FALSE
  WithStop = TRUE
  WithDrain = TRUE
  FixDone = TRUE
  FixPublish = TRUE
  FixStats = TRUE
  AtomicAdd = TRUE
  TakeRegistry = TRUE
  DrainLatchFirst = TRUE
  Det = FALSE
POSTCONDITION TraceReport
CHECK_DEADLOCK FALSE
