SPECIFICATION Spec
CONSTANTS
  H = {"c1", "c2"}
  Limit = 1
  PortMayBeBusy = TRUE
  WithStop = TRUE
  WithDrain = TRUE
  FixDone = FALSE
  FixPublish = FALSE
  FixStats = FALSE
  AtomicAdd = TRUE
  TakeRegistry = TRUE
  DrainLatchFirst = TRUE
  Det = FALSE
INVARIANTS TypeOK DrainClosesSocket NoStuckStop AfterStopAllReleased LimitRespected ConnStatsConserved GaugeNonNegative
PROPERTIES StopReturns DrainReturns DrainKeepsEstablished DrainStopsAccepting UnderLimitServed
CHECK_DEADLOCK FALSE
