------------------------------- MODULE Listener -------------------------------
(***************************************************************************)
(* The downstream listener of a samaritan processor (proc/listener.go) and *)
(* the goroutines that touch it:                                           *)
(*   serve   - Listener.Serve: check quit/drain, bind (retry every 500 ms  *)
(*             while the port is occupied), publish l.ln, accept loop,     *)
(*             wait for the connection handlers, close(done)               *)
(*   h:<c>   - one handler goroutine per accepted connection c:            *)
(*             addConn (registry lock, connection limit, counters), the    *)
(*             protocol handler, removeConn                                *)
(*   stop    - Listener.Stop: close(quit); swap the registry to nil under  *)
(*             the lock; read l.ln; close the socket; close the            *)
(*             connections; <-done                                         *)
(*   drain   - Listener.Drain: close(drain); THEN read l.ln; close the      *)
(*             socket (three steps; Serve's publish-then-re-check guard    *)
(*             relies on this order)                                       *)
(* and the environment: peers connecting / closing, the port being held by *)
(* another process and being freed, the calls of Stop and Drain.           *)
(*                                                                         *)
(* One action = the code between two consecutive verifhook points of one   *)
(* goroutine (the point that starts the action is named in its comment),   *)
(* so a behaviour of this module can be forced on the real goroutines by   *)
(* releasing them from those points in the same order                      *)
(* (harness/cases/c09/replay.go).                                          *)
(*                                                                         *)
(* Boolean constants select the pinned (defective) or the repaired code:   *)
(*   FixDone    - Serve closes `done` on every exit (pinned: only on the   *)
(*                path that actually served; an early return on quit/drain *)
(*                leaves Stop waiting for ever)                            *)
(*   FixPublish - Serve publishes l.ln under the registry lock and then    *)
(*                re-checks quit/drain (closing the socket itself);        *)
(*                Stop/Drain read l.ln under the lock (pinned: l.ln is     *)
(*                written and read without synchronisation, a Stop/Drain   *)
(*                that reads nil leaves the socket open for ever)          *)
(*   FixStats   - Stop accounts for the connections the registry hands to  *)
(*                it (pinned: they are never counted as destroyed)         *)
(*   AtomicAdd  - addConn checks the limit and inserts in ONE critical     *)
(*                section (the code as it is).  FALSE is the check-then-   *)
(*                act variant (limit evaluated in a critical section of    *)
(*                its own, insert in a second one): it must violate        *)
(*                LimitRespected - kept as an anti-vacuity mutant          *)
(*   DrainLatchFirst - Drain raises the drain latch before it looks for    *)
(*                the socket (the code as it is).  FALSE swaps the two:    *)
(*                a Drain that looks while Serve is binding sees nil,      *)
(*                Serve publishes and re-checks before the latch is        *)
(*                raised, nobody closes the socket - kept as an            *)
(*                anti-vacuity mutant (must violate DrainStopsAccepting)   *)
(*   TakeRegistry - Stop takes the registry (l.conns = nil) while it       *)
(*                copies it (the code as it is).  FALSE is the mutant that *)
(*                only copies: a connection accepted before the socket is  *)
(*                closed and registered after the copy is served, nobody   *)
(*                closes it, Stop waits for its peer - kept as an          *)
(*                anti-vacuity mutant for the window W_AddAfterStop        *)
(***************************************************************************)
EXTENDS Naturals, Integers, Sequences, FiniteSets, TLC

CONSTANTS H,              \* connections / peers (strings)
          Limit,          \* cfg.ConnectionLimit, 0 = unlimited
          PortMayBeBusy,  \* the port may initially be held by another process
          WithStop, WithDrain,
          FixDone, FixPublish, FixStats, AtomicAdd, TakeRegistry, DrainLatchFirst,
          Det             \* TRUE: a ready latch wins against the retry timer (the timer needs
                          \* 500 ms; used when behaviours are replayed on the code)

VARIABLES
  srv,        \* pc of Serve
  retried,    \* ghost: a bind attempt has failed before
  quit, drain, done,   \* the three latches (closed channels)
  sockOpen,   \* the listening socket exists (bound and not closed)
  lnPub,      \* l.ln has been published
  portBusy,   \* the port is held by another process
  backlog,    \* connections completed by the kernel, not yet accepted (FIFO)
  conns,      \* the registry l.conns (set of connections)
  connsNil,   \* l.conns == nil
  hs,         \* pc per handler goroutine
  hconn,      \* per connection: "none" | "backlog" | "open" | "closed"
  stp,        \* pc of Stop
  taken,      \* Stop's local copy of the registry
  sln,        \* what Stop read from l.ln: "unread" | "nil" | "set"
  drn,        \* pc of Drain
  dln,        \* what Drain read from l.ln
  cxTotal, cxActive, cxDestroy, cxRestricted   \* ghosts: downstream connection statistics

vars == <<srv, retried, quit, drain, done, sockOpen, lnPub, portBusy, backlog, conns, connsNil,
          hs, hconn, stp, taken, sln, drn, dln, cxTotal, cxActive, cxDestroy, cxRestricted>>

SrvPCs == {"notStarted", "check", "bind", "retryWait", "publish", "recheck", "accept",
           "waitConns", "closeDone", "returned"}
HPCs == {"none", "add", "add2", "serve", "remove", "fin"}

TypeOK ==
  /\ srv \in SrvPCs /\ retried \in BOOLEAN
  /\ quit \in BOOLEAN /\ drain \in BOOLEAN /\ done \in BOOLEAN
  /\ sockOpen \in BOOLEAN /\ lnPub \in BOOLEAN /\ portBusy \in BOOLEAN
  /\ backlog \in Seq(H) /\ conns \subseteq H /\ connsNil \in BOOLEAN
  /\ hs \in [H -> HPCs] /\ hconn \in [H -> {"none", "backlog", "open", "closed"}]
  /\ stp \in {"idle", "s0", "s1", "s2", "s3", "s4", "ret"} /\ taken \subseteq H
  /\ sln \in {"unread", "nil", "set"} /\ dln \in {"unread", "nil", "set"}
  /\ drn \in {"idle", "d0", "d1", "d2", "ret"}
  /\ cxTotal \in Nat /\ cxActive \in Int /\ cxDestroy \in Nat /\ cxRestricted \in Nat

Init ==
  /\ srv = "notStarted" /\ retried = FALSE
  /\ quit = FALSE /\ drain = FALSE /\ done = FALSE
  /\ sockOpen = FALSE /\ lnPub = FALSE
  /\ portBusy \in (IF PortMayBeBusy THEN BOOLEAN ELSE {FALSE})
  /\ backlog = <<>> /\ conns = {} /\ connsNil = FALSE
  /\ hs = [h \in H |-> "none"] /\ hconn = [h \in H |-> "none"]
  /\ stp = "idle" /\ taken = {} /\ sln = "unread"
  /\ drn = "idle" /\ dln = "unread"
  /\ cxTotal = 0 /\ cxActive = 0 /\ cxDestroy = 0 /\ cxRestricted = 0

\* closing the listening socket resets the connections nobody accepted
CloseSock ==
  /\ sockOpen' = FALSE /\ backlog' = <<>>
  /\ hconn' = [h \in H |-> IF hconn[h] = "backlog" THEN "closed" ELSE hconn[h]]

CloseSockIf(c) == IF c /\ sockOpen THEN CloseSock ELSE UNCHANGED <<sockOpen, backlog, hconn>>

Stats == <<cxTotal, cxActive, cxDestroy, cxRestricted>>
StopVars == <<stp, taken, sln>>
DrainVars == <<drn, dln>>
Latches == <<quit, drain, done>>
Registry == <<conns, connsNil>>

-----------------------------------------------------------------------------
(* Serve                                                                   *)

\* the goroutine started by Start() gets to run (listener.go:85)
SrvStart ==
  /\ srv = "notStarted" /\ srv' = "check"
  /\ UNCHANGED <<retried, Latches, sockOpen, lnPub, portBusy, backlog, Registry, hs, hconn,
                 StopVars, DrainVars, Stats>>

\* the early exits of Serve: pinned code returns without closing done
SrvReturnEarly ==
  /\ srv' = "returned"
  /\ done' = IF FixDone THEN TRUE ELSE done

\* point listener.Serve.check (listener.go:93-101): select {quit -> return | drain -> return | default}
SrvCheck ==
  /\ srv = "check"
  /\ IF quit \/ drain THEN SrvReturnEarly ELSE srv' = "bind" /\ UNCHANGED done
  /\ UNCHANGED <<retried, quit, drain, sockOpen, lnPub, portBusy, backlog, Registry, hs, hconn,
                 StopVars, DrainVars, Stats>>

\* point listener.Serve.bind (listener.go:102-111): defaultListenFunc; on failure a 500 ms timer is created
SrvBind ==
  /\ srv = "bind"
  /\ IF portBusy THEN srv' = "retryWait" /\ retried' = TRUE /\ UNCHANGED sockOpen
                 ELSE srv' = "publish" /\ sockOpen' = TRUE /\ UNCHANGED retried
  /\ UNCHANGED <<Latches, lnPub, portBusy, backlog, Registry, hs, hconn, StopVars, DrainVars, Stats>>

\* point listener.Serve.retryWait (listener.go:112-119): select {timer -> loop | drain -> return | quit -> return}
SrvRetry ==
  /\ srv = "retryWait"
  /\ \/ /\ (Det => ~(quit \/ drain))
        /\ srv' = "check" /\ UNCHANGED done
     \/ /\ (quit \/ drain) /\ SrvReturnEarly
  /\ UNCHANGED <<retried, quit, drain, sockOpen, lnPub, portBusy, backlog, Registry, hs, hconn,
                 StopVars, DrainVars, Stats>>

\* point listener.Serve.publish (listener.go:122-123): l.ln = ln (repaired: under the lock, then re-check)
SrvPublish ==
  /\ srv = "publish"
  /\ lnPub' = TRUE /\ srv' = IF FixPublish THEN "recheck" ELSE "accept"
  /\ UNCHANGED <<retried, Latches, sockOpen, portBusy, backlog, Registry, hs, hconn,
                 StopVars, DrainVars, Stats>>

\* (repaired code only, no hook point) select {quit, drain -> ln.Close() | default}
SrvRecheck ==
  /\ srv = "recheck" /\ srv' = "accept"
  /\ CloseSockIf(quit \/ drain)
  /\ UNCHANGED <<retried, Latches, lnPub, portBusy, Registry, hs, StopVars, DrainVars, Stats>>

\* point listener.Serve.accept (listener.go:139-140, 172-176): Accept returns the oldest completed connection;
\* a handler goroutine is started for it (connsWg.Add(1))
SrvAccept ==
  /\ srv = "accept" /\ sockOpen /\ backlog # <<>>
  /\ LET h == Head(backlog) IN
       /\ hs' = [hs EXCEPT ![h] = "add"]
       /\ hconn' = [hconn EXCEPT ![h] = IF @ = "backlog" THEN "open" ELSE @]
  /\ backlog' = Tail(backlog)
  /\ UNCHANGED <<srv, retried, Latches, sockOpen, lnPub, portBusy, Registry, StopVars, DrainVars, Stats>>

\* point listener.Serve.accept (listener.go:139-170): Accept fails because the socket was closed
SrvAcceptErr ==
  /\ srv = "accept" /\ ~sockOpen /\ srv' = "waitConns"
  /\ UNCHANGED <<retried, Latches, sockOpen, lnPub, portBusy, backlog, Registry, hs, hconn,
                 StopVars, DrainVars, Stats>>

\* point listener.Serve.waitConns (listener.go:128-130): connsWg.Wait()
SrvWait ==
  /\ srv = "waitConns" /\ \A h \in H : hs[h] \in {"none", "fin"}
  /\ srv' = "closeDone"
  /\ UNCHANGED <<retried, Latches, sockOpen, lnPub, portBusy, backlog, Registry, hs, hconn,
                 StopVars, DrainVars, Stats>>

\* point listener.Serve.closeDone (listener.go:131-133): close(done); return
SrvCloseDone ==
  /\ srv = "closeDone" /\ done' = TRUE /\ srv' = "returned"
  /\ UNCHANGED <<retried, quit, drain, sockOpen, lnPub, portBusy, backlog, Registry, hs, hconn,
                 StopVars, DrainVars, Stats>>

-----------------------------------------------------------------------------
(* Connection handlers                                                     *)

AtLimit == Limit > 0 /\ Cardinality(conns) >= Limit

\* point listener.addConn (listener.go:216-232, 185-188): under the lock {registry nil -> refuse | limit -> count, refuse |
\* register, count}; a refused connection is closed and the goroutine ends
Refuse(h) == hs' = [hs EXCEPT ![h] = "fin"] /\ hconn' = [hconn EXCEPT ![h] = "closed"]
Register(h) ==
  /\ conns' = conns \cup {h} /\ cxTotal' = cxTotal + 1 /\ cxActive' = cxActive + 1
  /\ hs' = [hs EXCEPT ![h] = "serve"]

HAdd(h) ==
  /\ AtomicAdd /\ hs[h] = "add"
  /\ IF connsNil \/ AtLimit
       THEN /\ Refuse(h)
            /\ cxRestricted' = IF ~connsNil THEN cxRestricted + 1 ELSE cxRestricted
            /\ UNCHANGED <<conns, cxTotal, cxActive>>
       ELSE /\ Register(h) /\ UNCHANGED <<hconn, cxRestricted>>
  /\ UNCHANGED <<srv, retried, Latches, sockOpen, lnPub, portBusy, backlog, connsNil,
                 StopVars, DrainVars, cxDestroy>>

\* check-then-act mutant, first critical section: the limit
HAddCheck(h) ==
  /\ ~AtomicAdd /\ hs[h] = "add"
  /\ IF ~connsNil /\ AtLimit
       THEN Refuse(h) /\ cxRestricted' = cxRestricted + 1
       ELSE hs' = [hs EXCEPT ![h] = "add2"] /\ UNCHANGED <<hconn, cxRestricted>>
  /\ UNCHANGED <<srv, retried, Latches, sockOpen, lnPub, portBusy, backlog, Registry,
                 StopVars, DrainVars, cxTotal, cxActive, cxDestroy>>

\* check-then-act mutant, second critical section: registry nil -> refuse | register
HAddInsert(h) ==
  /\ hs[h] = "add2"
  /\ IF connsNil THEN Refuse(h) /\ UNCHANGED <<conns, cxTotal, cxActive>>
                 ELSE Register(h) /\ UNCHANGED hconn
  /\ UNCHANGED <<srv, retried, Latches, sockOpen, lnPub, portBusy, backlog, connsNil,
                 StopVars, DrainVars, cxDestroy, cxRestricted>>

\* point handler.exit (in the protocol handler; listener.go:191-201): the handler's read failed because the
\* connection was closed by the peer or by Stop; it returns, the deferred conn.Close() runs
HExit(h) ==
  /\ hs[h] = "serve" /\ hconn[h] = "closed"
  /\ hs' = [hs EXCEPT ![h] = "remove"]
  /\ UNCHANGED <<srv, retried, Latches, sockOpen, lnPub, portBusy, backlog, Registry, hconn,
                 StopVars, DrainVars, Stats>>

\* point listener.removeConn (listener.go:234-247, 176): under the lock; only a connection still in the registry is
\* counted as destroyed; then connsWg.Done()
HRemove(h) ==
  /\ hs[h] = "remove"
  /\ hs' = [hs EXCEPT ![h] = "fin"]
  /\ IF ~connsNil /\ h \in conns
       THEN conns' = conns \ {h} /\ cxDestroy' = cxDestroy + 1 /\ cxActive' = cxActive - 1
       ELSE UNCHANGED <<conns, cxDestroy, cxActive>>
  /\ UNCHANGED <<srv, retried, Latches, sockOpen, lnPub, portBusy, backlog, connsNil, hconn,
                 StopVars, DrainVars, cxTotal, cxRestricted>>

-----------------------------------------------------------------------------
(* Stop                                                                    *)

\* environment: somebody calls Stop
CallStop ==
  /\ WithStop /\ stp = "idle" /\ stp' = "s0"
  /\ UNCHANGED <<srv, retried, Latches, sockOpen, lnPub, portBusy, backlog, Registry, hs, hconn,
                 taken, sln, DrainVars, Stats>>

\* point listener.Stop (listener.go:277-280): close(quit) once
Stop0 ==
  /\ stp = "s0" /\ quit' = TRUE /\ stp' = "s1"
  /\ UNCHANGED <<srv, retried, drain, done, sockOpen, lnPub, portBusy, backlog, Registry, hs, hconn,
                 taken, sln, DrainVars, Stats>>

\* point listener.Stop.swap (listener.go:282-286): lock; conns := l.conns; l.conns = nil (repaired: ln := l.ln); unlock
Stop1 ==
  /\ stp = "s1" /\ taken' = conns /\ stp' = "s2"
  /\ IF TakeRegistry THEN conns' = {} /\ connsNil' = TRUE ELSE UNCHANGED <<conns, connsNil>>
  /\ sln' = IF FixPublish THEN (IF lnPub THEN "set" ELSE "nil") ELSE sln
  /\ UNCHANGED <<srv, retried, Latches, sockOpen, lnPub, portBusy, backlog, hs, hconn, DrainVars, Stats>>

\* point listener.Stop.readLn (listener.go:288-291): if l.ln != nil { l.ln.Close() }  (pinned: unsynchronised read)
Stop2 ==
  /\ stp = "s2" /\ stp' = "s3"
  /\ LET seen == IF FixPublish THEN sln ELSE (IF lnPub THEN "set" ELSE "nil") IN
       /\ sln' = seen
       /\ CloseSockIf(seen = "set")
  /\ UNCHANGED <<srv, retried, Latches, lnPub, portBusy, Registry, hs, taken, DrainVars, Stats>>

\* point listener.Stop.closeConns (listener.go:292-295): close every connection taken from the registry
\* (repaired: and count it as destroyed)
Stop3 ==
  /\ stp = "s3" /\ stp' = "s4"
  /\ hconn' = [h \in H |-> IF h \in taken THEN "closed" ELSE hconn[h]]
  /\ IF FixStats /\ TakeRegistry
       THEN cxDestroy' = cxDestroy + Cardinality(taken) /\ cxActive' = cxActive - Cardinality(taken)
       ELSE UNCHANGED <<cxDestroy, cxActive>>
  /\ UNCHANGED <<srv, retried, Latches, sockOpen, lnPub, portBusy, backlog, Registry, hs, taken, sln,
                 DrainVars, cxTotal, cxRestricted>>

\* point listener.Stop.waitDone (listener.go:296-298): <-done; return
Stop4 ==
  /\ stp = "s4" /\ done /\ stp' = "ret"
  /\ UNCHANGED <<srv, retried, Latches, sockOpen, lnPub, portBusy, backlog, Registry, hs, hconn,
                 taken, sln, DrainVars, Stats>>

-----------------------------------------------------------------------------
(* Drain                                                                   *)

CallDrain ==
  /\ WithDrain /\ drn = "idle" /\ drn' = "d0"
  /\ UNCHANGED <<srv, retried, Latches, sockOpen, lnPub, portBusy, backlog, Registry, hs, hconn,
                 StopVars, dln, Stats>>

\* Drain's three steps: raise the latch (close(drain) once), look for the socket (l.ln under the lock),
\* close it if there was one.  The code does them in this order; the hook points listener.Drain and
\* listener.Drain.readLn (listener.go:284-292) precede the first and the second step, the third has none.
DrainRead == dln' = IF lnPub THEN "set" ELSE "nil"

Drain0 ==
  /\ drn = "d0" /\ drn' = "d1"
  /\ IF DrainLatchFirst THEN drain' = TRUE /\ UNCHANGED dln ELSE DrainRead /\ UNCHANGED drain
  /\ UNCHANGED <<srv, retried, quit, done, sockOpen, lnPub, portBusy, backlog, Registry, hs, hconn,
                 StopVars, Stats>>

Drain1 ==
  /\ drn = "d1" /\ drn' = "d2"
  /\ IF DrainLatchFirst THEN DrainRead /\ UNCHANGED drain ELSE drain' = TRUE /\ UNCHANGED dln
  /\ UNCHANGED <<srv, retried, quit, done, sockOpen, lnPub, portBusy, backlog, Registry, hs, hconn,
                 StopVars, Stats>>

\* if ln != nil { ln.Close() }; return
Drain2 ==
  /\ drn = "d2" /\ drn' = "ret"
  /\ CloseSockIf(dln = "set")
  /\ UNCHANGED <<srv, retried, Latches, lnPub, portBusy, Registry, hs, StopVars, dln, Stats>>

-----------------------------------------------------------------------------
(* Environment                                                             *)

\* a peer connects: the kernel completes the handshake as soon as a listening socket exists
PeerConnect(h) ==
  /\ hconn[h] = "none" /\ hs[h] = "none" /\ sockOpen
  /\ hconn' = [hconn EXCEPT ![h] = "backlog"] /\ backlog' = Append(backlog, h)
  /\ UNCHANGED <<srv, retried, Latches, sockOpen, lnPub, portBusy, Registry, hs, StopVars, DrainVars, Stats>>

\* a peer closes its connection (accepted, or still waiting to be accepted: Accept then
\* returns a connection whose first read fails)
PeerClose(h) ==
  /\ hconn[h] \in {"open", "backlog"}
  /\ hconn' = [hconn EXCEPT ![h] = "closed"]
  /\ UNCHANGED <<srv, retried, Latches, sockOpen, lnPub, portBusy, backlog, Registry, hs,
                 StopVars, DrainVars, Stats>>

\* the process that held the port goes away
PortFreed ==
  /\ portBusy /\ portBusy' = FALSE
  /\ UNCHANGED <<srv, retried, Latches, sockOpen, lnPub, backlog, Registry, hs, hconn,
                 StopVars, DrainVars, Stats>>

-----------------------------------------------------------------------------
(* The verifhook point at which each goroutine is parked in a state ("" = none: not      *)
(* running, blocked inside the protocol handler, or in a section without a hook point). *)
ServeGate ==
  CASE srv = "check"     -> "listener.Serve.check"
    [] srv = "bind"      -> "listener.Serve.bind"
    [] srv = "retryWait" -> "listener.Serve.retryWait"
    [] srv = "publish"   -> "listener.Serve.publish"
    [] srv = "accept"    -> "listener.Serve.accept"
    [] srv = "waitConns" -> "listener.Serve.waitConns"
    [] srv = "closeDone" -> "listener.Serve.closeDone"
    [] OTHER             -> ""

HGate(h) ==
  CASE hs[h] = "add"                            -> "listener.addConn"
    [] hs[h] = "serve" /\ hconn[h] = "closed"   -> "handler.exit"
    [] hs[h] = "remove"                         -> "listener.removeConn"
    [] OTHER                                    -> ""

StopGate ==
  CASE stp = "s0" -> "listener.Stop"
    [] stp = "s1" -> "listener.Stop.swap"
    [] stp = "s2" -> "listener.Stop.readLn"
    [] stp = "s3" -> "listener.Stop.closeConns"
    [] stp = "s4" -> "listener.Stop.waitDone"
    [] OTHER      -> ""

DrainGate ==
  CASE drn = "d0" -> "listener.Drain"
    [] drn = "d1" -> IF DrainLatchFirst THEN "listener.Drain.readLn" ELSE ""
    [] drn = "d2" -> IF DrainLatchFirst THEN "" ELSE "listener.Drain.readLn"
    [] OTHER      -> ""

-----------------------------------------------------------------------------
ServeNext == SrvStart \/ SrvCheck \/ SrvBind \/ SrvRetry \/ SrvPublish \/ SrvRecheck
             \/ SrvAccept \/ SrvAcceptErr \/ SrvWait \/ SrvCloseDone
HandlerNext(h) == HAdd(h) \/ HAddCheck(h) \/ HAddInsert(h) \/ HExit(h) \/ HRemove(h)
StopNext == Stop0 \/ Stop1 \/ Stop2 \/ Stop3 \/ Stop4
DrainNext == Drain0 \/ Drain1 \/ Drain2

ProxyNext == ServeNext \/ (\E h \in H : HandlerNext(h)) \/ StopNext \/ DrainNext
EnvNext == (\E h \in H : PeerConnect(h) \/ PeerClose(h)) \/ PortFreed \/ CallStop \/ CallDrain
Next == ProxyNext \/ EnvNext

Fairness ==
  /\ WF_vars(ServeNext) /\ WF_vars(StopNext) /\ WF_vars(DrainNext)
  /\ \A h \in H : WF_vars(HandlerNext(h))

Spec == Init /\ [][Next]_vars /\ Fairness

-----------------------------------------------------------------------------
(* Properties (C09, and the listener part of C20)                          *)

\* Stop returns, whenever it is called (liveness under fairness of the proxy's goroutines)
StopReturns == (stp = "s0") ~> (stp = "ret")
\* Drain returns
DrainReturns == (drn = "d0") ~> (drn = "ret")

\* the same as a safety property: no reachable state in which Stop waits and nothing the
\* proxy can do will ever let it return
StopStuck == stp \in {"s0", "s1", "s2", "s3", "s4"} /\ ~ENABLED ProxyNext
NoStuckStop == ~StopStuck

\* after Stop has returned: socket closed, nothing queued on it, every connection closed
\* at the peer, no handler goroutine left, the serving goroutine finished
AfterStopAllReleased ==
  stp = "ret" =>
    /\ ~sockOpen /\ backlog = <<>>
    /\ \A h \in H : hs[h] \in {"none", "fin"} /\ hconn[h] \in {"none", "closed"}
    /\ srv = "returned" /\ done

\* Drain leaves established connections untouched
DrainKeepsEstablished ==
  [][DrainNext => \A h \in H : hconn[h] = "open" => hconn'[h] = "open"]_vars

\* once Drain has returned no further connection is accepted
DrainStopsAccepting ==
  [][drn = "ret" => \A h \in H : hs[h] = "none" => hs'[h] = "none"]_vars

\* a drained listener that sits in its accept loop has no socket to accept from
DrainClosesSocket == (drn = "ret" /\ srv = "accept") => ~sockOpen

\* never more than Limit connections registered / served at the same time
Serving == {h \in H : hs[h] = "serve"}
LimitRespected == Limit > 0 => Cardinality(conns) <= Limit /\ Cardinality(Serving) <= Limit

\* a connection is refused only while stopping or when Limit connections are registered
UnderLimitServed ==
  [][\A h \in H : (hs[h] \in {"add", "add2"} /\ hs'[h] = "fin") => (connsNil \/ AtLimit)]_vars

\* connection statistics (C20): balanced whenever the listener is quiescent
Quiescent == stp \in {"idle", "ret"} /\ \A h \in H : hs[h] \in {"none", "fin"}
ConnStatsConserved == Quiescent => cxActive = 0 /\ cxTotal = cxDestroy
GaugeNonNegative == cxActive >= 0

-----------------------------------------------------------------------------
(* Named windows (state predicates).  Reachability of each is checked by   *)
(* ListenerWin.tla; replayed behaviours are labelled with the windows they *)
(* pass through.                                                           *)
W_StopBeforeServe == quit /\ srv = "notStarted"
W_StopBeforeBind == quit /\ srv = "check" /\ ~retried
W_StopDuringRetry == quit /\ (srv = "retryWait" \/ (srv = "check" /\ retried))
W_StopBetweenBindAndPublish == sln = "nil" /\ srv \in {"bind", "publish"} /\ ~portBusy
W_StopWithActiveConns == stp = "s1" /\ conns # {}
W_StopWhileAccepting == stp = "s1" /\ srv = "accept" /\ sockOpen
W_DrainBeforeBind == drain /\ ~quit /\ srv \in {"notStarted", "check"} /\ ~retried
W_DrainDuringRetry == drain /\ ~quit /\ (srv = "retryWait" \/ (srv = "check" /\ retried))
W_DrainBetweenBindAndPublish == dln = "nil" /\ srv \in {"bind", "publish"} /\ ~portBusy
W_DrainDuringBind == drn \in {"d0", "d1", "d2"} /\ srv \in {"bind", "publish", "recheck"} /\ ~portBusy
W_DrainThenStop == drn = "ret" /\ stp = "s0"
W_DrainWithActiveConns == drn = "d1" /\ conns # {}
W_LimitReached == \E h \in H : hs[h] = "add" /\ ~connsNil /\ AtLimit
W_AddAfterStop == \E h \in H : hs[h] = "add" /\ stp \in {"s2", "s3", "s4"}
W_BacklogAtClose == stp = "s2" /\ backlog # <<>> /\ lnPub

WindowNames == <<"W_StopBeforeServe", "W_StopBeforeBind", "W_StopDuringRetry",
                 "W_StopBetweenBindAndPublish", "W_StopWithActiveConns", "W_StopWhileAccepting",
                 "W_DrainBeforeBind", "W_DrainDuringRetry", "W_DrainBetweenBindAndPublish",
                 "W_DrainThenStop", "W_DrainWithActiveConns", "W_LimitReached", "W_AddAfterStop",
                 "W_BacklogAtClose", "W_DrainDuringBind">>
WindowHolds(n) ==
  CASE n = "W_StopBeforeServe" -> W_StopBeforeServe
    [] n = "W_StopBeforeBind" -> W_StopBeforeBind
    [] n = "W_StopDuringRetry" -> W_StopDuringRetry
    [] n = "W_StopBetweenBindAndPublish" -> W_StopBetweenBindAndPublish
    [] n = "W_StopWithActiveConns" -> W_StopWithActiveConns
    [] n = "W_StopWhileAccepting" -> W_StopWhileAccepting
    [] n = "W_DrainBeforeBind" -> W_DrainBeforeBind
    [] n = "W_DrainDuringRetry" -> W_DrainDuringRetry
    [] n = "W_DrainBetweenBindAndPublish" -> W_DrainBetweenBindAndPublish
    [] n = "W_DrainThenStop" -> W_DrainThenStop
    [] n = "W_DrainWithActiveConns" -> W_DrainWithActiveConns
    [] n = "W_LimitReached" -> W_LimitReached
    [] n = "W_AddAfterStop" -> W_AddAfterStop
    [] n = "W_BacklogAtClose" -> W_BacklogAtClose
    [] n = "W_DrainDuringBind" -> W_DrainDuringBind
Windows == {WindowNames[i] : i \in {j \in 1..Len(WindowNames) : WindowHolds(WindowNames[j])}}

=============================================================================
