----------------------------- MODULE RedisStopWin -----------------------------
(* Anti-vacuity run for RedisStop (see ListenerWin). *)
EXTENDS RedisStop

ASSUME TLCSet(101, FALSE) /\ TLCSet(102, FALSE) /\ TLCSet(103, FALSE) /\ TLCSet(104, FALSE) /\ TLCSet(105, FALSE)

RecordWindows ==
  /\ W_StopWithSilentBackend => TLCSet(101, TRUE)
  /\ W_StopWhileRefreshWaits => TLCSet(102, TRUE)
  /\ W_StopWithFullSessionQueue => TLCSet(103, TRUE)
  /\ W_StopWithFullBackendQueue => TLCSet(104, TRUE)
  /\ W_StopWhileRefreshBlockedInSend => TLCSet(105, TRUE)

\* MC_RedisStop_traps.cfg (room in the backend queue): the three waits
AllWindowsReached ==
  IF TLCGet(101) /\ TLCGet(102) /\ TLCGet(103) THEN TRUE
  ELSE Print(<<"@@UNREACHED", TLCGet(101), TLCGet(102), TLCGet(103)>>, FALSE)
\* MC_RedisStop_traps_fullqueue.cfg (ClientQCap = 2): the two blocked Sends
FullQueueWindowsReached ==
  IF TLCGet(104) /\ TLCGet(105) THEN TRUE
  ELSE Print(<<"@@UNREACHED", TLCGet(104), TLCGet(105)>>, FALSE)
=============================================================================
