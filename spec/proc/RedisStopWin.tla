----------------------------- MODULE RedisStopWin -----------------------------
(* Anti-vacuity run for RedisStop (see ListenerWin). *)
EXTENDS RedisStop

ASSUME TLCSet(101, FALSE) /\ TLCSet(102, FALSE) /\ TLCSet(103, FALSE)

RecordWindows ==
  /\ W_StopWithSilentBackend => TLCSet(101, TRUE)
  /\ W_StopWhileRefreshWaits => TLCSet(102, TRUE)
  /\ W_StopWithFullSessionQueue => TLCSet(103, TRUE)

AllWindowsReached ==
  IF TLCGet(101) /\ TLCGet(102) /\ TLCGet(103) THEN TRUE
  ELSE Print(<<"@@UNREACHED", TLCGet(101), TLCGet(102), TLCGet(103)>>, FALSE)
=============================================================================
