SPECIFICATION Spec
CONSTANTS
  StopAllLock = "none"
  StopAllSignalsFirst = TRUE
  BExists = {TRUE, FALSE}
  BFull = {TRUE, FALSE}
INVARIANTS TypeOK NoStuckStop AfterStopAllReleased NoLiveClientAfterStop
PROPERTIES StopReturns
CHECK_DEADLOCK FALSE
