--------------------------- MODULE HcMonitorWin ---------------------------
(* Anti-vacuity run for HcMonitor (see ListenerWin). *)
EXTENDS HcMonitor

ASSUME TLCSet(101, FALSE) /\ TLCSet(102, FALSE) /\ TLCSet(103, FALSE)

RecordWindows ==
  /\ W_StopWhileProbing => TLCSet(101, TRUE)
  /\ W_ProbeTimedOut => TLCSet(102, TRUE)
  /\ W_Reconfigured => TLCSet(103, TRUE)

AllWindowsReached ==
  IF TLCGet(101) /\ TLCGet(102) /\ TLCGet(103) THEN TRUE
  ELSE Print(<<"@@UNREACHED", TLCGet(101), TLCGet(102), TLCGet(103)>>, FALSE)
=============================================================================
