SPECIFICATION GenSpec
CONSTANTS
  Thresholds = {1, 2, 3}
  MaxResults = 8
  CmpStrict = TRUE
VIEW GenView
ACTION_CONSTRAINT Emit
CHECK_DEADLOCK FALSE
