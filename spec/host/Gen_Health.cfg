SPECIFICATION GenSpec
CONSTANTS
  Thresholds = {1, 2, 3}
  MaxResults = 8
  CmpStrict = TRUE
  MaxReconf = 1
  IgnoreSameInterval = FALSE
VIEW GenView
ACTION_CONSTRAINT Emit
CHECK_DEADLOCK FALSE
