------------------------------- MODULE Health --------------------------------
(***************************************************************************)
(* Health hysteresis of one host: the health monitor's per-result step     *)
(* (checkHostAndUpdateStatus, /repo/proc/internal/hc/monitor.go:141-155)   *)
(* over the counters and the flag of the host object (host.go:250-272).    *)
(*                                                                         *)
(*   success: failedCount := 0; n := ++successfulCount;                    *)
(*            if n > RiseThreshold: MarkHostHealthy -> setHealthy():       *)
(*               both counters := 0; CAS(flag, false -> true)              *)
(*   failure: successfulCount := 0; n := ++failedCount;                    *)
(*            if n > FallThreshold: MarkHostUnhealthy -> setUnhealthy():   *)
(*               both counters := 0; CAS(flag, true -> false)              *)
(*                                                                         *)
(* One host is checked once per round and rounds do not overlap            *)
(* (monitor.go:123-139, 157-182), so the steps of one host are sequential. *)
(* The thresholds are chosen in the initial state, so one TLC run covers   *)
(* every pair of thresholds in Thresholds and every outcome sequence of    *)
(* length <= MaxResults.                                                   *)
(*                                                                         *)
(* Run-time reconfiguration (Monitor.ResetHealthCheck, monitor.go:94-113,   *)
(* reached through OnSvcConfigUpdate of the processors): the new config     *)
(* replaces m.config; the counters of the hosts are NOT touched, so the     *)
(* running counts are compared with the new thresholds from the next result *)
(* on.  rise/fall are the CONFIGURED thresholds (the last accepted config), *)
(* mrise/mfall the ones the monitor compares with; in the real code they    *)
(* are the same.  IgnoreSameInterval = TRUE is the regression "an update    *)
(* that keeps the interval returns before m.config = config": the monitor   *)
(* keeps its old thresholds, which must violate FlipOnlyAfterThreshold      *)
(* (judged against the thresholds in force = configured).                   *)
(*                                                                         *)
(* Ghost: streakKind/streakLen = kind and length of the trailing run of    *)
(* identical results of the WHOLE history (independent of the code's       *)
(* counters and of their resets); lastFlip = the last flip and the length  *)
(* of the trailing run (including the result that caused it).              *)
(***************************************************************************)
EXTENDS Naturals, Sequences, TLC

CONSTANTS Thresholds,   \* e.g. {1,2,3}
          MaxResults,   \* e.g. 8
          CmpStrict,    \* TRUE: the code's comparison `n > threshold`; FALSE: `n >= threshold`
          MaxReconf,    \* reconfigurations per behaviour
          IgnoreSameInterval  \* TRUE: an update that keeps the interval is accepted and not applied

VARIABLES rise, fall, mrise, mfall, flag, succ, fail, n, streakKind, streakLen, lastFlip, nflips, nreconf, reconfInStreak

vars == <<rise, fall, mrise, mfall, flag, succ, fail, n, streakKind, streakLen, lastFlip, nflips, nreconf, reconfInStreak>>

NoFlip == [dir |-> "none", run |-> 0, kind |-> "none", need |-> 0]

Init ==
  /\ rise \in Thresholds /\ fall \in Thresholds
  /\ mrise = rise /\ mfall = fall /\ nreconf = 0 /\ reconfInStreak = FALSE
  /\ flag = TRUE                      \* NewStats
  /\ succ = 0 /\ fail = 0 /\ n = 0
  /\ streakKind = "none" /\ streakLen = 0
  /\ lastFlip = NoFlip /\ nflips = 0

Reached(cnt, thr) == IF CmpStrict THEN cnt > thr ELSE cnt >= thr

Success ==
  /\ n < MaxResults
  /\ n' = n + 1
  /\ streakLen' = IF streakKind = "ok" THEN streakLen + 1 ELSE 1
  /\ streakKind' = "ok"
  /\ reconfInStreak' = (streakKind = "ok" /\ reconfInStreak)
  /\ IF Reached(succ + 1, mrise)
     THEN /\ succ' = 0 /\ fail' = 0
          /\ IF ~flag
             THEN /\ flag' = TRUE
                  /\ lastFlip' = [dir |-> "healthy", run |-> streakLen', kind |-> "ok", need |-> rise]
                  /\ nflips' = nflips + 1
             ELSE UNCHANGED <<flag, lastFlip, nflips>>
     ELSE /\ succ' = succ + 1 /\ fail' = 0
          /\ UNCHANGED <<flag, lastFlip, nflips>>
  /\ UNCHANGED <<rise, fall, mrise, mfall, nreconf>>

Failure ==
  /\ n < MaxResults
  /\ n' = n + 1
  /\ streakLen' = IF streakKind = "bad" THEN streakLen + 1 ELSE 1
  /\ streakKind' = "bad"
  /\ reconfInStreak' = (streakKind = "bad" /\ reconfInStreak)
  /\ IF Reached(fail + 1, mfall)
     THEN /\ succ' = 0 /\ fail' = 0
          /\ IF flag
             THEN /\ flag' = FALSE
                  /\ lastFlip' = [dir |-> "unhealthy", run |-> streakLen', kind |-> "bad", need |-> fall]
                  /\ nflips' = nflips + 1
             ELSE UNCHANGED <<flag, lastFlip, nflips>>
     ELSE /\ fail' = fail + 1 /\ succ' = 0
          /\ UNCHANGED <<flag, lastFlip, nflips>>
  /\ UNCHANGED <<rise, fall, mrise, mfall, nreconf>>

\* ResetHealthCheck(config) between two results; ic: the new config changes the interval
Reconfigure(r, f, ic) ==
  /\ nreconf < MaxReconf /\ n < MaxResults
  /\ nreconf' = nreconf + 1
  /\ rise' = r /\ fall' = f
  /\ IF IgnoreSameInterval /\ ~ic
     THEN UNCHANGED <<mrise, mfall>>
     ELSE mrise' = r /\ mfall' = f
  /\ reconfInStreak' = TRUE
  /\ UNCHANGED <<flag, succ, fail, n, streakKind, streakLen, lastFlip, nflips>>   \* the counters are not touched

Next ==
  \/ Success \/ Failure
  \/ \E r \in Thresholds, f \in Thresholds, ic \in BOOLEAN : (r # rise \/ f # fall) /\ Reconfigure(r, f, ic)

Spec == Init /\ [][Next]_vars

TypeOK ==
  /\ rise \in Thresholds /\ fall \in Thresholds /\ flag \in BOOLEAN
  /\ succ \in 0..MaxResults /\ fail \in 0..MaxResults /\ n \in 0..MaxResults
  /\ streakKind \in {"none", "ok", "bad"} /\ streakLen \in 0..MaxResults

\* C15: the health flips only after at least the configured number of consecutive contrary
\* results; any opposite result restarts the count (the run is the TRAILING run of the history)
FlipOnlyAfterThreshold ==
  \* need: the threshold configured (in force) when the flip happened
  /\ lastFlip.dir = "unhealthy" => lastFlip.kind = "bad" /\ lastFlip.run >= lastFlip.need
  /\ lastFlip.dir = "healthy"   => lastFlip.kind = "ok"  /\ lastFlip.run >= lastFlip.need

\* only one of the two counters is ever non-zero (they reset each other)
CountersExclusive == succ = 0 \/ fail = 0

\* characterisation of the code (not demanded by C15): a flip is never later than one result
\* after the threshold, i.e. with `>` the flip happens at exactly threshold + 1 contrary results
PromptFlip ==
  LET slack == IF CmpStrict THEN 1 ELSE 0 IN
  \* (for runs of results during which the thresholds were not changed)
  /\ flag /\ streakKind = "bad" /\ ~reconfInStreak => streakLen < fall + slack
  /\ ~flag /\ streakKind = "ok" /\ ~reconfInStreak => streakLen < rise + slack

\* trap (must be violated): the documented reading "dead after # consecutive failures"
FlipsAtThreshold ==
  /\ flag /\ streakKind = "bad" /\ ~reconfInStreak => streakLen < fall
  /\ ~flag /\ streakKind = "ok" /\ ~reconfInStreak => streakLen < rise

\* trap (must be violated): flips in both directions are reachable within the bound
NoFlipBack == nflips < 2
=============================================================================
