------------------------------- MODULE Health --------------------------------
(***************************************************************************)
(* Health hysteresis of one host: the health monitor's per-result step     *)
(* (checkHostAndUpdateStatus, /repo/proc/internal/hc/monitor.go:141-155)   *)
(* over the counters and the flag of the host object (host.go:250-272).    *)
(*                                                                         *)
(*   success: failedCount := 0; n := ++successfulCount;                    *)
(*            if n > RiseThreshold: MarkHostHealthy -> setHealthy():       *)
(*               both counters := 0; CAS(flag, false -> true)              *)
(*   failure: successfulCount := 0; n := ++failedCount;                    *)
(*            if n > FallThreshold: MarkHostUnhealthy -> setUnhealthy():   *)
(*               both counters := 0; CAS(flag, true -> false)              *)
(*                                                                         *)
(* One host is checked once per round and rounds do not overlap            *)
(* (monitor.go:123-139, 157-182), so the steps of one host are sequential. *)
(* The thresholds are chosen in the initial state, so one TLC run covers   *)
(* every pair of thresholds in Thresholds and every outcome sequence of    *)
(* length <= MaxResults.                                                   *)
(*                                                                         *)
(* Ghost: streakKind/streakLen = kind and length of the trailing run of    *)
(* identical results of the WHOLE history (independent of the code's       *)
(* counters and of their resets); lastFlip = the last flip and the length  *)
(* of the trailing run (including the result that caused it).              *)
(***************************************************************************)
EXTENDS Naturals, Sequences, TLC

CONSTANTS Thresholds,   \* e.g. {1,2,3}
          MaxResults,   \* e.g. 8
          CmpStrict     \* TRUE: the code's comparison `n > threshold`; FALSE: `n >= threshold`

VARIABLES rise, fall, flag, succ, fail, n, streakKind, streakLen, lastFlip, nflips

vars == <<rise, fall, flag, succ, fail, n, streakKind, streakLen, lastFlip, nflips>>

NoFlip == [dir |-> "none", run |-> 0, kind |-> "none"]

Init ==
  /\ rise \in Thresholds /\ fall \in Thresholds
  /\ flag = TRUE                      \* NewStats
  /\ succ = 0 /\ fail = 0 /\ n = 0
  /\ streakKind = "none" /\ streakLen = 0
  /\ lastFlip = NoFlip /\ nflips = 0

Reached(cnt, thr) == IF CmpStrict THEN cnt > thr ELSE cnt >= thr

Success ==
  /\ n < MaxResults
  /\ n' = n + 1
  /\ streakLen' = IF streakKind = "ok" THEN streakLen + 1 ELSE 1
  /\ streakKind' = "ok"
  /\ IF Reached(succ + 1, rise)
     THEN /\ succ' = 0 /\ fail' = 0
          /\ IF ~flag
             THEN /\ flag' = TRUE
                  /\ lastFlip' = [dir |-> "healthy", run |-> streakLen', kind |-> "ok"]
                  /\ nflips' = nflips + 1
             ELSE UNCHANGED <<flag, lastFlip, nflips>>
     ELSE /\ succ' = succ + 1 /\ fail' = 0
          /\ UNCHANGED <<flag, lastFlip, nflips>>
  /\ UNCHANGED <<rise, fall>>

Failure ==
  /\ n < MaxResults
  /\ n' = n + 1
  /\ streakLen' = IF streakKind = "bad" THEN streakLen + 1 ELSE 1
  /\ streakKind' = "bad"
  /\ IF Reached(fail + 1, fall)
     THEN /\ succ' = 0 /\ fail' = 0
          /\ IF flag
             THEN /\ flag' = FALSE
                  /\ lastFlip' = [dir |-> "unhealthy", run |-> streakLen', kind |-> "bad"]
                  /\ nflips' = nflips + 1
             ELSE UNCHANGED <<flag, lastFlip, nflips>>
     ELSE /\ fail' = fail + 1 /\ succ' = 0
          /\ UNCHANGED <<flag, lastFlip, nflips>>
  /\ UNCHANGED <<rise, fall>>

Next == Success \/ Failure

Spec == Init /\ [][Next]_vars

TypeOK ==
  /\ rise \in Thresholds /\ fall \in Thresholds /\ flag \in BOOLEAN
  /\ succ \in 0..MaxResults /\ fail \in 0..MaxResults /\ n \in 0..MaxResults
  /\ streakKind \in {"none", "ok", "bad"} /\ streakLen \in 0..MaxResults

\* C15: the health flips only after at least the configured number of consecutive contrary
\* results; any opposite result restarts the count (the run is the TRAILING run of the history)
FlipOnlyAfterThreshold ==
  /\ lastFlip.dir = "unhealthy" => lastFlip.kind = "bad" /\ lastFlip.run >= fall
  /\ lastFlip.dir = "healthy"   => lastFlip.kind = "ok"  /\ lastFlip.run >= rise

\* only one of the two counters is ever non-zero (they reset each other)
CountersExclusive == succ = 0 \/ fail = 0

\* characterisation of the code (not demanded by C15): a flip is never later than one result
\* after the threshold, i.e. with `>` the flip happens at exactly threshold + 1 contrary results
PromptFlip ==
  LET slack == IF CmpStrict THEN 1 ELSE 0 IN
  /\ flag /\ streakKind = "bad" => streakLen < fall + slack
  /\ ~flag /\ streakKind = "ok" => streakLen < rise + slack

\* trap (must be violated): the documented reading "dead after # consecutive failures"
FlipsAtThreshold ==
  /\ flag /\ streakKind = "bad" => streakLen < fall
  /\ ~flag /\ streakKind = "ok" => streakLen < rise

\* trap (must be violated): flips in both directions are reachable within the bound
NoFlipBack == nflips < 2
=============================================================================
