SPECIFICATION PSpec
CONSTANTS
  NAddr = 2
  MaxObj = 3
  MaxOps = 3
  MaxInflight = 1
  WithReplace = TRUE
  FixRemove = TRUE
  FixAdd = TRUE
  FixFlag = TRUE
  FixMark = TRUE
  Readers = {"r1", "r2"}
  MaxReads = 3
  LazyRebuild = TRUE
  ReaddIntermediate = FALSE
  ReplaceIntermediate = FALSE
INVARIANTS LinearizableHealthy
CHECK_DEADLOCK FALSE
