SPECIFICATION Spec
CONSTANTS
  NAddr = 2
  MaxObj = 4
  MaxOps = 5
  MaxInflight = 2
  WithReplace = TRUE
  FixRemove = FALSE
  FixAdd = FALSE
  FixFlag = FALSE
  FixMark = FALSE
INVARIANTS UsableIsPreferredTier
CHECK_DEADLOCK FALSE
