SPECIFICATION GenSpec
CONSTANTS
  NAddr = 2
  MaxObj = 4
  MaxOps = 4
  MaxInflight = 2
  WithReplace = TRUE
  FixRemove = TRUE
  FixAdd = TRUE
  FixFlag = TRUE
  FixMark = TRUE
CHECK_DEADLOCK FALSE
VIEW GenView
ACTION_CONSTRAINT Emit
