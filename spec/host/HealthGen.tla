------------------------------ MODULE HealthGen ------------------------------
(* Behaviour emitter for Health: every transition of the state graph as one  *)
(* path (VIEW hides hist; the action constraint prints the path).            *)
EXTENDS Health, Json

VARIABLE hist
gvars == <<vars, hist>>
GenView == vars

GenInit == Init /\ hist = <<>>

Log(ok) == hist' = Append(hist, [ok |-> ok, rise |-> rise, fall |-> fall, flag |-> flag',
                                 succ |-> succ', fail |-> fail'])

GenNext ==
  \/ Success /\ Log(TRUE)
  \/ Failure /\ Log(FALSE)

GenSpec == GenInit /\ [][GenNext]_gvars

Emit == PrintT("@@EDGE " \o ToJson(hist'))
=============================================================================
