------------------------------ MODULE HealthGen ------------------------------
(* Behaviour emitter for Health: every transition of the state graph as one  *)
(* path (VIEW hides hist; the action constraint prints the path).            *)
EXTENDS Health, Json

VARIABLE hist
gvars == <<vars, hist>>
GenView == vars

GenInit == Init /\ hist = <<>>

Log(ok) == hist' = Append(hist, [op |-> "result", ok |-> ok, rise |-> rise, fall |-> fall, ic |-> FALSE, flag |-> flag',
                                 succ |-> succ', fail |-> fail'])
LogR(ic) == hist' = Append(hist, [op |-> "reconf", ok |-> TRUE, rise |-> rise', fall |-> fall', rise0 |-> rise, fall0 |-> fall, ic |-> ic, flag |-> flag',
                                  succ |-> succ', fail |-> fail'])

GenNext ==
  \/ Success /\ Log(TRUE)
  \/ Failure /\ Log(FALSE)
  \/ \E r \in Thresholds, f \in Thresholds, ic \in BOOLEAN : (r # rise \/ f # fall) /\ Reconfigure(r, f, ic) /\ LogR(ic)

GenSpec == GenInit /\ [][GenNext]_gvars

Emit == PrintT("@@EDGE " \o ToJson(hist'))
=============================================================================
