SPECIFICATION PSpec
CONSTANTS
  NAddr = 2
  MaxObj = 4
  MaxOps = 4
  MaxInflight = 1
  WithReplace = TRUE
  FixRemove = TRUE
  FixAdd = TRUE
  FixFlag = TRUE
  FixMark = TRUE
  Readers = {"r1", "r2"}
  MaxReads = 3
  LazyRebuild = FALSE
  ReaddIntermediate = FALSE
  ReplaceIntermediate = FALSE
INVARIANTS LinearizableHealthy PublishedIsCurrent
CHECK_DEADLOCK FALSE
