SPECIFICATION PSpec
CONSTANTS
  NAddr = 2
  MaxObj = 3
  MaxOps = 3
  MaxInflight = 1
  WithReplace = TRUE
  FixRemove = TRUE
  FixAdd = TRUE
  FixFlag = TRUE
  FixMark = TRUE
  Readers = {"r1"}
  MaxReads = 2
  LazyRebuild = FALSE
  ReaddIntermediate = FALSE
  ReplaceIntermediate = TRUE
INVARIANTS LinearizableHealthy
CHECK_DEADLOCK FALSE
