SPECIFICATION TraceSpec
CONSTANTS
  NAddr = 3
  MaxObj = 16
  MaxOps = 1000000
  MaxInflight = 16
  WithReplace = TRUE
  FixRemove = TRUE
  FixAdd = TRUE
  FixFlag = TRUE
  FixMark = TRUE
INVARIANTS PrintBad
POSTCONDITION TraceAccepted
CHECK_DEADLOCK FALSE
