SPECIFICATION TraceSpec
CONSTANTS
  NAddr = 3
  MaxObj = 16
  MaxOps = 1000000
  MaxInflight = 16
  WithReplace = TRUE
  FixRemove = FALSE
  FixAdd = FALSE
  FixFlag = FALSE
  FixMark = FALSE
INVARIANTS PrintBad
POSTCONDITION TraceAccepted
CHECK_DEADLOCK FALSE
