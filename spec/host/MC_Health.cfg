SPECIFICATION Spec
CONSTANTS
  Thresholds = {1, 2, 3}
  MaxResults = 8
  CmpStrict = TRUE
  MaxReconf = 2
  IgnoreSameInterval = FALSE
INVARIANTS TypeOK FlipOnlyAfterThreshold CountersExclusive PromptFlip
CHECK_DEADLOCK FALSE
