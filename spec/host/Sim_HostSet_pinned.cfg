SPECIFICATION GenSpec
CONSTANTS
  NAddr = 3
  MaxObj = 10
  MaxOps = 12
  MaxInflight = 2
  WithReplace = TRUE
  FixRemove = FALSE
  FixAdd = FALSE
  FixFlag = FALSE
  FixMark = FALSE
CHECK_DEADLOCK FALSE
