SPECIFICATION SSpec
CONSTANTS
  NAddr = 3
  MaxObj = 12
  MaxOps = 8
  MaxInflight = 1
  WithReplace = TRUE
  FixRemove = TRUE
  FixAdd = TRUE
  FixFlag = TRUE
  FixMark = TRUE
CHECK_DEADLOCK FALSE
